// hx: executes op lines (see /verif/DESIGN.md §4.1) against the real crate, in process.
//
//   hx exec            reads "<tag> <OP> <args…>" lines on stdin, prints "<tag> <result>" per line
//   hx profile         prints "dev" or "release" (overflow checks on / off)
//
// Every op runs under catch_unwind; a counting global allocator records, per parse call, the
// largest single request and the peak of live bytes, and refuses (by panicking, message
// "huge alloc") any single request above 256 MiB so that a runaway reservation is observed
// instead of killing the machine.  A process abort is observed by the supervisor in `check`.
use rhymessage::{Header, MessageHeaders};
use rhymuweb::{coding, Error, Request, RequestParseStatus, Response, ResponseParseStatus};
use std::alloc::{GlobalAlloc, Layout, System};
use std::io::{BufRead, Read, Write};
use std::sync::atomic::{AtomicUsize, Ordering::Relaxed};

static CUR: AtomicUsize = AtomicUsize::new(0);
static PEAK: AtomicUsize = AtomicUsize::new(0);
static MAXREQ: AtomicUsize = AtomicUsize::new(0);
// single requests above this are refused (panic "huge alloc"); lifted only while the big-body operation runs
static REFUSE_AT: AtomicUsize = AtomicUsize::new(1 << 28);

struct Counting;
impl Counting {
    fn note(&self, size: usize) {
        if size > MAXREQ.load(Relaxed) {
            MAXREQ.store(size, Relaxed);
        }
        let cur = CUR.fetch_add(size, Relaxed) + size;
        if cur > PEAK.load(Relaxed) {
            PEAK.store(cur, Relaxed);
        }
    }
}
unsafe impl GlobalAlloc for Counting {
    unsafe fn alloc(&self, l: Layout) -> *mut u8 {
        if l.size() > REFUSE_AT.load(Relaxed) {
            MAXREQ.store(l.size(), Relaxed);
            panic!("huge alloc {}", l.size());
        }
        self.note(l.size());
        System.alloc(l)
    }
    unsafe fn dealloc(&self, p: *mut u8, l: Layout) {
        CUR.fetch_sub(l.size(), Relaxed);
        System.dealloc(p, l)
    }
    unsafe fn realloc(&self, p: *mut u8, l: Layout, n: usize) -> *mut u8 {
        if n > REFUSE_AT.load(Relaxed) {
            MAXREQ.store(n, Relaxed);
            panic!("huge alloc {}", n);
        }
        CUR.fetch_sub(l.size(), Relaxed);
        self.note(n);
        System.realloc(p, l, n)
    }
}
#[global_allocator]
static G: Counting = Counting;

thread_local! { static LAST_PANIC: std::cell::RefCell<String> = std::cell::RefCell::new(String::new()); }

fn hex(b: &[u8]) -> String {
    let mut s = String::with_capacity(b.len() * 2);
    for x in b {
        s.push_str(&format!("{:02x}", x));
    }
    s
}
fn unhex(s: &str) -> Option<Vec<u8>> {
    if s == "." {
        return Some(vec![]);
    }
    if s.len() % 2 != 0 {
        return None;
    }
    let b = s.as_bytes();
    let v = |c: u8| -> Option<u8> {
        match c {
            b'0'..=b'9' => Some(c - b'0'),
            b'a'..=b'f' => Some(c - b'a' + 10),
            _ => None,
        }
    };
    let mut out = Vec::with_capacity(b.len() / 2);
    for i in (0..b.len()).step_by(2) {
        out.push(v(b[i])? * 16 + v(b[i + 1])?);
    }
    Some(out)
}
fn opt_nat(s: &str) -> Option<Option<usize>> {
    if s == "-" {
        Some(None)
    } else {
        s.parse::<usize>().ok().map(Some)
    }
}
fn variant<T: std::fmt::Debug>(e: &T) -> String {
    format!("{:?}", e).split(|c| c == '(' || c == ' ' || c == '{').next().unwrap().to_string()
}
fn cat(e: &Error) -> String {
    match e {
        Error::Headers(h) => format!("Headers({})", variant(h)),
        Error::Trailer(h) => format!("Trailer({})", variant(h)),
        other => variant(other),
    }
}
fn pk(msg: &str) -> &'static str {
    if msg.contains("huge alloc") {
        "alloc"
    } else if msg.contains("capacity overflow") {
        "capacity"
    } else if msg.contains("overflow") {
        "arithmetic"
    } else {
        "index"
    }
}
fn last_panic() -> String {
    LAST_PANIC.with(|p| p.borrow().clone())
}
fn headers(h: &MessageHeaders) -> String {
    h.headers()
        .iter()
        .map(|h| format!("{}:{}", hex(h.name.as_ref().as_bytes()), hex(h.value.as_bytes())))
        .collect::<Vec<_>>()
        .join(",")
}
fn parse_headers(s: &str) -> Option<Vec<(String, String)>> {
    if s == "." {
        return Some(vec![]);
    }
    let mut out = vec![];
    for e in s.split(',') {
        let mut it = e.split(':');
        let k = it.next()?;
        let v = it.next()?;
        if it.next().is_some() {
            return None;
        }
        let k = String::from_utf8(unhex(if k.is_empty() { "." } else { k })?).ok()?;
        let v = String::from_utf8(unhex(if v.is_empty() { "." } else { v })?).ok()?;
        out.push((k, v));
    }
    Some(out)
}
fn fnv(s: &str) -> u64 {
    let mut h: u64 = 0xcbf29ce484222325;
    for b in s.as_bytes() {
        h ^= *b as u64;
        h = h.wrapping_mul(0x100000001b3);
    }
    h
}

struct Meter {
    cur0: usize,
}
impl Meter {
    fn start() -> Meter {
        let cur0 = CUR.load(Relaxed);
        PEAK.store(cur0, Relaxed);
        MAXREQ.store(0, Relaxed);
        Meter { cur0 }
    }
    fn read(&self, presented: usize) -> String {
        format!("{}:{}:{}", MAXREQ.load(Relaxed), PEAK.load(Relaxed).saturating_sub(self.cur0), presented)
    }
}

fn uri_struct(u: &rhymuri::Uri) -> String {
    let o = |x: Option<&[u8]>| x.map(hex).unwrap_or_else(|| "-".into());
    let a = match u.authority() {
        Some(a) => format!(
            "{},{},{}",
            o(a.userinfo()),
            hex(a.host()),
            a.port().map(|p| p.to_string()).unwrap_or_else(|| "-".into())
        ),
        None => "-".into(),
    };
    format!(
        "s={};a={};p={}|{};q={};f={}",
        o(u.scheme().map(str::as_bytes)),
        a,
        u.path().iter().map(|s| hex(s)).collect::<Vec<_>>().join("/"),
        u.path().len(),
        o(u.query()),
        o(u.fragment())
    )
}
fn req_fields(r: &Request) -> String {
    format!(
        "m={} t={} u={} h={} b={}",
        hex(r.method.as_bytes()),
        hex(r.target.to_string().as_bytes()),
        uri_struct(&r.target),
        headers(&r.headers),
        hex(&r.body)
    )
}
fn resp_fields(r: &Response) -> String {
    format!(
        "c={} p={} h={} b={} x={}",
        r.status_code,
        hex(r.reason_phrase.as_bytes()),
        headers(&r.headers),
        hex(&r.body),
        hex(&r.trailer)
    )
}

/// one limit field of an op line: `-` / `<n>` set explicitly; `d` left as the constructor made it;
/// a leading `D` selects `Default::default()` instead of `new()` as the constructor (`D` alone: and left as made)
#[derive(Clone, Copy)]
struct Lim {
    keep: bool,
    dflt: bool,
    v: Option<usize>,
}
impl From<Option<usize>> for Lim {
    fn from(v: Option<usize>) -> Self {
        Lim { keep: false, dflt: false, v }
    }
}
fn lim(s: &str) -> Option<Lim> {
    if s == "d" {
        return Some(Lim { keep: true, dflt: false, v: None });
    }
    if let Some(rest) = s.strip_prefix('D') {
        if rest.is_empty() {
            return Some(Lim { keep: true, dflt: true, v: None });
        }
        return opt_nat(rest).map(|v| Lim { keep: false, dflt: true, v });
    }
    opt_nat(s).map(Lim::from)
}

thread_local! { static RECV_BUF: std::cell::RefCell<Vec<u8>> = std::cell::RefCell::new(Vec::with_capacity(1 << 20)); }

#[derive(Clone, Copy)]
struct ReqCfg {
    rl: Lim,
    hl: Lim,
    max: Lim,
}

/// the documented calling protocol; returns (text, Some(request) when complete)
fn run_req(cfg: ReqCfg, ds: &[Vec<u8>]) -> (String, Option<Request>) {
    run_req_v(&vec![cfg; ds.len().max(1)], ds, false)
}

fn apply_req_cfg(r: &mut Request, cfg: &ReqCfg) {
    if !cfg.rl.keep {
        r.request_line_limit = cfg.rl.v;
    }
    if !cfg.hl.keep {
        r.headers.set_line_limit(cfg.hl.v);
    }
    if !cfg.max.keep {
        r.max_message_size = cfg.max.v;
    }
}

/// `cfgs[i]` is applied before delivery `i` (the limits are public fields and may be changed between calls);
/// `after_error`: keep calling `parse` after an error (the caller re-presents the whole buffer), which the
/// documented protocol does not do — used only to see that nothing crashes or allocates out of proportion
fn run_req_v(cfgs: &[ReqCfg], ds: &[Vec<u8>], after_error: bool) -> (String, Option<Request>) {
    // one receive buffer per thread, re-used from message to message as a connection handler does (so that anything the
    // library might remember about "the buffer it saw last" meets the same address again)
    RECV_BUF.with(|b| {
        let mut g = b.borrow_mut();
        g.clear();
        run_req_v_in(&mut g, cfgs, ds, after_error)
    })
}

fn run_req_v_in(buf: &mut Vec<u8>, cfgs: &[ReqCfg], ds: &[Vec<u8>], after_error: bool) -> (String, Option<Request>) {
    let c0 = cfgs[0];
    let mut r = if c0.rl.dflt || c0.hl.dflt || c0.max.dflt { Request::default() } else { Request::new() };

    let mut acc: Vec<String> = vec![];
    let mut meters: Vec<String> = vec![];
    for (i, d) in ds.iter().enumerate() {
        apply_req_cfg(&mut r, &cfgs[i.min(cfgs.len() - 1)]);
        buf.extend_from_slice(d);
        let m = Meter::start();
        let res = std::panic::catch_unwind(std::panic::AssertUnwindSafe(|| r.parse(&buf)));
        meters.push(m.read(buf.len()));
        match res {
            Err(_) => {
                acc.push(format!("P:{}", pk(&last_panic())));
                return (format!("{} #a={}", acc.join(" "), meters.join(";")), None);
            },
            Ok(Err(e)) => {
                acc.push(format!("E:{}", cat(&e)));
                if !after_error {
                    return (format!("{} #a={}", acc.join(" "), meters.join(";")), None);
                }
            },
            Ok(Ok(res)) => {
                if res.consumed > buf.len() {
                    acc.push("P:consumed-beyond-input".into());
                    return (acc.join(" "), None);
                }
                buf.drain(..res.consumed);
                if res.status == RequestParseStatus::Complete {
                    acc.push(format!("C,{}", res.consumed));
                    return (format!("{} | {} #a={}", acc.join(" "), req_fields(&r), meters.join(";")), Some(r));
                }
                acc.push(format!("I,{}", res.consumed));
            },
        }
    }
    (
        format!("{} | {} #a={} #d={:016x}", acc.join(" "), req_fields(&r), meters.join(";"), fnv(&format!("{:?}", r))),
        None,
    )
}

fn run_resp(hl: Lim, ds: &[Vec<u8>]) -> (String, Option<Response>) {
    run_resp_x(hl, None, ds, false)
}

/// `pre`: bytes the caller has put into the public `body` field before the first call;
/// `after_error`: as in `run_req_v`
fn run_resp_x(hl: Lim, pre: Option<&[u8]>, ds: &[Vec<u8>], after_error: bool) -> (String, Option<Response>) {
    RECV_BUF.with(|b| {
        let mut g = b.borrow_mut();
        g.clear();
        run_resp_x_in(&mut g, hl, pre, ds, after_error)
    })
}

fn run_resp_x_in(buf: &mut Vec<u8>, hl: Lim, pre: Option<&[u8]>, ds: &[Vec<u8>], after_error: bool) -> (String, Option<Response>) {
    let mut r = if hl.dflt { Response::default() } else { Response::new() };
    if !hl.keep {
        r.headers.set_line_limit(hl.v);
    }
    if let Some(p) = pre {
        r.body = p.to_vec();
    }

    let mut acc: Vec<String> = vec![];
    let mut meters: Vec<String> = vec![];
    for d in ds {
        buf.extend_from_slice(d);
        let m = Meter::start();
        let res = std::panic::catch_unwind(std::panic::AssertUnwindSafe(|| r.parse(&buf)));
        meters.push(m.read(buf.len()));
        match res {
            Err(_) => {
                acc.push(format!("P:{}", pk(&last_panic())));
                return (format!("{} #a={}", acc.join(" "), meters.join(";")), None);
            },
            Ok(Err(e)) => {
                acc.push(format!("E:{}", cat(&e)));
                if !after_error {
                    return (format!("{} #a={}", acc.join(" "), meters.join(";")), None);
                }
            },
            Ok(Ok(res)) => {
                if res.consumed > buf.len() {
                    acc.push("P:consumed-beyond-input".into());
                    return (acc.join(" "), None);
                }
                buf.drain(..res.consumed);
                if res.status == ResponseParseStatus::Complete {
                    acc.push(format!("C,{}", res.consumed));
                    return (format!("{} | {} #a={}", acc.join(" "), resp_fields(&r), meters.join(";")), Some(r));
                }
                acc.push(format!("I,{}", res.consumed));
            },
        }
    }
    (
        format!("{} | {} #a={} #d={:016x}", acc.join(" "), resp_fields(&r), meters.join(";"), fnv(&format!("{:?}", r))),
        None,
    )
}

fn req_cfgs(s: &str) -> Option<Vec<ReqCfg>> {
    s.split(';')
        .map(|c| {
            let f: Vec<&str> = c.split(',').collect();
            if f.len() != 3 {
                return None;
            }
            Some(ReqCfg { rl: lim(f[0])?, hl: lim(f[1])?, max: lim(f[2])? })
        })
        .collect()
}

fn deliveries(s: &str) -> Option<Vec<Vec<u8>>> {
    s.split('|').map(unhex).collect()
}

fn gen_result(r: std::thread::Result<Result<Vec<u8>, Error>>) -> (String, Option<Vec<u8>>) {
    match r {
        Err(_) => (format!("P:{}", pk(&last_panic())), None),
        Ok(Err(e)) => (format!("E:{}", cat(&e)), None),
        Ok(Ok(b)) => (format!("OK {}", hex(&b)), Some(b)),
    }
}

fn single(kind: &str, x: &[u8]) -> String {
    let mut h = MessageHeaders::new();
    h.set_header("Content-Encoding", kind);
    match coding::decode_body(&mut h, x) {
        Ok(o) => format!("OK {}", hex(&o)),
        Err(_) => "ERR".into(),
    }
}

fn exec(t: &[&str]) -> String {
    match t {
        ["REQ", _tree, _ov, rl, hl, mx, ds] => match (lim(rl), lim(hl), lim(mx), deliveries(ds)) {
            (Some(rl), Some(hl), Some(max), Some(ds)) => run_req(ReqCfg { rl, hl, max }, &ds).0,
            _ => "bad-op".into(),
        },
        ["REQV", _tree, _ov, cfgs, ds] => match (req_cfgs(cfgs), deliveries(ds)) {
            (Some(cs), Some(ds)) if cs.len() == ds.len() => run_req_v(&cs, &ds, false).0,
            _ => "bad-op".into(),
        },
        // implementation only: parse called again after an error
        ["REQE", _tree, _ov, cfgs, ds] => match (req_cfgs(cfgs), deliveries(ds)) {
            (Some(cs), Some(ds)) if cs.len() == ds.len() => run_req_v(&cs, &ds, true).0,
            _ => "bad-op".into(),
        },
        ["RESPE", _tree, _ov, hl, ds] => match (lim(hl), deliveries(ds)) {
            (Some(hl), Some(ds)) => run_resp_x(hl, None, &ds, true).0,
            _ => "bad-op".into(),
        },
        ["RESPPRE", _tree, _ov, hl, pre, ds] => match (lim(hl), unhex(pre), deliveries(ds)) {
            (Some(hl), Some(pre), Some(ds)) => run_resp_x(hl, Some(&pre), &ds, false).0,
            _ => "bad-op".into(),
        },
        // parse a response, then decode what was parsed: the whole chain a client runs
        ["RESPDEC", _tree, _ov, hl, ds] => match (lim(hl), deliveries(ds)) {
            (Some(hl), Some(ds)) => {
                let (first, r) = run_resp(hl, &ds);
                match r {
                    None => first,
                    Some(mut r) => {
                        let txt = match std::panic::catch_unwind(std::panic::AssertUnwindSafe(|| coding::decode_body_as_text(&r.headers, &r.body))) {
                            Err(_) => format!("P:{}", pk(&last_panic())),
                            Ok(Some(t)) => format!("SOME {}", hex(t.as_bytes())),
                            Ok(None) => "NONE".into(),
                        };
                        let dec = match std::panic::catch_unwind(std::panic::AssertUnwindSafe(|| {
                            let body = std::mem::take(&mut r.body);
                            let o = coding::decode_body(&mut r.headers, &body);
                            (o, headers(&r.headers))
                        })) {
                            Err(_) => format!("P:{}", pk(&last_panic())),
                            Ok((Ok(o), hs)) => format!("OK {} | h={}", hex(&o), hs),
                            Ok((Err(_), hs)) => format!("ERR | h={}", hs),
                        };
                        format!("{} || TXT {} || DEC {}", first, txt, dec)
                    },
                }
            },
            _ => "bad-op".into(),
        },
        // a chunked response whose decoded body has `total` bytes, produced here piece by piece (chunks of `piece` bytes, one
        // call per chunk) instead of being carried by the op line: bodies beyond 4 GiB (counters kept in 32 bits)
        ["RESPBIG", total, piece] => match (total.parse::<usize>().ok(), piece.parse::<usize>().ok()) {
            (Some(total), Some(piece)) if piece > 0 => {
                REFUSE_AT.store(usize::MAX, Relaxed);
                let out = std::panic::catch_unwind(|| {
                    let mut r = Response::new();
                    let mut buf: Vec<u8> = b"HTTP/1.1 200 OK\r\nServer: big\r\nTransfer-Encoding: chunked\r\n\r\n".to_vec();
                    let mut sent = 0usize;
                    let mut done = false;
                    let mut verdict = String::from("I");
                    loop {
                        match r.parse(&buf) {
                            Err(e) => {
                                verdict = format!("E:{}", cat(&e));
                                break;
                            },
                            Ok(res) => {
                                buf.drain(..res.consumed);
                                if res.status == ResponseParseStatus::Complete {
                                    verdict = String::from("C");
                                    break;
                                }
                            },
                        }
                        if done {
                            break;
                        }
                        if sent < total {
                            let n = piece.min(total - sent);
                            buf.extend_from_slice(format!("{:x}\r\n", n).as_bytes());
                            buf.resize(buf.len() + n, b'x');
                            buf.extend_from_slice(b"\r\n");
                            sent += n;
                        } else {
                            buf.extend_from_slice(b"0\r\n\r\n");
                            done = true;
                        }
                    }
                    let cl = r.headers.header_value("Content-Length").unwrap_or_else(|| "-".into());
                    let te = r.headers.has_header("Transfer-Encoding");
                    format!("BIG {} cl={} blen={} te={} left={}", verdict, cl, r.body.len(), te, buf.len())
                });
                REFUSE_AT.store(1 << 28, Relaxed);
                match out {
                    Ok(s) => s,
                    Err(_) => format!("P:{}", pk(&last_panic())),
                }
            },
            _ => "bad-op".into(),
        },
        ["RESP", _tree, _ov, hl, ds] => match (lim(hl), deliveries(ds)) {
            (Some(hl), Some(ds)) => run_resp(hl, &ds).0,
            _ => "bad-op".into(),
        },
        ["RTREQ", _tree, _ov, rl, hl, mx, ds] => match (lim(rl), lim(hl), lim(mx), deliveries(ds)) {
            (Some(rl), Some(hl), Some(max), Some(ds)) => {
                let cfg = ReqCfg { rl, hl, max };
                let (first, r) = run_req(cfg, &ds);
                match r {
                    None => first,
                    Some(r) => {
                        let (g, bytes) =
                            gen_result(std::panic::catch_unwind(std::panic::AssertUnwindSafe(|| r.generate())));
                        match bytes {
                            None => format!("{} || {}", first, g),
                            Some(b) => format!("{} || {} || {}", first, g, run_req(cfg, &[b]).0),
                        }
                    },
                }
            },
            _ => "bad-op".into(),
        },
        ["RTRESP", _tree, _ov, hl, ds] => match (lim(hl), deliveries(ds)) {
            (Some(hl), Some(ds)) => {
                let (first, r) = run_resp(hl, &ds);
                match r {
                    None => first,
                    Some(mut r) => {
                        // the trailing data is not part of the message; generate() ignores it
                        r.trailer.clear();
                        let (g, bytes) =
                            gen_result(std::panic::catch_unwind(std::panic::AssertUnwindSafe(|| r.generate())));
                        match bytes {
                            None => format!("{} || {}", first, g),
                            Some(b) => format!("{} || {} || {}", first, g, run_resp(hl, &[b]).0),
                        }
                    },
                }
            },
            _ => "bad-op".into(),
        },
        ["REQGEN", hl, method, target, hs, body] => {
            match (opt_nat(hl), unhex(method).and_then(|m| String::from_utf8(m).ok()), unhex(target).and_then(|m| String::from_utf8(m).ok()), parse_headers(hs), unhex(body)) {
                (Some(hl), Some(method), Some(target), Some(hs), Some(body)) => {
                    let uri = match rhymuri::Uri::parse(&target) {
                        Ok(u) => u,
                        Err(_) => return "BADURI".into(),
                    };
                    let mut r = Request::new();
                    r.method = method.into();
                    r.target = uri;
                    r.headers.set_line_limit(hl);
                    for (k, v) in hs {
                        r.headers.add_header(Header { name: k.as_str().into(), value: v });
                    }
                    r.body = body;
                    gen_result(std::panic::catch_unwind(std::panic::AssertUnwindSafe(|| r.generate()))).0
                },
                _ => "bad-op".into(),
            }
        },
        ["RESPGEN", hl, code, reason, hs, body] => {
            match (opt_nat(hl), code.parse::<usize>().ok(), unhex(reason).and_then(|m| String::from_utf8(m).ok()), parse_headers(hs), unhex(body)) {
                (Some(hl), Some(code), Some(reason), Some(hs), Some(body)) => {
                    let mut r = Response::new();
                    r.status_code = code;
                    r.reason_phrase = reason.into();
                    r.headers.set_line_limit(hl);
                    for (k, v) in hs {
                        r.headers.add_header(Header { name: k.as_str().into(), value: v });
                    }
                    r.body = body;
                    gen_result(std::panic::catch_unwind(std::panic::AssertUnwindSafe(|| r.generate()))).0
                },
                _ => "bad-op".into(),
            }
        },
        ["REQGRT", hl, method, target, hs, body] => {
            // `hl` alone: header line limit for generate and parse, no other limit;
            // `rl,hl,mx`: the three limits of the parsing Request in the spelling of REQ ops (generate uses `hl`)
            let (hl, pcfg): (&str, Option<ReqCfg>) = if hl.contains(',') {
                let f: Vec<&str> = hl.split(',').collect();
                if f.len() != 3 {
                    return "bad-op".into();
                }
                match (lim(f[0]), lim(f[1]), lim(f[2])) {
                    (Some(a), Some(b), Some(c)) => (if b.keep { "1000" } else { f[1].trim_start_matches('D') }, Some(ReqCfg { rl: a, hl: b, max: c })),
                    _ => return "bad-op".into(),
                }
            } else {
                (*hl, None)
            };
            match (opt_nat(hl), unhex(method).and_then(|m| String::from_utf8(m).ok()), unhex(target).and_then(|m| String::from_utf8(m).ok()), parse_headers(hs), unhex(body)) {
                (Some(hl), Some(method), Some(target), Some(hs), Some(body)) => {
                    let uri = match rhymuri::Uri::parse(&target) {
                        Ok(u) => u,
                        Err(_) => return "BADURI".into(),
                    };
                    let mut r = Request::new();
                    r.method = method.into();
                    r.target = uri;
                    r.headers.set_line_limit(hl);
                    for (k, v) in hs {
                        r.headers.add_header(Header { name: k.as_str().into(), value: v });
                    }
                    r.body = body;
                    let shown = format!("V t={} u={}", hex(r.target.to_string().as_bytes()), uri_struct(&r.target));
                    let (g1, bytes) = gen_result(std::panic::catch_unwind(std::panic::AssertUnwindSafe(|| r.generate())));
                    match bytes {
                        None => format!("{} || {}", shown, g1),
                        Some(b) => {
                            let (p, r2) = run_req(pcfg.unwrap_or(ReqCfg { rl: None.into(), hl: hl.into(), max: None.into() }), &[b]);
                            match r2 {
                                None => format!("{} || {} || {}", shown, g1, p),
                                Some(r2) => {
                                    let (g2, _) = gen_result(std::panic::catch_unwind(std::panic::AssertUnwindSafe(|| r2.generate())));
                                    format!("{} || {} || {} || {}", shown, g1, p, g2)
                                },
                            }
                        },
                    }
                },
                _ => "bad-op".into(),
            }
        },
        ["RESPGRT", hl, code, reason, hs, body] => {
            match (opt_nat(hl), code.parse::<usize>().ok(), unhex(reason).and_then(|m| String::from_utf8(m).ok()), parse_headers(hs), unhex(body)) {
                (Some(hl), Some(code), Some(reason), Some(hs), Some(body)) => {
                    let mut r = Response::new();
                    r.status_code = code;
                    r.reason_phrase = reason.into();
                    r.headers.set_line_limit(hl);
                    for (k, v) in hs {
                        r.headers.add_header(Header { name: k.as_str().into(), value: v });
                    }
                    r.body = body;
                    let (g1, bytes) = gen_result(std::panic::catch_unwind(std::panic::AssertUnwindSafe(|| r.generate())));
                    match bytes {
                        None => format!("V || {}", g1),
                        Some(b) => {
                            let (p, r2) = run_resp(hl.into(), &[b]);
                            match r2 {
                                None => format!("V || {} || {}", g1, p),
                                Some(r2) => {
                                    let (g2, _) = gen_result(std::panic::catch_unwind(std::panic::AssertUnwindSafe(|| r2.generate())));
                                    format!("V || {} || {} || {}", g1, p, g2)
                                },
                            }
                        },
                    }
                },
                _ => "bad-op".into(),
            }
        },
        ["DECODE", _tree, hs, body] => match (parse_headers(hs), unhex(body)) {
            (Some(hs), Some(body)) => {
                let mut h = MessageHeaders::new();
                for (k, v) in hs {
                    h.add_header(Header { name: k.as_str().into(), value: v });
                }
                match std::panic::catch_unwind(std::panic::AssertUnwindSafe(|| {
                    let r = coding::decode_body(&mut h, &body);
                    (r, headers(&h))
                })) {
                    Err(_) => format!("P:{}", pk(&last_panic())),
                    Ok((Ok(o), hs)) => format!("OK {} | h={}", hex(&o), hs),
                    Ok((Err(_), hs)) => format!("ERR | h={}", hs),
                }
            },
            _ => "bad-op".into(),
        },
        ["TEXT", hs, body] => match (parse_headers(hs), unhex(body)) {
            (Some(hs), Some(body)) => {
                let mut h = MessageHeaders::new();
                for (k, v) in hs {
                    h.add_header(Header { name: k.as_str().into(), value: v });
                }
                match std::panic::catch_unwind(std::panic::AssertUnwindSafe(|| coding::decode_body_as_text(&h, &body))) {
                    Err(_) => format!("P:{}", pk(&last_panic())),
                    Ok(Some(t)) => format!("SOME {}", hex(t.as_bytes())),
                    Ok(None) => "NONE".into(),
                }
            },
            _ => "bad-op".into(),
        },
        // reference for text decoding: the dependency used directly (label lookup, strict decoding, no BOM handling)
        ["TEXTREF", label, body] => match (unhex(label), unhex(body)) {
            (Some(label), Some(body)) => match encoding_rs::Encoding::for_label(&label) {
                None => "NONE".into(),
                Some(enc) => match enc.decode_without_bom_handling_and_without_replacement(&body) {
                    Some(t) => format!("SOME {}", hex(t.as_bytes())),
                    None => "NONE".into(),
                },
            },
            _ => "bad-op".into(),
        },
        ["URI", b] => match unhex(b).and_then(|b| String::from_utf8(b).ok()) {
            None => "bad-op".into(),
            Some(s) => match std::panic::catch_unwind(|| rhymuri::Uri::parse(&s)) {
                Err(_) => format!("P:{}", pk(&last_panic())),
                Ok(Err(_)) => "ERR".into(),
                Ok(Ok(u)) => {
                    let o = |x: Option<&[u8]>| x.map(hex).unwrap_or_else(|| "-".into());
                    let a = match u.authority() {
                        Some(a) => format!(
                            "{},{},{}",
                            o(a.userinfo()),
                            hex(a.host()),
                            a.port().map(|p| p.to_string()).unwrap_or_else(|| "-".into())
                        ),
                        None => "-".into(),
                    };
                    format!(
                        "OK s={} a={} p={}|{} q={} f={} d={}",
                        o(u.scheme().map(str::as_bytes)),
                        a,
                        u.path().iter().map(|s| hex(s)).collect::<Vec<_>>().join("/"),
                        u.path().len(),
                        o(u.query()),
                        o(u.fragment()),
                        hex(u.to_string().as_bytes())
                    )
                },
            },
        },
        ["GZ", b] => match unhex(b) {
            Some(bs) => single("gzip", &bs),
            None => "bad-op".into(),
        },
        ["FL", b] => match unhex(b) {
            Some(bs) => {
                let mut out = Vec::new();
                match flate2::bufread::DeflateDecoder::new(&bs[..]).read_to_end(&mut out) {
                    Ok(_) => format!("OK {}", hex(&out)),
                    Err(_) => "ERR".into(),
                }
            },
            None => "bad-op".into(),
        },
        ["ZL", b] => match unhex(b) {
            Some(bs) => {
                let mut out = Vec::new();
                match flate2::bufread::ZlibDecoder::new(&bs[..]).read_to_end(&mut out) {
                    Ok(_) => format!("OK {}", hex(&out)),
                    Err(_) => "ERR".into(),
                }
            },
            None => "bad-op".into(),
        },
        ["DF", _tree, b] => match unhex(b) {
            Some(bs) => single("deflate", &bs),
            None => "bad-op".into(),
        },
        _ => "bad-op".into(),
    }
}

fn main() {
    std::panic::set_hook(Box::new(|i| {
        let m = i.to_string();
        LAST_PANIC.with(|p| *p.borrow_mut() = m);
    }));
    let args: Vec<String> = std::env::args().collect();
    match args.get(1).map(String::as_str) {
        Some("profile") => {
            println!("{}", if cfg!(debug_assertions) { "dev" } else { "release" });
        },
        Some("exec") => {
            let stdin = std::io::stdin();
            let stdout = std::io::stdout();
            let mut out = std::io::BufWriter::new(stdout.lock());
            for line in stdin.lock().lines() {
                let line = line.unwrap();
                let toks: Vec<&str> = line.split_ascii_whitespace().collect();
                if toks.is_empty() {
                    continue;
                }
                let res = match std::panic::catch_unwind(|| exec(&toks[1..])) {
                    Ok(s) => s,
                    Err(_) => format!("P:{}", pk(&last_panic())),
                };
                writeln!(out, "{} {}", toks[0], res).unwrap();
                out.flush().unwrap();
            }
        },
        _ => {
            eprintln!("usage: hx exec | hx profile");
            std::process::exit(2);
        },
    }
}
