"""Shared helpers for the check driver: hex, op lines, result parsing."""
import random

CRLF = b"\r\n"


def hx(b: bytes) -> str:
    return b.hex() if b else "."


def hxe(b: bytes) -> str:
    """hex with empty string for empty (header list entries)"""
    return b.hex()


def unhex(s: str) -> bytes:
    return b"" if s in (".", "") else bytes.fromhex(s)


def opt(n):
    return "-" if n is None else str(n)


def hdrs_field(hs) -> str:
    """[(name, value)] -> op-line field"""
    if not hs:
        return "."
    return ",".join(hxe(k) + ":" + hxe(v) for k, v in hs)


def parse_hdrs_out(s: str):
    """'h=' field of an output line -> [(name, value)]"""
    if s == "":
        return []
    out = []
    for e in s.split(","):
        k, v = e.split(":")
        out.append((unhex(k), unhex(v)))
    return out


class Rng(random.Random):
    def below(self, n):
        return self.randrange(n)

    def pick(self, seq):
        return seq[self.randrange(len(seq))]

    def chance(self, num, den):
        return self.randrange(den) < num


def strip_ann(res: str) -> str:
    """drop the '#x=...' annotations (allocator readings, reservation log, debug fingerprint)"""
    return " ".join(t for t in res.split(" ") if not t.startswith("#")).rstrip()


def annotations(res: str) -> dict:
    out = {}
    for t in res.split(" "):
        if t.startswith("#") and "=" in t:
            k, v = t[1:].split("=", 1)
            out.setdefault(k, []).append(v)
    return out


class ParseResult:
    """decoded form of a REQ / RESP result (one parse chain, no '||')"""

    def __init__(self, text: str):
        self.raw = text
        body = strip_ann(text)
        self.ann = annotations(text)
        if " | " in body:
            left, right = body.split(" | ", 1)
        elif body.endswith(" |"):
            left, right = body[:-2], ""
        else:
            left, right = body, ""
        self.steps = left.split(" ") if left else []
        self.fields = {}
        for t in right.split(" "):
            if "=" in t:
                k, v = t.split("=", 1)
                self.fields[k] = v
        last = self.steps[-1] if self.steps else ""
        self.category = None
        if last.startswith("C,"):
            self.verdict = "complete"
        elif last.startswith("E:"):
            self.verdict = "rejected"
            self.category = last[2:]
        elif last.startswith("P:") or last == "ABORT":
            self.verdict = "crashed"
            self.category = last
        elif last.startswith("I,") or last == "":
            self.verdict = "more"
        else:
            self.verdict = "other:" + last
        self.consumed = [int(s.split(",")[1]) for s in self.steps if s[:2] in ("C,", "I,")]
        self.total = sum(self.consumed)

    def field_bytes(self, k):
        return unhex(self.fields.get(k, ""))

    def headers(self):
        return parse_hdrs_out(self.fields.get("h", ""))
