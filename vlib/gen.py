"""Seeded structured generators (DESIGN.md §4.2).  Everything is derived from one Rng per family."""
import zlib
import itertools
from .common import Rng, hx, opt, CRLF, hdrs_field

# ------------------------------------------------------------------------------------------
# alphabets and pools

TCHAR = b"!#$%&'*+-.^_`|~0123456789abcdefghijklmnopqrstuvwxyzABCDEFGHIJKLMNOPQRSTUVWXYZ"
STRUCT = [b"\r", b"\n", b" ", b"\t", b":", b";", b",", b"=", b"+", b"-", b"0", b"1", b"9", b"a", b"f", b"F",
          b"\x00", b"\x80", b"\xff", b"x", b"/", b"%"]

# multi-byte characters that some std predicate or mapping treats like an ASCII character: white space (char::is_whitespace,
# str::trim), digits (is_numeric, is_digit), letters whose case mapping is ASCII or changes length (to_lowercase / to_uppercase)
UNICODE_LOOKALIKES = ["\u00a0", "\u0085", "\u2003", "\u2028", "\u3000", "\u1680", "\u0663", "\uff11", "\u00b2", "\u212a", "\u017f", "\u0130", "\u0131",
                      "\u00df", "\ufb01", "\u1e9e", "\u00c5", "\u212b"]

GOOD_METHODS = [b"GET", b"POST", b"PUT", b"DELETE", b"OPTIONS", b"HEAD", b"M", b"PATCH", b"get", b"M-SEARCH", b"CONNECT", b"CONNECT", b"TRACE",
                "GÉT".encode(), b"a!b", "R\u00c9SUM\u20ac".encode(), "\U0001F600GET".encode(), "G\U0001F600".encode()]
BAD_METHODS = [b"", b"G\xffT", b"G\rT", b"G\nT", b"\xc3", b"G\tT"]

GOOD_TARGETS = [b"/", b"/a", b"/a/b/c", b"/a%20b", b"/a%20b?q=1&r=%41", b"/x?y#z", b"*", b"/%E2%82%AC", b"/a//b/",
                b"http://example.com/", b"http://example.com:8080/p?q", b"http://u:p@h.example/x", b"example.com:443",
                b"http://1.2.3.4/", b"http://[::1]/", b"http://[::ffff:1.2.3.4]:80/p", b"http://[v7.a:b]/x",
                b"https://EXAMPLE.com/A%2fB", b"/?", b"/#", b"?q", b"#f", b"//h/p", b"/a+b?c+d", b"/~u/-._",
                b"urn:isbn:0451450523", b"/a:b", b"http://h:/x", b"/%41%5A%7e",
                b"www.example.com:443", b"h:1", b"tel:5550100", b"localhost:8080", b"a.b:65535", b"mailto:a@b", b"?page=2", b"http://www.example.com/a/b/../c/./d", b"/a/./b/../c"]
# targets whose text -> Uri -> text -> Uri is not stable in the dependency (known finding D8)
D8_TARGETS = [b"a%3Ab", b"http://[::FFFF:1.2.3.4]/", b"http://[vA.B]/x"]
BAD_TARGETS = [b"/%zz", b"/%4", "/é".encode(), b"/\xff", b"http://[::1/", b"//h:99999/", b"http://h:+80/", b"/a\tb",
               b"http://[1.2.3.4]/", b"/a|b", b"http://h:8x/", b"1http://x/", b"/<>", b"/\x00"]

GOOD_PROTOCOLS = [b"HTTP/1.1"]
BAD_PROTOCOLS = [b"HTTP/1.0", b"HTTP/1.10", b"http/1.1", b"HTTP/1.1 ", b"", b"HTTP/2", b"HTTP/1.1\t", b" HTTP/1.1",
                 b"HTTP/1.", b"HTTP/11", b"XHTTP/1.1"]

GOOD_CODES = [b"200", b"404", b"999", b"0", b"100", b"099", b"000200", b"1", b"204", b"304", b"500"]
BAD_CODES = [b"1000", b"+200", b"-1", b"2 00", b"0x10", b"", b"18446744073709551616", b"18446744073709551615",
             b"20a", b"2_0", b"9999", b" 200", b"1e2", b"\xef\xbc\x91"]
REASONS = [b"OK", b"Not Found", b"", b"OK\r", b"\r", b"a\rb", "\U0001F600 ok \u20ac".encode(), "\U0001F600".encode(), b"  two  spaces ", "r\u00e9ason".encode(), b"a:b", b"HTTP/1.1 200 OK", b"x\ty"]

NEUTRAL_NAMES = [b"Host", b"X-Foo", b"A", b"Accept", b"x-y_z", b"Date", b"X!", b"Set-Cookie", b"1"]
FRAMING_NAMES = [b"Content-Length", b"Transfer-Encoding", b"Trailer", b"Content-Encoding", b"Content-Type"]
BAD_NAMES = [b"Bad Name", "N\u00e9".encode(), b"", b"A\x00", b"A\x7f", b"(c)", b"A\t"]
NEUTRAL_VALUES = [b"v", b"a b", b"", b"x,y", b"example.com", b"t\tab", b"1", b"a: b", b"\"q\"", b"a;b=c"]
BAD_VALUES = [b"nul\x00", "\u00e9".encode(), b"\x80", b"a\rb", b"\x7f", b"a\x01"]

NUMERIC_GOOD = [b"0", b"1", b"3", b"5", b"05", b"12", b"007", b"10", b"0" * 15 + b"5", b"0" * 17 + b"5", b"0" * 19 + b"12", b"0" * 20 + b"3", b"0" * 21 + b"5", b"0" * 22 + b"10", b"0" * 30 + b"1", b"0" * 40]
NUMERIC_BAD = [b"x", b"", b"+3", b"3 4", b"-1", b"0x3", b"3,3", b"3_0", b"+", b"-0", b"1e1", b"3.0", b"3;", b"\xef\xbc\x93",
               b"0" * 21 + b"x", b"0" * 30 + b"x", b"0+00000000000000a", b"00+0000000000000a", b"0" * 5 + b"+" + b"0" * 14 + b"5", b"99999999999999999999999x", b"18446744073709551616 0", b"100000000000000000000,13"]
NUMERIC_HUGE = [b"2147483648", b"4294967296", b"9223372036854775807", b"9223372036854775808",
                b"18446744073709551615", b"18446744073709551596", b"18446744073709551516", b"18446744073709551616",
                b"100000000000000000000000000", b"10000000", b"9999990", b"1099511627776", b"268435457", b"140737488355328"]

TE_VALUES = [b"chunked", b"Chunked", b"CHUNKED", b"gzip, chunked", b"chunked, gzip", b"gzip", b"a,b , cHuNkEd",
             b"foo, bar, chunked", b"foo, bar,, chunked", b",, chunked", b"a,,b , chunked", b"chunked,", b",chunked", b"identity", b" chunked ", b"chunked;q=1", b"xchunked", b""]


def randcase(rng, b: bytes) -> bytes:
    return bytes((c ^ 0x20) if (65 <= c <= 90 or 97 <= c <= 122) and rng.below(2) else c for c in b)


def rand_token(rng, lo=1, hi=8) -> bytes:
    return bytes(rng.pick(TCHAR) for _ in range(rng.randint(lo, hi)))


def rand_bytes(rng, n, alphabet=None) -> bytes:
    if alphabet is None:
        return bytes(rng.below(256) for _ in range(n))
    return bytes(rng.pick(alphabet) for _ in range(n))


def rand_target(rng) -> bytes:
    k = rng.below(10)
    if k < 5:
        return rng.pick(GOOD_TARGETS)
    segs = []
    for _ in range(rng.randint(1, 4)):
        seg = b""
        for _ in range(rng.randint(0, 5)):
            r = rng.below(8)
            if r == 0:
                seg += b"%" + bytes([rng.pick(b"0123456789ABCDEFabcdef"), rng.pick(b"0123456789ABCDEFabcdef")])
            elif r == 1:
                seg += bytes([rng.pick(b"-._~!$&'()*+,;=:@")])
            else:
                seg += bytes([rng.pick(b"abcxyzABC019")])
        segs.append(seg)
    t = b"/" + b"/".join(segs)
    if rng.chance(1, 4):
        t += b"?" + rand_bytes(rng, rng.below(6), b"abc=&+%20/?")
        t = t.replace(b"%2", b"%20").replace(b"%0", b"%20")
    if rng.chance(1, 8):
        t += b"#" + rand_bytes(rng, rng.below(4), b"abc/?")
    if rng.chance(1, 6):
        host = rng.pick([b"example.com", b"h", b"1.2.3.4", b"[::1]", b"[2001:db8::ff00:42:8329]", b"EXAMPLE.org", b"a%41b"])
        port = rng.pick([b"", b":80", b":", b":65535", b":0"])
        ui = rng.pick([b"", b"", b"u@", b"u:p@", b"%41@"])
        t = rng.pick([b"http://", b"https://", b"x-y.z+1://", b"//"]) + ui + host + port + t
    return t


def _uri_enc(s, allowed):
    return b"".join(bytes([b]) if b < 128 and allowed(b) else b"%%%02X" % b for b in s)


def _reg(b):
    return (b < 128 and chr(b).isalnum()) or b in b"-._~!$&'()*+,;="


def canonical_abs_target(rng) -> bytes:
    """an absolute-form target of the class of `Rhymuri.parse_display_absolute` (lower-case scheme, lower-case
    registered-name host of arbitrary bytes, port <= 65535, absolute path, any query / fragment bytes), printed
    the way rhymuri prints it: the URI law says it parses and prints back to itself"""
    def rb(n, lowercase=False):
        out = bytearray()
        for _ in range(n):
            k = rng.below(10)
            if k < 6:
                b = rng.pick(b"abcxyz019-._~!$&'()*+,;=%:@/?#[] ")
            elif k < 8:
                b = rng.below(256)
            else:
                b = rng.pick(b"ABCXYZ")
            if lowercase and 65 <= b <= 90:
                b += 32
            out.append(b)
        return bytes(out)
    sch = rng.pick([b"http", b"https", b"a", b"x+y-z.9", b"ws"])
    s = sch + b"://"
    if rng.chance(2, 5):
        s += _uri_enc(rb(rng.below(5)), lambda b: _reg(b) or b == 58) + b"@"
    s += _uri_enc(rb(rng.below(8), True), _reg)
    if rng.chance(1, 2):
        s += b":%d" % rng.pick([0, 1, 80, 8080, 65535, rng.below(65536)])
    segs = [] if rng.chance(3, 10) else [rb(rng.randint(1, 3))] + [rb(rng.below(4)) for _ in range(rng.below(3))]
    s += b"/" + b"/".join(_uri_enc(x, lambda b: _reg(b) or b in (58, 64)) for x in segs)
    qf = lambda b: _reg(b) or b in (58, 64, 47, 63)
    if rng.chance(1, 2):
        s += b"?" + _uri_enc(rb(rng.below(5)), lambda b: qf(b) and b != 43)
    if rng.chance(1, 2):
        s += b"#" + _uri_enc(rb(rng.below(5)), qf)
    return s


# ------------------------------------------------------------------------------------------
# start lines

def gen_request_line(rng, good_p=0.75):
    """returns (line-without-terminator, terminator, valid?)"""
    good = rng.random() < good_p
    m = rng.pick(GOOD_METHODS) if rng.chance(3, 4) else rand_token(rng)
    t = rand_target(rng)
    p = b"HTTP/1.1"
    term = CRLF
    if not good:
        k = rng.below(12)
        if k == 0:
            m = rng.pick(BAD_METHODS)
        elif k == 1:
            t = rng.pick(BAD_TARGETS)
        elif k == 2:
            p = rng.pick(BAD_PROTOCOLS)
        elif k == 3:
            return (m + b" " + t, term, False)
        elif k == 4:
            return (m, term, False)
        elif k == 5:
            return (m + b"  " + t + b" " + p, term, False)
        elif k == 6:
            return (m + b" " + t + b"  " + p, term, False)
        elif k == 7:
            term = rng.pick([b"\n", b"\r", b"\r\r\n", b"\n\r"])
        elif k == 8:
            return (b" " + m + b" " + t + b" " + p, term, False)
        elif k == 9:
            t = rng.pick(D8_TARGETS)
            good = True
        elif k == 10:
            return (m + b" " + t + b" " + p + b" x", term, False)
        else:
            line = m + b" " + t + b" " + p
            i = rng.below(len(line) + 1)
            return (line[:i] + rng.pick(STRUCT) + line[i:], term, False)
    return (m + b" " + t + b" " + p, term, good)


def gen_status_line(rng, good_p=0.75):
    good = rng.random() < good_p
    p = b"HTTP/1.1"
    c = rng.pick(GOOD_CODES) if rng.chance(3, 4) else str(rng.below(1000)).encode()
    r = rng.pick(REASONS)
    term = CRLF
    if not good:
        k = rng.below(9)
        if k == 0:
            p = rng.pick(BAD_PROTOCOLS)
        elif k == 1:
            c = rng.pick(BAD_CODES)
        elif k == 2:
            return (p + b" " + c, term, False)
        elif k == 3:
            return (p, term, False)
        elif k == 4:
            return (p + b"  " + c + b" " + r, term, False)
        elif k == 5:
            term = rng.pick([b"\n", b"\r", b"\r\r\n"])
        elif k == 6:
            r = rng.pick([b"\xff", b"a\xc3", b"\xed\xa0\x80"])
        elif k == 7:
            c = rng.pick([b"999", b"1000", b"1001", b"0999", b"01000", str(2 ** 64 - 1).encode(), str(2 ** 64).encode()])
        else:
            line = p + b" " + c + b" " + r
            i = rng.below(len(line) + 1)
            return (line[:i] + rng.pick(STRUCT) + line[i:], term, False)
    return (p + b" " + c + b" " + r, term, good)


# ------------------------------------------------------------------------------------------
# header blocks

class Field:
    def __init__(self, name, value, raw, first_len, cont_lens, ok):
        self.name, self.value, self.raw = name, value, raw
        self.first_len, self.cont_lens, self.ok = first_len, cont_lens, ok


# header fields as they occur in real traffic, none of which takes part in framing, limits, content or text decoding:
# whatever a property says must hold with any of them present (eleventh round: behaviour made to depend on Connection,
# Expect, Upgrade, Content-Range, Content-Type: application/gzip, ETag, ...)
REALISTIC_FIELDS = [
    (b"Connection", b"close"), (b"Connection", b"keep-alive"), (b"Connection", b"Upgrade"), (b"Connection", b"keep-alive, close"), (b"connection", b"Close"),
    (b"Connection", b"TE, close"), (b"Proxy-Connection", b"close"), (b"Keep-Alive", b"timeout=5, max=100"),
    (b"Upgrade", b"h2c"), (b"Upgrade", b"websocket"), (b"Upgrade", b"h2,h2c"), (b"Expect", b"100-continue"), (b"expect", b"100-Continue"), (b"TE", b"trailers"),
    (b"Content-Range", b"bytes 0-9/100"), (b"Content-Range", b"bytes 0-0/2"), (b"Content-Range", b"bytes 0-99/100"), (b"Content-Range", b"bytes */100"),
    (b"Content-Range", b"bytes 0-4/*"), (b"Range", b"bytes=0-9"), (b"Accept-Ranges", b"bytes"), (b"If-Range", b"\"abc\""),
    (b"Content-Type", b"application/gzip"), (b"Content-Type", b"application/x-gzip"), (b"Content-Type", b"application/octet-stream"), (b"Content-Type", b"application/json"),
    (b"Content-Type", b"multipart/byteranges; boundary=x"), (b"Content-Type", b"application/x-gunzip; x=y"),
    (b"ETag", b"\"abc\""), (b"ETag", b"W/\"abc\""), (b"Vary", b"Accept-Encoding"), (b"Cache-Control", b"no-transform"), (b"Cache-Control", b"no-store, max-age=0"),
    (b"Content-MD5", b"Q2hlY2sgSW50ZWdyaXR5IQ=="), (b"Digest", b"sha-256=abc"), (b"Content-Disposition", b"attachment; filename=\"a.gz\""), (b"Content-Location", b"/a.gz"),
    (b"Content-Language", b"en"), (b"Last-Modified", b"Tue, 29 Sep 2026 10:00:00 GMT"), (b"Date", b"Tue, 29 Sep 2026 10:00:00 GMT"), (b"Server", b"nginx/1.25"),
    (b"Host", b"example.com"), (b"Host", b"example.com:80"), (b"Accept-Encoding", b"gzip, deflate"), (b"Accept-Encoding", b"identity"), (b"X-Content-Type-Options", b"nosniff"),
    (b"Content-Transfer-Encoding", b"binary"), (b"Warning", b"214 - \"Transformation applied\""), (b"Age", b"0"), (b"Retry-After", b"1"), (b"Location", b"/"),
    (b"Set-Cookie", b"a=b; Path=/"), (b"WWW-Authenticate", b"Basic realm=\"x\""), (b"Allow", b"GET, HEAD"), (b"Link", b"</s.css>; rel=preload"), (b"Alt-Svc", b"h2=\":443\""),
    (b"Strict-Transport-Security", b"max-age=1"), (b"Sec-WebSocket-Accept", b"x"), (b"Sec-WebSocket-Key", b"dGhlIHNhbXBsZSBub25jZQ=="), (b"Via", b"1.1 proxy"),
    (b"Authorization", b"Basic eA=="), (b"Cookie", b"a=b"), (b"User-Agent", b"curl/8.0"), (b"Accept", b"*/*"), (b"If-None-Match", b"\"abc\""), (b"Origin", b"null"),
    (b"Referer", b"http://a/"), (b"Forwarded", b"for=1.2.3.4"), (b"X-Forwarded-For", b"1.2.3.4"), (b"Pragma", b"no-cache"), (b"Trailer", b"X-T"), (b"Max-Forwards", b"0"),
    (b"HTTP2-Settings", b"AAMAAABkAAQAAP__"), (b"Priority", b"u=1"), (b"Accept-Charset", b"utf-8"), (b"Content-Script-Type", b"text/javascript"),
]


def realistic_fields(rng, k=1, coded_len=None):
    """k fields of the corpus; with `coded_len` also Content-Range fields that describe the body as the leading part of more"""
    out = [rng.pick(REALISTIC_FIELDS) for _ in range(k)]
    if coded_len is not None and rng.chance(1, 2):
        n = max(coded_len, 1)
        out.append((rng.pick([b"Content-Range", b"content-range"]), b"bytes 0-%d/%d" % (n - 1, rng.pick([n + 1, n + 100, 2 * n + 7, 10_000_000]))))
    return out


def gen_field(rng, name=None, value=None, good_p=0.9, fold_p=0.15):
    """one header field -> Field; `value` is the logical (unfolded, trimmed) value when ok"""
    good = rng.random() < good_p
    if name is None and value is None and rng.chance(1, 4):
        name, value = rng.pick(REALISTIC_FIELDS)
    if name is None:
        name = rng.pick(NEUTRAL_NAMES) if rng.chance(7, 8) else rand_token(rng)
    if value is None:
        value = rng.pick(NEUTRAL_VALUES) if rng.chance(3, 4) else rand_bytes(rng, rng.below(12), b"abc de,;=\t1")
        value = value.strip(b" \t")
    colon = b":"
    lead = rng.pick([b" ", b" ", b"", b"  ", b"\t", b" \t "])
    trail = rng.pick([b"", b"", b"", b" ", b"\t", b"  "])
    ok = True
    if not good:
        k = rng.below(6)
        ok = False
        if k == 0:
            name = rng.pick(BAD_NAMES)
            ok = name == b""      # the empty name is accepted by the header parser
        elif k == 1:
            value = rng.pick(BAD_VALUES)
        elif k == 2:
            colon = b""
        elif k == 3:
            name = name + b" "
        elif k == 4:
            value = value + rng.pick([b"\r", b"\n", b"\rx", b"\nx"])
        else:
            ok = True
    lines = [name + colon + lead + value + trail]
    cont_lens = []
    folded = False
    if rng.random() < fold_p:
        folded = True
        for _ in range(rng.randint(1, 3)):
            piece = rng.pick([b"cont", b"c2 longer continuation", b"", b"x,y", b"chunked", b"bad\x01"])
            ws = rng.pick([b" ", b"\t", b"  ", b" \t"])
            lines.append(ws + piece)
            cont_lens.append(len(ws + piece) + 2)
            if piece == b"bad\x01":
                ok = False
    raw = CRLF.join(lines) + CRLF
    first_len = len(lines[0]) + 2
    logical = None if folded else value
    return Field(name, logical, raw, first_len, cont_lens, ok)


def numeric_value(rng, good_p=0.8, huge_p=0.05):
    r = rng.random()
    if r < huge_p:
        return rng.pick(NUMERIC_HUGE)
    if r < good_p:
        return rng.pick(NUMERIC_GOOD) if rng.chance(1, 2) else str(rng.below(40)).encode()
    return rng.pick(NUMERIC_BAD)


def gen_header_block(rng, want_cl=None, want_te=None, n_neutral=None, good_p=0.93, fold_p=0.12, case=True):
    """-> (bytes incl. final empty line, [Field]).
    want_cl: None (random), False (no Content-Length), bytes (that value).  same for want_te."""
    fields = []
    n = rng.below(4) if n_neutral is None else n_neutral
    for _ in range(n):
        fields.append(gen_field(rng, good_p=good_p, fold_p=fold_p))
    if want_cl is None:
        want_cl = numeric_value(rng) if rng.chance(1, 2) else False
    if want_te is None:
        want_te = rng.pick(TE_VALUES) if rng.chance(1, 4) else False
    if want_cl is not False:
        nm = randcase(rng, b"Content-Length") if case else b"Content-Length"
        fields.insert(rng.below(len(fields) + 1), gen_field(rng, nm, want_cl, good_p=1.0, fold_p=0.0))
        if rng.chance(1, 25):
            fields.insert(rng.below(len(fields) + 1), gen_field(rng, randcase(rng, b"Content-Length"), numeric_value(rng), good_p=1.0, fold_p=0.0))
    if want_te is not False:
        nm = randcase(rng, b"Transfer-Encoding") if case else b"Transfer-Encoding"
        fields.insert(rng.below(len(fields) + 1), gen_field(rng, nm, want_te, good_p=1.0, fold_p=0.05))
    raw = b"".join(f.raw for f in fields) + CRLF
    return raw, fields


# ------------------------------------------------------------------------------------------
# chunked bodies

def hexsize(rng, n):
    s = ("%x" % n).encode()
    s = randcase(rng, s)
    if rng.chance(1, 4):
        s = b"0" * rng.randint(1, 3) + s
    return s


EXTS = [b"", b"", b"", b";a", b";a=b", b";x\r", b";\r", ';n="\U0001F600"'.encode(), ";\u20ac=\U0001F600\U0001F600".encode(), b';a="q z"', b";a;b=c", b"; a", b";", b";=", b";\x00", b";a;;b", b";a=\n", b";\t"]
# extensions outside the ASCII text the round-trip direction of C05 is stated for (obs-text): outcome compared with the model only
ODD_EXTS = [b";a=\xff", b';q="\xc3\xa9"', b";\xc3"]
BAD_SIZES = [b"+3", b"g", b"", b" 3", b"3 ", b"-1", b"0x3", b"3,3", b"ffffffffffffffff", b"10000000000000000",
             b"8000000000000000", b"7fffffff", b"fffffffffffffff0", b"3\rjunk", b"\xff", b"3_", b"3\t"]
TRAILER_FIELDS = [(b"X-T", b"1"), (b"Host", b"h"), (b"T", b"a b"), (b"Content-Length", b"9"), (b"Trailer", b"q"),
                  (b"Transfer-Encoding", b"chunked"), (b"content-length", b"0"), (b"X-Foo", b"dup"), (b"", b"e"),
                  (b"TRANSFER-ENCODING", b"gzip"), (b"Content-MD5", b"abc=="), (b"X-T", b"2"),
                  # fields a "hardening" might want to keep out of a trailer (tenth round): they are trailer fields like any other
                  (b"Content-Encoding", b"gzip"), (b"content-encoding", b"identity"), (b"Content-Type", b"text/plain"), (b"Content-Range", b"bytes 0-1/2"),
                  (b"Set-Cookie", b"a=b"), (b"WWW-Authenticate", b"Basic"), (b"Proxy-Authenticate", b"Basic"), (b"Authorization", b"x"), (b"Cache-Control", b"no-cache"),
                  (b"Expect", b"100-continue"), (b"Max-Forwards", b"1"), (b"Pragma", b"no-cache"), (b"Range", b"bytes=0-1"), (b"TE", b"trailers"), (b"Age", b"1"),
                  (b"Expires", b"0"), (b"Date", b"x"), (b"Location", b"/"), (b"Retry-After", b"1"), (b"Vary", b"*"), (b"Warning", b"199 - x"), (b"ETag", b"\"x\""), (b"Digest", b"x")]


def gen_chunked(rng, payload=None, good_p=0.85):
    """-> (bytes, info) where info = {ok, payload, trailers:[(n,v)] , parts:[...]}"""
    if payload is None:
        payload = rand_bytes(rng, rng.below(24), b"abc\r\n0 ;5f")
    good = rng.random() < good_p
    out = b""
    pos = 0
    ok = True
    bad_at = None
    nchunks = 0
    odd = False
    while pos < len(payload):
        n = rng.randint(1, min(9, len(payload) - pos)) if len(payload) < 100 else rng.randint(1, len(payload) - pos)
        ext = rng.pick(EXTS)
        if rng.chance(1, 40):
            ext = rng.pick(ODD_EXTS)
            odd = True
        size = hexsize(rng, n)
        if rng.chance(1, 200):      # a chunk-size line of about 1000 / 4096 bytes: long extension or leading zeros
            want = rng.pick([997, 998, 999, 1000, 1001, 1024, 4095, 4096, 4097])
            if rng.chance(1, 2):
                ext = b";" + (b"x" * max(0, want - len(size) - 1))
            else:
                size = b"0" * max(0, want - len(size) - len(ext)) + size
        out += size + ext + CRLF + payload[pos:pos + n] + CRLF
        pos += n
        nchunks += 1
    last = rng.pick([b"0", b"0", b"000", b"0;x", b"00;a=b"])
    if rng.chance(1, 250):
        last = rng.pick([b"0" * rng.pick([998, 999, 1000, 1001]), b"0;" + b"y" * rng.pick([996, 997, 998, 4094])])
    out += last + CRLF
    trailers = []
    for _ in range(rng.below(3) if rng.chance(1, 2) else 0):
        n, v = rng.pick(TRAILER_FIELDS)
        if rng.chance(1, 3):
            n = randcase(rng, n)
        trailers.append((n, v))
        lead = rng.pick([b" ", b"", b"  "])
        if rng.chance(1, 6) and v:
            out += n + b":" + lead + v + CRLF + b" folded" + CRLF
            trailers[-1] = (n, v + b" folded")
        else:
            out += n + b":" + lead + v + CRLF
    out += CRLF
    if not good:
        ok = False
        k = rng.below(8)
        if k == 0:      # bad size spelling in front
            bs = rng.pick(BAD_SIZES)
            out = bs + rng.pick(EXTS) + CRLF + b"abc" + CRLF + out
        elif k == 1:    # wrong terminator
            i = out.find(CRLF, out.find(CRLF) + 2) if nchunks else -1
            if i >= 0:
                out = out[:i] + rng.pick([b"\n", b"", b"\rx", b"xx", b"\r"]) + out[i + 2:]
            else:
                out = b"1" + CRLF + b"a" + rng.pick([b"\n", b"", b"\rx", b"xx"]) + out
        elif k == 2:    # truncation
            out = out[:rng.below(len(out))]
        elif k == 3:    # bad trailer
            out = out[:-2] + rng.pick([b"bad\r\n", b"Bad Name: x\r\n", b"X: \x00\r\n", b" lead\r\n"]) + CRLF
        elif k == 4:    # size larger / smaller than data
            out = b"5" + CRLF + b"abc" + CRLF + out
        elif k == 5:    # LF-only size line
            out = b"1\na" + CRLF + out
        elif k == 6:    # single substitution
            if out:
                i = rng.below(len(out))
                out = out[:i] + rng.pick(STRUCT) + out[i + 1:]
        else:           # insertion
            i = rng.below(len(out) + 1)
            out = out[:i] + rng.pick(STRUCT) + out[i:]
    return out, {"ok": ok and not odd, "payload": payload, "trailers": trailers}


# ------------------------------------------------------------------------------------------
# whole messages

def gen_request(rng, good_p=0.75):
    """-> (stream, info)"""
    line, term, line_ok = gen_request_line(rng, good_p=0.5 + good_p / 2)
    start = line + term
    hb, fields = gen_header_block(rng, want_te=False if rng.chance(9, 10) else None,
                                  good_p=0.9 + good_p / 10, fold_p=0.1)
    cl = None
    for f in fields:
        if f.name.lower() == b"content-length":
            cl = f.value
            break
    declared = None
    if cl is not None and cl.isdigit() and len(cl) < 25:
        declared = int(cl)
    body = b""
    if declared is not None and declared < 100:
        k = rng.below(10)
        if k < 6:
            body = rand_bytes(rng, declared, b"abc\r\n 0:")
        elif k < 8:
            body = rand_bytes(rng, rng.below(declared + 1), b"abc\r\n")
        else:
            body = rand_bytes(rng, declared + rng.randint(1, 6), b"abc\r\nG")
    elif rng.chance(1, 3):
        body = rand_bytes(rng, rng.below(8), b"abc\r\n 0G")
    stream = start + hb + body
    info = {"start_len": len(line), "term": term, "first_lens": [f.first_len for f in fields],
            "cont_lens": [c for f in fields for c in f.cont_lens], "hdr_end": len(start) + len(hb),
            "declared": declared, "cl": cl, "fields_ok": all(f.ok for f in fields), "line_ok": line_ok}
    return stream, info


def gen_response(rng, good_p=0.75, chunked_p=0.4):
    line, term, line_ok = gen_status_line(rng, good_p=0.5 + good_p / 2)
    start = line + term
    framing = rng.random()
    info = {"framing": "none"}
    if framing < chunked_p:
        te = rng.pick([b"chunked", b"chunked", b"Chunked", b"gzip, chunked", b"foo, bar, chunked", b" chunked ", b"a,b , cHuNkEd", b"chunked, chunked",
                       b"gzip\t, chunked", b"gzip,\t, chunked", b"foo \t,\tbar\t ,\t chunked", b"x\t,chunked"])
        want_cl = False if rng.chance(14, 15) else numeric_value(rng)
        hb, fields = gen_header_block(rng, want_cl=want_cl, want_te=te, good_p=0.9 + good_p / 10)
        if rng.chance(1, 5):
            # a Trailer header announcing fields
            f = gen_field(rng, randcase(rng, b"Trailer"), rng.pick([b"X-T", b"X-T, Host", b"q"]), good_p=1.0, fold_p=0.0)
            hb = f.raw + hb
            fields.insert(0, f)
        body, cinfo = gen_chunked(rng, good_p=0.6 + good_p / 3)
        info = {"framing": "chunked", "chunk": cinfo}
        if rng.chance(1, 3):
            body += rand_bytes(rng, rng.randint(1, 8), b"abc\r\n0H")
    else:
        hb, fields = gen_header_block(rng, good_p=0.9 + good_p / 10)
        cl = None
        for f in fields:
            if f.name.lower() == b"content-length":
                cl = f.value
                break
        body = b""
        if cl is not None and cl.isdigit() and len(cl) < 25 and int(cl) < 100:
            declared = int(cl)
            k = rng.below(10)
            if k < 5:
                body = rand_bytes(rng, declared, b"abc\r\n 0:")
            elif k < 7:
                body = rand_bytes(rng, rng.below(declared + 1), b"abc\r\n")
            else:
                body = rand_bytes(rng, declared + rng.randint(1, 8), b"abc\r\nH")
            info = {"framing": "fixed"}
        else:
            te_listed = any(f.name.lower() == b"transfer-encoding" for f in fields)
            if te_listed and rng.chance(2, 3):
                body, cinfo = gen_chunked(rng)
            elif rng.chance(1, 3):
                body = rand_bytes(rng, rng.below(8), b"abc\r\n 0H")
    stream = start + hb + body
    info.update({"start_len": len(line), "first_lens": [f.first_len for f in fields], "hdr_end": len(start) + len(hb),
                 "fields": fields, "line_ok": line_ok})
    return stream, info


def mutate(rng, s: bytes) -> bytes:
    if not s:
        return s
    k = rng.below(5)
    if k == 0:
        i = rng.below(len(s))
        return s[:i] + rng.pick(STRUCT) + s[i + 1:]
    if k == 1:
        i = rng.below(len(s))
        return s[:i] + s[i + 1:]
    if k == 2:
        i = rng.below(len(s) + 1)
        return s[:i] + rng.pick(STRUCT) + s[i:]
    if k == 3:
        i = rng.below(len(s))
        return s[:i] + s[i:i + 1] + s[i:]
    return s[:rng.below(len(s) + 1)]


# ------------------------------------------------------------------------------------------
# limits and schedules

def around(rng, v):
    k = rng.below(20)
    if k < 2:
        return None
    if k < 4:
        return 1000
    if k < 6:
        return rng.below(3)
    if k == 6:
        return 2 ** 64 - 1 - rng.below(3)      # the largest representable limits (arithmetic on a limit must not wrap)
    return min(2 ** 64 - 1, max(0, v + rng.randint(-2, 2)))


def gen_req_cfg(rng, stream, info):
    """(rl, hl, max) biased to the exact lengths of the constrained elements"""
    k = rng.below(10)
    if k < 3:
        return (1000, 1000, 10_000_000)
    if k == 3:
        return (None, None, None)
    rl = around(rng, info["start_len"]) if rng.chance(2, 3) else 1000
    fl = info["first_lens"] or [2]
    hl = around(rng, rng.pick(fl)) if rng.chance(2, 3) else 1000
    base = rng.pick([len(stream), info["hdr_end"], info["hdr_end"] + (info["declared"] or 0), info["start_len"] + 2])
    mx = around(rng, base) if rng.chance(2, 3) else 10_000_000
    if mx == 1000:
        mx = 10_000_000
    return (rl, hl, mx)


def crlf_cuts(s: bytes):
    """positions between a CR and the following LF"""
    return [i + 1 for i in range(len(s) - 1) if s[i:i + 2] == CRLF]


def line_mid_cuts(s: bytes):
    """positions strictly inside the lines of s (between two line ends), about two thirds into each line"""
    ends = [0] + [i + 2 for i in range(len(s) - 1) if s[i:i + 2] == CRLF] + [len(s)]
    out = []
    for a, b in zip(ends, ends[1:]):
        if b - a >= 4:
            out.append(a + max(2, (2 * (b - a)) // 3))
    return [p for p in out if 0 < p < len(s)]


def cut(s: bytes, points):
    pts = sorted(set(p for p in points if 0 < p < len(s)))
    out, prev = [], 0
    for p in pts:
        out.append(s[prev:p])
        prev = p
    out.append(s[prev:])
    return out


def schedules(rng, s: bytes, n_random=3, max_all=0):
    """a list of delivery lists for stream s (the one-piece schedule is NOT included)"""
    out = []
    if len(s) <= 1:
        return out
    if len(s) <= max_all:
        for mask in range(1, 2 ** (len(s) - 1)):
            out.append(cut(s, [i + 1 for i in range(len(s) - 1) if mask >> i & 1]))
        return out
    out.append([s[i:i + 1] for i in range(len(s))])          # bytewise
    cc = crlf_cuts(s)
    for p in cc[:6]:
        out.append(cut(s, [p]))                               # inside each CRLF
    if cc:
        out.append(cut(s, cc))                                # inside all CRLFs at once
    for _ in range(n_random):
        k = rng.randint(1, 5)
        out.append(cut(s, [rng.randint(1, len(s) - 1) for _ in range(k)]))
    out.append(cut(s, [rng.randint(1, len(s) - 1)]))
    # deliveries without a byte: at the start, between two others, twice in a row, at the end (a call without input changes
    # nothing -- twelfth round: a body collected so far lost, a trailer taken as finished)
    pts = sorted(set([rng.randint(1, len(s) - 1) for _ in range(2)] + ([cc[-1]] if cc else []) + [len(s) - 1]))
    pieces = cut(s, pts)
    withempty = []
    for i2, pc in enumerate(pieces):
        withempty.append(pc)
        withempty.append(b"")
        if i2 % 2:
            withempty.append(b"")
    out.append(([b""] if rng.chance(1, 2) else []) + withempty)
    # one cut in the middle of a line (state kept while a line is incomplete must not leak into later lines)
    mids = line_mid_cuts(s)
    if mids:
        rng.shuffle(mids)
        for p in mids[:3]:
            out.append(cut(s, [p]))
    return out


def dfield(ds):
    return "|".join(hx(d) for d in ds)


DEFAULT_REQ_CFG = (1000, 1000, 10_000_000)     # what Request::new() / Request::default() set (C08: "defaults")


def _lim_tokens(vals, defaults, key):
    """Spell the limit fields of an op line.  A field whose value is the constructor's default is, for some ops
    (chosen by a hash of the deliveries, so the choice is stable), written `d` = the harness leaves the field as the
    constructor made it; and for some ops the object is made by `Default::default()` instead of `new()` (leading `D`).
    The model is told the same spelling and answers for the documented defaults, so defaults that drift, or a
    constructor path that differs from the other, show up as a disagreement on ordinary inputs."""
    h = zlib.crc32(key.encode()) if isinstance(key, str) else zlib.crc32(key)
    toks = []
    for i, (v, d) in enumerate(zip(vals, defaults)):
        if isinstance(v, str):
            toks.append(v)
        elif v == d and (h >> (2 * i)) & 3 != 0:
            toks.append("d")
        else:
            toks.append(opt(v))
    if (h >> 8) & 3 == 0:           # a quarter of the ops: Default::default()
        toks = [("D" if t == "d" else "D" + t) if not t.startswith("D") else t for t in toks]
    return toks


def req_op(tree, ov, cfg, ds, op="REQ"):
    df = dfield(ds)
    t = _lim_tokens(cfg, DEFAULT_REQ_CFG, df) if tree == 1 else [opt(c) for c in cfg]
    return "%s %d %d %s %s %s %s" % (op, tree, ov, t[0], t[1], t[2], df)


def resp_op(tree, ov, hl, ds, op="RESP"):
    df = dfield(ds)
    t = _lim_tokens((hl,), (None,), df) if tree == 1 else [opt(hl)]
    return "%s %d %d %s %s" % (op, tree, ov, t[0], df)
