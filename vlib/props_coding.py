"""Properties about content and text decoding: C13 C14 C15 C16."""
import gzip
import hashlib
import re
import struct
import zlib

from . import gen
from .common import Rng, hx, unhex, strip_ann, hdrs_field, parse_hdrs_out
from .core import Group, Failure, proj_full
from .props_parse import n_for

# ------------------------------------------------------------------------------------------
# encoders (independent of flate2 / miniz: CPython's zlib, plus hand-rolled containers)


def raw_deflate(data, level=6, strategy=zlib.Z_DEFAULT_STRATEGY, flush_points=()):
    c = zlib.compressobj(level, zlib.DEFLATED, -15, 9, strategy)
    out = b""
    pos = 0
    for p, mode in flush_points:
        out += c.compress(data[pos:p])
        out += c.flush(mode)
        pos = p
    out += c.compress(data[pos:])
    return out + c.flush()


def stored_deflate(data, piece=65535, pad_bits=0):
    """RFC 1951 stored blocks only (hand-rolled; block structure no library emits: arbitrary piece sizes, empty blocks)"""
    out = b""
    piece = max(1, min(piece, 65535))       # a stored block holds at most 65535 bytes
    pieces = [data[i:i + piece] for i in range(0, len(data), piece)] or [b""]
    for i, p in enumerate(pieces):
        final = 1 if i == len(pieces) - 1 else 0
        out += bytes([final | (pad_bits & 0xF8)]) + struct.pack("<HH", len(p), len(p) ^ 0xFFFF) + p
    return out


def gzip_wrap(deflated, data, mtime=0, xfl=0, os_=255, name=None, comment=None, extra=None, hcrc=False, text=False):
    flg = (1 if text else 0) | (2 if hcrc else 0) | (4 if extra is not None else 0) | (8 if name is not None else 0) | (16 if comment is not None else 0)
    h = b"\x1f\x8b\x08" + bytes([flg]) + struct.pack("<I", mtime) + bytes([xfl, os_])
    if extra is not None:
        h += struct.pack("<H", len(extra)) + extra
    if name is not None:
        h += name + b"\x00"
    if comment is not None:
        h += comment + b"\x00"
    if hcrc:
        h += struct.pack("<H", zlib.crc32(h) & 0xFFFF)
    return h + deflated + struct.pack("<II", zlib.crc32(data) & 0xFFFFFFFF, len(data) & 0xFFFFFFFF), len(h)


def zlib_wrap(deflated, data, cmf=0x78, flevel=2):
    flg = flevel << 6
    flg += (31 - (cmf * 256 + flg) % 31) % 31
    return bytes([cmf, flg]) + deflated + struct.pack(">I", zlib.adler32(data) & 0xFFFFFFFF)


def blocks_desc(raw):
    """the description of a raw DEFLATE stream as the driver's BLOCKS op reads it (tools/deflate_blocks.py recovers the
    blocks: kinds, table headers, code-length symbols, literal / match symbols with their extra bits)"""
    import os
    import sys
    sys.path.insert(0, os.path.join(os.path.dirname(os.path.dirname(os.path.abspath(__file__))), "tools"))
    from deflate_blocks import parse

    def toks(ts):
        return ";".join("l%d" % t[1] if t[0] == "lit" else "m%d.%d.%d.%d" % t[1:] for t in ts) or "."
    out = []
    for b in parse(raw):
        if b[0] == "stored":
            out.append("S:" + (b[1].hex() or "."))
        elif b[0] == "fixed":
            out.append("F:" + toks(b[1]))
        else:
            hlit, hdist, hclen, clv, cls, lens = b[1]
            c = ";".join({"len": "n", "rep": "r", "z3": "z", "z11": "Z"}[k] + str(v) for k, v in cls)
            out.append("D:%d,%d,%d:%s:%s:%s:%s" % (hlit, hdist, hclen, ";".join(map(str, clv)), c, ";".join(map(str, lens)), toks(b[2])))
    return "/".join(out)


def zlib_lookalike(rng):
    """a bare RFC 1951 stream whose first two bytes pass the zlib header test (CM = 8, multiple of 31): a stored block
    with non-zero padding bits in its header byte and a LEN whose low byte completes the check.  coding.rs (after
    repair F6) takes it for zlib and refuses it; what matters is that nothing else happens (no fallback that returns
    other bytes).  returns (stream, the payload a bare-deflate reading would give)"""
    first = rng.pick([0x08, 0x18, 0x28, 0x38, 0x48, 0x58, 0x68, 0x78])          # BFINAL = 0, BTYPE = 00, padding bits = CINFO
    lo = [b for b in range(256) if (first * 256 + b) % 31 == 0 and not b & 0x20]
    l0 = rng.pick(lo)
    d2 = rand_body(rng)
    if rng.chance(1, 2):
        # ... and whose continuation, read as zlib, is itself a stored block (LEN high byte 0 = a block header, the first
        # payload bytes complete that block's NLEN): the zlib reading produces output before it runs out of input
        ln = l0
        d1 = (bytes([l0, 0]) + gen.rand_bytes(rng, max(0, l0 - 2)))[:l0]
        d2 = d2 + b"xy"
        tail = stored_deflate(d2, max(1, len(d2) // 2)) if l0 == 1 else rng.pick([lambda x: stored_deflate(x, 65535), lambda x: raw_deflate(x, rng.below(10))])(d2)
    else:
        ln = l0 + 256 * rng.pick([0, 0, 0, 1, 2])
        d1 = gen.rand_bytes(rng, ln)
        tail = rng.pick([lambda x: stored_deflate(x, 65535), lambda x: raw_deflate(x, rng.below(10))])(d2)
    return bytes([first]) + struct.pack("<HH", ln, ln ^ 0xFFFF) + d1 + tail, d1 + d2


def lookalike_body(rng):
    """content that itself looks like something the library handles: a complete gzip member, zlib or bare deflate stream, a
    chunked body, an HTTP message, magic numbers alone — a coding is undone as often as it is listed, never once more
    because of what the decoded bytes look like (eighth round: gzip decoded a second time when the result started `1F 8B 08`)"""
    inner = rng.pick([b"inner file contents, 49 bytes long, not ASCII: \xff\x00", b"", b"x" * 300, gen.rand_bytes(rng, 40)])
    k = rng.below(9)
    if k == 0:
        return gzip.compress(inner)
    if k == 1:
        return zlib.compress(inner)
    if k == 2:
        co = zlib.compressobj(6, zlib.DEFLATED, -15)
        return co.compress(inner) + co.flush()
    if k == 3:
        return gzip.compress(gzip.compress(inner))
    if k == 4:
        return b"5\r\nhello\r\n0\r\n\r\n"
    if k == 5:
        return b"HTTP/1.1 200 OK\r\nContent-Encoding: gzip\r\nContent-Length: 3\r\n\r\nabc"
    if k == 6:
        return rng.pick([b"\x1f\x8b\x08", b"\x1f\x8b\x08\x00", b"\x78\x9c", b"\x78\x01", b"\x1f\x8b\x08\x00\x00\x00\x00\x00\x00\x03"]) + gen.rand_bytes(rng, rng.below(20))
    if k == 7:
        return gzip.compress(inner)[:-4]         # a gzip member cut short, as content
    return zlib.compress(inner) + b"trailing"


def rand_body(rng):
    k = rng.below(13)
    if k == 12:
        return lookalike_body(rng)
    if k == 0:
        return b""
    if k == 1:
        return bytes([rng.below(256)])
    if k < 5:
        return gen.rand_bytes(rng, rng.randint(1, 60))
    if k < 8:
        return (rng.pick([b"ab", b"hello world ", b"\x00", b"abcabcabd"]) * rng.randint(1, 80))[:rng.randint(1, 400)]
    if k < 10:
        return gen.rand_bytes(rng, rng.randint(1, 300), b"the quick brown fox\r\n ")
    if k == 10:
        return gen.rand_bytes(rng, rng.randint(1000, 5000), b"abcdefgh \n")
    return gen.rand_bytes(rng, rng.randint(300, 2500))


def big_body(rng):
    k = rng.below(3)
    if k == 0:
        return gen.rand_bytes(rng, 70000 + rng.below(3000))
    if k == 1:
        return (b"0123456789abcdef" * 5000)[:66000 + rng.below(10000)]
    return gen.rand_bytes(rng, 40000, b"ab") + gen.rand_bytes(rng, 30000)


def encode_layer(rng, kind, data):
    """kind in gzip | zlib | raw  -> (bytes, info)"""
    k = rng.below(10)
    info = {"kind": kind}
    if k < 6:
        level = rng.below(10)
        strategy = rng.pick([zlib.Z_DEFAULT_STRATEGY, zlib.Z_DEFAULT_STRATEGY, zlib.Z_FIXED, zlib.Z_HUFFMAN_ONLY, zlib.Z_RLE, zlib.Z_FILTERED])
        fps = []
        if len(data) > 2 and rng.chance(1, 3):
            pts = sorted(set(rng.randint(0, len(data)) for _ in range(rng.randint(1, 3))))
            fps = [(p, rng.pick([zlib.Z_SYNC_FLUSH, zlib.Z_FULL_FLUSH])) for p in pts]
        d = raw_deflate(data, level, strategy, fps)
        info.update(level=level, strategy=strategy, flushes=len(fps))
    elif k < 8:
        piece = rng.pick([1, 2, 7, 100, 65535, max(1, len(data) // 2 or 1)])
        if len(data) // piece > 3000:
            piece = 65535
        d = stored_deflate(data, piece)
        info.update(level="stored", piece=piece)
    else:
        d = raw_deflate(data, rng.pick([0, 1, 9]))
        info.update(level="edge")
    if kind == "raw":
        return d, info
    if kind == "zlib":
        flevel = rng.below(4)
        return zlib_wrap(d, data, 0x78 if rng.chance(5, 6) else rng.pick([0x08, 0x18, 0x28, 0x38, 0x48, 0x58, 0x68]), flevel), info
    opts = {}
    if rng.chance(1, 3):
        opts["name"] = rng.pick([b"file.txt", b"", "näme".encode("latin-1"), b"a" * 300])
    if rng.chance(1, 4):
        opts["comment"] = rng.pick([b"a comment", b""])
    if rng.chance(1, 4):
        opts["extra"] = rng.pick([b"", b"\x01\x02\x03\x04", b"AB\x02\x00xy"])
    if rng.chance(1, 4):
        opts["hcrc"] = True
    if rng.chance(1, 2):
        opts["mtime"] = rng.pick([0, 1, 0x5F000000, 0xFFFFFFFF])
    opts["xfl"] = rng.pick([0, 2, 4])
    opts["os_"] = rng.pick([0, 3, 255])
    b, hlen = gzip_wrap(d, data, **opts)
    info.update(gz_opts=sorted(opts), hlen=hlen)
    return b, info


TOKEN_OF = {"gzip": b"gzip", "zlib": b"deflate", "raw": b"deflate"}
UNKNOWN_TOKENS = [b"foobar", b"identity", b"x-unknown", b"", b"br", b"a b", b"x-gzip", b"X-GZip", b"x-deflate", b"x-compress", b"x-snappy-framed", b"X-Private-Coding", b"gzipx", b"x-"]


def _dictionary_pools():
    from . import extremes, srcdict
    d = srcdict.load()
    toks = [t for t in d["tokens"] if b"," not in t and b"\r" not in t and b"\n" not in t]
    names = sorted(set(extremes.HEADERS_OF_INTEREST) | set(d["names"]))
    unknown = [t for t in toks if t.lower() not in (b"gzip", b"deflate") and b" " not in t]
    pairs = [(h, t) for h in names for t in toks if h.lower() not in (b"content-encoding", b"content-length")]
    return unknown, pairs, toks


DICT_UNKNOWN, DICT_PAIRS, DICT_TOKENS = _dictionary_pools()
UNKNOWN_TOKENS = UNKNOWN_TOKENS + [t for t in DICT_UNKNOWN if t not in UNKNOWN_TOKENS]
# names that a Unicode case mapping would turn into a coding name (dotless / dotted i, fl ligature, full-width letters): unknown
UNKNOWN_TOKENS = UNKNOWN_TOKENS + ["gz\u0131p".encode(), "GZ\u0130P".encode(), "de\ufb02ate".encode(), "DE\ufb02ATE".encode(), "\uff47zip".encode(), "g\u200bzip".encode()]


UNI_WS = ["\u00a0", "\u2003", "\u3000", "\u0085", "\u000b", "\u000c", "\u2028", "\u1680"]


def spell(rng, tok):
    """a coding name as a sender may write it: any letter case, optional white space around it — `header_tokens` trims with
    `str::trim`, i.e. Unicode white space (only a caller who fills the header list by hand can put non-ASCII there)"""
    if rng.chance(1, 12):
        return rng.pick(UNI_WS + [""]).encode() + gen.randcase(rng, tok) + rng.pick(UNI_WS).encode()
    return rng.pick([b"", b" ", b"\t", b"  "]) + gen.randcase(rng, tok) + rng.pick([b"", b" ", b"\t"])


def raw_ambiguous(b):
    """a bare deflate stream whose first two bytes look like a zlib header (the decidable side condition of F6)"""
    return len(b) >= 2 and (b[0] & 0x0F) == 8 and (b[0] * 256 + b[1]) % 31 == 0


def gen_decode_case(rng, depth=None, unknown_p=0.3, big_p=0.0, split_p=0.25, corrupt_p=0.0):
    """-> (headers, coded body, info)"""
    data = big_body(rng) if rng.random() < big_p else rand_body(rng)
    depth = rng.pick([0, 1, 1, 1, 2, 2, 3]) if depth is None else depth
    body = data
    toks = []          # (token bytes, known?)
    stages = [data]    # stages[i] = body after i layers
    layers = []
    prefix_unknown = []
    if rng.random() < unknown_p:
        for _ in range(rng.randint(1, 2)):
            prefix_unknown.append(rng.pick(UNKNOWN_TOKENS))
    for i in range(depth):
        kind = rng.pick(["gzip", "gzip", "zlib", "raw"])
        enc, linfo = encode_layer(rng, kind, body)
        if kind == "raw" and raw_ambiguous(enc):
            kind = "zlib"
            enc, linfo = encode_layer(rng, kind, body)
        body = enc
        layers.append(linfo)
        toks.append(TOKEN_OF[kind])
        stages.append(body)
    all_toks = prefix_unknown + toks
    # an unknown token in the middle: decoding stops there
    stop_at = 0       # number of layers (from the outside) that can be undone
    mid_unknown = None
    if depth >= 1 and rng.random() < unknown_p / 2:
        j = rng.randint(1, depth)     # insert before the j-th layer counting from the end
        mid_unknown = len(prefix_unknown) + depth - j + (0)
        all_toks = all_toks[:len(prefix_unknown) + depth - j + 1] + [rng.pick(UNKNOWN_TOKENS[:3])] + all_toks[len(prefix_unknown) + depth - j + 1:]
    # expected: walk from the end while tokens are known
    undone = 0
    keep = list(all_toks)
    while keep and rust_trim(keep[-1]).lower() in (b"gzip", b"deflate"):
        keep.pop()
        undone += 1
    # an empty *last* token is dropped by split_terminator
    expected_out = stages[depth - undone] if undone <= depth else None
    hs = []
    if rng.chance(1, 2):
        hs.append((b"X-Before", b"1"))
    spelled = [spell(rng, t) for t in all_toks]
    if all_toks or rng.chance(1, 4):
        if len(spelled) > 1 and rng.random() < split_p:
            c = rng.randint(1, len(spelled) - 1)
            hs.append((gen.randcase(rng, b"Content-Encoding"), b",".join(spelled[:c]).strip(b" \t")))
            if rng.chance(1, 2):
                hs.append((b"X-Mid", b"2"))
            hs.append((gen.randcase(rng, b"Content-Encoding"), b",".join(spelled[c:]).strip(b" \t")))
        else:
            hs.append((gen.randcase(rng, b"Content-Encoding"), b",".join(spelled).strip(b" \t")))
    for _ in range(rng.below(3) if rng.chance(1, 2) else 0):
        hs.insert(rng.below(len(hs) + 1), (gen.randcase(rng, b"Content-Length"), rng.pick([b"999", b"0", str(len(body)).encode()])))
    if rng.chance(1, 2):
        hs.append((b"X-After", b"3"))
    for _ in range(rng.below(3) if rng.chance(1, 2) else 0):
        hs.insert(rng.below(len(hs) + 1), rng.pick(DICT_PAIRS) if DICT_PAIRS and rng.chance(1, 3) else rng.pick([(b"Transfer-Encoding", b"foobar"), (b"Transfer-Encoding", b"chunked"), (b"Content-Type", b"text/plain"),
                                                     (b"Trailer", b"X-T"), (b"Content-MD5", b"abc=="), (b"Host", b"h"), (b"Content-Range", b"bytes 0-1/2"),
                                                     (b"content-type", b"application/gzip"), (b"Vary", b"Accept-Encoding"), (b"ETag", b"\"x\"")]))
    info = {"data": data, "depth": depth, "layers": layers, "all_toks": all_toks, "keep": keep, "undone": undone,
            "expected_out": expected_out, "corrupt": False, "stages": stages}
    if rng.random() < corrupt_p and depth >= 1:
        # corrupt an inner layer under a good outer one (or the only layer)
        j = rng.randint(1, depth)
        inner = bytearray(stages[j])
        if inner:
            inner = inner[:rng.below(len(inner))]       # truncation always damages
        b2 = bytes(inner)
        ok = True
        for li in range(j, depth):
            # re-encode the outer layers around the damaged inner one
            kind = {"gzip": "gzip", "zlib": "zlib", "raw": "raw"}[layers[li]["kind"]]
            b2, _ = encode_layer(rng, kind, b2)
            if kind == "raw" and raw_ambiguous(b2):
                ok = False
        if ok and undone >= depth - j + 1:
            body = b2
            info["corrupt"] = True
            info["expected_out"] = None
    return hs, body, info


def py_tokens(values):
    out = []
    for v in values:
        parts = v.split(b",")
        if parts and parts[-1] == b"":
            parts = parts[:-1]
        out += [rust_trim(p).lower() for p in parts]       # `str::trim` (Unicode white space), then to_ascii_lowercase
    return out


def decode_postconditions(group, i, hs, body, out):
    """C14's contract checked from the header list given, the body given and the textual result"""
    fails = []
    ce_vals = [v for k, v in hs if k.lower() == b"content-encoding"]
    toks = py_tokens(ce_vals)
    keep = list(toks)
    while keep and keep[-1] in (b"gzip", b"deflate"):
        keep.pop()
    if out.startswith("ERR"):
        after = parse_hdrs_out(out.split(" | h=", 1)[1]) if " | h=" in out else None
        if after != hs:
            fails.append(Failure(group, "failure-atomic", "decode_body failed but the headers were changed", [i]))
        return fails, None
    if not out.startswith("OK "):
        fails.append(Failure(group, "decode", "unexpected result %s" % out[:40], [i]))
        return fails, None
    left, h = out.split(" | h=", 1)
    result = unhex(left[3:])
    after = parse_hdrs_out(h)
    ce_after = [v for k, v in after if k.lower() == b"content-encoding"]
    if keep:
        # an empty token is not a coding: it stops the decoding like any unrecognised token, but `split_terminator`
        # does not give it back when the re-joined value is read again; compare the non-empty tokens
        if len(ce_after) != 1 or [t for t in py_tokens(ce_after) if t] != [t for t in keep if t]:
            fails.append(Failure(group, "content-encoding", "Content-Encoding after decoding is %r, the codings not undone are %r" % (ce_after, keep), [i]))
    elif ce_after:
        fails.append(Failure(group, "content-encoding", "Content-Encoding still present although every coding was undone", [i]))
    cl_after = [v for k, v in after if k.lower() == b"content-length"]
    if cl_after != [str(len(result)).encode()]:
        fails.append(Failure(group, "content-length", "Content-Length after decoding is %r, body length %d" % (cl_after, len(result)), [i]))
    others_before = [(k, v) for k, v in hs if k.lower() not in (b"content-encoding", b"content-length")]
    others_after = [(k, v) for k, v in after if k.lower() not in (b"content-encoding", b"content-length")]
    if others_before != others_after:
        fails.append(Failure(group, "other-headers", "a header other than Content-Encoding / Content-Length changed", [i]))
    if len(keep) == len(toks) and result != body:
        fails.append(Failure(group, "bytes-unchanged", "nothing was undone but the bytes changed", [i]))
    return fails, result


class C13:
    pid = "C13"
    profiles = ["dev"]
    uses_model = True

    @staticmethod
    def projection(res):
        # C13 is about the returned body only (§4.3); the header contract is C14's
        return strip_ann(res).split(" | h=")[0]

    @staticmethod
    def generate(rng, tier, tree, ov):
        groups = []
        n = n_for(tier, 1500, 30000)
        for k in range(n):
            hs, body, info = gen_decode_case(rng, unknown_p=0.0, big_p=0.01 if tier == "quick" else 0.03, split_p=0.2)
            g = Group("d%d" % k, "stack-%d" % info["depth"], {"headers": [[a.hex(), b.hex()] for a, b in hs], "data": info["data"].hex() if len(info["data"]) < 3000 else None,
                                                               "data_len": len(info["data"]), "data_crc": zlib.crc32(info["data"]), "layers": [str(l) for l in info["layers"]]})
            g.add("decode", "DECODE %d %s %s" % (tree, hdrs_field(hs), hx(body)))
            groups.append(g)
        # bodies just above 10 000 000 bytes (the crate's documented default message size limit) and above 2^24:
        # decoded by the implementation only (the model is not run on 20 MB of hex); oracle = length and CRC-32
        from . import srcdict
        lits = [v + d for v in srcdict.load()["big"] for d in (-1, 0, 1, 100_000)]
        for j, size in enumerate(lits):
            data = bytes(size)
            kind = ("gzip", "zlib", "raw")[j % 3]
            d = raw_deflate(data, 6)
            enc = d if kind == "raw" else (zlib_wrap(d, data) if kind == "zlib" else gzip_wrap(d, data)[0])
            hsr = [(b"Content-Encoding", TOKEN_OF[kind])]
            g = Group("lit%d" % j, "huge-literal", {"headers": [[a.hex(), b.hex()] for a, b in hsr], "data": None, "data_len": len(data), "data_crc": zlib.crc32(data),
                                                  "layers": ["%s of %d zero bytes (a literal of the source +- 1)" % (kind, size)]})
            g.add("decode", "DECODE %d %s %s" % (tree, hdrs_field(hsr), hx(enc)), {"nocmp": True})
            groups.append(g)
        for j, (kind, level) in enumerate([("gzip", 6), ("zlib", 9), ("raw", 9), ("gzip", 9)]):
            data = bytes(8_000_000) if j < 3 else bytes(16_877_216)
            d = raw_deflate(data, level)
            enc = d if kind == "raw" else (zlib_wrap(d, data) if kind == "zlib" else gzip_wrap(d, data)[0])
            hsr = [(b"Content-Encoding", TOKEN_OF[kind])]
            g = Group("ratio%d" % j, "huge-ratio", {"headers": [[a.hex(), b.hex()] for a, b in hsr], "data": None, "data_len": len(data), "data_crc": zlib.crc32(data),
                                                  "layers": ["%s level %d of %d zero bytes (%d:1)" % (kind, level, len(data), len(data) // max(1, len(enc)))]})
            g.add("decode", "DECODE %d %s %s" % (tree, hdrs_field(hsr), hx(enc)), {"nocmp": True})
            groups.append(g)
        for j, (size, kinds) in enumerate([(10_000_001, ["gzip"]), (10_000_001, ["zlib"]), (10_000_001, ["raw", "gzip"])] if tier == "quick" else
                                          [(10_000_001, ["gzip"]), (10_000_001, ["zlib"]), (10_000_001, ["raw", "gzip"]), (16_777_217, ["gzip", "zlib"]), (10_000_000, ["raw"])]):
            data = (b"0123456789abcdef" * 4096)[:65521] * (size // 65521 + 1)
            data = data[:size]
            enc = data
            for kd in kinds:
                d = raw_deflate(enc, 6)
                enc = d if kd == "raw" else (zlib_wrap(d, enc) if kd == "zlib" else gzip_wrap(d, enc)[0])
            hs = [(b"Content-Encoding", b", ".join(TOKEN_OF[kd] for kd in kinds))]
            g = Group("big%d" % j, "huge-body", {"headers": [[a.hex(), b.hex()] for a, b in hs], "data": None, "data_len": len(data), "data_crc": zlib.crc32(data), "layers": ["%s of %d bytes" % ("+".join(kinds), size)]})
            g.add("decode", "DECODE %d %s %s" % (tree, hdrs_field(hs), hx(enc)), {"nocmp": True})
            groups.append(g)
        # every level x every strategy on one body, each container
        base = b"Hello, hello, hello world! " * 20 + gen.rand_bytes(rng, 64)
        k = 0
        for kind in ("gzip", "zlib", "raw"):
            for level in range(10):
                for strategy in (zlib.Z_DEFAULT_STRATEGY, zlib.Z_FIXED, zlib.Z_HUFFMAN_ONLY, zlib.Z_RLE):
                    d = raw_deflate(base, level, strategy)
                    enc = d if kind == "raw" else (zlib_wrap(d, base) if kind == "zlib" else gzip_wrap(d, base)[0])
                    g = Group("lv%d" % k, "levels", {"headers": [[b"Content-Encoding".hex(), TOKEN_OF[kind].hex()]], "data": base.hex(), "data_len": len(base), "data_crc": zlib.crc32(base), "layers": ["%s level %d strategy %d" % (kind, level, strategy)]})
                    g.add("decode", "DECODE %d %s %s" % (tree, hdrs_field([(b"Content-Encoding", TOKEN_OF[kind])]), hx(enc)))
                    groups.append(g)
                    k += 1
        # the decoder's 32 KiB window: highly repetitive bodies whose length is just around a multiple of 32768, every
        # container, levels 1..9 (the inflater hands its output over in window-sized pieces; a short piece is not the end)
        sizes = [32767, 32768, 32769, 32800, 33027, 65535, 65536, 65537, 98304, 98305, 98400] if tier == "quick" else \
                [32768 * m + d for m in (1, 2, 3, 4, 5) for d in (-1, 0, 1, 2, 32, 258, 259)]
        for j, size in enumerate(sizes):
            unit = rng.pick([b"a", b"ab", b"\x00", b"abc"])
            data = (unit * (size // len(unit) + 1))[:size]
            for kind in ("raw", "zlib", "gzip"):
                level = rng.randint(1, 9)
                d = raw_deflate(data, level)
                enc = d if kind == "raw" else (zlib_wrap(d, data) if kind == "zlib" else gzip_wrap(d, data)[0])
                hsw = [(b"Content-Encoding", TOKEN_OF[kind])]
                g = Group("w%d%s" % (j, kind), "window-wrap", {"headers": [[a.hex(), b.hex()] for a, b in hsw], "data": None, "data_len": len(data), "data_crc": zlib.crc32(data),
                                                              "layers": ["%s level %d, %d x %r" % (kind, level, size, unit)]})
                g.add("decode", "DECODE %d %s %s" % (tree, hdrs_field(hsw), hx(enc)))
                groups.append(g)
        # decoded lengths at and around powers of two and ten, every container, several kinds of content; deep stacks;
        # many Content-Encoding fields
        sweep = []
        for L in sorted(set(v + d for v in (256, 512, 1024, 4096, 8192, 16384, 32768, 65536, 131072, 262144, 1048576, 100000) for d in (-1, 0, 1))):
            for content in ("zeros", "text", "random"):
                sweep.append((L, content))
        for j, (L, content) in enumerate(sweep if tier != "quick" else rng.sample(sweep, 24)):
            data = bytes(L) if content == "zeros" else (b"the quick brown fox jumps over the lazy dog\n" * (L // 44 + 1))[:L] if content == "text" else gen.rand_bytes(rng, L)
            kind = rng.pick(["gzip", "zlib", "raw"])
            level = rng.below(10)
            d = raw_deflate(data, level)
            enc = d if kind == "raw" else (zlib_wrap(d, data) if kind == "zlib" else gzip_wrap(d, data)[0])
            hss = [(b"Content-Encoding", TOKEN_OF[kind])]
            g = Group("sz%d" % j, "size-sweep", {"headers": [[a.hex(), b.hex()] for a, b in hss], "data": None, "data_len": len(data), "data_crc": zlib.crc32(data), "layers": ["%s level %d, %d bytes of %s" % (kind, level, L, content)]})
            g.add("decode", "DECODE %d %s %s" % (tree, hdrs_field(hss), hx(enc)), {"nocmp": L > 140000 or (L > 70000 and content == "random")})
            groups.append(g)
        for j, depth in enumerate([5, 8, 10, 12, 16] if tier == "quick" else [5, 8, 10, 12, 16, 24, 32]):
            data = rng.pick([b"", b"x", b"hello world " * 20, gen.rand_bytes(rng, 300)])
            kinds = [rng.pick(["gzip", "zlib", "raw"]) for _ in range(depth)]
            enc = data
            for kd in kinds:
                d = raw_deflate(enc, rng.below(10))
                enc = d if kd == "raw" else (zlib_wrap(d, enc) if kd == "zlib" else gzip_wrap(d, enc)[0])
            toks = [TOKEN_OF[kd] for kd in kinds]
            for fields in (1, depth):
                if fields == 1:
                    hss = [(b"Content-Encoding", b", ".join(toks))]
                else:
                    hss = [(gen.randcase(rng, b"Content-Encoding"), t) for t in toks]
                g = Group("dp%d_%d" % (j, fields), "deep-stack", {"headers": [[a.hex(), b.hex()] for a, b in hss], "data": data.hex(), "data_len": len(data), "data_crc": zlib.crc32(data), "layers": ["%d layers in %d field(s): %s" % (depth, fields, "+".join(kinds))]})
                g.add("decode", "DECODE %d %s %s" % (tree, hdrs_field(hss), hx(enc)))
                groups.append(g)
        # the encoder specification of the C13 theorems, measured on real streams: the block description recovered from
        # zlib's output (every level, strategy, flush pattern; hand-rolled stored streams too) must satisfy Block.Ok,
        # re-encode to zlib's bytes bit for bit, and expand to the data -- asked of the model's compiled definitions;
        # the same stream is inflated by the implementation and by the model
        for j in range(n_for(tier, 300, 6000)):
            data = rand_body(rng) if rng.chance(9, 10) else gen.rand_bytes(rng, rng.randint(3000, 9000), b"abcdefghijklmnop \n")
            raw, info = encode_layer(rng, "raw", data)
            g = Group("es%d" % j, "encoder-spec", {"headers": [[b"Content-Encoding".hex(), b"deflate".hex()]], "data": data.hex() if len(data) < 3000 else None, "data_len": len(data),
                                                   "data_crc": zlib.crc32(data), "raw": raw.hex() if len(raw) < 3000 else None, "raw_crc": zlib.crc32(raw), "raw_len": len(raw), "layers": [str(info)]})
            g.add("inflate", "FL %s" % hx(raw))
            g.add("blocks", "BLOCKS %s" % blocks_desc(raw), {"modelonly": True})
            groups.append(g)
        # bare streams that look like zlib (coding.rs sniffs the first two bytes): refused, and nothing else
        for j in range(n_for(tier, 60, 1500)):
            enc, payload = zlib_lookalike(rng)
            hsl = [(b"Content-Encoding", b"deflate")]
            g = Group("la%d" % j, "zlib-lookalike", {"headers": [[a.hex(), b.hex()] for a, b in hsl], "data": None, "data_len": len(payload), "data_crc": zlib.crc32(payload), "layers": ["bare deflate starting %s" % enc[:2].hex()]})
            g.add("decode", "DECODE %d %s %s" % (tree, hdrs_field(hsl), hx(enc)))
            groups.append(g)
        # gzip bodies of several members, as `cat a.gz b.gz`, pigz and some servers write them (implementation only)
        for k2 in range(n_for(tier, 12, 300)):
            parts = [rand_body(rng)[:200] for _ in range(rng.randint(2, 3))]
            enc = b"".join(gzip.compress(p0, rng.pick([0, 1, 6, 9])) for p0 in parts)
            g = Group("mm%d" % k2, "gzip-multi-member", {"data": b"".join(parts).hex(), "a": parts[0].hex(), "members": len(parts)})
            g.add("decode", "DECODE %d %s %s" % (tree, hdrs_field([(b"Content-Encoding", rng.pick([b"gzip", b"GZIP"]))]), hx(enc)), {"nocmp": True})
            groups.append(g)
        return groups

    @staticmethod
    def oracle(group, res, model=None):
        fails = []
        if group.kind == "gzip-multi-member":
            out = strip_ann(res[group.tag(0)]).split(" | h=")[0].strip()
            want = "OK " + group.meta["data"] if group.meta["data"] else "OK"
            if out != want:
                fails.append(Failure(group, "multi-member", "a gzip body of %d members (RFC 1952 section 2.2) is not decoded to the concatenation of their contents: `%s`" % (group.meta["members"], out[:40]), [0]))
            return fails
        if group.kind == "zlib-lookalike":
            # refusal is what repair F6 made the code do (correspondence says so); if it ever answers, the only right
            # answer is the payload of the bare-deflate reading
            out = strip_ann(res[group.tag(0)])
            if out == "OK" or out.startswith("OK "):
                got = unhex(out.split(" | h=", 1)[0][3:] or ".")
                if len(got) != group.meta["data_len"] or zlib.crc32(got) != group.meta["data_crc"]:
                    fails.append(Failure(group, "inverse", "a bare deflate stream that looks like zlib is answered with bytes that are not its content (%d bytes instead of %d)" % (len(got), group.meta["data_len"]), [0]))
            return fails
        if group.kind == "encoder-spec":
            out = strip_ann(res[group.tag(0)])
            got = unhex(out[3:] or ".") if (out == "OK" or out.startswith("OK ")) else None
            if got is None or len(got) != group.meta["data_len"] or zlib.crc32(got) != group.meta["data_crc"]:
                fails.append(Failure(group, "inverse", "a bare deflate stream written by zlib (%s) is not inflated to the data: %s" % (group.meta["layers"][0][:120], out[:30]), [0]))
            mo = (model or {}).get(group.tag(1), "")
            f = dict(x.split("=", 1) for x in mo.split(" ") if "=" in x)
            bits, exp = f.get("bits", "?"), f.get("out", "?")
            bits = "" if bits == "." else bits
            exp = "" if exp == "." else exp
            try:
                ok = f.get("ok") == "1" and len(bits) == 2 * group.meta["raw_len"] and zlib.crc32(bytes.fromhex(bits)) == group.meta["raw_crc"] and \
                    len(exp) == 2 * group.meta["data_len"] and zlib.crc32(bytes.fromhex(exp)) == group.meta["data_crc"]
            except ValueError:
                ok = False
            if not ok:
                fails.append(Failure(group, "encoder-spec", "the block description of a zlib stream (%s) is outside the theorem's hypothesis class: Block.Ok=%s, re-encoding %s, expansion %s" % (
                    group.meta["layers"][0][:100], f.get("ok"), "equal" if bits == (group.meta.get("raw") or bits) else "differs", "equal" if exp == (group.meta.get("data") or exp) else "differs"), [1]))
            return fails
        out = strip_ann(res[group.tag(0)])
        if not out.startswith("OK "):
            fails.append(Failure(group, "inverse", "a correctly coded body (%s) is not decoded: %s" % ("; ".join(group.meta["layers"])[:200], out[:30]), [0]))
            return fails
        result = unhex(out.split(" | h=", 1)[0][3:])
        if len(result) != group.meta["data_len"] or zlib.crc32(result) != group.meta["data_crc"]:
            fails.append(Failure(group, "inverse", "decode_body returned something other than the original body (%s)" % "; ".join(group.meta["layers"])[:200], [0]))
        return fails

    @staticmethod
    def nontrivial(group, res):
        return group.kind != "stack-0"


class C14:
    pid = "C14"
    profiles = ["dev"]
    projection = staticmethod(proj_full)

    @staticmethod
    def generate(rng, tier, tree, ov):
        groups = []
        n = n_for(tier, 3000, 60000)
        for k in range(n):
            hs, body, info = gen_decode_case(rng, unknown_p=0.45, corrupt_p=0.25)
            if rng.chance(1, 10):
                body = gen.mutate(rng, body)
                info["expected_out"] = None
                info["corrupt"] = False     # no longer a pure truncation: arbitrary damage of a bare deflate stream may decode
            eo = info["expected_out"]
            g = Group("h%d" % k, "decode-headers", {"headers": [[a.hex(), b.hex()] for a, b in hs], "body": body.hex() if len(body) < 4000 else None,
                                                     "expected_out": eo.hex() if (eo is not None and len(eo) < 4000) else None, "corrupt": info["corrupt"]})
            g.add("decode", "DECODE %d %s %s" % (tree, hdrs_field(hs), hx(body)))
            groups.append(g)
        # bodies that expand by more than 1000 : 1 (runs of one byte): "returns the bytes unchanged apart from the undone
        # codings" also when a cap derived from the coded length would cut them (ninth round: take(1000 x coded length))
        for k, (fill, size) in enumerate([(b"\x00", 2 << 20), (b"a", 1_100_000), (b"\xff", 3 << 20), (b"ab", 1 << 20)]):
            data = (fill * (size // len(fill) + 1))[:size]
            for kind in ("gzip", "zlib", "raw"):
                if kind == "gzip":
                    enc = gzip.compress(data, 9)
                elif kind == "zlib":
                    enc = zlib.compress(data, 9)
                else:
                    co = zlib.compressobj(9, zlib.DEFLATED, -15)
                    enc = co.compress(data) + co.flush()
                if kind == "raw" and raw_ambiguous(enc):
                    continue
                hs = [(b"Content-Encoding", TOKEN_OF[kind]), (b"Content-Length", str(len(enc)).encode())]
                g = Group("hx%d%s" % (k, kind), "decode-headers", {"headers": [[a.hex(), b.hex()] for a, b in hs], "body": enc.hex(), "expected_out": None,
                                                                  "expected_digest": hashlib.sha256(data).hexdigest(), "expected_len": len(data), "corrupt": False})
                g.add("decode", "DECODE %d %s %s" % (tree, hdrs_field(hs), hx(enc)))
                groups.append(g)
        # bare deflate streams that pass the zlib header test, alone and under / over another coding: whatever
        # decode_body answers, it is the answer of the model (refusal with the headers untouched, after repair F6) --
        # in particular no second attempt with another decoder that returns bytes of both attempts
        for k in range(n_for(tier, 120, 3000)):
            enc, payload = zlib_lookalike(rng)
            toks = [b"deflate"]
            if rng.chance(1, 3):
                enc = gzip_wrap(raw_deflate(enc, rng.below(10)), enc)[0]
                toks.append(b"gzip")
            hs = [(rng.pick([b"Content-Encoding", b"content-encoding"]), b", ".join(toks))]
            if rng.chance(1, 2):
                hs.insert(0, (b"Content-Length", str(len(enc)).encode()))
            g = Group("la%d" % k, "zlib-lookalike", {"headers": [[a.hex(), b.hex()] for a, b in hs], "body": enc.hex() if len(enc) < 4000 else None, "expected_out": payload.hex() if len(payload) < 4000 else None, "corrupt": False})
            g.add("decode", "DECODE %d %s %s" % (tree, hdrs_field(hs), hx(enc)))
            groups.append(g)
        return groups

    @staticmethod
    def oracle(group, res):
        meta = group.meta
        if meta["body"] is None:
            return []
        hs = [(unhex(a), unhex(b)) for a, b in meta["headers"]]
        out = strip_ann(res[group.tag(0)])
        fails, result = decode_postconditions(group, 0, hs, unhex(meta["body"]), out)
        if result is not None and meta["expected_out"] is not None and result != unhex(meta["expected_out"]):
            fails.append(Failure(group, "bytes", "the returned bytes are not the body with exactly the trailing known codings undone", [0]))
        if meta.get("expected_digest"):
            if result is None or hashlib.sha256(result).hexdigest() != meta["expected_digest"]:
                fails.append(Failure(group, "bytes", "the returned bytes (%s) are not the %d bytes that were coded" % ("none" if result is None else "%d bytes" % len(result), meta["expected_len"]), [0]))
        if meta["corrupt"] and out.startswith("OK"):
            fails.append(Failure(group, "corrupt-inner", "an inner layer is truncated yet decode_body succeeded", [0]))
        return fails

    @staticmethod
    def nontrivial(group, res):
        return len(group.meta["headers"]) > 0


class C15:
    pid = "C15"
    profiles = ["dev"]

    @staticmethod
    def projection(res):
        # on arbitrarily damaged deflate data decoders may differ in which malformed tables they tolerate; compare
        # the property-level outcome only: failure, or the content
        s = strip_ann(res)
        return s.split(" | h=")[0]

    @staticmethod
    def generate(rng, tier, tree, ov):
        groups = []
        n = n_for(tier, 120, 4000)
        for k in range(n):
            data = rand_body(rng)
            if len(data) > 600:
                data = data[:600]
            kind = rng.pick(["gzip", "gzip", "zlib", "raw"])
            enc, linfo = encode_layer(rng, kind, data)
            if kind == "raw" and raw_ambiguous(enc):
                continue
            tok = TOKEN_OF[kind]
            hs = [(b"X-A", b"1"), (gen.randcase(rng, b"Content-Encoding"), gen.randcase(rng, tok))]
            if rng.chance(1, 3):
                hs.insert(rng.below(3), rng.pick([(b"Content-Range", b"bytes 0-1/2"), (b"content-range", b"bytes */100"), (b"Content-Type", b"application/gzip"), (b"Content-Type", b"application/x-gzip; x=y"),
                                                  (b"Transfer-Encoding", b"gzip"), (b"Content-Length", b"5"), (b"Vary", b"Accept-Encoding"), (b"Accept-Ranges", b"bytes"), (b"Connection", b"close")]))
            elif rng.chance(1, 2):
                # real-world fields, among them a Content-Range that calls the body the leading part of something longer:
                # a truncated coded body is damaged all the same (eleventh round)
                for f in gen.realistic_fields(rng, rng.randint(0, 2), coded_len=len(enc)):
                    hs.insert(rng.below(len(hs) + 1), f)
            meta = {"kind": kind, "data": data.hex(), "enc": enc.hex(), "layer": str(linfo), "hlen": linfo.get("hlen")}
            g = Group("t%d" % k, "damage-" + kind, meta)
            g.add("intact", "DECODE %d %s %s" % (tree, hdrs_field(hs), hx(enc)))
            cuts = range(len(enc)) if len(enc) <= 80 else sorted(set([0, 1, 2, 3, 9, 10, 11, len(enc) - 1, len(enc) - 2, len(enc) - 4, len(enc) - 5, len(enc) - 8, len(enc) - 9] + [rng.below(len(enc)) for _ in range(40)]))
            marks = [i + 4 for i in range(len(enc) - 4) if enc[i:i + 4] == b"\x00\x00\xff\xff"]       # right behind a flush marker
            for c in sorted(set(list(cuts) + marks)):
                if 0 <= c < len(enc):
                    g.add("truncated", "DECODE %d %s %s" % (tree, hdrs_field(hs), hx(enc[:c])), {"cut": c})
            fields = []
            if kind == "gzip":
                fields = [0, 1] + list(range(len(enc) - 8, len(enc)))
            elif kind == "zlib":
                fields = list(range(len(enc) - 4, len(enc)))
            for pos in fields:
                for v in set([enc[pos] ^ 0x01, enc[pos] ^ 0x80, (enc[pos] + 1) & 0xFF, 0, 0xFF, rng.below(256)]):
                    if v != enc[pos]:
                        g.add("field", "DECODE %d %s %s" % (tree, hdrs_field(hs), hx(enc[:pos] + bytes([v]) + enc[pos + 1:])), {"pos": pos, "v": v})
            if kind != "raw":
                nb = len(enc) * 8
                flips = range(nb) if nb <= 400 else sorted(set(rng.below(nb) for _ in range(n_for(tier, 250, 600))))
                for b in flips:
                    e2 = bytearray(enc)
                    e2[b // 8] ^= 1 << (b % 8)
                    g.add("bitflip", "DECODE %d %s %s" % (tree, hdrs_field(hs), hx(bytes(e2))), {"bit": b})
            # stacked: the damaged stream under an intact outer gzip layer
            if rng.chance(1, 3) and len(enc) > 2:
                c = rng.below(len(enc))
                outer, _ = encode_layer(rng, "gzip", enc[:c])
                g.add("truncated-inner", "DECODE %d %s %s" % (tree, hdrs_field([(b"Content-Encoding", tok + b", gzip")]), hx(outer)), {"cut": c})
            # damage to the inner layer of a stack, the outer layer intact: the inner signature altered, the inner stream cut to
            # nothing / one byte / short of its check (eleventh round: a repeated `gzip` forgiven when the inner bytes did not
            # look like gzip)
            if kind != "raw" and rng.chance(1, 2):
                for okind in ("gzip", "zlib"):
                    inner_variants = [("cut", 0), ("cut", 1), ("cut", 2), ("cut", len(enc) - 1), ("cut", len(enc) - 4)] + [("byte", 0), ("byte", 1)] + ([("byte", len(enc) - 1)] if kind != "raw" else [])
                    for what, pos in inner_variants:
                        if what == "cut":
                            if not (0 <= pos < len(enc)):
                                continue
                            inner = enc[:pos]
                        else:
                            inner = enc[:pos] + bytes([enc[pos] ^ 0x40]) + enc[pos + 1:]
                        outer, _ = encode_layer(rng, okind, inner)
                        # one list, or one field line per layer (twelfth round: repeated identical lines collapsed)
                        ann = [(b"Content-Encoding", tok + b", " + TOKEN_OF[okind])] if rng.chance(1, 2) else [(b"Content-Encoding", tok), (gen.randcase(rng, b"Content-Encoding"), TOKEN_OF[okind])]
                        if what == "cut":
                            g.add("truncated-inner", "DECODE %d %s %s" % (tree, hdrs_field(ann), hx(outer)), {"cut": pos})
                        else:
                            g.add("field", "DECODE %d %s %s" % (tree, hdrs_field(ann), hx(outer)), {"pos": pos, "v": enc[pos] ^ 0x40})
            groups.append(g)
        from . import srcdict
        for k3, size in enumerate(sorted(set(([16_777_216, 16_877_216] if tier == "quick" else [8_388_608, 16_777_216, 16_877_216, 33_554_432]) + [v + d for v in srcdict.load()["big"] for d in (0, 100_000)]))):
            content = bytes(size)
            for kind in ("gzip", "zlib"):
                d = raw_deflate(content, 6)
                enc = gzip_wrap(d, content)[0] if kind == "gzip" else zlib_wrap(d, content)
                hs = [(b"Content-Encoding", TOKEN_OF[kind])]
                g = Group("hg%d%s" % (k3, kind), "damage-huge-" + kind, {"kind": kind, "data": ".", "enc": enc.hex(), "layer": "%s of %d zero bytes" % (kind, size), "hlen": None})
                for c in [len(enc) - 1, len(enc) - 2, len(enc) - 4, len(enc) - 8, len(enc) - 9, len(enc) - 40]:
                    g.add("truncated", "DECODE %d %s %s" % (tree, hdrs_field(hs), hx(enc[:c])), {"cut": c, "nocmp": True})
                for pos in range(len(enc) - (8 if kind == "gzip" else 4), len(enc)):
                    g.add("field", "DECODE %d %s %s" % (tree, hdrs_field(hs), hx(enc[:pos] + bytes([enc[pos] ^ 0x01]) + enc[pos + 1:])), {"pos": pos, "v": enc[pos] ^ 0x01, "nocmp": True})
                groups.append(g)
        # the overlap of the two `deflate` formats: a level-0 zlib stream `78 01 | 01 FE FE 01 01 | content | adler`
        # read as bare deflate is a stored block of 257 bytes followed by whatever content[255..] spells
        for k2 in range(n_for(tier, 1, 6)):
            content = gen.rand_bytes(rng, 255) + b"\x01\x00\x00\xff\xff" + gen.rand_bytes(rng, 65278 - 260, b"abcdefgh \n")
            enc = zlib_wrap(stored_deflate(content, 65278), content, 0x78, 0)
            hs = [(b"Content-Encoding", b"deflate")]
            g = Group("ov%d" % k2, "damage-zlib", {"kind": "zlib", "data": content.hex(), "enc": enc.hex(), "layer": "zlib level 0, one stored block of 0xFEFE bytes that also reads as bare deflate", "hlen": None})
            g.add("intact", "DECODE %d %s %s" % (tree, hdrs_field(hs), hx(enc)))
            for c in [len(enc) - 1, len(enc) - 2, len(enc) - 4, len(enc) - 5, 267, 300, 1000 + rng.below(60000)]:
                g.add("truncated", "DECODE %d %s %s" % (tree, hdrs_field(hs), hx(enc[:c])), {"cut": c})
            for pos in range(len(enc) - 4, len(enc)):
                g.add("field", "DECODE %d %s %s" % (tree, hdrs_field(hs), hx(enc[:pos] + bytes([enc[pos] ^ 0x55]) + enc[pos + 1:])), {"pos": pos, "v": enc[pos] ^ 0x55})
            for _ in range(6):
                b = (270 + rng.below(len(enc) - 280)) * 8 + rng.below(8)
                e2 = bytearray(enc)
                e2[b // 8] ^= 1 << (b % 8)
                g.add("bitflip", "DECODE %d %s %s" % (tree, hdrs_field(hs), hx(bytes(e2))), {"bit": b})
            groups.append(g)
        # a gzip member followed by more: junk, a second member, a damaged or truncated second member.  The crate reads the
        # first member and ignores the rest; RFC 1952 would also allow the concatenation of intact members.  Never
        # acceptable: bytes of a member whose own check fails or that is cut short (tenth round: further members appended
        # while they were being read, kept when their check failed).  Implementation only; the accepted outcomes are the oracle.
        for k in range(n_for(tier, 40, 1000)):
            a = rand_body(rng)[:300] or b"first"
            b2 = (rand_body(rng)[:300] or b"second") + b"!"
            ma, mb = gzip.compress(a), gzip.compress(b2)
            bad_crc = bytearray(mb); bad_crc[-8] ^= 0x01
            bad_len = bytearray(mb); bad_len[-1] ^= 0x40
            bad_data = bytearray(mb); bad_data[len(mb) // 2] ^= 0x10
            variants = [("intact second member", mb, True), ("second member with altered CRC-32", bytes(bad_crc), False), ("second member with altered length", bytes(bad_len), False),
                        ("second member with a flipped data bit", bytes(bad_data), False), ("second member cut short", mb[:rng.randint(11, len(mb) - 1)], False),
                        ("signature of a second member only", b"\x1f\x8b\x08", False), ("junk", b"junk after the member", False)]
            g = Group("mm%d" % k, "gzip-multi-member", {"a": a.hex(), "b": b2.hex(), "variants": [v[0] for v in variants], "intact": [v[2] for v in variants]})
            for what, tail, ok in variants:
                g.add(what, "DECODE %d %s %s" % (tree, hdrs_field([(b"Content-Encoding", b"gzip")]), hx(ma + tail)), {"nocmp": True})
            groups.append(g)
            # the signature of the *first* member damaged, an intact member (or a stored copy of one) further on: nothing of it
            # may come back (twelfth round: decoding started at the first 1F 8B found anywhere in the body)
            g = Group("ms%d" % k, "damage-gzip", {"kind": "gzip", "data": a.hex(), "enc": ma.hex(), "layer": "gzip member with a damaged signature, followed by an intact member", "hlen": None})
            for pos, v in ((0, 0x1e), (1, 0x8a), (0, 0x00), (1, 0x0b)):
                bad = ma[:pos] + bytes([v]) + ma[pos + 1:]
                g.add("field", "DECODE %d %s %s" % (tree, hdrs_field([(b"Content-Encoding", b"gzip")]), hx(bad + mb)), {"pos": pos, "v": v})
                stored_inner = gzip_wrap(stored_deflate(mb, 65535), mb)[0]
                g.add("field", "DECODE %d %s %s" % (tree, hdrs_field([(b"Content-Encoding", b"gzip")]), hx(stored_inner[:pos] + bytes([v]) + stored_inner[pos + 1:])), {"pos": pos, "v": v})
            groups.append(g)
        return groups

    @staticmethod
    def oracle(group, res):
        if group.kind == "gzip-multi-member":
            fails = []
            a, b2 = unhex(group.meta["a"]), unhex(group.meta["b"])
            for i2, what in enumerate(group.meta["variants"]):
                out = strip_ann(res[group.tag(i2)]).split(" | h=")[0]
                # RFC 1952: a gzip file is a series of members; its content is the concatenation of theirs, and damage to any
                # member is damage.  (The crate reads the first member only: known finding KF5 — recognised by the answer
                # being exactly the first member's content.)  Bytes after the last member that are no member are not judged.
                if what == "junk":
                    allowed = ["OK " + hx(a), "ERR"]
                elif group.meta["intact"][i2]:
                    allowed = ["OK " + hx(a + b2)]
                else:
                    allowed = ["ERR"]
                if out.strip() not in [x.strip() for x in allowed]:
                    fails.append(Failure(group, "multi-member", "a gzip member followed by %s is answered with `%s`, expected %s" % (
                        what, out[:40], "both contents" if group.meta["intact"][i2] else "a failure" if what != "junk" else "the content or a failure"), [i2]))
            return fails
        fails = []
        meta = group.meta
        data = unhex(meta["data"])
        enc = unhex(meta["enc"])
        kind = meta["kind"]
        for i, m in enumerate(group.members):
            out = strip_ann(res[group.tag(i)])
            ok = out.startswith("OK ")
            result = unhex(out.split(" | h=", 1)[0][3:]) if ok else None
            if m.role == "intact":
                if not ok or result != data:
                    fails.append(Failure(group, "intact", "the undamaged stream is not decoded to the original", [i]))
            elif m.role in ("truncated", "truncated-inner"):
                if ok:
                    fails.append(Failure(group, "truncation", "a strict truncation (%d of %d bytes) of a %s body is accepted%s" % (m.meta["cut"], len(enc), kind, " (partial body)" if result != data else ""), [i]))
            elif m.role == "field":
                if ok:
                    fails.append(Failure(group, "integrity-field", "%s stream with byte %d altered to %02x is accepted" % (kind, m.meta["pos"], m.meta["v"]), [i]))
            elif m.role == "bitflip":
                e2h = bytearray(enc[:2])
                if m.meta["bit"] < 16:
                    e2h[m.meta["bit"] // 8] ^= 1 << (m.meta["bit"] % 8)
                if kind == "zlib" and m.meta["bit"] < 16 and not raw_ambiguous(bytes(e2h)):
                    # the flip destroys the zlib header: what remains is, for the `deflate` coding, a candidate bare
                    # deflate stream, which stores no checksum to contradict (side condition of repair F6, DESIGN.md §7)
                    continue
                if ok and result != data:
                    # allowed only if the content genuinely matches the checks stored in the (damaged) stream
                    e2 = bytearray(enc)
                    e2[m.meta["bit"] // 8] ^= 1 << (m.meta["bit"] % 8)
                    e2 = bytes(e2)
                    # the check the decoder applied sits where the (damaged) deflate data ended, which need not be
                    # the end of the stream any more (bytes after the first member are ignored): the content is
                    # consistent iff its checksum is stored somewhere in the stream
                    if kind == "gzip":
                        import struct as _s
                        good = _s.pack("<II", zlib.crc32(result) & 0xFFFFFFFF, len(result) & 0xFFFFFFFF) in e2[10:]
                    else:
                        good = (zlib.adler32(result) & 0xFFFFFFFF).to_bytes(4, "big") in e2[2:]
                    if not good:
                        fails.append(Failure(group, "content-check", "bit %d flipped: success with content that contradicts the stored checksum" % m.meta["bit"], [i]))
        return fails

    @staticmethod
    def nontrivial(group, res):
        return True


# ------------------------------------------------------------------------------------------
# text decoding (C16)

WHITE_SPACE = set([0x9, 0xA, 0xB, 0xC, 0xD, 0x20, 0x85, 0xA0, 0x1680, 0x2028, 0x2029, 0x202F, 0x205F, 0x3000] + list(range(0x2000, 0x200B)))
UTF8_LABELS = [b"utf-8", b"utf8", b"unicode-1-1-utf-8", b"unicode11utf8", b"unicode20utf8", b"x-unicode20utf8"]
LATIN1_LABELS = [b"iso-8859-1", b"latin1", b"ascii", b"us-ascii", b"windows-1252", b"cp1252", b"l1", b"iso8859-1", b"iso88591",
                 b"iso_8859-1", b"x-cp1252", b"ansi_x3.4-1968", b"cp819", b"csisolatin1", b"ibm819", b"iso-ir-100", b"iso_8859-1:1987"]
UNKNOWN_LABELS = [b"foo", b"utf-7", b"", b"utf 8", b"x-unknown", b"utf-8x", b"\"utf-8\"", b"utf-8;", b"utf\xc2\xa08", b"iso-8859-99", b"averyveryveryverylonglabelname"]
OTHER_LABELS = [b"shift_jis", b"euc-jp", b"iso-2022-jp", b"big5", b"euc-kr", b"gbk", b"gb18030", b"utf-16le", b"utf-16be", b"utf-16",
                b"iso-8859-2", b"windows-1251", b"koi8-r", b"macintosh", b"x-user-defined", b"iso-8859-15", b"ibm866", b"replacement", b"iso-8859-8-i", b"x-mac-cyrillic"]
W1252_HIGH = [0x20AC, 0x81, 0x201A, 0x192, 0x201E, 0x2026, 0x2020, 0x2021, 0x2C6, 0x2030, 0x160, 0x2039, 0x152, 0x8D, 0x17D, 0x8F,
              0x90, 0x2018, 0x2019, 0x201C, 0x201D, 0x2022, 0x2013, 0x2014, 0x2DC, 0x2122, 0x161, 0x203A, 0x153, 0x9D, 0x17E, 0x178]

INVALID_UTF8 = [b"\xc0\xaf", b"\xe0\x80\xaf", b"\xed\xa0\x80", b"\xf4\x90\x80\x80", b"\xe2\x82", b"\x80", b"\xff", b"\xf8\x88\x80\x80\x80", b"a\xc3", b"\xc3(", b"\xf0\x9f\x98"]
BOMS = [b"\xef\xbb\xbf", b"\xff\xfe", b"\xfe\xff", b"\xef\xbb", b"\xff", b"\xfe", b"\x00\x00\xfe\xff", b"\x2b\x2f\x76"]
VALID_UTF8 = [b"", b"abc", "héllo".encode(), "€".encode(), "\U0001F600".encode(), "�".encode(), b"\x00", "ä".encode(), "퟿".encode(), "\U0010FFFF".encode()]


def rust_trim(b):
    s = b.decode("utf-8")
    i, j = 0, len(s)
    while i < j and ord(s[i]) in WHITE_SPACE:
        i += 1
    while j > i and ord(s[j - 1]) in WHITE_SPACE:
        j -= 1
    return s[i:j].encode("utf-8")


def ref_text(hs, body):
    """naive reference of decode_body_as_text -> ('NONE',) | ('SOME', bytes) | ('ABSTAIN', why)"""
    vals = [v for k, v in hs if k.lower() == b"content-type"]
    if not vals:
        return ("NONE",)
    ct = b",".join(vals)
    if b";" in ct:
        ts, params = ct.split(b";", 1)
    else:
        ts, params = ct, b""
    if b"/" not in ts:
        return ("NONE",)
    if ts.split(b"/", 1)[0].lower() != b"text":
        return ("NONE",)
    charset = None
    for p in params.split(b";"):
        p = rust_trim(p)
        if b"=" in p:
            nm, v = p.split(b"=", 1)
            if nm.lower() == b"charset":
                charset = v
                break
    if charset is None:
        charset = b"iso-8859-1"
    label = charset.strip(b"\t\n\x0c\r ").lower()
    if label in UTF8_LABELS:
        try:
            body.decode("utf-8")
            return ("SOME", body)
        except UnicodeDecodeError:
            return ("NONE",)
    if label in LATIN1_LABELS:
        return ("SOME", "".join(chr(b if (b < 0x80 or b >= 0xA0) else W1252_HIGH[b - 0x80]) for b in body).encode("utf-8"))
    if label in [l.lower() for l in UNKNOWN_LABELS]:
        return ("NONE",)
    if any(b >= 0x80 for b in label):
        return ("NONE",)        # every label encoding_rs knows is ASCII; no case mapping or trimming may make one of this
    return ("ABSTAIN", label)


LOOKALIKE_MAP = [("k", "\u212a"), ("K", "\u212a"), ("s", "\u017f"), ("S", "\u017f"), ("i", "\u0131"), ("I", "\u0131"), ("i", "\u0130"), ("I", "\u0130"),
                 ("ss", "\u00df"), ("SS", "\u1e9e"), ("fi", "\ufb01"), ("1", "\uff11"), ("8", "\u0668"), ("a", "\u00e5"), ("A", "\u212b"), (" ", "\u00a0"), ("-", "\u2010"), ("=", "\uff1d")]


def unicode_lookalike(rng, token):
    """replace one ASCII character (or pair) of the token by a multi-byte character that a case mapping, a white-space or a
    digit predicate treats like it; the token unchanged if none applies"""
    try:
        t = token.decode("ascii")
    except UnicodeDecodeError:
        return token
    opts = [(a, b) for a, b in LOOKALIKE_MAP if a in t]
    if not opts:
        return token
    a, b = rng.pick(opts)
    i = rng.pick([m.start() for m in re.finditer(re.escape(a), t)])
    return (t[:i] + b + t[i + len(a):]).encode()


LEGACY_BODIES = [b"\x1b$BF|K\\\x1b(B", b"\x1b", b"\x1b$Z", b"\x0e", b"\x0f", b"abc\x1b(Bdef", b"\x1b$B", b"plain ascii text", b"", b"\x93\xfa\x96\x7b", b"\x93", b"\xc6\xfc\xcb\xdc",
                 b"\xa4", b"\xc4\xe3\xba\xc3", b"\x81\x30\x81\x30", b"\x81\x30", b"h\x00i\x00", b"\x00h\x00i", b"h\x00i", b"\xd8\x00", b"\x00\xd8\x00\xdc", b"\xff\xfeh\x00", b"\xfe\xff\x00h",
                 b"\x80\xff", b"\xa0\xa1", bytes(range(0x20, 0x7f)), bytes(range(0x80, 0x100))]


def gen_content_type(rng):
    ty = rng.pick([b"text", b"text", b"text", b"TEXT", b"Text", b"tEXt", b"application", b"texts", b"tex", b"", b" text", b"text ", b"image"])
    sub = rng.pick([b"plain", b"html", b"", b"x-y", b"plain/extra", b"*", b"event-stream", b"Event-Stream", b"event-stream ", b"csv", b"xml", b"javascript", b"calendar"])
    sep = rng.pick([b"/", b"/", b"/", b"/", b"", b"\\"])
    k = rng.below(10)
    label = rng.pick(UTF8_LABELS) if k < 3 else rng.pick(LATIN1_LABELS) if k < 6 else rng.pick(UNKNOWN_LABELS) if k < 8 else rng.pick(OTHER_LABELS)
    label = gen.randcase(rng, label)
    label = rng.pick([b"", b"", b" ", b"\t", b"\n"]) + label + rng.pick([b"", b"", b" ", b"\x0c"])
    if rng.chance(1, 8):
        label = rng.pick([b'"' + label + b'"', b'"' + label, b"'" + label + b"'", b'"' + label + b'" '])      # a quoted value is not unquoted by the crate
    params = []
    for _ in range(rng.below(3)):
        params.append(rng.pick([b"x=y", b"q=0.5", b"boundary=abc", b"charset", b"=", b"", b"xcharset=utf-8", b"charset-x=utf-8", b"format=flowed",
                                b'name="5\\" floppy.txt"', b'title="a; CHARSET=utf-8"', b'x="\\""', b'q="a;b"', b'n="', b'"=x', b"charset2=utf-8", b"Charset =utf-8"]))
    if rng.chance(4, 5):
        cs = gen.randcase(rng, b"charset") + b"=" + label
        params.insert(rng.below(len(params) + 1), cs)
        if rng.chance(1, 8):
            params.append(b"charset=" + rng.pick(UTF8_LABELS + LATIN1_LABELS + UNKNOWN_LABELS))
    if DICT_TOKENS and rng.chance(1, 6):       # a literal of the source as type, subtype, parameter name or label
        t = rng.pick(DICT_TOKENS)
        k2 = rng.below(4)
        if k2 == 0:
            ty = t
        elif k2 == 1:
            sub = t
        elif k2 == 2:
            params.insert(rng.below(len(params) + 1), t + b"=utf-8")
        else:
            params.insert(rng.below(len(params) + 1), gen.randcase(rng, b"charset") + b"=" + t)
    v = ty + sep + sub
    if rng.chance(1, 10):
        # a multi-byte character whose case mapping or class is an ASCII one (Kelvin sign -> k, long s -> S, dotless i -> I,
        # NBSP / EM SPACE as white space, ...) in place of the ASCII character: never the same token, whatever
        # `to_lowercase` / `to_uppercase` / `trim` make of it (seventh round: `to_lowercase` turned U+212A OI8-R into koi8-r)
        params = [unicode_lookalike(rng, p0) for p0 in params]
        if rng.chance(1, 4):
            ty = unicode_lookalike(rng, ty)
            v = ty + sep + sub
    for p in params:
        v += rng.pick([b";", b"; ", b" ;", b";\t", ";  ".encode(), "; ".encode(), b" ; "]) + p + rng.pick([b"", b"", b" ", " ".encode()])
    if rng.chance(1, 12):
        v = gen.mutate(rng, v)
        try:
            v.decode("utf-8")
        except UnicodeDecodeError:
            v = b"text/plain"
    return v


def gen_text_case(rng):
    hs = []
    if rng.chance(1, 3):
        hs.append((b"X-A", b"1"))
    if rng.chance(14, 15):
        hs.append((gen.randcase(rng, b"Content-Type"), gen_content_type(rng)))
        if rng.chance(1, 25):
            hs.append((b"Content-Type", b"text/plain"))
    if rng.chance(1, 3):
        # fields that have no say in text decoding, among them a Content-Encoding that `decode_body` left in place
        for _ in range(rng.randint(1, 2)):
            f = rng.pick(gen.REALISTIC_FIELDS + [(b"Content-Encoding", b"br"), (b"Content-Encoding", b"gzip"), (b"content-encoding", b"identity"), (b"Transfer-Encoding", b"chunked"), (b"Content-Length", b"0")])
            if f[0].lower() != b"content-type":
                hs.insert(rng.below(len(hs) + 1), f)
    k = rng.below(8)
    if k < 3:
        body = rng.pick(VALID_UTF8) + (rng.pick(VALID_UTF8) if rng.chance(1, 2) else b"")
    elif k < 5:
        body = rng.pick(VALID_UTF8) + rng.pick(INVALID_UTF8) + rng.pick(VALID_UTF8)
    elif k < 7:
        body = gen.rand_bytes(rng, rng.below(20))
    else:
        body = bytes(range(256))
    if rng.chance(1, 6):
        # a byte-order mark in front must not override the charset (nor be stripped)
        body = rng.pick(BOMS) + rng.pick([b"", b"hello", b"A\x00B\x00", b"\x00A\x00B", "é".encode(), b"\xa3\x31\x30"]) if rng.chance(3, 4) else rng.pick(BOMS) + body
    return hs, body


class C16:
    pid = "C16"
    profiles = ["dev"]
    projection = staticmethod(proj_full)

    @staticmethod
    def generate(rng, tier, tree, ov):
        groups = []
        n = n_for(tier, 8000, 200000)
        def text_group(gid, kind, hs, body):
            g = Group(gid, kind, {"headers": [[a.hex(), b.hex()] for a, b in hs], "body": body.hex() if len(body) < 5000 else None, "body_len": len(body)})
            g.add("text", "TEXT %s %s" % (hdrs_field(hs), hx(body)))
            ref = ref_text(hs, body)
            if ref[0] == "ABSTAIN":
                # a label the dependency knows and this reference does not decode: the dependency used directly (label
                # lookup + strict decoding without BOM handling) is the reference; the crate's glue must add nothing
                g.add("ref", "TEXTREF %s %s" % (hx(ref[1]), hx(body)), {"nocmp": True})
            groups.append(g)
            return g
        for k in range(n):
            hs, body = gen_text_case(rng)
            if rng.chance(1, 6):
                body = rng.pick(LEGACY_BODIES) + (rng.pick(LEGACY_BODIES) if rng.chance(1, 3) else b"")
            text_group("x%d" % k, "text", hs, body)
        # every legacy label with bodies that are stateful, multi-byte, cut inside a character, or plain ASCII
        j = 0
        for lab in OTHER_LABELS + [b"iso-2022-jp", b"csiso2022jp", b"shift_jis", b"euc-jp", b"gbk", b"gb18030", b"big5", b"euc-kr", b"utf-16le", b"utf-16be", b"utf-16", b"x-user-defined", b"replacement", b"koi8-r", b"windows-1251", b"iso-8859-2", b"macintosh"]:
            for body in LEGACY_BODIES:
                text_group("lg%d" % j, "text-legacy", [(b"Content-Type", b"text/plain; charset=" + gen.randcase(rng, lab))], body)
                j += 1
        # one byte repeated: the bytes that become three-byte characters (0x80-0x9F under windows-1252) make the text three times
        # the body -- every output-size estimate is wrong for them (twelfth round: a resume offset stale after the second refill)
        for bval in (0x80, 0x85, 0x93, 0x97, 0x99, 0xA0, 0xE9, 0xFF, 0x41):
            for reps in (255, 256, 600, 1000, 4096, 10000):
                for ct in (b"text/plain", b"text/plain; charset=windows-1252", b"text/html; charset=latin1"):
                    text_group("rb%d" % j, "text-sized", [(b"Content-Type", ct)], bytes([bval]) * reps)
                    j += 1
        # body lengths at and around powers of two and the integer literals of the source, ending inside a multi-byte character
        # (a decoder fed block by block must still be told where the input ends)
        from . import srcdict
        sizes = sorted(set(v * m + d for v in [256, 512, 1024, 2048, 4096, 8192, 16384, 65536] + [x for x in srcdict.load()["ints"] if 16 <= x <= 200000] for d in (-1, 0, 1) for m in (1, 2, 3) if v * m <= 400000))
        for sz in sizes:
            for lab, tail in ((b"utf-8", b"\xc3"), (b"utf-8", b"\xe2\x82"), (b"shift_jis", b"\x93"), (b"utf-8", "\u00e9".encode())):
                if sz > len(tail):
                    text_group("sz%d" % j, "text-sized", [(b"Content-Type", b"text/plain; charset=" + lab)], b"a" * (sz - len(tail)) + tail)
                    j += 1
        # every known label, the parameter name and the type with each ASCII character in turn replaced by a multi-byte
        # character that a case mapping or a character-class predicate treats like it: such a token is never the ASCII one
        j = 0
        for lab in UTF8_LABELS + LATIN1_LABELS + OTHER_LABELS + [b"euc-kr", b"korean", b"ks_c_5601-1987", b"koi8-u", b"koi", b"koi8", b"iso-2022-kr", b"sjis", b"ms_kanji", b"csshiftjis", b"greek", b"turkish", b"latin5"]:
            for a, b in LOOKALIKE_MAP:
                t = lab.decode()
                for variant in set([t.replace(a, b, 1), t.upper().replace(a, b, 1), t.replace(a, b)]):
                    if variant in (t, t.upper()):
                        continue
                    for ct in ("text/plain; charset=" + variant, "text/plain; CHARSET=" + variant + " "):
                        hs = [(b"Content-Type", ct.encode())]
                        body = b"caf\xc3\xa9 abc"
                        g = Group("u%d" % j, "text-lookalike", {"headers": [[x.hex(), y.hex()] for x, y in hs], "body": body.hex()})
                        g.add("text", "TEXT %s %s" % (hdrs_field(hs), hx(body)))
                        groups.append(g)
                        j += 1
        for name in ("charset", "CHARSET", "Charset"):
            for a, b in LOOKALIKE_MAP:
                if a in name:
                    for ty in ("text/plain", "TEXT/plain"):
                        hs = [(b"Content-Type", (ty + "; " + name.replace(a, b, 1) + "=utf-8").encode())]
                        body = b"\xff\xfe invalid as utf-8"
                        g = Group("u%d" % j, "text-lookalike", {"headers": [[x.hex(), y.hex()] for x, y in hs], "body": body.hex()})
                        g.add("text", "TEXT %s %s" % (hdrs_field(hs), hx(body)))
                        groups.append(g)
                        j += 1
        for k in range(n // 20):
            # the same body under a known label, an unknown label, the unknown label again, another known label ...
            body = rng.pick(VALID_UTF8[1:]) + rng.pick([b"", b"\xe9", b"caf\xc3\xa9"])
            labels = [rng.pick(UTF8_LABELS + LATIN1_LABELS), rng.pick(UNKNOWN_LABELS[:2] + UNKNOWN_LABELS[4:6])]
            seq = [labels[0], labels[1], gen.randcase(rng, labels[1]), labels[1], rng.pick(UTF8_LABELS + LATIN1_LABELS), labels[1], b""]
            for j, lab in enumerate(seq):
                hs = [(b"Content-Type", b"text/plain; charset=" + lab)] if lab else [(b"Content-Type", b"text/plain")]
                g = Group("q%d_%d" % (k, j), "text-sequence", {"headers": [[a.hex(), b.hex()] for a, b in hs], "body": body.hex()})
                g.add("text", "TEXT %s %s" % (hdrs_field(hs), hx(body)))
                groups.append(g)
        return groups

    @staticmethod
    def oracle(group, res):
        fails = []
        hs = [(unhex(a), unhex(b)) for a, b in group.meta["headers"]]
        out = strip_ann(res[group.tag(0)])
        if len(group.members) > 1 and group.members[1].role == "ref":
            want = strip_ann(res[group.tag(1)])
            if out != want:
                fails.append(Failure(group, "text", "the crate answers `%s` where the charset's decoder, used directly on the body, answers `%s`" % (out[:60], want[:60]), [0, 1]))
            return fails
        if group.meta["body"] is None:
            return fails
        body = unhex(group.meta["body"])
        ref = ref_text(hs, body)
        if out.startswith("SOME"):
            text = unhex(out[5:]) if len(out) > 5 else b""
            if b"\xef\xbf\xbd" in text and b"\xef\xbf\xbd" not in body and ref[0] != "ABSTAIN":
                fails.append(Failure(group, "no-replacement", "the text contains U+FFFD which the body does not encode", [0]))
        if ref[0] == "NONE" and out != "NONE":
            fails.append(Failure(group, "text", "text returned where the reference says nothing (type / charset / validity)", [0]))
        elif ref[0] == "SOME":
            if not out.startswith("SOME"):
                fails.append(Failure(group, "text", "nothing returned where the reference decodes the body", [0]))
            elif (unhex(out[5:]) if len(out) > 5 else b"") != ref[1]:
                fails.append(Failure(group, "text", "the text differs from the reference decoding", [0]))
        return fails

    @staticmethod
    def nontrivial(group, res):
        return any(unhex(a).lower() == b"content-type" for a, b in group.meta["headers"])
