"""Inputs a random grammar walk is unlikely to reach (lessons of the fifth round of seeded changes, DESIGN.md §0.6):
single elements of a specific long length, large counts of elements, line ends at 4096-byte alignments, numeric fields
padded with many zeros, near-miss spellings of protocol and coding names.  Legal (or one step from legal) and plausible.

Each item is a dict: stream, cuts (list of cut-position lists), label, and for requests cfg = (rl, hl, max), for
responses hl.  The property classes wrap them into groups with their own member roles and oracles."""
from . import gen
from . import srcdict

CRLF = b"\r\n"
SIZES = sorted(set(v + d for v in (100, 128, 256, 512, 1000, 1024, 2048, 4096, 8192, 10000, 16384, 32768, 65536) for d in (-1, 0, 1)))
COUNTS = sorted(set(v + d for v in (16, 32, 64, 100, 128, 256, 1000, 1024) for d in (-1, 0, 1)))
SIZES = sorted(set(SIZES) | set(v for v in srcdict.sizes_around() if 3 <= v <= 1_100_001))
COUNTS = sorted(set(COUNTS) | set(v for v in srcdict.sizes_around() if 3 <= v <= 5001))

HEADERS_OF_INTEREST = [b"Transfer-Encoding", b"Content-Encoding", b"Content-Type", b"Connection", b"Expect", b"Trailer", b"Content-Range", b"Upgrade", b"TE",
                       b"Accept-Encoding", b"Content-Length", b"Host"]


def dictionary(rng, tier):
    """-> (requests, responses): the token-like string literals of the source as methods, header names, header values of
    the headers of interest (and of the header-name-like literals), list elements, media types and parameters"""
    d = srcdict.load()
    toks = [t for t in d["tokens"] if b"\r" not in t and b"\n" not in t]
    names = sorted(set(HEADERS_OF_INTEREST) | set(d["names"]))
    reqs, resps = [], []
    chunked_body = b"5\r\nhello\r\n0\r\n\r\nZ"
    for t in toks:
        for h in names:
            for v in (t, b"x, " + t, t + b", chunked" if h.lower() == b"transfer-encoding" else t + b"; q=1"):
                line = h + b": " + v + b"\r\n"
                reqs.append(("%s: %s" % (h.decode(), v.decode("latin-1")), b"POST / HTTP/1.1\r\n" + line + b"Content-Length: 3\r\n\r\nabcXY"))
                resps.append(("%s: %s (fixed)" % (h.decode(), v.decode("latin-1")), b"HTTP/1.1 200 OK\r\n" + line + b"Content-Length: 3\r\n\r\nabcXY"))
                if h.lower() != b"transfer-encoding":
                    resps.append(("%s: %s (chunked)" % (h.decode(), v.decode("latin-1")), b"HTTP/1.1 200 OK\r\n" + line + b"Transfer-Encoding: chunked\r\n\r\n" + chunked_body))
                else:
                    resps.append(("%s: %s (chunked syntax follows)" % (h.decode(), v.decode("latin-1")), b"HTTP/1.1 200 OK\r\n" + line + b"\r\n" + chunked_body))
                # no framing field at all: the message ends with its header block, whatever the field says, and what follows
                # (another message, text) is not touched
                resps.append(("%s: %s (no framing field, a response follows)" % (h.decode(), v.decode("latin-1")), b"HTTP/1.1 200 OK\r\n" + line + b"\r\nHTTP/1.1 204 No Content\r\n\r\n"))
                reqs.append(("%s: %s (no framing field, a request follows)" % (h.decode(), v.decode("latin-1")), b"GET / HTTP/1.1\r\n" + line + b"\r\nGET /next HTTP/1.1\r\n\r\n"))
        if b" " not in t:
            reqs.append(("method %s" % t.decode("latin-1"), t + b" / HTTP/1.1\r\nHost: a\r\n\r\n"))
            reqs.append(("header name %s" % t.decode("latin-1"), b"GET / HTTP/1.1\r\n" + t + b": v\r\n\r\n"))
            resps.append(("header name %s" % t.decode("latin-1"), b"HTTP/1.1 200 OK\r\n" + t + b": 3\r\nContent-Length: 3\r\n\r\nabcXY"))
            resps.append(("trailer field %s" % t.decode("latin-1"), b"HTTP/1.1 200 OK\r\nTransfer-Encoding: chunked\r\n\r\n2\r\nab\r\n0\r\n" + t + b": v\r\nX: y\r\n\r\nZ"))
    for h, v in gen.REALISTIC_FIELDS:
        line = h + b": " + v + b"\r\n"
        lab = "%s: %s" % (h.decode(), v.decode("latin-1"))
        for code in (b"200 OK", b"101 Switching Protocols", b"426 Upgrade Required", b"206 Partial Content"):
            resps.append((lab + " (%s, no framing field, text follows)" % code.decode(), b"HTTP/1.1 " + code + b"\r\n" + line + b"\r\nhello, world"))
            resps.append((lab + " (%s, fixed)" % code.decode(), b"HTTP/1.1 " + code + b"\r\n" + line + b"Content-Length: 3\r\n\r\nabcXY"))
            resps.append((lab + " (%s, chunked)" % code.decode(), b"HTTP/1.1 " + code + b"\r\n" + line + b"Transfer-Encoding: chunked\r\n\r\n" + chunked_body + b"HTTP/1.1 200 OK\r\n\r\n"))
        resps.append((lab + " (no framing field, a response follows)", b"HTTP/1.1 200 OK\r\n" + line + b"\r\nHTTP/1.1 204 No Content\r\n\r\n"))
        reqs.append((lab + " (no framing field, a request follows)", b"GET / HTTP/1.1\r\n" + line + b"\r\nGET /next HTTP/1.1\r\n\r\n"))
        reqs.append((lab + " (fixed, a request follows)", b"POST / HTTP/1.1\r\n" + line + b"Content-Length: 3\r\n\r\nabcGET /next HTTP/1.1\r\n\r\n"))
    return reqs, resps


def _cuts(s, extra=()):
    """a few deliberate deliveries: between CR and LF of the first and last line ends, before the blank line's LF,
    inside long elements at the offsets in `extra`"""
    cr = gen.crlf_cuts(s)
    sets = []
    for c in (cr[:2] + cr[-2:]):
        sets.append([c])
    for e in extra:
        if 0 < e < len(s):
            sets.append([e])
    if len(cr) >= 2:
        sets.append(cr[:6])
    out = []
    for x in sets:
        if x not in out:
            out.append(x)
    return out


def requests(rng, tier):
    items = []
    nolim = (None, None, None)

    def add(label, s, cfg=nolim, extra=()):
        items.append({"label": label, "stream": s, "cfg": cfg, "cuts": _cuts(s, extra)})
    for L in (255, 256, 257, 300, 999, 1000, 4096):
        s = b"M" * L + b" / HTTP/1.1\r\nHost: a\r\n\r\n"
        add("method of %d bytes" % L, s, nolim, (L - 40, 256, 257, L))
        if L <= 999:
            add("method of %d bytes, default limits" % L, s, (1000, 1000, 10_000_000), (256, 257))
    for line in (998, 999, 1000, 1001, 4094, 4095, 4096, 4097, 8191, 8192, 65535, 65536):
        t = b"/" + b"a" * (line - 14)
        s = b"GET " + t + b" HTTP/1.1\r\nHost: a\r\n\r\n"
        add("request line of %d bytes" % line, s, nolim, (256, 1000, 4095, 4096))
        if line in (4095, 4096, 8191):
            add("request line of %d bytes at its limit" % line, s, (line, None, None), (4095,))
            add("request line of %d bytes, limit + 2" % line, s, (line + 2, None, None), ())
    for L in (255, 256, 257, 1024):
        add("header name of %d bytes" % L, b"GET / HTTP/1.1\r\n" + b"N" * L + b": v\r\n\r\n", nolim, (16 + 256,))
    for line in (999, 1000, 1001, 4095, 4096, 8191, 65535, 65536):
        hv = b"v" * (line - 5)
        s = b"POST / HTTP/1.1\r\nX: " + hv + b"\r\nContent-Length: 2\r\n\r\nab"
        add("header line of %d bytes" % line, s, nolim, (16 + 1000, 16 + 4095))
    for n in (99, 100, 101, 102, 121, 250, 1000):
        hs = b"".join(b"H%d: v%d\r\n" % (i, i) for i in range(n))
        s = b"POST / HTTP/1.1\r\n" + hs + b"Content-Length: 3\r\n\r\nabcXY"
        add("%d header fields" % (n + 1), s, (1000, 1000, 10_000_000), (len(s) - 9, len(s) - 8, len(s) // 2))
    hs = b"".join(b"Field-%d: " % i + b"x" * 890 + CRLF for i in range(80))
    s = b"POST / HTTP/1.1\r\n" + hs + b"Content-Length: 5\r\n\r\nhello"
    add("header section of %d bytes" % len(hs), s, (1000, 1000, 10_000_000), (len(s) // 2, len(s) // 3, 65536, 65537))
    for k in (15, 17, 18, 19, 20, 21, 22, 23, 28, 40):
        add("Content-Length with %d leading zeros" % k, b"POST / HTTP/1.1\r\nContent-Length: " + b"0" * k + b"13\r\n\r\n0123456789abcXY", (1000, 1000, 10_000_000))
        add("Content-Length of %d zeros and a letter" % k, b"POST / HTTP/1.1\r\nContent-Length: " + b"0" * k + b"x\r\n\r\n0123456789abc", (1000, 1000, 10_000_000))
    for p in (b"HTTP/1.01", b"HTTP/01.1", b"HTTP/001.001", b"HTTP/+1.1", b"HTTP/1.+1", b"HTTP/1.1.1", b"HTTP/1.10", b"HTTP/1.1 ", b"HTTP/1.", b"HTTP/.1", b"HTTP/1,1", b"http/1.1", b"HTTP/1.1\t"):
        add("protocol %r" % p, b"GET / " + p + b"\r\nHost: a\r\n\r\n", (1000, 1000, 10_000_000))
    # boundary sweep: every element kind at every size around a power of two / ten (a sample in the quick tier)
    sweep = []
    for L in SIZES:
        sweep.append(("method of %d bytes" % L, b"M" * L + b" / HTTP/1.1\r\nHost: a\r\n\r\n", (L, L + 1)))
        sweep.append(("request line of %d bytes" % L, b"GET /" + b"a" * max(0, L - 14) + b" HTTP/1.1\r\nHost: a\r\n\r\n", (L, L + 1)))
        sweep.append(("header name of %d bytes" % L, b"GET / HTTP/1.1\r\n" + b"N" * L + b": v\r\n\r\n", (16 + L,)))
        sweep.append(("header line of %d bytes" % L, b"POST / HTTP/1.1\r\nX: " + b"v" * max(0, L - 5) + b"\r\nContent-Length: 2\r\n\r\nab", (18 + L - 1, 18 + L)))
        sweep.append(("body of %d bytes" % L, b"POST / HTTP/1.1\r\nContent-Length: %d\r\n\r\n" % L + b"b" * L + b"XY", (L, L + 40)))
    for n in COUNTS:
        hs = b"".join(b"H%d: v\r\n" % i for i in range(n))
        sweep.append(("%d header fields" % n, b"GET / HTTP/1.1\r\n" + hs + b"\r\n", (16 + len(hs), 16 + len(hs) + 1)))
        sweep.append(("one field repeated %d times" % n, b"GET / HTTP/1.1\r\n" + b"Accept: a\r\n" * n + b"\r\n", ()))
        sweep.append(("a header folded over %d lines" % n, b"GET / HTTP/1.1\r\nX: a\r\n" + b" b\r\n" * n + b"\r\n", ()))
    from_src = set(srcdict.sizes_around())
    keep = [x for x in sweep if any(str(v) in x[0].split() for v in from_src)]
    for label, s, extra in (sweep if tier != "quick" else keep + rng.sample(sweep, 40)):
        add(label, s, nolim, extra)
    for ex in (b"100-continue", b"100-Continue", b"x, 100-continue"):
        for d in (10, 200_000_000, 2 ** 40, 2 ** 63):
            for mx in (None, 10_000_000):
                add("Expect: %s, Content-Length %d" % (ex.decode(), d), b"POST / HTTP/1.1\r\nExpect: " + ex + b"\r\nContent-Length: %d\r\n\r\n" % d + b"ab", (1000, 1000, mx))
    # lengths that wrap to something small in a narrower integer: k * 2^w + r announced, a little more than r bytes supplied
    # (twelfth round: the bytes still missing kept in a u32 between calls)
    for w, k, r in width_values():
        d = k * (1 << w) + r
        if d >= 1 << 64:
            continue
        head = b"POST / HTTP/1.1\r\nContent-Length: %d\r\n\r\n" % d
        s = head + b"0123456789"[:1] * 0 + bytes((48 + i % 10) for i in range(r + 5))
        add("Content-Length %d * 2^%d + %d, %d bytes supplied" % (k, w, r, r + 5), s, nolim, (len(head), len(head) + 1, len(head) + r, len(s) - 1))
    return items


def responses(rng, tier):
    items = []

    def add(label, s, hl=None, extra=()):
        items.append({"label": label, "stream": s, "hl": hl, "cuts": _cuts(s, extra)})
    for line in (255, 256, 999, 1000, 1001, 4093, 4094, 4095, 4096, 4097, 8191, 8192, 12287, 65535, 65536):
        reason = b"r" * (line - 13)
        add("status line of %d bytes" % line, b"HTTP/1.1 200 " + reason + b"\r\nContent-Length: 2\r\nX: y\r\n\r\nabZ", None, (1000, 4095, 4096))
        add("status line of %d bytes, no headers" % line, b"HTTP/1.1 200 " + reason + b"\r\n\r\n", None, (4095,))
    for n in (99, 100, 101, 102, 121, 250, 1000):
        hs = b"".join(b"H%d: v%d\r\n" % (i, i) for i in range(n))
        s = b"HTTP/1.1 200 OK\r\n" + hs + b"Content-Length: 3\r\n\r\nabcXY"
        add("%d header fields" % (n + 1), s, None, (len(s) - 9, len(s) - 8, len(s) // 2))
    chunked = b"HTTP/1.1 200 OK\r\nTransfer-Encoding: chunked\r\n\r\n"
    for k in (11, 12, 15, 16, 17, 18, 20, 21, 30):
        for ext in (b"", b";x=y", b";" + b"e" * 20):
            size = b"0" * k + b"5"
            s = chunked + size + ext + b"\r\nHello\r\n" + b"0" * (k if k % 2 else 1) + ext + b"\r\n\r\nZ"
            add("chunk size of %d digits%s" % (k + 1, " with extension" if ext else ""), s, None, (len(chunked) + 16, len(chunked) + 17, len(chunked) + 18))
    for size in (b"0+00000000000000a", b"00+0000000000000a", b"+0000000000000000a", b"000000000000000000+a", b"0000000000000000000000000000000a", b"ffffffffffffffff", b"0ffffffffffffffff", b"10000000000000000"):
        add("chunk size %r" % size, chunked + size + b"\r\n0123456789\r\n0\r\n\r\n")
    # relations between two elements: bytes decoded from earlier chunks + the size a later chunk announces, around the
    # powers of two where a sum, a difference or a signed reading could wrap (sixth round: `len + size` checked_add)
    for n in (1, 5, 16, 17):
        for k in (31, 32, 63, 64):
            for dd in (-1, 0, 1):
                later = 2 ** k - n + dd
                if 0 < later < 2 ** 64:
                    add("chunk of %d bytes, then a chunk size of 2^%d-%d%+d" % (n, k, n, dd),
                        chunked + b"%x\r\n" % n + b"d" * n + b"\r\n" + b"%X\r\n" % later + b"0123456789abcdef\r\n0\r\n\r\n", None, ())
    for n in (1, 3):
        add("%d chunks of one byte, then a chunk size of 2^64-1" % n, chunked + b"1\r\nx\r\n" * n + b"ffffffffffffffff\r\nabc", None, ())
    for line in (4094, 4095, 4096, 8191):
        ext = b";" + b"e" * (line - 2)
        add("chunk-size line of %d bytes" % line, chunked + b"5" + ext + b"\r\nHello\r\n0\r\n\r\n", None, (len(chunked) + 4095,))
    for n in (99, 100, 101, 102, 250):
        trs = b"".join(b"T%d: v%d\r\n" % (i, i) for i in range(n))
        add("%d trailer fields" % n, chunked + b"2\r\nab\r\n0\r\n" + trs + b"\r\nZ", None, ())
        add("%d trailer fields after a framing field" % n, chunked + b"2\r\nab\r\n0\r\nContent-Length: 9\r\n" + trs + b"\r\nZ", None, ())
    for code in (b"000000000000000000000404", b"0404", b"00200", b"000000000000000000001000", b"00000000000000000000000000000000000000000000200"):
        add("status code %r" % code, b"HTTP/1.1 " + code + b" Not Found\r\nContent-Length: 0\r\n\r\n")
    for k in (15, 18, 19, 20, 21, 22, 23, 28, 40):
        add("Content-Length with %d leading zeros" % k, b"HTTP/1.1 200 OK\r\nContent-Length: " + b"0" * k + b"5\r\n\r\nhelloZ")
    for conn in (b"close", b"Close", b"keep-alive, close"):
        for v in (b"99999999999999999999999x", b"18446744073709551616 0", b"100000000000000000000,13", b"99999999999999999999999", b"18446744073709551616"):
            add("Connection: %s with Content-Length %r" % (conn.decode(), v), b"HTTP/1.1 200 OK\r\nConnection: " + conn + b"\r\nContent-Length: " + v + b"\r\n\r\nabcdefghijklmnop")
    for te in (b"x-chunked", b"notchunked", b"Chunked-Stream", b"gzip;mode=chunked-flush", b"x-unchunked", b"chunkedx", b"x-gzip, chunked", b"deflate, X-GZip, chunked", b"x-compress, chunked", b"X-Private-Coding, chunked"):
        add("Transfer-Encoding: %s" % te.decode(), b"HTTP/1.1 200 OK\r\nTransfer-Encoding: " + te + b"\r\n\r\n5\r\nhello\r\n0\r\n\r\nZ")
    sweep = []
    for L in SIZES:
        sweep.append(("status line of %d bytes" % L, b"HTTP/1.1 200 " + b"r" * max(0, L - 13) + b"\r\nContent-Length: 2\r\n\r\nabZ", (L, L + 1)))
        sweep.append(("header line of %d bytes" % L, b"HTTP/1.1 200 OK\r\nX: " + b"v" * max(0, L - 5) + b"\r\nContent-Length: 2\r\n\r\nabZ", (17 + L - 1, 17 + L)))
        sweep.append(("chunk-size line of %d bytes" % L, chunked + b"5;" + b"e" * max(0, L - 4) + b"\r\nHello\r\n0\r\n\r\n", (len(chunked) + L, len(chunked) + L + 1)))
        sweep.append(("trailer line of %d bytes" % L, chunked + b"2\r\nab\r\n0\r\nT: " + b"v" * max(0, L - 5) + b"\r\n\r\nZ", ()))
        sweep.append(("chunk of %d bytes" % L, chunked + b"%x\r\n" % L + b"d" * L + b"\r\n0\r\n\r\nZ", (len(chunked) + L,)))
        sweep.append(("fixed body of %d bytes" % L, b"HTTP/1.1 200 OK\r\nContent-Length: %d\r\n\r\n" % L + b"b" * L + b"XY", (L,)))
    for n in COUNTS:
        hs = b"".join(b"H%d: v\r\n" % i for i in range(n))
        sweep.append(("%d header fields" % n, b"HTTP/1.1 200 OK\r\n" + hs + b"\r\n", (17 + len(hs), 17 + len(hs) + 1)))
        sweep.append(("%d trailer fields" % n, chunked + b"0\r\n" + b"".join(b"T%d: v\r\n" % i for i in range(n)) + b"\r\n", ()))
        sweep.append(("%d chunks" % n, chunked + b"1\r\nx\r\n" * n + b"0\r\n\r\n", ()))
        sweep.append(("%d Transfer-Encoding fields" % n, b"HTTP/1.1 200 OK\r\n" + b"Transfer-Encoding: gzip\r\n" * n + b"Transfer-Encoding: chunked\r\n\r\n2\r\nab\r\n0\r\n\r\n", ()))
    from_src = set(srcdict.sizes_around())
    keep = [x for x in sweep if any(str(v) in x[0].split() for v in from_src)]
    for label, s, extra in (sweep if tier != "quick" else keep + rng.sample(sweep, 50)):
        add(label, s, None, extra)
    for cl in (b"", b" ", b"\t"):
        add("empty Content-Length %r next to chunked" % cl, b"HTTP/1.1 200 OK\r\nContent-Length:" + cl + b"\r\nTransfer-Encoding: chunked\r\n\r\n5\r\nhello\r\n0\r\n\r\n")
    for tr in (b"X-A", b"X-A, X-B", b"X-C", b"x-b"):
        add("Trailer: %s announcing some of the fields sent" % tr.decode(), b"HTTP/1.1 200 OK\r\nTrailer: " + tr + b"\r\nTransfer-Encoding: chunked\r\n\r\n2\r\nab\r\n0\r\nX-A: 1\r\nX-B: 2\r\nX-C: 3\r\n\r\n")
    # lengths and chunk sizes that wrap to something small in a narrower integer (twelfth round: chunk size narrowed to u32)
    for w, k, r in width_values():
        d = k * (1 << w) + r
        if d >= 1 << 64:
            continue
        data = bytes((48 + i % 10) for i in range(r + 5))
        head = b"HTTP/1.1 200 OK\r\nContent-Length: %d\r\n\r\n" % d
        add("Content-Length %d * 2^%d + %d, %d bytes supplied" % (k, w, r, r + 5), head + data, None, (len(head), len(head) + r, len(head) + r + 4))
        head = b"HTTP/1.1 200 OK\r\nTransfer-Encoding: chunked\r\n\r\n"
        add("chunk size %d * 2^%d + %d, then its CRLF and a last chunk" % (k, w, r), head + b"%x\r\n" % d + data[:r] + b"\r\n0\r\n\r\n", None, (len(head) + 3, len(head) + 12))
        add("chunk size %d * 2^%d + %d after a first chunk" % (k, w, r), head + b"2\r\nab\r\n%X\r\n" % d + data[:r] + b"\r\n0\r\n\r\n", None, (len(head) + 9,))
    return items


def width_values():
    """(w, k, r): the value k * 2^w + r for the integer widths the source names (and 8, 16, 31, 32, 63), k = 1, 2, 3, and small r"""
    out = []
    for w in srcdict.load().get("widths", [8, 16, 31, 32, 63]):
        for k in (1, 2, 3):
            for r in (0, 1, 5, 255, 256, 1024, 4096):
                if w >= 16 or r < (1 << w):
                    out.append((w, k, r))
    return out


def floods(rng, tier):
    """implementation only (no model run): counts that exhaust a stack or a quadratic loop"""
    items = []
    for n in (10_000, 100_000, 2_000_000 if tier != "quick" else 400_000):
        items.append(("%d bare CRs where the status line is expected" % n, "resp", b"\r" * n))
        items.append(("%d bare CRs where the request line is expected" % n, "req", b"\r" * n))
        items.append(("%d bare CRs where a chunk-size line is expected" % n, "resp", b"HTTP/1.1 200 OK\r\nTransfer-Encoding: chunked\r\n\r\n" + b"\r" * n))
        items.append(("%d CR-only line ends in a header block" % n, "resp", b"HTTP/1.1 200 OK\r\n" + b"A: b\r" * (n // 5)))
        items.append(("%d LFs" % n, "req", b"\n" * n))
    return items


def alloc_cases(rng, tier):
    """for C07: declared lengths together with much presented data in the same delivery"""
    items = []
    chunked = b"HTTP/1.1 200 OK\r\nTransfer-Encoding: chunked\r\n\r\n"
    for size in (b"10000000", b"7fffffff", b"40000000;last=no", b"ffffffffffff"):
        for after in (65535, 65536, 65537, 131072):
            items.append({"label": "chunk size %s followed by %d bytes in the same delivery" % (size.decode(), after), "kind": "resp",
                          "stream": chunked + size + CRLF + b"x" * after, "declared": int(size.split(b";")[0], 16)})
            items.append({"label": "honest chunks, then chunk size %s followed by %d bytes" % (size.decode(), after), "kind": "resp",
                          "stream": chunked + b"3\r\nabc\r\n" * 3 + size + CRLF + b"x" * after, "declared": int(size.split(b";")[0], 16)})
    return items


def byte_sweep():
    """every byte value in every position of a short numeric field (chunk size, Content-Length of a response and of a
    request, status code), followed by exactly the data that a tolerant reading of that byte would announce: case
    folding, masking or offsetting a byte can turn a non-digit into a digit (sixth round: `byte | 0x20` read 0x10..0x19
    as 0..9), and then the misreading ends in acceptance rather than in a different rejection.
    -> dicts pos, field, kind ('resp' | 'req'), stream"""
    def misread(b, radix):
        ks = set([b & 0x0f])
        for c in (b | 0x20, b & 0xdf, b & 0x7f, b ^ 0x20, (b + 0x30) & 0xff, (b - 0x30) & 0xff, (b + 0x20) & 0xff, (b - 0x20) & 0xff, b ^ 0x80):
            ch = bytes([c])
            if ch in (b"0123456789abcdefABCDEF" if radix == 16 else b"0123456789"):
                ks.add(int(ch, 16))
        return sorted(ks)
    chunked = b"HTTP/1.1 200 OK\r\nTransfer-Encoding: chunked\r\n\r\n"
    out = []
    for b in range(256):
        if b in (9, 10, 13, 32):
            continue
        ch = bytes([b])
        for radix, poss in ((16, ("chunk",)), (10, ("resp-cl", "req-cl"))):
            if ch in (b"0123456789abcdefABCDEF" if radix == 16 else b"0123456789") or (radix == 16 and ch == b";"):
                continue
            for kk in misread(b, radix):
                for w, val in ((ch, kk), (b"1" + ch, radix + kk), (ch + b"1", radix * kk + 1)):
                    data = (b"abcdefghijklmnopqrstuvwxyz" * 10)[:val]
                    for pos in poss:
                        if pos == "chunk":
                            out.append({"pos": pos, "field": w, "kind": "resp", "stream": chunked + w + CRLF + (data + CRLF + b"0\r\n\r\n" if val else CRLF)})
                        elif pos == "resp-cl":
                            out.append({"pos": pos, "field": w, "kind": "resp", "stream": b"HTTP/1.1 200 OK\r\nContent-Length: " + w + b"\r\n\r\n" + data})
                        else:
                            out.append({"pos": pos, "field": w, "kind": "req", "stream": b"POST / HTTP/1.1\r\nContent-Length: " + w + b"\r\n\r\n" + data})
        if ch not in b"0123456789":
            for w in (ch + b"00", b"2" + ch + b"0", b"20" + ch, ch, b"2" + ch):
                out.append({"pos": "status", "field": w, "kind": "resp", "stream": b"HTTP/1.1 " + w + b" OK\r\n\r\n"})
    return out


STANDARD_REASONS = [(100, b"Continue"), (101, b"Switching Protocols"), (200, b"OK"), (201, b"Created"), (202, b"Accepted"), (204, b"No Content"), (206, b"Partial Content"),
                    (301, b"Moved Permanently"), (302, b"Found"), (304, b"Not Modified"), (400, b"Bad Request"), (401, b"Unauthorized"), (403, b"Forbidden"), (404, b"Not Found"),
                    (405, b"Method Not Allowed"), (408, b"Request Timeout"), (413, b"Payload Too Large"), (418, b"I'm a teapot"), (426, b"Upgrade Required"), (429, b"Too Many Requests"),
                    (500, b"Internal Server Error"), (501, b"Not Implemented"), (502, b"Bad Gateway"), (503, b"Service Unavailable"), (504, b"Gateway Timeout"), (505, b"HTTP Version Not Supported")]


def status_sweep(tier, rng):
    """every status code 0..999 under each framing, followed by bytes that do not belong to the message (a seeded change
    of the sixth round treated exactly one code, 101, differently on exactly one framing path).  The quick tier takes
    every code for the body-less framing and the codes in and around the source's integer literals, the class
    boundaries and a sample for the other two. -> dicts label, stream, framing, msg_len"""
    special = set(v + d for v in srcdict.load()["ints"] if v < 1100 for d in (-1, 0, 1)) | set(c + d for c in (0, 100, 200, 300, 400, 500, 600, 999) for d in (-1, 0, 1, 2, 3, 4, 5, 6))
    special |= set((101, 102, 103, 204, 205, 206, 226, 301, 302, 303, 304, 305, 307, 308, 401, 407, 408, 413, 416, 417, 421, 426, 431))
    out = []
    for code in range(1000):
        framings = ("none", "fixed", "chunked") if (tier != "quick" or code in special or rng.chance(1, 10)) else ("none",)
        for fr in framings:
            line = b"HTTP/1.1 %d X\r\n" % code
            if fr == "none":
                m = line + b"Server: s\r\n\r\n"
            elif fr == "fixed":
                m = line + b"Content-Length: 3\r\n\r\nabc"
            else:
                m = line + b"Transfer-Encoding: chunked\r\nTrailer: T\r\n\r\n3\r\nabc\r\n0\r\nT: v\r\n\r\n"
            out.append({"label": "status %d, framing %s, bytes after the message" % (code, fr), "stream": m + b"HTTP/1.1 200 OK\r\n\r\n", "framing": fr, "msg_len": len(m), "code": code})
    # the registered reason phrases in other letter cases (twelfth round: a phrase equal to the registered one up to case was
    # replaced by it)
    for code, phrase in STANDARD_REASONS:
        for ph in set([phrase.lower(), phrase.upper(), phrase.swapcase(), phrase.title(), phrase + b" ", phrase[:-1]]):
            m = b"HTTP/1.1 %d " % code + ph + b"\r\nContent-Length: 0\r\n\r\n"
            out.append({"label": "status %d with reason phrase %r" % (code, ph.decode()), "stream": m + b"HTTP/1.1 200 OK\r\n\r\n", "framing": "fixed", "msg_len": len(m), "code": code})
    # ... and the codes with a meaning of their own next to every header field of interest (tenth round: 101 together with an
    # Upgrade field swallowed what followed): body-less framing, bytes after the message
    d = srcdict.load()
    names = sorted(set(HEADERS_OF_INTEREST) | set(d["names"]) | set([b"Upgrade", b"Connection", b"Sec-WebSocket-Accept", b"Location", b"Retry-After", b"WWW-Authenticate", b"Set-Cookie", b"Allow", b"Date"]))
    codes = sorted(c for c in special if 0 <= c < 1000 and (c in (100, 101, 102, 103, 199, 200, 204, 205, 206, 301, 304, 401, 407, 426, 999) or c in set(v for v in d["ints"] if v < 1000)))
    for code in codes:
        for name in names:
            if name.lower() in (b"content-length", b"transfer-encoding"):
                continue
            for value in (b"websocket", b"x, Upgrade", b"1"):
                m = b"HTTP/1.1 %d X\r\n" % code + name + b": " + value + b"\r\nConnection: Upgrade\r\n\r\n"
                out.append({"label": "status %d with %s: %s, no body, bytes after the message" % (code, name.decode("latin-1"), value.decode()), "stream": m + b"\x81\x05hello", "framing": "none", "msg_len": len(m), "code": code})
    return out
