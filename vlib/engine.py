"""Execution engine: builds, sharded execution of op lines on the implementation (supervised) and on the
compiled Lean model, diffing."""
import json
import os
import subprocess
import sys
import time
from concurrent.futures import ThreadPoolExecutor

ROOT = os.path.dirname(os.path.dirname(os.path.abspath(__file__)))
LEAN_DIR = os.path.join(ROOT, "lean")
HARNESS_DIR = os.path.join(ROOT, "harness")
WORK = os.path.join(ROOT, "work")
MODEL_BIN = os.path.join(LEAN_DIR, ".lake", "build", "bin", "httpmodel")
NCPU = os.cpu_count() or 4


def env_offline():
    e = dict(os.environ)
    e["CARGO_NET_OFFLINE"] = "true"
    return e


class BuildError(Exception):
    def __init__(self, what, log):
        super().__init__(what)
        self.what, self.log = what, log


def build_harness(profile):
    """(re)build the executor against /repo's current working tree; returns path of the binary"""
    cmd = ["cargo", "build", "--offline", "--quiet"]
    if profile == "release":
        cmd.append("--release")
    p = subprocess.run(cmd, cwd=HARNESS_DIR, env=env_offline(), stdout=subprocess.PIPE, stderr=subprocess.STDOUT, text=True)
    if p.returncode != 0:
        raise BuildError("cargo build (%s) of the harness against /repo failed" % profile, p.stdout[-4000:])
    return os.path.join(HARNESS_DIR, "target", "debug" if profile == "dev" else "release", "hx")


def build_lean(targets):
    p = subprocess.run(["lake", "build"] + targets, cwd=LEAN_DIR, stdout=subprocess.PIPE, stderr=subprocess.STDOUT, text=True)
    return p.returncode, p.stdout


def _run_shard_model(lines):
    p = subprocess.run([MODEL_BIN], input="\n".join(lines) + "\n", stdout=subprocess.PIPE, stderr=subprocess.PIPE, text=True)
    out = {}
    for l in p.stdout.splitlines():
        tag, _, res = l.partition(" ")
        out[tag] = res
    if p.returncode != 0 or len(out) != len(lines):
        for l in lines:
            tag = l.split(" ", 1)[0]
            out.setdefault(tag, "MODEL-DIED rc=%s %s" % (p.returncode, p.stderr[-200:].replace("\n", " ")))
    return out


def _run_shard_impl(binary, lines):
    """supervised: if the child dies, the op it was executing is recorded as ABORT and the rest is resumed"""
    out = {}
    start = 0
    aborts = 0
    while start < len(lines):
        chunk = lines[start:]
        p = subprocess.run([binary, "exec"], input="\n".join(chunk) + "\n", stdout=subprocess.PIPE, stderr=subprocess.PIPE, text=True)
        got = 0
        for l in p.stdout.splitlines():
            tag, _, res = l.partition(" ")
            if got < len(chunk) and tag == chunk[got].split(" ", 1)[0]:
                out[tag] = res
                got += 1
        if got >= len(chunk):
            break
        tag = chunk[got].split(" ", 1)[0]
        out[tag] = "ABORT rc=%s" % p.returncode
        aborts += 1
        start += got + 1
        if aborts > 200:
            for l in lines[start:]:
                out[l.split(" ", 1)[0]] = "ABORT too-many-aborts"
            break
    return out


def shard(lines, n):
    if not lines:
        return []
    size = max(1, (len(lines) + n - 1) // n)
    return [lines[i:i + size] for i in range(0, len(lines), size)]


def run_model(lines, jobs=NCPU):
    out = {}
    with ThreadPoolExecutor(max_workers=jobs) as ex:
        for r in ex.map(_run_shard_model, shard(lines, jobs * 2)):
            out.update(r)
    return out


def run_impl(binary, lines, jobs=NCPU):
    out = {}
    with ThreadPoolExecutor(max_workers=jobs) as ex:
        for r in ex.map(lambda s: _run_shard_impl(binary, s), shard(lines, jobs * 2)):
            out.update(r)
    return out
