"""Groups, members, failures; projections shared by the property modules."""
from .common import ParseResult, strip_ann


class Member:
    __slots__ = ("role", "op", "meta")

    def __init__(self, role, op, meta=None):
        self.role, self.op, self.meta = role, op, meta or {}


class Group:
    """a set of related ops evaluated together by an oracle (e.g. one stream under several schedules)"""
    __slots__ = ("gid", "kind", "meta", "members")

    def __init__(self, gid, kind, meta=None):
        self.gid, self.kind, self.meta, self.members = gid, kind, meta or {}, []

    def add(self, role, op, meta=None):
        self.members.append(Member(role, op, meta))
        return self

    def tag(self, i):
        return "%s.%d" % (self.gid, i)

    def lines(self):
        return ["%s %s" % (self.tag(i), m.op) for i, m in enumerate(self.members)]

    def to_json(self):
        return {"gid": self.gid, "kind": self.kind, "meta": self.meta,
                "members": [{"role": m.role, "op": m.op, "meta": m.meta} for m in self.members]}

    @staticmethod
    def from_json(j):
        g = Group(j["gid"], j["kind"], j.get("meta"))
        for m in j["members"]:
            g.add(m["role"], m["op"], m.get("meta"))
        return g


class Failure:
    """a concrete input on which the property fails on the implementation"""

    def __init__(self, group, oracle, what, members=None, finding=None):
        self.group, self.oracle, self.what = group, oracle, what
        self.members = members or []
        self.finding = finding      # id of a known finding recognised by a classifier, or None


# --- projections: what is compared between model and implementation -------------------------------

def proj_full(res):
    """everything except annotations"""
    return strip_ann(res)


def proj_class(res):
    """per delivery verdict class + consumed; fields; error category dropped"""
    out = []
    for part in strip_ann(res).split(" || "):
        toks = []
        for t in part.split(" "):
            if t.startswith("E:"):
                toks.append("E")
            else:
                toks.append(t)
        out.append(" ".join(toks))
    return " || ".join(out)


def proj_crash(res):
    s = strip_ann(res)
    return "CRASH" if (" P:" in " " + s or "ABORT" in s) else "ok"


def is_crash(res):
    s = " " + strip_ann(res)
    return " P:" in s or "ABORT" in s or "MODEL-" in s
