"""History independence of fresh objects (lesson of the eighth round of seeded changes, DESIGN.md §0.6).

Every property speaks about fresh parsers and plain function calls, so the answer to an operation must not depend on what
the process did before.  A change that keeps state in a `static`, a `thread_local!` or a lazily built table breaks exactly
that, and only for particular histories: after a call that *failed* half-way (a residue is left behind), after the *same*
input was seen before (a memo answers), after *another* object was left waiting in the middle of a line.

On the implementation side only, the op stream of every check is therefore woven with
  * noise blocks: a fixed set of operations of every kind that fail, fail after producing output, or are abandoned in the
    middle (unterminated lines, refused limits, out-of-range numbers — each twice, so that a memo is primed), and
  * repeats: a sample of the check's own operations is executed again right after a noise block.
A repeat must give the answer of the first execution (annotations such as allocator readings aside).  The first execution
is what the model and the oracles judge; the noise results themselves are not judged here."""
import gzip
import zlib

from .common import hx

REPEAT_EVERY = 29       # one op in 29 is repeated (behind a noise block)
MAX_LINE = 200_000      # huge ops are not repeated


def _h(name, value):
    return "%s:%s" % (hx(name), hx(value))


def _noise_ops():
    bad_crc = bytearray(gzip.compress(b"residue of an earlier message " * 40))
    bad_crc[-8] ^= 0x55
    z = zlib.compress(b"another earlier message, cut short " * 40)
    long_line = b"GET /" + b"n" * 1500 + b" HTTP/1.1\r\n\r\n"
    ops = [
        # (nothing in a block succeeds after something has failed: a success would clean up what the failure left behind)
        "DECODE 1 %s %s" % (_h(b"Content-Encoding", b"deflate, gzip"), hx(gzip.compress(b"not a deflate stream at all" * 8))),
        "TEXT %s %s" % (_h(b"Content-Type", b"text/plain; charset=bogus"), hx(b"abc")),
        # generate that fails (a value that cannot be folded into the line limit), requests and responses
        "REQGEN 12 %s %s %s ." % (hx(b"GET"), hx(b"/"), _h(b"X-Unfoldable", b"v" * 60)),
        "RESPGEN 12 404 %s %s ." % (hx(b"Not Found"), _h(b"X-Unfoldable", b"v" * 60)),
        # decoding that fails after it has produced output
        "DECODE 1 %s %s" % (_h(b"Content-Encoding", b"gzip"), hx(bytes(bad_crc))),
        "DECODE 1 %s %s" % (_h(b"Content-Encoding", b"deflate"), hx(z[:-9])),
        # text decoding that fails in the middle
        "TEXT %s %s" % (_h(b"Content-Type", b"text/plain; charset=utf-8"), hx(b"secret caf\xe9 order")),
        # parsers abandoned in the middle of a line / refused / rejected — each twice
        "REQ 1 1 - - - %s" % hx(long_line),
        "REQ 1 1 - - - %s" % hx(long_line),
        "REQ 1 1 20 - - %s" % hx(b"GET /this-request-line-is-longer-than-twenty-bytes HTTP/1.1\r\n\r\n"),
        "REQ 1 1 - - 40 %s" % hx(b"POST / HTTP/1.1\r\nContent-Length: 18446744073709551615\r\n\r\n"),
        "REQ 1 1 - - - %s" % hx(b"POST / HTTP/1.1\r\nContent-Length: 10000000000\r\n\r\nabc"),
        "RESP 1 1 - %s" % hx(b"HTTP/1.1 1000 Big\r\n\r\n"),
        "RESP 1 1 - %s" % hx(b"HTTP/1.1 1000 Big\r\n\r\n"),
        "RESP 1 1 - %s" % hx(b"HTTP/1.1 200 An unterminated status line that is left waiting for its end"),
        "RESP 1 1 - %s" % hx(b"HTTP/1.1 200 OK\r\nTransfer-Encoding: chunked\r\n\r\n5\r\nhello\r\nZZ\r\nrest"),
        "RESP 1 1 - %s" % hx(b"HTTP/1.1 200 OK\r\nTransfer-Encoding: chunked\r\n\r\n3e8;an-unterminated-extension"),
        "RESP 1 1 - %s" % hx(b"HTTP/1.1 200 OK\r\nContent-Length: 4000000000\r\n\r\nabc"),
        "RESP 1 1 - %s" % hx(b"HTTP/1.1 200 OK\r\nX: " + b"v" * 300),
        "RESP 1 1 - %s" % hx(b"HTTP/1.1 200 An unterminated status line that is left waiting for its end, a second time"),
        "REQ 1 1 - - - %s" % hx(b"GET /an-unterminated-request-line-of-some-length-that-is-left-waiting"),
        "REQ 1 1 - - - %s" % hx(b"GET /an-unterminated-request-line-of-some-length-that-is-left-waiting"),
    ]
    return ops


NOISE = _noise_ops()


def weave(lines):
    """-> the op lines for the implementation: every REPEAT_EVERY-th op followed by a noise block and its own repeat
    (tag suffixed `~2`); noise ops carry tags starting with `~n`"""
    out = []
    k = 0
    every = 1 if len(lines) <= 200 else REPEAT_EVERY       # a replay file (one group) repeats every op
    for i, l in enumerate(lines):
        out.append(l)
        if i % every == 7 % every and len(l) <= MAX_LINE:
            tag, _, rest = l.partition(" ")
            for j, op in enumerate(NOISE):
                out.append("~n%d_%d %s" % (k, j, op))
            out.append("%s~2 %s" % (tag, rest))
            k += 1
    return out
