"""Proof obligations: lake build, forbidden-token scan, `#print axioms` audit and statement pinning of the
theorems that serve one property (lean/theorems.json)."""
import glob
import hashlib
import json
import os
import re
import subprocess

from . import engine

ALLOWED_AXIOMS = {"propext", "Classical.choice", "Quot.sound"}
FORBIDDEN = [r"\bsorry\b", r"\badmit\b", r"^\s*axiom\s", r"\bnative_decide\b", r"\bbv_decide\b", r"\bimplemented_by\b",
             r"\bunsafe\s", r"maxHeartbeats\s+0\b"]
TRUSTED_BASE = [
    "Lean 4.33.0 kernel (thorough tier: re-checked with leanchecker)",
    "axioms: propext, Classical.choice, Quot.sound only (audited with #print axioms per theorem); no native_decide, no bv_decide, no sorry",
    "hand-written Lean model lean/Hm/*.lean of /repo/src/*.rs and of rhymessage, rhymuri, flate2/miniz_oxide, encoding_rs as far as DESIGN.md §3 says",
    "correspondence check: harness/hx (Rust, in-process calls of the real crate built from /repo's working tree) vs lean/Main.lean (compiled model driver), generators and oracles in vlib/*.py",
    "Lean compiler for the driver executable (compiled code is not kernel-checked), rustc/cargo",
]


def lean_sources():
    return sorted(glob.glob(os.path.join(engine.LEAN_DIR, "Hm", "*.lean"))) + [
        os.path.join(engine.LEAN_DIR, f) for f in ("Hm.lean", "Main.lean", "theorems.json", "statements.lock.json", "lakefile.toml")
        if os.path.exists(os.path.join(engine.LEAN_DIR, f))]


def source_hash():
    h = hashlib.sha256()
    for f in lean_sources():
        h.update(f.encode())
        h.update(open(f, "rb").read())
    return h.hexdigest()


def strip_comments(txt):
    txt = re.sub(r"/-.*?-/", lambda m: "\n" * m.group(0).count("\n"), txt, flags=re.S)
    return re.sub(r"--.*", "", txt)


def forbidden_scan():
    hits = []
    for f in lean_sources():
        if not f.endswith(".lean"):
            continue
        body = strip_comments(open(f).read())
        for i, line in enumerate(body.splitlines(), 1):
            for pat in FORBIDDEN:
                if re.search(pat, line):
                    hits.append("%s:%d: %s" % (os.path.relpath(f, engine.LEAN_DIR), i, line.strip()[:120]))
    return hits


def theorems_for(pid):
    ts = json.load(open(os.path.join(engine.LEAN_DIR, "theorems.json")))
    return [t for t in ts if pid in t["properties"]]


AUDIT_PRELUDE = """
open Lean Meta in
elab "#stmt " n:ident : command => do
  let c := n.getId
  let ci ← getConstInfo c
  let fmt ← Elab.Command.liftTermElabM <| ppExpr ci.type
  IO.println s!"STMT-BEGIN {c}\\n{fmt.pretty 1000000}\\nSTMT-END"
"""


def run_audit(ths):
    d = os.path.join(engine.LEAN_DIR, ".audit")
    os.makedirs(d, exist_ok=True)
    mods = sorted(set(t["module"] for t in ths))
    src = "import Lean\n" + "".join("import %s\n" % m for m in mods) + AUDIT_PRELUDE
    for t in ths:
        src += "#print axioms %s\n#stmt %s\n" % (t["name"], t["name"])
    key = hashlib.sha256(src.encode()).hexdigest()[:12]
    path = os.path.join(d, "audit_%s.lean" % key)
    open(path, "w").write(src)
    p = subprocess.run(["lake", "env", "lean", path], cwd=engine.LEAN_DIR, stdout=subprocess.PIPE, stderr=subprocess.STDOUT, text=True)
    out = p.stdout
    axioms, stmts = {}, {}
    for m in re.finditer(r"^'([A-Za-z_][\w.']*)' depends on axioms: \[([^\]]*)\]", out, flags=re.M):
        axioms[m.group(1)] = [a.strip() for a in m.group(2).replace("\n", " ").split(",") if a.strip()]
    for m in re.finditer(r"^'([A-Za-z_][\w.']*)' does not depend on any axioms", out, flags=re.M):
        axioms[m.group(1)] = []
    for m in re.finditer(r"STMT-BEGIN (\S+)\n(.*?)\nSTMT-END", out, flags=re.S):
        stmts[m.group(1)] = hashlib.sha256(m.group(2).encode()).hexdigest()[:24]
    return p.returncode, out, axioms, stmts


def check_property(pid, thorough=False, skip=False):
    ths = theorems_for(pid)
    res = {"obligations": len(ths), "discharged": 0, "broken": [], "theorems": [t["name"] for t in ths],
           "axioms_used": [], "statements_checked": 0, "trusted_base": TRUSTED_BASE,
           "checker_cmd": "cd /verif/lean && lake build Hm httpmodel && lake env lean .audit/audit_<key>.lean  (#print axioms + statement hash per theorem; forbidden-token scan)"
                          + (" && lake env leanchecker <modules>" if thorough else "")}
    if skip:
        res["checker_cmd"] = "SKIPPED (--no-proof)"
        res["discharged"] = 0
        return res
    cache_path = os.path.join(engine.LEAN_DIR, ".audit", "cache.json")
    sh = source_hash()
    cache = {}
    if os.path.exists(cache_path):
        try:
            cache = json.load(open(cache_path))
        except Exception:
            cache = {}
    ck = "%s:%s:%d" % (pid, sh, 1 if thorough else 0)
    # the driver and the library must be built in any case (cheap when up to date)
    rc, out = engine.build_lean(["Hm", "httpmodel"])
    if rc != 0:
        bad_mods = set(re.findall(r"error: (?:\./)?(Hm/\w+)\.lean", out)) | set(re.findall(r"✖ \[\d+/\d+\] Building (Hm\.\w+)", out))
        bad_mods = set(m.replace("/", ".") for m in bad_mods)
        for t in ths:
            res["broken"].append({"name": t["name"], "problem": "lake build failed" + (" in its module" if t["module"] in bad_mods else ""),
                                  "detail": out[-1500:]})
        return res
    if ck in cache:
        c = cache[ck]
        res.update({k: c[k] for k in ("discharged", "broken", "axioms_used", "statements_checked")})
        return res
    hits = forbidden_scan()
    rc, out, axioms, stmts = run_audit(ths)
    lock_path = os.path.join(engine.LEAN_DIR, "statements.lock.json")
    lock = json.load(open(lock_path)) if os.path.exists(lock_path) else {}
    used = set()
    for t in ths:
        n = t["name"]
        if hits:
            res["broken"].append({"name": n, "problem": "forbidden token in lean sources", "detail": "; ".join(hits[:5])})
            continue
        if n not in axioms:
            res["broken"].append({"name": n, "problem": "theorem missing or audit failed", "detail": out[-1500:]})
            continue
        extra = set(axioms[n]) - ALLOWED_AXIOMS
        if extra:
            res["broken"].append({"name": n, "problem": "depends on axioms outside the allowed set: %s" % sorted(extra)})
            continue
        if n in lock and stmts.get(n) != lock[n]:
            res["broken"].append({"name": n, "problem": "statement differs from lean/statements.lock.json (a property theorem was restated)"})
            continue
        if n not in lock:
            res["broken"].append({"name": n, "problem": "statement not pinned in lean/statements.lock.json"})
            continue
        res["statements_checked"] += 1
        used |= set(axioms[n])
        res["discharged"] += 1
    res["axioms_used"] = sorted(used)
    if thorough and not res["broken"]:
        mods = sorted(set(t["module"] for t in ths))
        p = subprocess.run(["lake", "env", "leanchecker"] + mods, cwd=engine.LEAN_DIR, stdout=subprocess.PIPE, stderr=subprocess.STDOUT, text=True)
        if p.returncode != 0:
            for t in ths:
                res["broken"].append({"name": t["name"], "problem": "leanchecker rejected a module", "detail": p.stdout[-1500:]})
            res["discharged"] = 0
    cache[ck] = {k: res[k] for k in ("discharged", "broken", "axioms_used", "statements_checked")}
    try:
        json.dump(cache, open(cache_path, "w"))
    except Exception:
        pass
    return res


def write_lock():
    """development tool: (re)pin the statements of all theorems in theorems.json"""
    ts = json.load(open(os.path.join(engine.LEAN_DIR, "theorems.json")))
    rc, out, axioms, stmts = run_audit(ts)
    missing = [t["name"] for t in ts if t["name"] not in stmts]
    if missing:
        print(out[-3000:])
        raise SystemExit("no statement printed for: %s" % missing)
    json.dump(stmts, open(os.path.join(engine.LEAN_DIR, "statements.lock.json"), "w"), indent=0, sort_keys=True)
    print("pinned %d statements" % len(stmts))
    bad = {n: a for n, a in axioms.items() if set(a) - ALLOWED_AXIOMS}
    print("axioms outside allowed set:", bad)
