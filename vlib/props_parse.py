"""Properties about the two resumable parsers: C01 C02 C03 C04 C05 C06 C07 C08 C09 C17."""
from . import gen
from . import extremes
from .common import Rng, ParseResult, hx, unhex, CRLF, strip_ann
from .core import Group, Failure, proj_full, proj_class, is_crash


def n_for(tier, quick, thorough):
    return quick if tier == "quick" else thorough


# --------------------------------------------------------------------------------------------
# delivery independence (C01, C02)

def delivery_oracle(group, res, kind, prop):
    """one-piece run vs every other schedule of the same stream, on the implementation alone"""
    fails = []
    base = ParseResult(res[group.tag(0)])
    fields = ["m", "t", "u", "h", "b"] if kind == "req" else ["c", "p", "h", "b"]
    stream = unhex(group.meta["stream"])
    for i in range(1, len(group.members)):
        r = ParseResult(res[group.tag(i)])
        why = None
        if r.verdict != base.verdict:
            why = "verdict %s under this delivery, %s in one piece" % (r.verdict, base.verdict)
        elif r.verdict == "complete":
            if kind == "req":
                if r.total != base.total:
                    why = "boundary %d vs %d" % (r.total, base.total)
            else:
                bb = base.total - len(base.field_bytes("x"))
                rb = r.total - len(r.field_bytes("x"))
                if bb != rb:
                    why = "boundary %d vs %d" % (rb, bb)
            if why is None:
                for f in fields:
                    if r.fields.get(f) != base.fields.get(f):
                        why = "field %s differs" % f
                        break
        elif r.verdict == "more":
            if r.total != base.total:
                why = "consumed so far %d vs %d" % (r.total, base.total)
            else:
                for f in fields + (["x"] if kind == "resp" else []):
                    if r.fields.get(f) != base.fields.get(f):
                        why = "partial field %s differs" % f
                        break
                if why is None and r.ann.get("d") != base.ann.get("d"):
                    why = "partial parser state differs (Debug fingerprint)"
        if why:
            fails.append(Failure(group, "delivery", why, [0, i]))
    if kind == "resp":
        # trailing data is exactly the delivered bytes that follow the boundary
        for i in range(len(group.members)):
            r = ParseResult(res[group.tag(i)])
            if r.verdict == "complete":
                x = r.field_bytes("x")
                boundary = r.total - len(x)
                if stream[boundary:r.total] != x:
                    fails.append(Failure(group, "trailing-data", "trailing data is not the delivered bytes after the boundary", [i]))
    return fails


LEADING_JUNK = [b"\r\n", b"\r\n\r\n", b"\r\n\r\n\r\n", b"\n", b"\n\n", b"\r", b" ", b"  ", b"\t", b"\r\n ", b" \r\n", b"\x00", b"\xef\xbb\xbf"]


class C01:
    pid = "C01"
    profiles = ["dev"]
    projection = staticmethod(proj_class)

    @staticmethod
    def generate(rng, tier, tree, ov):
        groups = []
        n = n_for(tier, 2500, 60000)
        max_all = n_for(tier, 9, 12)
        for k in range(n):
            s, info = gen.gen_request(rng)
            if rng.chance(1, 6):
                s = gen.mutate(rng, s)
            if rng.chance(1, 12):
                s = s[:rng.below(len(s) + 1)]
            cfg = gen.gen_req_cfg(rng, s, info)
            g = Group("r%d" % k, "req-delivery", {"stream": s.hex(), "cfg": list(cfg)})
            g.add("one-piece", gen.req_op(tree, ov, cfg, [s]))
            for ds in gen.schedules(rng, s, n_random=2):
                g.add("cut", gen.req_op(tree, ov, cfg, ds))
            groups.append(g)
        for j, (label, s) in enumerate(extremes.dictionary(rng, tier)[0]):
            cfg = (1000, 1000, 10_000_000)
            g = Group("D%d" % j, "req-delivery-dictionary", {"stream": s.hex(), "cfg": list(cfg), "what": label})
            g.add("one-piece", gen.req_op(tree, ov, cfg, [s]))
            g.add("cut", gen.req_op(tree, ov, cfg, gen.cut(s, gen.crlf_cuts(s))))
            groups.append(g)
        for j, it in enumerate(extremes.requests(rng, tier)):
            s, cfg = it["stream"], it["cfg"]
            g = Group("X%d" % j, "req-delivery-extreme", {"stream": s.hex(), "cfg": list(cfg), "what": it["label"]})
            g.add("one-piece", gen.req_op(tree, ov, cfg, [s]))
            for cs in it["cuts"]:
                g.add("cut", gen.req_op(tree, ov, cfg, gen.cut(s, cs)))
            groups.append(g)
        # exhaustive segmentations of short streams, limits at the exact element lengths
        shorts = [b"GET / HTTP/1.1\r\n\r\n", b"M * HTTP/1.1\r\nA:b\r\n\r\n", b"G / HTTP/1.1\r\nA: b\r\n c\r\n\r\n",
                  b"P / HTTP/1.1\r\nContent-Length:2\r\n\r\nab"]
        for j, s in enumerate(shorts if tier != "quick" else shorts[:1]):
            line_len = s.index(b"\r\n")
            for cfg in [(line_len, None, None), (line_len - 1, None, None), (None, None, len(s)), (None, None, len(s) - 1), (1000, 1000, 10_000_000)]:
                g = Group("x%d_%s" % (j, "_".join(str(c) for c in cfg)), "req-delivery-exhaustive", {"stream": s.hex(), "cfg": list(cfg)})
                g.add("one-piece", gen.req_op(tree, ov, cfg, [s]))
                if len(s) <= 19 or tier != "quick":
                    import itertools
                    m = len(s) - 1
                    masks = range(1, 2 ** m) if m <= max_all else [rng.getrandbits(m) | 1 for _ in range(2 ** max_all)]
                    for mask in masks:
                        g.add("cut", gen.req_op(tree, ov, cfg, gen.cut(s, [i + 1 for i in range(m) if mask >> i & 1])))
                groups.append(g)
        # what a lenient reader might skip in front of the start line (empty lines, a bare LF, blanks), once and several
        # times, cut at every boundary of it: an allowance "per call" shows as a verdict that depends on the delivery
        for j, pre in enumerate(LEADING_JUNK):
            for s0 in (b"GET / HTTP/1.1\r\nHost: example.com\r\n\r\n", b"POST /p HTTP/1.1\r\nContent-Length: 3\r\n\r\nabc"):
                s = pre + s0
                cfg = (1000, 1000, 10_000_000)
                g = Group("lj%d_%d" % (j, len(s0)), "req-delivery-leading", {"stream": s.hex(), "cfg": list(cfg)})
                g.add("one-piece", gen.req_op(tree, ov, cfg, [s]))
                for p in range(1, len(pre) + 2):
                    g.add("cut", gen.req_op(tree, ov, cfg, gen.cut(s, [p])))
                g.add("bytewise", gen.req_op(tree, ov, cfg, [s[i:i + 1] for i in range(len(s))]))
                groups.append(g)
        # header line exactly at / around its limit, cut inside every CRLF
        for k in range(n // 10):
            name = gen.rand_token(rng, 1, 6)
            val = gen.rand_bytes(rng, rng.below(8), b"abc1")
            line = name + b": " + val + CRLF
            s = b"GET / HTTP/1.1\r\n" + line + b"\r\n"
            for d in (-1, 0, 1):
                cfg = (None, len(line) + d, None)
                g = Group("h%d_%d" % (k, d + 1), "req-delivery-hl", {"stream": s.hex(), "cfg": list(cfg)})
                g.add("one-piece", gen.req_op(tree, ov, cfg, [s]))
                for p in gen.crlf_cuts(s):
                    g.add("cut", gen.req_op(tree, ov, cfg, gen.cut(s, [p])))
                g.add("bytewise", gen.req_op(tree, ov, cfg, [s[i:i + 1] for i in range(len(s))]))
                groups.append(g)
        return groups

    @staticmethod
    def oracle(group, res):
        return delivery_oracle(group, res, "req", "C01")

    @staticmethod
    def nontrivial(group, res):
        # reaches beyond the request line (or is rejected there with a category not seen before: counted by caller)
        r = ParseResult(res[group.tag(0)])
        return r.verdict in ("complete", "more") and (r.fields.get("h", "") != "" or r.verdict == "complete")


class C02:
    pid = "C02"
    profiles = ["dev"]
    projection = staticmethod(proj_class)

    @staticmethod
    def generate(rng, tier, tree, ov):
        groups = []
        n = n_for(tier, 2500, 60000)
        for k in range(n):
            s, info = gen.gen_response(rng, chunked_p=0.55)
            if rng.chance(1, 6):
                s = gen.mutate(rng, s)
            if rng.chance(1, 12):
                s = s[:rng.below(len(s) + 1)]
            hl = None if rng.chance(4, 5) else gen.around(rng, (info["first_lens"] or [2])[0])
            g = Group("s%d" % k, "resp-delivery", {"stream": s.hex(), "hl": hl, "framing": info["framing"]})
            g.add("one-piece", gen.resp_op(tree, ov, hl, [s]))
            for ds in gen.schedules(rng, s, n_random=2):
                g.add("cut", gen.resp_op(tree, ov, hl, ds))
            groups.append(g)
        for j, (label, s) in enumerate(extremes.dictionary(rng, tier)[1]):
            g = Group("D%d" % j, "resp-delivery-dictionary", {"stream": s.hex(), "hl": None, "framing": label})
            g.add("one-piece", gen.resp_op(tree, ov, None, [s]))
            g.add("cut", gen.resp_op(tree, ov, None, gen.cut(s, gen.crlf_cuts(s))))
            groups.append(g)
        # every status code (1xx among them) with another response right behind it: what the first message is does not
        # depend on whether the second is already there when its header block completes (eleventh round: interim responses
        # skipped when the final one was in the same call)
        for j, it in enumerate(extremes.status_sweep(tier, rng)):
            s, ml = it["stream"], it["msg_len"]
            if it["framing"] != "none" and j % 3:
                continue
            g = Group("S%d" % j, "resp-delivery-status", {"stream": s.hex(), "hl": None, "framing": it["label"]})
            g.add("one-piece", gen.resp_op(tree, ov, None, [s]))
            g.add("cut", gen.resp_op(tree, ov, None, gen.cut(s, [ml])))
            g.add("cut", gen.resp_op(tree, ov, None, gen.cut(s, [ml - 1])))
            g.add("cut", gen.resp_op(tree, ov, None, gen.cut(s, [ml + 1 + (j % 8)])))
            if j % 10 == 0:
                g.add("cut", gen.resp_op(tree, ov, None, [s[i2:i2 + 1] for i2 in range(len(s))]))
            groups.append(g)
        for j, it in enumerate(extremes.responses(rng, tier)):
            s, hl = it["stream"], it["hl"]
            g = Group("X%d" % j, "resp-delivery-extreme", {"stream": s.hex(), "hl": hl, "framing": it["label"]})
            g.add("one-piece", gen.resp_op(tree, ov, hl, [s]))
            for cs in it["cuts"]:
                g.add("cut", gen.resp_op(tree, ov, hl, gen.cut(s, cs)))
            groups.append(g)
        for j, L in enumerate([996, 997, 998, 999, 1000, 1001, 1002, 1003, 1004, 4096, 8190]):
            line = b"X-Long: " + b"v" * (L - 10) + b"\r\n"
            for where in ("trailer", "header", "trailer-second"):
                if where == "header":
                    s = b"HTTP/1.1 200 OK\r\n" + line + b"Content-Length: 2\r\n\r\nab"
                elif where == "trailer":
                    s = b"HTTP/1.1 200 OK\r\nTransfer-Encoding: chunked\r\n\r\n2\r\nab\r\n0\r\n" + line + b"\r\n"
                else:
                    s = b"HTTP/1.1 200 OK\r\nTransfer-Encoding: chunked\r\n\r\n2\r\nab\r\n0\r\nA: b\r\n" + line + b"C: d\r\n\r\nXY"
                g = Group("L%d%s" % (j, where), "resp-delivery-long-line", {"stream": s.hex(), "hl": None, "framing": where})
                g.add("one-piece", gen.resp_op(tree, ov, None, [s]))
                for c in gen.crlf_cuts(s):
                    g.add("cut", gen.resp_op(tree, ov, None, gen.cut(s, [c])))
                groups.append(g)
        for j, pre in enumerate(LEADING_JUNK):      # as in C01: what a lenient reader might skip in front of the status line
            for s0 in (b"HTTP/1.1 200 OK\r\nContent-Length: 5\r\n\r\nHello", b"HTTP/1.1 200 OK\r\nTransfer-Encoding: chunked\r\n\r\n2\r\nab\r\n0\r\n\r\n"):
                s = pre + s0
                g = Group("lj%d_%d" % (j, len(s0)), "resp-delivery-leading", {"stream": s.hex(), "hl": None, "framing": "leading"})
                g.add("one-piece", gen.resp_op(tree, ov, None, [s]))
                for p in range(1, len(pre) + 2):
                    g.add("cut", gen.resp_op(tree, ov, None, gen.cut(s, [p])))
                g.add("bytewise", gen.resp_op(tree, ov, None, [s[i:i + 1] for i in range(len(s))]))
                groups.append(g)
        shorts = [b"HTTP/1.1 200 OK\r\n\r\n", b"HTTP/1.1 200 \r\nTransfer-Encoding:chunked\r\n\r\n1;a\r\nx\r\n0\r\nA:b\r\n c\r\n\r\nZ"]
        max_all = n_for(tier, 10, 13)
        for j, s in enumerate(shorts):
            g = Group("x%d" % j, "resp-delivery-exhaustive", {"stream": s.hex(), "hl": None})
            g.add("one-piece", gen.resp_op(tree, ov, None, [s]))
            m = len(s) - 1
            masks = [rng.getrandbits(m) | (1 << rng.below(m)) for _ in range(2 ** max_all)]
            for mask in masks:
                g.add("cut", gen.resp_op(tree, ov, None, gen.cut(s, [i + 1 for i in range(m) if mask >> i & 1])))
            groups.append(g)
        return groups

    @staticmethod
    def oracle(group, res):
        return delivery_oracle(group, res, "resp", "C02")

    @staticmethod
    def nontrivial(group, res):
        r = ParseResult(res[group.tag(0)])
        return r.verdict in ("complete", "more") and (r.fields.get("h", "") != "" or r.verdict == "complete")


# --------------------------------------------------------------------------------------------
# accept sets (C03, C04): the Lean model is the specification; a verdict that differs from it is a failing input

import re

REQ_LINE_RE = re.compile(rb"^[^ ]+ [^ ]+ HTTP/1\.1$", re.S)
STATUS_LINE_RE = re.compile(rb"^HTTP/1\.1 ([0-9]+) (.*)$", re.S)


def prefix_points(rng, s, n, limit=10):
    pts = set([n - 1, n - 2, 1, 0])
    for p in gen.crlf_cuts(s[:n]):
        pts.update([p - 1, p, p + 1])
    pts = [p for p in pts if 0 <= p < n]
    rng.shuffle(pts)
    return sorted(pts[:limit])


def valid_utf8(b):
    try:
        b.decode("utf-8")
        return True
    except UnicodeDecodeError:
        return False


def accept_oracle(group, res, kind):
    """implementation-only checks for the accept-set properties: independent start-line grammar, body length,
    and 'a proper prefix of an accepted message is answered with more input'"""
    fails = []
    base = ParseResult(res[group.tag(0)])
    stream = unhex(group.meta["stream"])
    if base.verdict == "complete":
        e = stream.find(CRLF)
        line = stream[:e] if e >= 0 else stream
        if kind == "req":
            if e < 0 or not REQ_LINE_RE.match(line) or not valid_utf8(line):
                fails.append(Failure(group, "start-line-grammar", "accepted although the request line is not `method SP target SP HTTP/1.1`", [0]))
            else:
                m, t, _ = line.split(b" ")
                if base.field_bytes("m") != m:
                    fails.append(Failure(group, "extraction", "method is not the first element of the request line", [0]))
        else:
            mm = STATUS_LINE_RE.match(line) if e >= 0 else None
            if not mm or not valid_utf8(line) or int(mm.group(1)) >= 1000:
                fails.append(Failure(group, "start-line-grammar", "accepted although the status line is not `HTTP/1.1 SP code<1000 SP reason`", [0]))
            else:
                if int(base.fields["c"]) != int(mm.group(1)) or base.field_bytes("p") != mm.group(2):
                    fails.append(Failure(group, "extraction", "status code / reason phrase are not the elements of the status line", [0]))
        # body length against the Content-Length of the *final* header list (fixed framing and requests)
        cls = [v for k, v in base.headers() if k.lower() == b"content-length"]
        body = base.field_bytes("b")
        if kind == "req":
            if not cls and body:
                fails.append(Failure(group, "body", "body not empty without Content-Length", [0]))
            if cls and cls[0].isdigit() and int(cls[0]) != len(body):
                fails.append(Failure(group, "body", "body length differs from Content-Length", [0]))
            if stream[base.total - len(body):base.total] != body:
                fails.append(Failure(group, "body", "body is not the bytes before the boundary", [0]))
    for i in range(1, len(group.members)):
        m = group.members[i]
        if m.role == "cut":
            r = ParseResult(res[group.tag(i)])
            flds = ["m", "t", "u", "h", "b"] if kind == "req" else ["c", "p", "h", "b"]
            if r.verdict != base.verdict or (r.verdict == "complete" and any(r.fields.get(f) != base.fields.get(f) for f in flds)):
                fails.append(Failure(group, "accept-set-delivery", "the same bytes are answered with %s when delivered in pieces, %s in one piece" % (r.verdict, base.verdict), [0, i]))
            continue
        if m.role != "prefix":
            continue
        if base.verdict != "complete":
            continue
        boundary = base.total - (len(base.field_bytes("x")) if kind == "resp" else 0)
        if m.meta["k"] >= boundary:
            continue
        r = ParseResult(res[group.tag(i)])
        if r.verdict != "more":
            fails.append(Failure(group, "prefix", "a proper prefix (%d of %d bytes) of an accepted message is answered with %s" % (m.meta["k"], boundary, r.verdict), [0, i]))
    return fails


def small_strings(alphabet, maxlen):
    import itertools
    for n in range(maxlen + 1):
        for t in itertools.product(alphabet, repeat=n):
            yield b"".join(t)


class C03:
    pid = "C03"
    profiles = ["dev"]
    projection = staticmethod(proj_full)
    spec_oracle = "the Lean model is the request grammar (C03_accept_sound, C03_request_line_sound/_complete/_category, C03_prefix_never_rejected)"

    @staticmethod
    def generate(rng, tier, tree, ov):
        groups = []
        n = n_for(tier, 6000, 150000)
        for k in range(n):
            s, info = gen.gen_request(rng, good_p=0.7)
            if rng.chance(1, 4):
                s = gen.mutate(rng, s)
            cfg = (1000, 1000, 10_000_000) if rng.chance(2, 3) else gen.gen_req_cfg(rng, s, info)
            g = Group("a%d" % k, "req-accept", {"stream": s.hex(), "cfg": list(cfg)})
            g.add("whole", gen.req_op(tree, ov, cfg, [s]))
            if info["line_ok"] and info["fields_ok"] and rng.chance(1, 2):
                n_end = len(s)
                for p in prefix_points(rng, s, n_end, 8):
                    g.add("prefix", gen.req_op(tree, ov, cfg, [s[:p]]), {"k": p})
            if rng.chance(1, 4):
                for ds in gen.schedules(rng, s, n_random=1)[:5]:
                    g.add("cut", gen.req_op(tree, ov, cfg, ds))
            groups.append(g)
        for j, (label, s) in enumerate(extremes.dictionary(rng, tier)[0]):
            cfg = (1000, 1000, 10_000_000)
            g = Group("D%d" % j, "req-accept-dictionary", {"stream": s.hex(), "cfg": list(cfg), "what": label})
            g.add("whole", gen.req_op(tree, ov, cfg, [s]))
            g.add("cut", gen.req_op(tree, ov, cfg, gen.cut(s, gen.crlf_cuts(s))))
            groups.append(g)
        for j, it in enumerate(extremes.requests(rng, tier)):
            s, cfg = it["stream"], it["cfg"]
            g = Group("X%d" % j, "req-accept-extreme", {"stream": s.hex(), "cfg": list(cfg), "what": it["label"]})
            g.add("whole", gen.req_op(tree, ov, cfg, [s]))
            for cs in it["cuts"][:3]:
                g.add("cut", gen.req_op(tree, ov, cfg, gen.cut(s, cs)))
            groups.append(g)
        # all short strings over a structural alphabet as request lines
        alpha = [b"G", b" ", b"/", b"HTTP/1.1", b"\r", b"\n", b"\xc3", b":", b"*"]
        cfg = (1000, 1000, 10_000_000)
        for j, w in enumerate(small_strings(alpha, n_for(tier, 4, 5))):
            s = w + b"\r\n\r\n"
            g = Group("e%d" % j, "req-line-exhaustive", {"stream": s.hex(), "cfg": list(cfg)})
            g.add("whole", gen.req_op(tree, ov, cfg, [s]))
            groups.append(g)
        return groups

    @staticmethod
    def oracle(group, res):
        return accept_oracle(group, res, "req")

    @staticmethod
    def nontrivial(group, res):
        r = ParseResult(res[group.tag(0)])
        return r.verdict in ("complete", "more") or (r.category or "").startswith("Headers") or r.category in ("InvalidContentLength", "MessageTooLong")


class C04:
    pid = "C04"
    profiles = ["dev"]
    projection = staticmethod(proj_full)
    spec_oracle = "the Lean model is the response grammar (C04_accept_sound, C04_status_line_sound/_category, C04_framing_*, C04_prefix_never_rejected)"

    @staticmethod
    def generate(rng, tier, tree, ov):
        groups = []
        n = n_for(tier, 6000, 150000)
        for k in range(n):
            s, info = gen.gen_response(rng, good_p=0.7)
            if rng.chance(1, 4):
                s = gen.mutate(rng, s)
            hl = None if rng.chance(5, 6) else gen.around(rng, (info["first_lens"] or [2])[0])
            g = Group("a%d" % k, "resp-accept", {"stream": s.hex(), "hl": hl, "framing": info["framing"]})
            g.add("whole", gen.resp_op(tree, ov, hl, [s]))
            if info["line_ok"] and rng.chance(1, 2):
                for p in prefix_points(rng, s, len(s), 8):
                    g.add("prefix", gen.resp_op(tree, ov, hl, [s[:p]]), {"k": p})
            if rng.chance(1, 4):
                for ds in gen.schedules(rng, s, n_random=1)[:5]:
                    g.add("cut", gen.resp_op(tree, ov, hl, ds))
            groups.append(g)
        for j, (label, s) in enumerate(extremes.dictionary(rng, tier)[1]):
            g = Group("D%d" % j, "resp-accept-dictionary", {"stream": s.hex(), "hl": None, "what": label})
            g.add("whole", gen.resp_op(tree, ov, None, [s]))
            g.add("cut", gen.resp_op(tree, ov, None, gen.cut(s, gen.crlf_cuts(s))))
            groups.append(g)
        for j, it in enumerate(extremes.responses(rng, tier)):
            s, hl = it["stream"], it["hl"]
            g = Group("X%d" % j, "resp-accept-extreme", {"stream": s.hex(), "hl": hl, "what": it["label"]})
            g.add("whole", gen.resp_op(tree, ov, hl, [s]))
            for cs in it["cuts"][:3]:
                g.add("cut", gen.resp_op(tree, ov, hl, gen.cut(s, cs)))
            groups.append(g)
        for j, it in enumerate(extremes.status_sweep(tier, rng)):
            g = Group("S%d" % j, "resp-accept-status", {"stream": it["stream"].hex(), "hl": None, "what": it["label"], "framing": it["framing"]})
            g.add("whole", gen.resp_op(tree, ov, None, [it["stream"]]))
            groups.append(g)
        for j, it in enumerate(extremes.byte_sweep()):
            if it["kind"] == "resp":
                g = Group("B%d" % j, "resp-accept-bytes", {"stream": it["stream"].hex(), "hl": None, "what": "%s field %r" % (it["pos"], it["field"])})
                g.add("whole", gen.resp_op(tree, ov, None, [it["stream"]]))
                groups.append(g)
        alpha = [b"HTTP/1.1", b" ", b"2", b"0", b"999", b"1000", b"\r", b"\n", b"\xc3", b"+", b"x"]
        for j, w in enumerate(small_strings(alpha, n_for(tier, 4, 5))):
            s = w + b"\r\n\r\n"
            g = Group("e%d" % j, "status-line-exhaustive", {"stream": s.hex(), "hl": None})
            g.add("whole", gen.resp_op(tree, ov, None, [s]))
            groups.append(g)
        # framing precedence: both / neither / either framing header, any order and case
        for k in range(n // 6):
            cl = gen.numeric_value(rng, good_p=0.9, huge_p=0.0)
            te = rng.pick(gen.TE_VALUES)
            fs = []
            if rng.chance(2, 3):
                fs.append(gen.randcase(rng, b"Content-Length") + b": " + cl)
            if rng.chance(2, 3):
                fs.append(gen.randcase(rng, b"Transfer-Encoding") + b": " + te)
            if rng.chance(1, 3):
                fs.append(b"X: y")
            rng.shuffle(fs)
            body = rng.pick([b"", b"abc", b"3\r\nabc\r\n0\r\n\r\n", b"0\r\n\r\n", b"0\r\n\r\nrest", b"abcdefghijklmnop"])
            s = b"HTTP/1.1 200 OK\r\n" + b"".join(f + CRLF for f in fs) + CRLF + body
            g = Group("f%d" % k, "resp-framing-order", {"stream": s.hex(), "hl": None})
            g.add("whole", gen.resp_op(tree, ov, None, [s]))
            groups.append(g)
        return groups

    @staticmethod
    def oracle(group, res):
        return accept_oracle(group, res, "resp")

    @staticmethod
    def nontrivial(group, res):
        r = ParseResult(res[group.tag(0)])
        return r.verdict in ("complete", "more") or not (r.category or "").startswith("StatusLine")


# --------------------------------------------------------------------------------------------
# chunked decoding (C05)

HEX_RE = re.compile(rb"^[0-9A-Fa-f]+$")
CHUNK_PREFIXES = [b"HTTP/1.1 200 OK\r\nTransfer-Encoding: chunked\r\n\r\n",
                  b"HTTP/1.1 200 OK\r\nX-A: 1\r\ntransfer-encoding: gzip, Chunked\r\n\r\n",
                  b"HTTP/1.1 200 OK\r\nTransfer-Encoding: chunked\r\n\r\n",
                  b"HTTP/1.1 200 OK\r\nTrailer: X-T\r\nTransfer-Encoding: chunked\r\n\r\n",
                  b"HTTP/1.1 200 OK\r\nTransfer-Encoding: chunked\r\ntrailer: Host, q\r\n\r\n",
                  b"HTTP/1.1 206 Partial\r\nTrailer: X-Foo\r\nTrailer: t\r\nTransfer-Encoding: chunked\r\n\r\n"]


def recognise_chunked(b):
    """independent recogniser of RFC 7230 §4.1 (trailer fields checked only for their framing).
    -> ('ok', payload, end) | ('bad',) | ('short',)"""
    pos = 0
    payload = b""
    while True:
        i = b.find(CRLF, pos)
        if i < 0:
            return ("short",)
        size_txt = b[pos:i].split(b";", 1)[0]
        if not HEX_RE.match(size_txt):
            return ("bad",)
        n = int(size_txt, 16)
        if n >= 2 ** 64:
            return ("bad",)
        pos = i + 2
        if n == 0:
            break
        if len(b) < pos + n + 2:
            if len(b) >= pos + n + 1 and b[pos + n:pos + n + 1] != b"\r":
                return ("bad",)
            return ("short",)
        payload += b[pos:pos + n]
        if b[pos + n:pos + n + 2] != CRLF:
            return ("bad",)
        pos += n + 2
    if b[pos:pos + 2] == CRLF:
        return ("ok", payload, pos + 2)
    j = b.find(CRLF + CRLF, pos)
    if j < 0:
        return ("short",)
    return ("ok", payload, j + 4)


class C05:
    pid = "C05"
    profiles = ["dev"]
    projection = staticmethod(proj_full)
    spec_oracle = "the Lean model is the chunked grammar (C05_roundtrip, C05_complete_only_if_wellformed)"

    @staticmethod
    def generate(rng, tier, tree, ov):
        groups = []
        n = n_for(tier, 5000, 120000)
        for k in range(n):
            pre = rng.pick(CHUNK_PREFIXES)
            if rng.chance(1, 4):
                f1, f2 = rng.pick(gen.REALISTIC_FIELDS), rng.pick(gen.REALISTIC_FIELDS)
                pre = b"HTTP/1.1 200 OK\r\n" + f1[0] + b": " + f1[1] + b"\r\nTransfer-Encoding: chunked\r\n" + (f2[0] + b": " + f2[1] + b"\r\n" if rng.chance(1, 2) else b"") + b"\r\n"
            payload = gen.rand_bytes(rng, rng.below(40), b"abc\r\n0 ;5f\x00\xff") if rng.chance(9, 10) else gen.rand_bytes(rng, rng.randint(100, 700))
            valid = rng.chance(3, 5)
            body, cinfo = gen.gen_chunked(rng, payload, good_p=1.0 if valid else 0.0)
            rest = gen.rand_bytes(rng, rng.below(8), b"abc\r\n0H") if rng.chance(1, 2) else b""
            s = pre + body + rest
            meta = {"stream": s.hex(), "off": len(pre), "valid": cinfo["ok"], "payload": cinfo["payload"].hex(),
                    "trailers": [[a.hex(), b.hex()] for a, b in cinfo["trailers"]], "enc_len": len(body), "pre": pre.hex()}
            g = Group("k%d" % k, "chunked-valid" if cinfo["ok"] else "chunked-mutated", meta)
            g.add("whole", gen.resp_op(tree, ov, None, [s]))
            if rng.chance(1, 3):
                sch = gen.schedules(rng, s, n_random=1)
                rng.shuffle(sch)
                for ds in sch[:5]:
                    g.add("cut", gen.resp_op(tree, ov, None, ds))
            if rng.chance(1, 8):
                # "no byte outside the declared chunk-data ranges ever reaches the body": not even bytes the caller
                # left in the public `body` field of the Response it hands to the parser
                junk = rng.pick([b"placeholder", b"x", b"0\r\n\r\n", gen.rand_bytes(rng, rng.randint(1, 30))])
                g.add("preset-body", "RESPPRE %d %d - %s %s" % (tree, ov, hx(junk), gen.dfield([s])))
                g.add("preset-body", "RESPPRE %d %d - %s %s" % (tree, ov, hx(junk), gen.dfield(gen.cut(s, [len(pre) + 1, max(len(pre) + 2, len(s) - 3)]))))
            groups.append(g)
        for j, it in enumerate(extremes.byte_sweep()):
            if it["pos"] == "chunk":
                s = it["stream"]
                off = s.index(b"\r\n\r\n") + 4
                meta = {"stream": s.hex(), "off": off, "valid": False, "payload": "", "trailers": [], "enc_len": 0, "pre": s[:off].hex()}
                g = Group("B%d" % j, "chunked-byte-sweep", meta)
                g.add("whole", gen.resp_op(tree, ov, None, [s]))
                groups.append(g)
        alpha = [b"0", b"1", b"a", b"F", b"\r", b"\n", b"\r\n", b";", b"+", b" ", b"x", b":"]
        pre = CHUNK_PREFIXES[0]
        for j, w in enumerate(small_strings(alpha, n_for(tier, 4, 5))):
            s = pre + w + b"\r\n"
            meta = {"stream": s.hex(), "off": len(pre), "valid": False, "payload": "", "trailers": [], "enc_len": 0, "pre": pre.hex()}
            g = Group("e%d" % j, "chunked-exhaustive", meta)
            g.add("whole", gen.resp_op(tree, ov, None, [s]))
            groups.append(g)
        return groups

    @staticmethod
    def oracle(group, res):
        fails = []
        meta = group.meta
        stream = unhex(meta["stream"])
        off = meta["off"]
        for i in range(len(group.members)):
            r = ParseResult(res[group.tag(i)])
            if meta["valid"]:
                # round trip: exactly the payload, exactly those trailer fields, stops exactly at the end
                if r.verdict != "complete":
                    fails.append(Failure(group, "chunk-roundtrip", "a well-formed chunked body is answered with %s" % r.verdict, [i]))
                    continue
                if r.field_bytes("b") != unhex(meta["payload"]):
                    fails.append(Failure(group, "chunk-roundtrip", "decoded body differs from the payload", [i]))
                if r.total != off + meta["enc_len"] or r.fields.get("x", "") != "":
                    fails.append(Failure(group, "chunk-roundtrip", "decoder did not stop exactly at the end of the trailer section", [i]))
                want = [(unhex(a), unhex(b)) for a, b in meta["trailers"] if unhex(a).lower() not in (b"content-length", b"transfer-encoding", b"trailer")]
                hs = r.headers()
                if want and hs[-(len(want) + 1):-1] != want:
                    fails.append(Failure(group, "chunk-roundtrip", "the trailer fields sent (%d) are not exactly the fields appended to the headers" % len(want), [i]))
            elif r.verdict == "complete":
                rec = recognise_chunked(stream[off:])
                if rec[0] != "ok":
                    fails.append(Failure(group, "chunk-converse", "reported complete although the bytes are not a well-formed chunked body (%s)" % rec[0], [i]))
                else:
                    if rec[2] != r.total - off:
                        fails.append(Failure(group, "chunk-converse", "end of chunked body at %d, decoder stopped at %d" % (rec[2], r.total - off), [i]))
                    if rec[1] != r.field_bytes("b"):
                        fails.append(Failure(group, "chunk-converse", "body contains bytes outside the declared chunk-data ranges", [i]))
        return fails

    @staticmethod
    def nontrivial(group, res):
        r = ParseResult(res[group.tag(0)])
        return r.verdict == "complete" or (r.category or "") in ("InvalidChunkSize", "InvalidChunkTerminator", "ChunkSizeLineNotValidText") or (r.category or "").startswith("Trailer")


# --------------------------------------------------------------------------------------------
# size limits (C08)

def measure_request(stream):
    """independent measurement, as the crate defines the lengths: request line without CRLF, header lines with
    CRLF (first lines and continuation lines separately), offset of the end of the header block"""
    e = stream.find(CRLF)
    if e < 0:
        return None
    pos = e + 2
    firsts, conts = [], []
    while True:
        j = stream.find(CRLF, pos)
        if j < 0:
            return None
        if j == pos:
            # the empty line that ends the block is measured by the header parser like any other line (2 bytes)
            return {"line": e, "firsts": firsts + [2], "conts": conts, "hdr_end": j + 2}
        ln = j + 2 - pos
        if stream[pos:pos + 1] in (b" ", b"\t") and firsts:
            conts.append(ln)
        else:
            firsts.append(ln)
        pos = j + 2


class C08:
    pid = "C08"
    profiles = ["dev", "release"]
    projection = staticmethod(proj_full)
    spec_oracle = "the Lean model is the limit arithmetic (C08_request_line_exact, C08_header_line_exact, C08_accept_within_max, C08_more_implies_within_max, C08_*_none)"

    @staticmethod
    def generate(rng, tier, tree, ov):
        groups = []
        n = n_for(tier, 350, 8000)
        for k in range(n):
            # a valid request with known element lengths
            line = rng.pick(gen.GOOD_METHODS) + b" " + rng.pick(gen.GOOD_TARGETS[:8]) + b" HTTP/1.1"   # incl. multi-byte methods: limits count bytes
            fields = []
            for _ in range(rng.below(4)):
                f = gen.gen_field(rng, good_p=1.0, fold_p=0.2)
                fields.append(f)
            d = rng.pick([0, 0, 1, 3, 7, 20])
            huge = rng.chance(1, 10)
            if huge:
                d = rng.pick([2 ** 64 - 1, 2 ** 64 - 20, 2 ** 64 - 100, 2 ** 63, 2 ** 32, 10_000_001, 9_999_000])
            with_cl = d > 0 or rng.chance(1, 3)
            hb = b"".join(f.raw for f in fields)
            if with_cl and rng.chance(1, 5):
                hb += gen.randcase(rng, b"Transfer-Encoding") + b": " + rng.pick([b"chunked", b"gzip, chunked", b"Chunked", b"chunked, gzip"]) + CRLF
            if with_cl:
                hb += b"Content-Length: " + str(d).encode() + CRLF
            if with_cl and rng.chance(1, 12):
                hb += b"transfer-encoding: chunked" + CRLF
            hb += CRLF
            body = gen.rand_bytes(rng, min(d, 40), b"ab\r\n")
            s = line + CRLF + hb + body
            ms = measure_request(s)
            T = ms["hdr_end"] + (d if with_cl else 0)
            maxfirst = max(ms["firsts"])
            meta_base = {"stream": s.hex(), "line": ms["line"], "firsts": ms["firsts"], "conts": ms["conts"], "hdr_end": ms["hdr_end"],
                         "declared": d if with_cl else 0, "total": T, "supplied": len(s)}
            cfgs = []
            for dl in (-2, -1, 0, 1, 2, None):
                cfgs.append((None if dl is None else max(0, ms["line"] + dl), None, None))
                cfgs.append((None, None if dl is None else max(0, maxfirst + dl), None))
                cfgs.append((None, None, None if dl is None else min(2 ** 64 - 1, max(0, T + dl))))
            for _ in range(4):
                cfgs.append((rng.pick([None, 1000, ms["line"], ms["line"] - 1]), rng.pick([None, 1000, maxfirst, maxfirst - 1]),
                             rng.pick([None, 10_000_000, min(T, 2 ** 64 - 1), min(2 ** 64 - 1, max(0, T - 1))])))
            cfgs.append((1000, 1000, 10_000_000))
            for ci, cfg in enumerate(cfgs):
                g = Group("l%d_%d" % (k, ci), "req-limits", dict(meta_base, cfg=list(cfg)))
                g.add("one-piece", gen.req_op(tree, ov, cfg, [s]))
                if rng.chance(1, 2):
                    g.add("crlf-cuts", gen.req_op(tree, ov, cfg, gen.cut(s, gen.crlf_cuts(s))))
                if rng.chance(1, 4):
                    g.add("bytewise", gen.req_op(tree, ov, cfg, [s[i:i + 1] for i in range(len(s))]))
                groups.append(g)
        xs = []
        for line_len in (1000, 4094, 4095, 4096, 4097, 8191, 8192):
            xs.append((b"GET /" + b"a" * (line_len - 14) + b" HTTP/1.1\r\nHost: a\r\n\r\n", 0))
        for chars in (500, 900, 999, 1000):     # a method of multi-byte characters: far fewer characters than bytes
            xs.append(("\u00c9".encode() * chars + b" / HTTP/1.1\r\nHost: a\r\n\r\n", 0))
            xs.append((b"G" + "\U0001F600".encode() * (chars // 4) + b" / HTTP/1.1\r\nHost: a\r\n\r\n", 0))
        for zeros in (15, 19, 20, 21, 22, 23, 30):
            xs.append((b"POST / HTTP/1.1\r\nContent-Length: " + b"0" * zeros + b"13\r\n\r\n0123456789abc", 13))
        xs.append((b"POST / HTTP/1.1\r\n" + b"".join(b"H%d: v\r\n" % i for i in range(120)) + b"Content-Length: 3\r\n\r\nabc", 3))
        for xi, (s, d) in enumerate(xs):
            ms = measure_request(s)
            T = ms["hdr_end"] + d
            maxfirst = max(ms["firsts"])
            meta_base = {"stream": s.hex(), "line": ms["line"], "firsts": ms["firsts"], "conts": ms["conts"], "hdr_end": ms["hdr_end"],
                         "declared": d, "total": T, "supplied": len(s)}
            cfgs = [(None, None, None), (1000, 1000, 10_000_000)]
            for dl in (-1, 0, 1, 2):
                cfgs += [(ms["line"] + dl, None, None), (None, maxfirst + dl, None), (None, None, T + dl)]
            for ci, cfg in enumerate(cfgs):
                g = Group("x%d_%d" % (xi, ci), "req-limits", dict(meta_base, cfg=list(cfg)))
                g.add("one-piece", gen.req_op(tree, ov, cfg, [s]))
                g.add("crlf-cuts", gen.req_op(tree, ov, cfg, gen.cut(s, gen.crlf_cuts(s))))
                groups.append(g)
        # "more input" is never answered once the bytes presented exceed the maximum: unterminated elements
        for k in range(n):
            kind = rng.below(4)
            mx = rng.pick([10, 50, 51, 100])
            extra = rng.pick([-1, 0, 1, 2, 30])
            if kind == 0:
                s = gen.rand_bytes(rng, mx + extra, b"abcGET/ ")
            elif kind == 1:
                pre = b"GET / HTTP/1.1\r\n"
                s = pre + b"X: " + gen.rand_bytes(rng, max(0, mx + extra - len(pre) - 3), b"abc ")
            elif kind == 2:
                pre = b"GET / HTTP/1.1\r\nX: a\r\n "
                s = pre + gen.rand_bytes(rng, max(0, mx + extra - len(pre)), b"abc")
            else:
                pre = b"GET / HTTP/1.1\r\nA: b\r\n"
                s = pre + b"".join(b"H%d: v\r\n" % i for i in range(20))[:max(0, mx + extra - len(pre))]
            cfg = (rng.pick([None, 1000]), rng.pick([None, 1000]), mx)
            g = Group("u%d" % k, "req-unterminated", {"stream": s.hex(), "cfg": list(cfg), "supplied": len(s)})
            g.add("one-piece", gen.req_op(tree, ov, cfg, [s]))
            g.add("bytewise", gen.req_op(tree, ov, cfg, [s[i:i + 1] for i in range(len(s))]))
            g.add("two", gen.req_op(tree, ov, cfg, gen.cut(s, [len(s) // 2])))
            groups.append(g)
        # defaults: the limits a constructor sets are the documented ones (1000 / 1000 / 10 000 000), whether the object
        # comes from new() (`d` = fields left as made) or from Default::default() (`D`), and explicit spelling agrees
        g = Group("defaults", "req-defaults", {"stream": "", "cfg": [1000, 1000, 10_000_000]})
        for spelling in (("d", "d", "d"), ("D", "D", "D"), (1000, 1000, 10_000_000), ("D1000", "D1000", "D10000000"), ("D", 1000, "d"), (1000, "D", 10_000_000)):
            tag = "/".join(str(x) for x in spelling)
            for L in (995, 996, 997):      # request line of 999 / 1000 / 1001 bytes without its CRLF
                line = b"GET /" + b"a" * L + b" HTTP/1.1"
                g.add("%s line-%d" % (tag, len(line)), gen.req_op(tree, ov, spelling, [line + b"\r\n\r\n"]), {"want": "complete" if len(line) <= 1000 else "rejected", "what": "request line of %d bytes" % len(line)})
            for L in (999, 1000, 1001, 1002, 5000):   # header line of L bytes with its CRLF
                hline = b"X: " + b"v" * (L - 5) + b"\r\n"
                s0 = b"GET / HTTP/1.1\r\n" + hline + b"\r\n"
                g.add("%s header-%d" % (tag, L), gen.req_op(tree, ov, spelling, [s0]), {"want": "complete" if L <= 1000 else "rejected", "what": "header line of %d bytes" % L})
                g.add("%s header-%d cut" % (tag, L), gen.req_op(tree, ov, spelling, gen.cut(s0, [len(s0) - 3, len(s0) // 2])), {"want": "complete" if L <= 1000 else "rejected", "what": "header line of %d bytes (split delivery)" % L})
            for nb in (998, 1000, 1001, 1002):      # request line of nb bytes holding fewer characters than bytes
                meth = "\u00c9".encode() * ((nb - 11) // 2) + (b"" if (nb - 11) % 2 == 0 else b"X")
                line = meth + b" / HTTP/1.1"
                assert len(line) == nb
                g.add("%s mbline-%d" % (tag, nb), gen.req_op(tree, ov, spelling, [line + b"\r\n\r\n"]), {"want": "complete" if nb <= 1000 else "rejected", "what": "request line of %d bytes (%d characters)" % (nb, len(line.decode()))})
            g.add("%s header-unterminated" % tag, gen.req_op(tree, ov, spelling, [b"GET / HTTP/1.1\r\nX: " + b"v" * 1200]), {"want": "rejected", "what": "unterminated header line of 1203 bytes"})
            g.add("%s line-unterminated" % tag, gen.req_op(tree, ov, spelling, [b"GET /" + b"v" * 1200]), {"want": "rejected", "what": "unterminated request line of 1205 bytes"})
            head = b"POST / HTTP/1.1\r\nContent-Length: "
            for total in (9_999_999, 10_000_000, 10_000_001):
                d = total - len(head) - 4 - 7
                s0 = head + str(d).encode() + b"\r\n\r\nabc"
                assert len(s0) - 3 + d == total
                g.add("%s total-%d" % (tag, total), gen.req_op(tree, ov, spelling, [s0]), {"want": "more" if total <= 10_000_000 else "rejected", "what": "declared total of %d bytes" % total})
        groups.append(g)
        return groups

    @staticmethod
    def oracle(group, res):
        fails = []
        meta = group.meta
        if group.kind == "req-defaults":
            for i, m in enumerate(group.members):
                r = ParseResult(res[group.tag(i)])
                if r.verdict != m.meta["want"]:
                    fails.append(Failure(group, "default-limits", "%s under the default limits (constructor and spelling %s): %s, expected %s" % (m.meta["what"], m.label.split(" ")[0], r.verdict, m.meta["want"]), [i]))
            return fails
        rl, hl, mx = meta["cfg"]
        for i in range(len(group.members)):
            r = ParseResult(res[group.tag(i)])
            if group.kind == "req-unterminated":
                if r.verdict == "more" and meta["supplied"] > mx:
                    fails.append(Failure(group, "more-within-max", "answers `more input` with %d bytes presented for the message, maximum %d" % (meta["supplied"], mx), [i]))
                continue
            over_line = rl is not None and meta["line"] > rl
            over_first = hl is not None and any(x > hl for x in meta["firsts"])
            over_cont = hl is not None and any(x > hl for x in meta["conts"])
            over_max = mx is not None and meta["total"] > mx
            complete_possible = meta["supplied"] >= meta["total"]
            if r.verdict == "crashed":
                fails.append(Failure(group, "limit-bypass", "crash instead of a size verdict (%s)" % r.category, [i]))
            elif r.verdict == "complete":
                if over_line or over_first or over_max:
                    fails.append(Failure(group, "accept-within-limits", "accepted although %s" % ", ".join(
                        n for n, b in (("request line over its limit", over_line), ("header line over its limit", over_first), ("total over the maximum", over_max)) if b), [i]))
                elif over_cont:
                    fails.append(Failure(group, "accept-within-limits", "accepted although a continuation line is over the header line limit", [i]))
            elif r.verdict == "rejected":
                ok_cats = set()
                if over_line:
                    ok_cats.add("RequestLineTooLong")
                if over_first or over_cont:
                    ok_cats.add("Headers(HeaderLineTooLong)")
                if over_max:
                    ok_cats.add("MessageTooLong")
                if r.category in ("RequestLineTooLong", "Headers(HeaderLineTooLong)", "MessageTooLong") and r.category not in ok_cats:
                    fails.append(Failure(group, "no-spurious-size-rejection", "rejected with %s although that limit is respected" % r.category, [i]))
            elif r.verdict == "more":
                if over_max and complete_possible:
                    fails.append(Failure(group, "limit-bypass", "total over the maximum but the parser wants more input", [i]))
                if not (over_line or over_first or over_cont or over_max) and complete_possible:
                    fails.append(Failure(group, "no-spurious-size-rejection", "within all limits and fully supplied, yet not accepted", [i]))
        return fails

    @staticmethod
    def nontrivial(group, res):
        return True


# --------------------------------------------------------------------------------------------
# boundaries (C09)

def build_valid_request(rng):
    line = rng.pick(gen.GOOD_METHODS[:8]) + b" " + rng.pick(gen.GOOD_TARGETS) + b" HTTP/1.1\r\n"
    hb = b"".join(gen.gen_field(rng, good_p=1.0, fold_p=0.15).raw for _ in range(rng.below(3)))
    body = b""
    if rng.chance(1, 2):
        body = gen.rand_bytes(rng, rng.below(20), b"abc\r\n G0:")
        hb += gen.randcase(rng, b"Content-Length") + b": " + str(len(body)).encode() + CRLF
    return line + hb + CRLF + body


def build_valid_response(rng):
    line = b"HTTP/1.1 " + rng.pick(gen.GOOD_CODES) + b" " + rng.pick(gen.REASONS[:6]) + CRLF
    hb = b"".join(gen.gen_field(rng, good_p=1.0, fold_p=0.15).raw for _ in range(rng.below(3)))
    k = rng.below(3)
    if k == 0:
        body = gen.rand_bytes(rng, rng.below(20), b"abc\r\n H0:")
        hb += gen.randcase(rng, b"Content-Length") + b": " + str(len(body)).encode() + CRLF
        return line + hb + CRLF + body, "fixed"
    if k == 1:
        body, _ = gen.gen_chunked(rng, good_p=1.0)
        hb += gen.randcase(rng, b"Transfer-Encoding") + b": " + rng.pick([b"chunked", b"gzip, Chunked"]) + CRLF
        return line + hb + CRLF + body, "chunked"
    return line + hb + CRLF, "none"


SUFFIXES = [b"\r\n", b"\r", b"\n", b" ", b"\t", b"0\r\n\r\n", b"5\r\nabcde\r\n", b"GET / HTTP/1.1\r\n\r\n", b"HTTP/1.1 200 OK\r\n\r\n",
            b"A: b\r\n\r\n", b" folded\r\n", b"ff", b"\x00\xff", b"GET / HT", b"Content-Length: 5\r\n\r\nabcde"]


class C09:
    pid = "C09"
    profiles = ["dev"]
    projection = staticmethod(proj_full)

    @staticmethod
    def generate(rng, tier, tree, ov):
        groups = []
        n = n_for(tier, 2500, 80000)
        cfg = (1000, 1000, 10_000_000)
        for k in range(n):
            if k % 2 == 0:
                m = build_valid_request(rng)
                g = Group("q%d" % k, "req-suffix", {"msg": m.hex(), "kind": "req"})
                g.add("alone", gen.req_op(tree, ov, cfg, [m]))
                for _ in range(4):
                    sfx = rng.pick(SUFFIXES) if rng.chance(2, 3) else gen.rand_bytes(rng, rng.randint(1, 12))
                    g.add("suffix", gen.req_op(tree, ov, cfg, [m + sfx]), {"sfx": sfx.hex()})
                    if rng.chance(1, 3):
                        g.add("suffix-cut", gen.req_op(tree, ov, cfg, gen.cut(m + sfx, [len(m), rng.randint(1, len(m))])), {"sfx": sfx.hex()})
                    if rng.chance(1, 2):
                        g.add("suffix-cut", gen.req_op(tree, ov, cfg, gen.cut(m + sfx, [rng.randint(max(1, len(m) - 12), len(m) - 1) if len(m) > 1 else 1])), {"sfx": sfx.hex()})
            else:
                m, framing = build_valid_response(rng)
                g = Group("p%d" % k, "resp-suffix", {"msg": m.hex(), "kind": "resp", "framing": framing})
                g.add("alone", gen.resp_op(tree, ov, None, [m]))
                for _ in range(4):
                    sfx = rng.pick(SUFFIXES) if rng.chance(2, 3) else gen.rand_bytes(rng, rng.randint(1, 12))
                    g.add("suffix", gen.resp_op(tree, ov, None, [m + sfx]), {"sfx": sfx.hex()})
                    if rng.chance(1, 3):
                        g.add("suffix-cut", gen.resp_op(tree, ov, None, gen.cut(m + sfx, [len(m), rng.randint(1, len(m))])), {"sfx": sfx.hex()})
                    if rng.chance(1, 2):
                        # the message arrives in two calls and the second also carries what follows it
                        g.add("suffix-cut", gen.resp_op(tree, ov, None, gen.cut(m + sfx, [rng.randint(max(1, len(m) - 12), len(m) - 1) if len(m) > 1 else 1])), {"sfx": sfx.hex()})
            groups.append(g)
        # every status code under every framing, with bytes following the message
        for k, it in enumerate(extremes.status_sweep(tier, rng)):
            m, sfx = it["stream"][:it["msg_len"]], it["stream"][it["msg_len"]:]
            g = Group("sc%d" % k, "resp-suffix", {"msg": m.hex(), "kind": "resp", "framing": it["framing"], "what": it["label"]})
            g.add("alone", gen.resp_op(tree, ov, None, [m]))
            g.add("suffix", gen.resp_op(tree, ov, None, [m + sfx]), {"sfx": sfx.hex()})
            groups.append(g)
        # the dictionary of the source and the corpus of real-world fields: whatever is taken as one message stays that
        # message when more follows (a field like `Connection: close` does not make a body out of what follows)
        dreq, dresp = extremes.dictionary(rng, tier)
        for k, (label, s0) in enumerate(dresp):
            g = Group("pd%d" % k, "resp-stream-suffix", {"stream": s0.hex(), "kind": "resp", "what": label})
            g.add("alone", gen.resp_op(tree, ov, None, [s0]))
            g.add("suffix", gen.resp_op(tree, ov, None, [s0 + b"HTTP/1.1 200 OK\r\n\r\n"]), {"sfx": b"HTTP/1.1 200 OK\r\n\r\n".hex()})
            groups.append(g)
        for k, (label, s0) in enumerate(dreq):
            g = Group("qd%d" % k, "req-stream-suffix", {"stream": s0.hex(), "kind": "req", "what": label})
            g.add("alone", gen.req_op(tree, ov, cfg, [s0]))
            g.add("suffix", gen.req_op(tree, ov, cfg, [s0 + b"GET / HTTP/1.1\r\n\r\n"]), {"sfx": b"GET / HTTP/1.1\r\n\r\n".hex()})
            groups.append(g)
        # limits exactly at the message: bytes after the message must not be charged to it
        for k in range(n // 3):
            m = build_valid_request(rng)
            g = Group("ql%d" % k, "req-suffix", {"msg": m.hex(), "kind": "req"})
            mx = len(m) + rng.pick([0, 0, 1, 5])
            lcfg = (rng.pick([None, 1000, m.index(b"\r\n")]), rng.pick([None, 1000]), mx)
            g.add("alone", gen.req_op(tree, ov, lcfg, [m]))
            for _ in range(3):
                sfx = rng.pick(SUFFIXES) if rng.chance(1, 2) else build_valid_request(rng)
                g.add("suffix", gen.req_op(tree, ov, lcfg, [m + sfx]), {"sfx": sfx.hex()})
                g.add("suffix-cut", gen.req_op(tree, ov, lcfg, gen.cut(m + sfx, [rng.randint(1, len(m))])), {"sfx": sfx.hex()})
            groups.append(g)
        # arbitrary accepted streams (valid-biased generator and its mutations): whatever was consumed as one
        # message stays the same message when more bytes follow
        for k in range(n // 2):
            if k % 2 == 0:
                s, info = gen.gen_request(rng, good_p=0.9)
                if rng.chance(1, 6):
                    s = gen.mutate(rng, s)
                scfg = gen.gen_req_cfg(rng, s, info) if rng.chance(1, 3) else cfg
                g = Group("qs%d" % k, "req-stream-suffix", {"stream": s.hex(), "kind": "req"})
                g.add("alone", gen.req_op(tree, ov, scfg, [s]))
                for _ in range(3):
                    sfx = rng.pick(SUFFIXES) if rng.chance(2, 3) else gen.rand_bytes(rng, rng.randint(1, 12))
                    g.add("suffix", gen.req_op(tree, ov, scfg, [s + sfx]), {"sfx": sfx.hex()})
            else:
                s, info = gen.gen_response(rng, good_p=0.9, chunked_p=0.5)
                if rng.chance(1, 6):
                    s = gen.mutate(rng, s)
                g = Group("ps%d" % k, "resp-stream-suffix", {"stream": s.hex(), "kind": "resp"})
                g.add("alone", gen.resp_op(tree, ov, None, [s]))
                for _ in range(3):
                    sfx = rng.pick(SUFFIXES) if rng.chance(2, 3) else gen.rand_bytes(rng, rng.randint(1, 12))
                    g.add("suffix", gen.resp_op(tree, ov, None, [s + sfx]), {"sfx": sfx.hex()})
            groups.append(g)
        # pipelines: k messages back to back on one buffer; each offset parsed as the protocol prescribes
        for k in range(n // 5):
            is_req = rng.chance(1, 2)
            msgs = []
            for _ in range(rng.randint(2, 5)):
                msgs.append(build_valid_request(rng) if is_req else build_valid_response(rng)[0])
            tail = rng.pick([b"", b"GET", b"\r\n", b"HTTP/1.1 2"])
            whole = b"".join(msgs) + tail
            g = Group("pl%d" % k, "req-pipeline" if is_req else "resp-pipeline", {"msgs": [m.hex() for m in msgs], "kind": "req" if is_req else "resp"})
            off = 0
            for m in msgs:
                mk = (lambda ds: gen.req_op(tree, ov, cfg, ds)) if is_req else (lambda ds: gen.resp_op(tree, ov, None, ds))
                g.add("alone", mk([m]), {"len": len(m)})
                g.add("at-offset", mk([whole[off:]]), {"len": len(m), "off": off})
                off += len(m)
            groups.append(g)
        return groups

    @staticmethod
    def oracle(group, res):
        fails = []
        kind = group.meta["kind"]
        fields = ["m", "t", "u", "h", "b"] if kind == "req" else ["c", "p", "h", "b"]

        def boundary(r):
            return r.total - (len(r.field_bytes("x")) if kind == "resp" else 0)
        if group.kind.endswith("stream-suffix"):
            base = ParseResult(res[group.tag(0)])
            if base.verdict != "complete":
                return fails
            b0 = boundary(base)
            for i in range(1, len(group.members)):
                r = ParseResult(res[group.tag(i)])
                if r.verdict != "complete":
                    fails.append(Failure(group, "suffix", "with bytes appended the accepted message is answered with %s" % r.verdict, [0, i]))
                elif boundary(r) != b0:
                    fails.append(Failure(group, "suffix", "boundary moves from %d to %d when bytes are appended" % (b0, boundary(r)), [0, i]))
                elif any(r.fields.get(f) != base.fields.get(f) for f in fields):
                    fails.append(Failure(group, "suffix", "parsed message changes when bytes are appended", [0, i]))
            return fails
        if group.kind.endswith("suffix"):
            base = ParseResult(res[group.tag(0)])
            m = unhex(group.meta["msg"])
            if base.verdict != "complete" or boundary(base) != len(m):
                # the generator's message was not accepted as one message: not a C09 case
                return fails
            for i in range(1, len(group.members)):
                r = ParseResult(res[group.tag(i)])
                if r.verdict != "complete":
                    fails.append(Failure(group, "suffix", "with bytes appended the message is answered with %s" % r.verdict, [0, i]))
                elif boundary(r) != len(m):
                    fails.append(Failure(group, "suffix", "boundary moves from %d to %d when bytes are appended" % (len(m), boundary(r)), [0, i]))
                elif any(r.fields.get(f) != base.fields.get(f) for f in fields):
                    fails.append(Failure(group, "suffix", "parsed message changes when bytes are appended", [0, i]))
                elif kind == "resp" and group.members[i].role == "suffix":
                    sfx = unhex(group.members[i].meta["sfx"])
                    x = r.field_bytes("x")
                    if x and not sfx.startswith(x):
                        fails.append(Failure(group, "suffix", "trailing data is not a prefix of the appended bytes", [i]))
                    elif group.meta.get("framing") in ("none", "chunked") and (x or r.total != len(m)):
                        # only a declared-length body lets the parser set the rest of the delivery aside; a chunked or
                        # body-less message ends where it ends, so that the caller finds the next message at that offset
                        fails.append(Failure(group, "suffix", "%d bytes beyond a %s message are consumed (the next message is not found at the offset reported)" % (
                            r.total - len(m), "chunked" if group.meta["framing"] == "chunked" else "body-less"), [i]))
        else:
            for i in range(0, len(group.members), 2):
                a = ParseResult(res[group.tag(i)])
                b = ParseResult(res[group.tag(i + 1)])
                ln = group.members[i].meta["len"]
                if a.verdict != "complete" or boundary(a) != ln:
                    continue
                if b.verdict != "complete" or boundary(b) != ln or any(a.fields.get(f) != b.fields.get(f) for f in fields):
                    fails.append(Failure(group, "pipeline", "message %d of a pipeline is not split off as when sent alone" % (i // 2), [i, i + 1]))
        return fails

    @staticmethod
    def nontrivial(group, res):
        return ParseResult(res[group.tag(0)]).verdict == "complete"


# --------------------------------------------------------------------------------------------
# numeric fields (C17)

NUM_ALPHA = [b"0", b"1", b"9", b"a", b"F", b"+", b"-", b" ", b"\t", b"x", b"_", b",", b"\r"]
DEC_RE = re.compile(rb"^[0-9]+$")


def one_non_digit(rng, radix16=False):
    digits = b"0123456789abcdefABCDEF" if radix16 else b"0123456789"
    s = bytes(rng.pick(digits) for _ in range(rng.randint(1, 5)))
    i = rng.below(len(s) + 1)
    bad = rng.pick([b"+", b"-", b" ", b"\t", b"x", b"_", b",", b".", b"e", b"g", b"\x00", b"\xc2\xa0", b"\xef\xbc\x91", b"'", b"h", b"\x0b", b"\x0c"])
    return s[:i] + bad + s[i:]


class C17:
    pid = "C17"
    profiles = ["dev"]
    projection = staticmethod(proj_class)
    spec_oracle = "the Lean model accepts numeric fields in digit form only (C17_request_content_length, C17_chunk_size, C17_status_code)"

    @staticmethod
    def build(pos, s, tree, ov):
        body = b"abcdefghijklmnopqrstuvwxyz0123456789" * 8
        if pos == "req-cl":
            return gen.req_op(tree, ov, (None, None, None), [b"POST / HTTP/1.1\r\nContent-Length: " + s + b"\r\n\r\n" + body])
        if pos.startswith("resp-cl"):
            code = pos[7:] or "200"
            return gen.resp_op(tree, ov, None, [b"HTTP/1.1 " + code.encode() + b" OK\r\nContent-Length:" + s + b"\r\n\r\n" + body])
        if pos == "respclose-cl":
            return gen.resp_op(tree, ov, None, [b"HTTP/1.1 200 OK\r\nConnection: close\r\nContent-Length:" + s + b"\r\n\r\n" + body])
        if pos == "respte-cl":
            return gen.resp_op(tree, ov, None, [b"HTTP/1.1 200 OK\r\nTransfer-Encoding: chunked\r\nContent-Length:" + s + b"\r\n\r\n" + body])
        if pos == "respte2-cl":
            return gen.resp_op(tree, ov, None, [b"HTTP/1.1 200 OK\r\nContent-Length:" + s + b"\r\ntransfer-encoding: gzip, Chunked\r\n\r\n" + body])
        if pos == "reqte-cl":
            return gen.req_op(tree, ov, (None, None, None), [b"POST / HTTP/1.1\r\nTransfer-Encoding: chunked\r\nContent-Length: " + s + b"\r\n\r\n" + body])
        if pos.startswith("req-cl-"):
            return gen.req_op(tree, ov, (None, None, None), [pos[7:].encode() + b" / HTTP/1.1\r\nContent-Length: " + s + b"\r\n\r\n" + body])
        if pos == "chunk":
            return gen.resp_op(tree, ov, None, [b"HTTP/1.1 200 OK\r\nTransfer-Encoding: chunked\r\n\r\n" + s + b"\r\n" + body + b"\r\n0\r\n\r\n"])
        if pos == "chunk-ext":
            return gen.resp_op(tree, ov, None, [b"HTTP/1.1 200 OK\r\nTransfer-Encoding: chunked\r\n\r\n" + s + b";x=y\r\n" + body + b"\r\n0\r\n\r\n"])
        return gen.resp_op(tree, ov, None, [b"HTTP/1.1 " + s + b" OK\r\n\r\n"])

    @staticmethod
    def generate(rng, tier, tree, ov):
        groups = []
        positions = ["req-cl", "resp-cl", "chunk", "chunk-ext", "status"]
        more_positions = ["resp-cl100", "resp-cl101", "resp-cl199", "resp-cl204", "resp-cl304", "resp-cl404", "resp-cl0", "resp-cl999",
                          "req-cl-GET", "req-cl-HEAD", "req-cl-OPTIONS", "req-cl-CONNECT", "req-cl-TRACE",
                          "respte-cl", "respte2-cl", "reqte-cl", "respclose-cl"]
        k = 0
        for w in small_strings(NUM_ALPHA, 2):
            for pos in more_positions:
                g = Group("n%d" % k, "numeric-exhaustive", {"pos": pos, "field": w.hex()})
                g.add("whole", C17.build(pos, w, tree, ov))
                groups.append(g)
                k += 1
        positions = positions + more_positions
        for w in small_strings(NUM_ALPHA, n_for(tier, 3, 4)):
            for pos in positions[:5]:
                g = Group("n%d" % k, "numeric-exhaustive", {"pos": pos, "field": w.hex()})
                g.add("whole", C17.build(pos, w, tree, ov))
                groups.append(g)
                k += 1
        for w in []:
            for pos in positions:
                g = Group("n%d" % k, "numeric-exhaustive", {"pos": pos, "field": w.hex()})
                g.add("whole", C17.build(pos, w, tree, ov))
                groups.append(g)
                k += 1
        from . import srcdict
        widths = sorted(set((14, 15, 16, 17, 19, 20, 21, 22, 30)) | set(v + d for v in srcdict.load()["ints"] if 4 <= v <= 80 for d in (-2, -1, 0, 1)))
        wide = [b"0" * z + d for z in widths for d in (b"5", b"+5", b"a", b"+a", b"x", b"120", b"288")] + \
               [sg + b"0" * z + d for z in widths for sg in (b"+", b"-") for d in (b"5", b"a", b"120", b"288", b"200")] + \
               [b"0" * z + b"+" + b"0" * (15 - t) + b"a" * t for z in (1, 2, 5) for t in (1, 2)] + [b"0+00000000000000a", b"00+0000000000000a", b"0+000000000000005"] + \
               [b"0" * z + b"+" + b"0" * 12 + b"120" for z in (1, 2, 3, 9)] + [b"0" * z + b"120" for z in (13, 14, 15, 20, 29)] + [b"0" * z + b"288" for z in (17, 18, 19, 20, 25)] + \
               [b"0" * z + b"+" + b"0" * 12 + b"288" for z in (1, 4)]
        for w in wide:
            for pos in positions:
                g = Group("n%d" % k, "numeric-wide", {"pos": pos, "field": w.hex()})
                g.add("whole", C17.build(pos, w, tree, ov))
                groups.append(g)
                k += 1
        for it in extremes.byte_sweep():
            g = Group("n%d" % k, "numeric-byte-sweep", {"pos": it["pos"], "field": it["field"].hex()})
            g.add("whole", gen.resp_op(tree, ov, None, [it["stream"]]) if it["kind"] == "resp" else gen.req_op(tree, ov, (None, None, None), [it["stream"]]))
            groups.append(g)
            k += 1
        for _ in range(n_for(tier, 1500, 40000)):
            pos = rng.pick(positions)
            w = one_non_digit(rng, radix16=pos.startswith("chunk")) if rng.chance(3, 4) else rng.pick(gen.NUMERIC_GOOD + gen.NUMERIC_BAD + gen.NUMERIC_HUGE)
            g = Group("n%d" % k, "numeric-one-non-digit", {"pos": pos, "field": w.hex()})
            g.add("whole", C17.build(pos, w, tree, ov))
            groups.append(g)
            k += 1
        return groups

    @staticmethod
    def oracle(group, res):
        fails = []
        pos, w = group.meta["pos"], unhex(group.meta["field"])
        r = ParseResult(res[group.tag(0)])
        if pos.startswith("req-cl") or pos.startswith("resp-cl") or pos in ("respte-cl", "respte2-cl", "reqte-cl", "respclose-cl"):
            if b"\r" in w or b"\n" in w:
                return fails        # the field then is not one header value
            field = w.strip(b" \t")
            ok_form = bool(DEC_RE.match(field))
            in_range = ok_form and int(field) <= 288
        elif pos in ("chunk", "chunk-ext"):
            field = w.split(b";", 1)[0]
            if b"\r\n" in w:
                return fails
            ok_form = bool(HEX_RE.match(field))
            in_range = ok_form and int(field, 16) == 288
        else:
            if b"\r" in w:
                return fails
            field = w.split(b" ", 1)[0]
            ok_form = bool(DEC_RE.match(field))
            in_range = ok_form and int(field) < 1000
        if r.verdict in ("complete", "more") and not ok_form:
            fails.append(Failure(group, "numeric-form", "%s field %r is not in RFC form but the message is %s" % (pos, field, "accepted" if r.verdict == "complete" else "interpreted (more input wanted)"), [0]))
        if ok_form and in_range and r.verdict != "complete":
            fails.append(Failure(group, "numeric-form", "%s field %r is in RFC form and in range but the message is %s" % (pos, field, r.verdict), [0]))
        return fails

    @staticmethod
    def nontrivial(group, res):
        return True


# --------------------------------------------------------------------------------------------
# no crash (C06) and allocation (C07)

def crash_oracle(group, res):
    fails = []
    for i in range(len(group.members)):
        r = res.get(group.tag(i), "MISSING")
        s = " " + strip_ann(r)
        if " P:" in s or "ABORT" in s or "MISSING" in s:
            what = [t for t in s.split(" ") if t.startswith("P:") or t.startswith("ABORT") or t == "MISSING"][0]
            fails.append(Failure(group, "no-crash", "the operation %s (%s)" % ("aborted the process" if "ABORT" in what else "panicked", what), [i]))
    return fails


MULTIBYTE = ["é".encode(), "€".encode(), "\U0001F600".encode(), b"\xc3", b"\xe2\x82", b"\xf0\x9f\x98"] + \
            [c.encode() for c in gen.UNICODE_LOOKALIKES]


class C06:
    pid = "C06"
    profiles = ["dev", "release"]

    @staticmethod
    def projection(res):
        s = " " + strip_ann(res)
        return "crash" if (" P:" in s or "ABORT" in s) else "returns"

    @staticmethod
    def generate(rng, tier, tree, ov):
        groups = []
        n = n_for(tier, 1500, 50000)
        k = 0

        def add(kind, op, meta=None):
            nonlocal k
            g = Group("z%d" % k, kind, meta or {})
            g.add("op", op)
            groups.append(g)
            k += 1
            return g
        huge = gen.NUMERIC_HUGE + [str(2 ** 64 - d).encode() for d in (1, 2, 17, 18, 19, 20, 21, 40, 60, 100)] + [b"0", b"1"]
        for _ in range(n):
            # numeric fields in every length-bearing position
            v = rng.pick(huge)
            cfg = rng.pick([(1000, 1000, 10_000_000), (None, None, None), (None, None, 100), (10, 10, 10), (1000, 1000, 2 ** 64 - 1), (0, 0, 0), (1, 2, 3)])
            body = gen.rand_bytes(rng, rng.below(20), b"abc\r\n")
            s = b"POST /x HTTP/1.1\r\n" + rng.pick([b"", b"Host: a\r\n"]) + b"Content-Length: " + v + b"\r\n\r\n" + body
            g = add("req-numeric", gen.req_op(tree, ov, cfg, [s]))
            g.add("cut", gen.req_op(tree, ov, cfg, gen.cut(s, gen.crlf_cuts(s))))
            s = b"HTTP/1.1 200 OK\r\nContent-Length: " + v + b"\r\n\r\n" + body
            g = add("resp-numeric", gen.resp_op(tree, ov, None, [s]))
            g.add("cut", gen.resp_op(tree, ov, None, gen.cut(s, gen.crlf_cuts(s))))
            hv = rng.pick(gen.BAD_SIZES + [b"%x" % (2 ** 64 - d) for d in (1, 2, 5, 16)] + [b"7fffffffffffffff", b"8000000000000001", b"1", b"ffffffff"])
            first = rng.pick([b"", b"1\r\na\r\n", b"3;x\r\nabc\r\n"])
            s = b"HTTP/1.1 200 OK\r\nTransfer-Encoding: chunked\r\n\r\n" + first + hv + b"\r\n" + body
            g = add("chunk-numeric", gen.resp_op(tree, ov, None, [s]))
            g.add("cut", gen.resp_op(tree, ov, None, gen.cut(s, gen.crlf_cuts(s))))
            g.add("bytewise", gen.resp_op(tree, ov, None, [s[i:i + 1] for i in range(len(s))]))
            code = rng.pick(gen.BAD_CODES + gen.GOOD_CODES)
            add("status-numeric", gen.resp_op(tree, ov, None, [b"HTTP/1.1 " + code + b" x\r\n\r\n"]))
        for nchunks in (1000, 5000, 20000, 60000):
            body = b"1\r\nx\r\n" * nchunks + b"0\r\n\r\n"
            s = b"HTTP/1.1 200 OK\r\nTransfer-Encoding: chunked\r\n\r\n" + body
            g = Group("z%d" % k, "chunk-many", {"chunks": nchunks})
            g.add("op", gen.resp_op(tree, ov, None, [s]), {"nocmp": True})
            g.add("two", gen.resp_op(tree, ov, None, [s[:len(s) // 2 + 1], s[len(s) // 2 + 1:]]), {"nocmp": True})
            groups.append(g)
            k += 1
        # general streams with mutations, all kinds of limits
        for _ in range(n):
            s, info = gen.gen_request(rng, good_p=0.6)
            for _ in range(rng.below(3)):
                s = gen.mutate(rng, s)
            cfg = gen.gen_req_cfg(rng, s, info)
            g = add("req-stream", gen.req_op(tree, ov, cfg, [s]))
            for ds in gen.schedules(rng, s, n_random=1)[:3]:
                g.add("cut", gen.req_op(tree, ov, cfg, ds))
            s, info = gen.gen_response(rng, good_p=0.6)
            for _ in range(rng.below(3)):
                s = gen.mutate(rng, s)
            hl = rng.pick([None, None, 0, 1, 2, 5, 1000])
            g = add("resp-stream", gen.resp_op(tree, ov, hl, [s]))
            for ds in gen.schedules(rng, s, n_random=1)[:3]:
                g.add("cut", gen.resp_op(tree, ov, hl, ds))
        # multi-byte UTF-8 slid across every slicing position of the start lines
        for base, mk in ((b"GET /a HTTP/1.1", lambda s: gen.req_op(tree, ov, (1000, 1000, 10_000_000), [s + b"\r\n\r\n"])),
                         (b"HTTP/1.1 200 OK", lambda s: gen.resp_op(tree, ov, None, [s + b"\r\n\r\n"])),
                         (b"3;a=b", lambda s: gen.resp_op(tree, ov, None, [b"HTTP/1.1 200 OK\r\nTransfer-Encoding: chunked\r\n\r\n" + s + b"\r\nabc\r\n0\r\n\r\n"]))):
            for i in range(len(base) + 1):
                for mb in MULTIBYTE:
                    add("multibyte-insert", mk(base[:i] + mb + base[i:]))
                    if i < len(base):
                        add("multibyte-replace", mk(base[:i] + mb + base[i + 1:]))
        # long lines: a multi-byte character straddling every byte offset up to 300 (error texts, excerpts, limits)
        dreq, dresp = extremes.dictionary(rng, tier)
        for label, s in dreq:
            add("req-dictionary", gen.req_op(tree, ov, (1000, 1000, 10_000_000), [s]), {"what": label})
        for label, s in dresp:
            add("resp-dictionary", gen.resp_op(tree, ov, None, [s]), {"what": label})
        for it in extremes.requests(rng, tier):
            add("req-extreme", gen.req_op(tree, ov, it["cfg"], [it["stream"]]), {"what": it["label"]})
        for it in extremes.responses(rng, tier):
            add("resp-extreme", gen.resp_op(tree, ov, it["hl"], [it["stream"]]), {"what": it["label"]})
        for label, kind, s in extremes.floods(rng, tier):
            g = Group("z%d" % k, "flood", {"what": label})
            g.add("op", gen.req_op(tree, ov, (None, None, None), [s]) if kind == "req" else gen.resp_op(tree, ov, None, [s]), {"nocmp": True})
            groups.append(g)
            k += 1
        for p in list(range(1, n_for(tier, 300, 1100))) + list(range(985, 1015)) + list(range(4088, 4102)) + [8190, 8191, 8192, 8193, 65535, 65536]:
            for mb in ("\u20ac".encode(), "\U0001F600".encode()):
                filler = b"a" * (p - 1) + mb + b"a" * 8
                add("multibyte-long", gen.resp_op(tree, ov, None, [filler + b"\r\n\r\n"]))                       # no protocol delimiter
                add("multibyte-long", gen.resp_op(tree, ov, None, [b"HTTP/1.0 " + filler + b"\r\n\r\n"]))       # wrong protocol
                add("multibyte-long", gen.resp_op(tree, ov, None, [b"HTTP/1.1 " + filler + b"\r\n\r\n"]))       # no status-code delimiter
                add("multibyte-long", gen.resp_op(tree, ov, None, [b"HTTP/1.1 200 " + filler + b"\r\n\r\n"]))   # accepted, long reason
                add("multibyte-long", gen.req_op(tree, ov, (None, None, None), [filler + b"\r\n\r\n"]))
                add("multibyte-long", gen.req_op(tree, ov, (p, None, None), [filler + b" / HTTP/1.1\r\n\r\n"]))
                add("multibyte-long", gen.req_op(tree, ov, (None, None, None), [b"GET /" + filler + b" HTTP/1.1\r\n\r\n"]))
                add("multibyte-long", gen.req_op(tree, ov, (None, p, None), [b"GET / HTTP/1.1\r\n" + filler + b": v\r\n\r\n"]))
                add("multibyte-long", gen.resp_op(tree, ov, None, [b"HTTP/1.1 200 OK\r\nTransfer-Encoding: chunked\r\n\r\n" + b"1;" + filler + b"\r\na\r\n0\r\n\r\n"]))
        ct = b"text/plain; charset=utf-8"
        for i in range(len(ct) + 1):
            for mb in MULTIBYTE[:3] + MULTIBYTE[6:]:
                v = ct[:i] + mb + ct[i:]
                add("multibyte-content-type", "TEXT %s %s" % (gen.hdrs_field([(b"Content-Type", v)]), hx(b"ab\xc3\xa9")))
        # generate with every small line limit
        for _ in range(n // 3):
            hl = rng.pick([None, 0, 1, 2, 3, 4, 5, 8, 12, 20, 1000])
            hs = [(rng.pick(gen.NEUTRAL_NAMES + [b""]), rng.pick(gen.NEUTRAL_VALUES + [b"a b c d e f g h i j", "é é é".encode(), b"averyveryverylongvaluewithoutblanks"])) for _ in range(rng.below(3))]
            body = gen.rand_bytes(rng, rng.below(6))
            if rng.chance(1, 2):
                add("req-generate", "REQGEN %s %s %s %s %s" % (gen.opt(hl), hx(rng.pick(gen.GOOD_METHODS)), hx(rng.pick(gen.GOOD_TARGETS + gen.D8_TARGETS)), gen.hdrs_field(hs), hx(body)), {"hl": hl})
            else:
                add("resp-generate", "RESPGEN %s %d %s %s %s" % (gen.opt(hl), rng.pick([0, 200, 999, 1000, 2 ** 64 - 1]), hx(rng.pick(gen.REASONS)), gen.hdrs_field(hs), hx(body)), {"hl": hl})
        # content and text decoding on junk
        for _ in range(n):
            toks = [rng.pick([b"gzip", b"deflate", b"GZIP", b"x", b""]) for _ in range(rng.below(4))]
            body = rng.pick([b"", b"\x1f\x8b", b"\x1f\x8b\x08\x00\x00\x00\x00\x00\x00\xff", b"\x78\x9c", b"\x03\x00", b"\x78\x9c\x03\x00\x00\x00\x00\x01"]) + gen.rand_bytes(rng, rng.below(30))
            add("decode-junk", "DECODE %d %s %s" % (tree, gen.hdrs_field([(b"Content-Encoding", b", ".join(toks))]), hx(body)))
            ctv = rng.pick([b"text/plain", b"text/plain; charset=utf-8", b"text/x;charset=", b"/", b";", b"text/;=;charset", b"TEXT/a; x=y; CHARSET=Shift_JIS", b"text/a;charset=utf-16le", b"text/a;charset=iso-2022-jp", b"text/a; charset=gb18030", b"text/a; charset=big5", b"text/a; charset=euc-kr", b"text/a; charset=x-user-defined", b"text/a; charset=replacement"])
            add("text-junk", "TEXT %s %s" % (gen.hdrs_field([(b"Content-Type", ctv)]), hx(gen.rand_bytes(rng, rng.below(12)))))
        # text decoding: the structured Content-Type grammar and every short string over its structural alphabet
        # the limits are public fields: changed between calls (compared with the model, whose `parse` takes the
        # limits of each call), in particular lowered below what has already been counted
        def cfgs_field(cs):
            return ";".join(",".join(gen.opt(x) for x in c) for c in cs)
        lim_pool = [None, 0, 1, 2, 10, 40, 41, 42, 43, 44, 50, 100, 1000, 10_000_000, 2 ** 64 - 1]
        for _ in range(n):
            d = rng.pick([0, 1, 5, 30, 100, 10 ** 7, 2 ** 64 - 1, 2 ** 63])
            body = gen.rand_bytes(rng, min(d, rng.below(40)), b"abc\r\n")
            s = rng.pick(gen.GOOD_METHODS[:6]) + b" /x HTTP/1.1\r\n" + rng.pick([b"", b"Host: a\r\n", b"A: b\r\n c\r\n"]) + b"Content-Length: %d\r\n\r\n" % d + body
            ds = rng.pick(gen.schedules(rng, s, n_random=2))
            ds = ds[:12]
            cs = []
            cur = [rng.pick([None, 1000, 20]), rng.pick([None, 1000, 30]), rng.pick(lim_pool)]
            for _i in ds:
                if rng.chance(1, 2):
                    cur[rng.below(3)] = rng.pick(lim_pool)
                cs.append(tuple(cur))
            add("req-limits-changed", "REQV %d %d %s %s" % (tree, ov, cfgs_field(cs), gen.dfield(ds)))
        # `parse` called again after it returned an error (the documented protocol stops there; implementation only):
        # whatever state an error leaves behind, the next call must not crash
        for _ in range(n):
            if rng.chance(1, 2):
                s, info = gen.gen_request(rng, good_p=0.5)
                if rng.chance(1, 2):
                    s = gen.mutate(rng, s)
                if rng.chance(1, 3):
                    s = b"POST / HTTP/1.1\r\nContent-Length: " + rng.pick(huge) + b"\r\n\r\n" + s
                ds = rng.pick((gen.schedules(rng, s, n_random=2) if len(s) > 2 else []) or [[s]])[:10] + [b"GET / HTTP/1.1\r\n\r\n", b"x"]
                c = (rng.pick([None, 1000, 5]), rng.pick([None, 1000, 5]), rng.pick([None, 10_000_000, 5, 60, 4096]))
                add("req-after-error", "REQE %d %d %s %s" % (tree, ov, cfgs_field([c] * len(ds)), gen.dfield(ds)), None).members[0].meta["nocmp"] = True
            else:
                s, info = gen.gen_response(rng, good_p=0.5, chunked_p=0.5)
                if rng.chance(1, 2):
                    s = gen.mutate(rng, s)
                ds = rng.pick((gen.schedules(rng, s, n_random=2) if len(s) > 2 else []) or [[s]])[:10] + [b"0\r\n\r\n", b"x"]
                add("resp-after-error", "RESPE %d %d %s %s" % (tree, ov, rng.pick(["-", "-", "30", "1000"]), gen.dfield(ds)), None).members[0].meta["nocmp"] = True
        from . import props_coding
        for _ in range(n):
            hs, body = props_coding.gen_text_case(rng)
            add("text-grammar", "TEXT %s %s" % (gen.hdrs_field(hs), hx(body)))
            hs, body, _ = props_coding.gen_decode_case(rng, corrupt_p=0.3)
            if len(body) < 3000:
                add("decode-grammar", "DECODE %d %s %s" % (tree, gen.hdrs_field(hs), hx(gen.mutate(rng, body) if rng.chance(1, 2) else body)))
        for w in small_strings([b'"', b"=", b";", b"a", b" ", b"/", b"\xc3\xa9", b"'"], n_for(tier, 3, 4)):
            add("text-structural", "TEXT %s %s" % (gen.hdrs_field([(b"Content-Type", b"text/plain; charset=" + w)]), hx(b"a\xc3\xa9")))
            add("text-structural", "TEXT %s %s" % (gen.hdrs_field([(b"Content-Type", b"text" + w)]), hx(b"a")))
            add("text-structural", "TEXT %s %s" % (gen.hdrs_field([(b"Content-Type", b"text/x;" + w + b"charset=utf-8")]), hx(b"a")))
        return groups

    @staticmethod
    def oracle(group, res):
        return crash_oracle(group, res)

    @staticmethod
    def nontrivial(group, res):
        return True


def alloc_bound(presented, mx, c0, k):
    return c0 + k * presented + (mx or 0)


class C07:
    pid = "C07"
    profiles = ["dev", "release"]
    uses_model = True

    @staticmethod
    def projection(res):
        # C07 is about what is allocated, not about verdicts (§4.3): model and implementation are compared on
        # crash / no crash here and on reservations vs allocator readings in the oracle
        s = " " + strip_ann(res)
        return "crash" if (" P:" in s or "ABORT" in s) else "returns"

    @staticmethod
    def generate(rng, tier, tree, ov):
        groups = []
        declared = [0, 1, 10, 1000, 4096, 65536, 10 ** 6, 10 ** 7, 2 ** 28 - 1, 2 ** 28 + 1, 2 ** 31, 2 ** 40, 2 ** 47, 2 ** 63 - 1, 2 ** 63, 2 ** 64 - 100, 2 ** 64 - 1]
        from . import srcdict
        declared = sorted(set(declared) | set(v + d for v in srcdict.load()["ints"] if v > 100 for d in (-1, 0, 1) if 0 <= v + d < 2 ** 64))
        reps = n_for(tier, 2, 40)
        k = 0
        for _ in range(reps):
            for d in declared + [rng.randrange(2 ** rng.randint(1, 64)) for _ in range(6)]:
                for supplied in (0, 1, 10, 200):
                    body = gen.rand_bytes(rng, min(supplied, d), b"abc\r\n")
                    for mx in (None, 10_000_000, 100, 2 ** 64 - 1):
                        s = b"POST / HTTP/1.1\r\nContent-Length: %d\r\n\r\n" % d + body
                        cfg = (1000, 1000, mx)
                        g = Group("m%d" % k, "req-declared", {"declared": d, "max": mx, "supplied": len(body)})
                        g.add("one-piece", gen.req_op(tree, ov, cfg, [s]))
                        g.add("cut", gen.req_op(tree, ov, cfg, gen.cut(s, gen.crlf_cuts(s) + [len(s) - len(body) // 2])))
                        groups.append(g)
                        k += 1
                    s = b"HTTP/1.1 200 OK\r\nContent-Length: %d\r\n\r\n" % d + body
                    g = Group("m%d" % k, "resp-declared", {"declared": d, "max": None, "supplied": len(body)})
                    g.add("one-piece", gen.resp_op(tree, ov, None, [s]))
                    g.add("cut", gen.resp_op(tree, ov, None, gen.cut(s, gen.crlf_cuts(s) + [len(s) - len(body) // 2])))
                    groups.append(g)
                    k += 1
                    first = rng.pick([b"", b"2\r\nab\r\n"])
                    s = b"HTTP/1.1 200 OK\r\nTransfer-Encoding: chunked\r\n\r\n" + first + b"%x\r\n" % d + body
                    g = Group("m%d" % k, "chunk-declared", {"declared": d, "max": None, "supplied": len(body)})
                    g.add("one-piece", gen.resp_op(tree, ov, None, [s]))
                    g.add("cut", gen.resp_op(tree, ov, None, gen.cut(s, gen.crlf_cuts(s) + [len(s) - len(body) // 2])))
                    g.add("bytewise", gen.resp_op(tree, ov, None, [s[i:i + 1] for i in range(len(s))]))
                    groups.append(g)
                    k += 1
        # a body that straddles calls: once N bytes of it are in, the next call (one byte, or none) must not commit to the
        # announced remainder either -- N around every integer literal of the source (eleventh round: a 64 KiB threshold)
        strad = sorted(set([256, 1024, 4096, 65536] + [v for v in srcdict.load()["ints"] if 200 <= v <= (1 << 17 if tier == "quick" else 1 << 20)]))
        for N in strad:
            for dN in (-1, 0, 1):
                for D in (1 << 26, 1 << 40):
                    body = b"b" * (N + dN)
                    for kind, head, cfg in (("resp", b"HTTP/1.1 200 OK\r\nContent-Length: %d\r\n\r\n" % D, None),
                                            ("req", b"POST / HTTP/1.1\r\nContent-Length: %d\r\n\r\n" % D, (1000, 1000, None))):
                        g = Group("m%d" % k, "%s-declared" % kind, {"declared": D, "max": None, "supplied": len(body), "what": "body of %d bytes in, then one byte, then nothing" % len(body)})
                        mk = (lambda ds: gen.resp_op(tree, ov, None, ds)) if kind == "resp" else (lambda ds: gen.req_op(tree, ov, cfg, ds))
                        g.add("straddle", mk([head, body, b"x", b""]))
                        g.add("straddle", mk([head + body[:len(body) // 2], body[len(body) // 2:], b"", b"xy"]))
                        groups.append(g)
                        k += 1
        # a declared length that is refused must not be remembered either: `parse` called again after the error
        # (implementation only; the documented protocol stops at the error)
        for d in declared:
            for mx in (100, 4096, 10_000_000):
                s = b"POST / HTTP/1.1\r\nContent-Length: %d\r\n\r\n" % d
                ds = [s, b"ab", b"cd", b"e" * 40]
                cf = ";".join(["1000,1000,%d" % mx] * len(ds))
                g = Group("m%d" % k, "req-declared-after-error", {"declared": d, "max": mx, "supplied": 44})
                g.add("after-error", "REQE %d %d %s %s" % (tree, ov, cf, gen.dfield(ds)), {"nocmp": True})
                groups.append(g)
                k += 1
            s = b"HTTP/1.1 200 OK\r\nTransfer-Encoding: chunked\r\n\r\n%x\r\n" % d
            ds = [s, b"ab", b"c", b"d", b"e" * 40]
            g = Group("m%d" % k, "chunk-declared-piecemeal", {"declared": d, "max": None, "supplied": 44})
            g.add("piecemeal", gen.resp_op(tree, ov, None, ds))
            g.add("after-error", "RESPE %d %d - %s" % (tree, ov, gen.dfield([s[:-2] + b"x\r\n"] + ds[1:])), {"nocmp": True})
            groups.append(g)
            k += 1
        for nchunks in (8, 16, 22, 30, 40, 64, 200):
            for size in (1, 3, 16):
                body = b"".join(b"%x\r\n" % size + b"x" * size + b"\r\n" for _ in range(nchunks)) + b"0\r\n\r\n"
                s = b"HTTP/1.1 200 OK\r\nTransfer-Encoding: chunked\r\n\r\n" + body
                g = Group("m%d" % k, "chunk-many", {"declared": "%d chunks of %d" % (nchunks, size), "max": None})
                g.add("one-piece", gen.resp_op(tree, ov, None, [s]))
                g.add("sevens", gen.resp_op(tree, ov, None, [s[i:i + 7] for i in range(0, len(s), 7)]))
                if nchunks <= 40:
                    g.add("bytewise", gen.resp_op(tree, ov, None, [s[i:i + 1] for i in range(len(s))]))
                groups.append(g)
                k += 1
        for it in extremes.alloc_cases(rng, tier):
            s = it["stream"]
            g = Group("m%d" % k, "chunk-declared-bulk", {"declared": it["declared"], "max": None, "what": it["label"]})
            g.add("one-piece", gen.resp_op(tree, ov, None, [s]))
            head = s.index(b"\r\n\r\n") + 4
            g.add("after-head", gen.resp_op(tree, ov, None, [s[:head], s[head:]]))
            groups.append(g)
            k += 1
        for it in extremes.requests(rng, tier):
            if not it["label"].startswith("Expect"):
                continue
            g = Group("m%d" % k, "req-expect", {"declared": it["label"], "max": it["cfg"][2]})
            g.add("one-piece", gen.req_op(tree, ov, it["cfg"], [it["stream"]]))
            g.add("cut", gen.req_op(tree, ov, it["cfg"], gen.cut(it["stream"], gen.crlf_cuts(it["stream"]))))
            groups.append(g)
            k += 1
        for d in declared:
            for te in (b"chunked", b"gzip, Chunked"):
                s = b"HTTP/1.1 200 OK\r\nTransfer-Encoding: " + te + b"\r\nContent-Length: %d\r\n\r\n" % d + rng.pick([b"", b"2\r\nab\r\n", b"ab"])
                g = Group("m%d" % k, "resp-both-framings", {"declared": d, "max": None})
                g.add("one-piece", gen.resp_op(tree, ov, None, [s]))
                g.add("cut", gen.resp_op(tree, ov, None, gen.cut(s, gen.crlf_cuts(s))))
                groups.append(g)
                k += 1
                for mx in (None, 10_000_000):
                    s = b"POST / HTTP/1.1\r\nTransfer-Encoding: " + te + b"\r\nContent-Length: %d\r\n\r\n" % d
                    g = Group("m%d" % k, "req-both-framings", {"declared": d, "max": mx})
                    g.add("one-piece", gen.req_op(tree, ov, (1000, 1000, mx), [s]))
                    groups.append(g)
                    k += 1
        # ordinary traffic too: the constants must also hold there
        for _ in range(n_for(tier, 600, 20000)):
            s, info = gen.gen_response(rng, good_p=0.9)
            g = Group("m%d" % k, "resp-ordinary", {"declared": None, "max": None})
            g.add("one-piece", gen.resp_op(tree, ov, None, [s]))
            groups.append(g)
            k += 1
            s, info = gen.gen_request(rng, good_p=0.9)
            g = Group("m%d" % k, "req-ordinary", {"declared": None, "max": 10_000_000})
            g.add("one-piece", gen.req_op(tree, ov, (1000, 1000, 10_000_000), [s]))
            groups.append(g)
            k += 1
        return groups

    @staticmethod
    def oracle(group, res, model=None):
        fails = []
        mx = group.meta.get("max")
        for i in range(len(group.members)):
            r = ParseResult(res[group.tag(i)])
            if r.verdict == "crashed":
                fails.append(Failure(group, "alloc", "declared length %s: %s" % (group.meta.get("declared"), r.category), [i]))
                continue
            so_far = 0
            for call in (r.ann.get("a") or [""])[0].split(";"):
                if not call:
                    continue
                maxreq, peak, presented = (int(x) for x in call.split(":"))
                # what the message may hold on to grows with what has been received so far (a body that straddles calls
                # is one Vec that doubles), never with what is merely announced
                so_far += presented
                presented = so_far
                if maxreq > alloc_bound(presented, mx, 4096, 8):
                    fails.append(Failure(group, "alloc", "a single allocation request of %d bytes with %d bytes presented (declared %s)" % (maxreq, presented, group.meta.get("declared")), [i]))
                    break
                if peak > alloc_bound(presented, mx, 8192, 16):
                    fails.append(Failure(group, "alloc", "%d bytes live above the level before the call with %d bytes presented (declared %s)" % (peak, presented, group.meta.get("declared")), [i]))
                    break
            if model is not None:
                # the reservation log of the model is what C07_*_reserve_bounded speaks about
                mr = ParseResult(model[group.tag(i)])
                biggest = 0
                for ent in (mr.ann.get("r") or [""])[0].split(";"):
                    if not ent:
                        continue
                    site, ln, add = ent.split(":")
                    biggest = max(biggest, int(add))
                    if int(add) > sum(len(unhex(d)) for d in group.members[i].op.split(" ")[-1].split("|")):
                        fails.append(Failure(group, "reserve-log", "model reservation %s larger than everything presented" % ent, [i]))
                # ... and a large reservation of the model must be visible as an allocator request of the implementation
                if biggest >= 4096 and mr.verdict == r.verdict:
                    seen = max([int(c.split(":")[0]) for c in (r.ann.get("a") or [""])[0].split(";") if c] or [0])
                    if seen < biggest:
                        fails.append(Failure(group, "reserve-visible", "the model reserves %d bytes but the largest allocator request of the implementation is %d" % (biggest, seen), [i]))
        return fails

    @staticmethod
    def nontrivial(group, res):
        return True
