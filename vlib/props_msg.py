"""Properties about generate / re-serialisation / header rewriting / letter case: C10 C11 C12 C18."""
import re

from . import gen
from .common import Rng, ParseResult, hx, unhex, CRLF, strip_ann, hdrs_field, opt, parse_hdrs_out
from .core import Group, Failure, proj_full, proj_class
from .props_parse import n_for, build_valid_request, build_valid_response

VALUE_ALPHA = bytes(range(0x21, 0x7f))


def wf_headers(rng, n=None):
    hs = []
    for _ in range(rng.below(5) if n is None else n):
        name = rng.pick(gen.NEUTRAL_NAMES) if rng.chance(3, 4) else gen.rand_token(rng)
        if rng.chance(1, 30):
            name = b""
        k = rng.below(6)
        if k == 0:
            value = b""
        elif k == 1:
            value = rng.pick(gen.NEUTRAL_VALUES).strip(b" \t")
        else:
            value = gen.rand_bytes(rng, rng.randint(1, 14), VALUE_ALPHA + b"  \t")
            value = value.strip(b" \t")
        hs.append((name, value))
    return hs


INTERESTING_HEADERS = [(b"Transfer-Encoding", b"chunked"), (b"transfer-encoding", b"gzip, chunked"), (b"Transfer-Encoding", b"Chunked"), (b"Transfer-Encoding", b"chunked, gzip"),
                       (b"Transfer-Encoding", b"identity"), (b"TE", b"trailers, chunked"), (b"Trailer", b"X-T"), (b"Content-Encoding", b"gzip"), (b"Content-Encoding", b"deflate, gzip"),
                       (b"Content-Type", b"text/plain; charset=utf-8"), (b"Connection", b"close"), (b"Connection", b"keep-alive, Upgrade"), (b"Upgrade", b"websocket"),
                       (b"Expect", b"100-continue"), (b"Content-Range", b"bytes 0-2/3"), (b"Accept-Encoding", b"gzip, deflate"), (b"Content-Location", b"/x")]

BODIES = [b"a\r", b"\r", b"\r\n\r", b"\n", b"x\r\r", b"", b"abc", b"\r\n\r\n", b"GET / HTTP/1.1\r\n\r\n", b"0\r\n\r\n", b"5\r\nhello\r\n0\r\n\r\n", b"Content-Length: 99\r\n", b"\x00\xff\xfe"]


def d8_target(t: bytes) -> bool:
    """targets for which rhymuri's text -> Uri -> text -> Uri is not stable (known finding D8)"""
    if re.search(rb"\[[^\]]*[A-F][^\]]*\]", t) or re.search(rb"\[[vV][^\]]*[A-Z][^\]]*\]", t):
        return True
    first = re.split(rb"[/?#]", t, 1)[0]
    return bool(re.search(rb"%3[Aa]", first)) and b":" not in first.split(b"%")[0]


class C10:
    pid = "C10"
    profiles = ["dev"]
    projection = staticmethod(proj_full)

    @staticmethod
    def generate(rng, tier, tree, ov):
        groups = []
        n = n_for(tier, 4000, 120000)
        for k in range(n):
            hs = wf_headers(rng)
            if rng.chance(1, 40):
                from . import extremes
                hs = [(b"H%d" % i, b"v%d" % i) for i in range(rng.pick([99, 100, 101, 102, 121, 250] + [c for c in extremes.COUNTS if c > 5]))]
            elif rng.chance(1, 80):
                hs = hs + [(b"X-Long", b"v" * rng.pick([990, 991, 992, 4085, 4086, 4087, 8183, 65530]))]
            body = rng.pick(BODIES) if rng.chance(1, 2) else gen.rand_bytes(rng, rng.below(30))
            if rng.chance(1, 8):
                body += rng.pick([b"\r", b"\n", b"\r\n", b" ", b"\t"])
            with_cl = bool(body) or rng.chance(1, 3)
            if with_cl:
                hs.insert(rng.below(len(hs) + 1), (gen.randcase(rng, b"Content-Length") if rng.chance(1, 4) else b"Content-Length", str(len(body)).encode()))
            if with_cl and rng.chance(1, 5):
                # a well-formed value may carry any other header next to its matching Content-Length — also those that
                # describe framing, codings and connection handling (sixth round: Transfer-Encoding made to win over
                # Content-Length on parse, which `generate` does not follow)
                for _ in range(rng.randint(1, 2)):
                    hs.insert(rng.below(len(hs) + 1), rng.pick(INTERESTING_HEADERS))
            longest = max([len(a) + 2 + len(b) + 2 for a, b in hs] or [2])
            hl = rng.pick([None, None, 1000 if longest <= 1000 else None, longest, longest + 1, longest + 5])
            if k % 2 == 0:
                method = rng.pick(gen.GOOD_METHODS[:10]) if rng.chance(1, 2) else gen.rand_token(rng)
                target = gen.rand_target(rng)
                if rng.chance(1, 40):
                    target = rng.pick(gen.D8_TARGETS)
                elif rng.chance(1, 8):
                    target = gen.canonical_abs_target(rng)      # the class of C10_request_roundtrip_absolute
                elif rng.chance(1, 12):
                    # authority form as CONNECT uses it (rhymuri reads host:port as scheme:path; it round-trips as such)
                    method = rng.pick([b"CONNECT", b"CONNECT", b"connect", b"GET"])
                    target = rng.pick([b"www.example.com:443", b"example.org:80", b"h:1", b"a.b:65535", b"localhost:8080"])
                elif rng.chance(1, 30):
                    method, target = b"OPTIONS", b"*"
                g = Group("g%d" % k, "req-value", {"method": method.hex(), "target": target.hex(), "headers": [[a.hex(), b.hex()] for a, b in hs], "body": body.hex(), "hl": hl})
                g.add("grt", "REQGRT %s %s %s %s %s" % (opt(hl), hx(method), hx(target), hdrs_field(hs), hx(body)))
                g.add("uri", "URI %s" % hx(target))
            else:
                code = rng.pick([0, 1, 99, 100, 200, 204, 404, 999, rng.below(1000)])
                reason = rng.pick(gen.REASONS) if rng.chance(2, 3) else gen.rand_bytes(rng, rng.below(12), VALUE_ALPHA + b"  \t")
                if rng.chance(1, 6):
                    # a registered code with its registered phrase in another letter case (twelfth round: replaced by the registered one)
                    from . import extremes
                    code, ph = rng.pick(extremes.STANDARD_REASONS)
                    reason = rng.pick([ph.lower(), ph.upper(), ph.swapcase(), ph, gen.randcase(rng, ph)])
                if rng.chance(1, 40):       # status lines of 4094..4096, 8191 and 65535 bytes (13 bytes precede a 3-digit code's reason)
                    reason = b"r" * (rng.pick([4094, 4095, 4095, 4096, 8191, 8192, 65535]) - 10 - len(str(code)))
                g = Group("g%d" % k, "resp-value", {"code": code, "reason": reason.hex(), "headers": [[a.hex(), b.hex()] for a, b in hs], "body": body.hex(), "hl": hl})
                g.add("grt", "RESPGRT %s %d %s %s %s" % (opt(hl), code, hx(reason), hdrs_field(hs), hx(body)))
            groups.append(g)
        # values whose generated request line / total length sits exactly at a limit of the parsing Request: "lines fit the
        # line limit" includes the line of exactly the limit, under the documented defaults and under limits set by hand
        # (seventh round: request line limit compared with the CRLF included, off by two at 999 / 1000 bytes)
        j = 0
        for line_len in (990, 997, 998, 999, 1000):
            for method in (b"GET", b"M", "G\u00c9T".encode()):
                target = b"/" + b"a" * (line_len - len(method) - 11)
                for hs, body in (([], b""), ([(b"Host", b"h"), (b"Content-Length", b"3")], b"abc")):
                    for spelling in ("d,d,d", "D,D,D", "1000,1000,10000000", "%d,-,-" % line_len, "%d,-,-" % (line_len + 1), "-,-,-"):
                        g = Group("gl%d" % j, "req-value", {"method": method.hex(), "target": target.hex(), "headers": [[a.hex(), b.hex()] for a, b in hs], "body": body.hex(), "hl": None})
                        g.add("grt", "REQGRT %s %s %s %s %s" % (spelling, hx(method), hx(target), hdrs_field(hs), hx(body)))
                        groups.append(g)
                        j += 1
        for _ in range(n // 20):
            method = rng.pick(gen.GOOD_METHODS[:10])
            target = b"/" + gen.rand_bytes(rng, rng.randint(0, 30), b"abcxyz019-._~")
            hs = wf_headers(rng)
            body = gen.rand_bytes(rng, rng.below(30))
            hs.append((b"Content-Length", str(len(body)).encode()))
            L = len(method) + 1 + len(target) + 9
            total = L + 2 + sum(len(a) + 2 + len(b) + 2 for a, b in hs) + 2 + len(body)
            longest = max(len(a) + 2 + len(b) + 2 for a, b in hs)
            spelling = "%s,%s,%s" % (rng.pick(["-", str(L), str(L + 1), "d"]), rng.pick(["-", str(longest), str(longest + 1)]), rng.pick(["-", str(total), str(total + 1), "d"]))
            g = Group("gl%d" % j, "req-value", {"method": method.hex(), "target": target.hex(), "headers": [[a.hex(), b.hex()] for a, b in hs], "body": body.hex(), "hl": None})
            g.add("grt", "REQGRT %s %s %s %s %s" % (spelling, hx(method), hx(target), hdrs_field(hs), hx(body)))
            groups.append(g)
            j += 1
        # values whose header lines do NOT fit the limit (outside C10's hypothesis, so no round-trip oracle): the dependency
        # folds them or refuses; the model of its folding (Hm/Fold.lean) is compared on the generated bytes and on what parses back
        for _ in range(n // 12):
            hl = rng.pick([8, 10, 12, 16, 20, 30, 40, 64])
            hs = []
            for _h in range(rng.randint(1, 3)):
                words = [gen.rand_bytes(rng, rng.randint(1, 12), b"abcdefgh0123") for _w in range(rng.randint(1, 8))]
                if rng.chance(1, 3):
                    # characters of two, three and four bytes around the place where the line is folded (the dependency walks
                    # char_indices; Hm/FoldUtf8: same split points as the byte search of the model)
                    words = [w if rng.chance(1, 2) else "".join(rng.pick(["\u00e9", "\u2603", "\U0001d11e", "\u00fc", "a", "\u3000", "\u00a0"]) for _c in range(rng.randint(1, 6))).encode() for w in words]
                seps = [rng.pick([b" ", b" ", b"\t", b"  ", b" \t", b"   "]) for _w in words]
                value = b"".join(w + sp for w, sp in zip(words, seps)).strip(b" \t")
                hs.append((rng.pick([b"X", b"Xy", b"X-Header", b"A"]), value))
            body = gen.rand_bytes(rng, rng.below(6))
            if rng.chance(1, 2):
                g = Group("gf%d" % j, "value-folded", {"hl": hl})
                g.add("grt", "REQGRT %d %s %s %s %s" % (hl, hx(b"GET"), hx(b"/"), hdrs_field(hs), hx(body)))
            else:
                g = Group("gf%d" % j, "value-folded", {"hl": hl})
                g.add("grt", "RESPGRT %d 200 %s %s %s" % (hl, hx(b"OK"), hdrs_field(hs), hx(body)))
            groups.append(g)
            j += 1
        # the URI model itself (dependency), on the target grammar and its mutations
        for k in range(n):
            t = gen.rand_target(rng) if rng.chance(3, 4) else rng.pick(gen.BAD_TARGETS + gen.D8_TARGETS)
            if rng.chance(1, 3):
                t = gen.mutate(rng, t)
            try:
                t.decode("utf-8")
            except UnicodeDecodeError:
                continue
            if b" " in t or not t:
                continue
            g = Group("u%d" % k, "uri", {"target": t.hex()})
            g.add("uri", "URI %s" % hx(t))
            groups.append(g)
        return groups

    @staticmethod
    def oracle(group, res):
        fails = []
        if group.kind in ("uri", "value-folded"):
            return fails
        meta = group.meta
        out = strip_ann(res[group.tag(0)])
        if out in ("BADURI", "bad-op"):
            return fails
        parts = out.split(" || ")
        hs = [(unhex(a), unhex(b)) for a, b in meta["headers"]]
        body = unhex(meta["body"])
        if len(parts) < 2 or not parts[1].startswith("OK "):
            fails.append(Failure(group, "generate", "a well-formed value is not generated: %s" % (parts[1] if len(parts) > 1 else out)[:80], [0]))
            return fails
        g1 = unhex(parts[1][3:])
        if len(parts) < 3:
            return fails
        r = ParseResult(parts[2])
        if r.verdict != "complete":
            fails.append(Failure(group, "roundtrip", "the generated bytes are answered with %s %s" % (r.verdict, r.category or ""), [0]))
            return fails
        if r.total != len(g1):
            fails.append(Failure(group, "roundtrip", "the parser consumed %d of the %d generated bytes" % (r.total, len(g1)), [0]))
        if group.kind == "req-value":
            orig = dict(t.split("=", 1) for t in parts[0].split(" ") if "=" in t)
            if r.field_bytes("m") != unhex(meta["method"]):
                fails.append(Failure(group, "roundtrip", "method differs after the round trip", [0]))
            if r.fields.get("t", "") != orig.get("t", "") or r.fields.get("u", "") != orig.get("u", ""):
                fails.append(Failure(group, "roundtrip", "target differs after the round trip: %r -> %r" % (unhex(orig.get("t", "")), r.field_bytes("t")), [0]))
        else:
            if int(r.fields.get("c", "-1")) != meta["code"] or r.field_bytes("p") != unhex(meta["reason"]):
                fails.append(Failure(group, "roundtrip", "status code / reason phrase differ after the round trip", [0]))
        if r.headers() != hs:
            fails.append(Failure(group, "roundtrip", "header list differs after the round trip", [0]))
        if r.field_bytes("b") != body:
            fails.append(Failure(group, "roundtrip", "body differs after the round trip", [0]))
        if len(parts) >= 4 and parts[3] != parts[1]:
            fails.append(Failure(group, "regenerate", "generating again from the parsed value gives different bytes", [0]))
        return fails

    @staticmethod
    def nontrivial(group, res):
        return group.kind != "uri" and " || C," in " " + res[group.tag(0)].replace("|| I", "||I")  or "C," in res[group.tag(0)]


class C11:
    pid = "C11"
    profiles = ["dev"]
    projection = staticmethod(proj_full)

    @staticmethod
    def generate(rng, tier, tree, ov):
        groups = []
        n = n_for(tier, 5000, 150000)
        for k in range(n):
            if k % 2 == 0:
                s, info = gen.gen_request(rng, good_p=0.9) if rng.chance(2, 3) else (build_valid_request(rng), {})
                if rng.chance(1, 8):
                    s = gen.mutate(rng, s)
                cfg = rng.pick([(1000, 1000, 10_000_000), (None, None, None)])
                g = Group("t%d" % k, "req-reparse", {"stream": s.hex(), "kind": "req"})
                g.add("rt", gen.req_op(tree, ov, cfg, [s] if rng.chance(2, 3) else rng.pick(gen.schedules(rng, s, n_random=2) or [[s]]), op="RTREQ"))
            else:
                s, info = gen.gen_response(rng, good_p=0.9, chunked_p=0.5) if rng.chance(2, 3) else (build_valid_response(rng)[0], {})
                if rng.chance(1, 8):
                    s = gen.mutate(rng, s)
                g = Group("t%d" % k, "resp-reparse", {"stream": s.hex(), "kind": "resp"})
                g.add("rt", gen.resp_op(tree, ov, None, [s] if rng.chance(2, 3) else rng.pick(gen.schedules(rng, s, n_random=2) or [[s]]), op="RTRESP"))
            groups.append(g)
        # accepted header lines that no longer fit when they are written back (`Name:value` comes back as `Name: value`):
        # the dependency folds them; white space of every kind at, before and across the place where it folds
        j = 0
        for lim in (1000, 1000, 64, 100, 255):
            for name in (b"X", b"X-Long-Name"):
                for ws in (b" ", b"\t", b"  ", b" \t", b"\t ", b"   ", b"\t\t"):
                    for delta in (0, 1, 2):
                        for tail in (1, 2, 5):
                            vlen = lim - 2 - len(name) - 1 - delta
                            if vlen - len(ws) - tail < 1:
                                continue
                            fill = [b"a", "\u00e9".encode(), "\u2603".encode(), "\U0001d11e".encode()][(j // 2) % 4] if (j // 8) % 3 == 2 else b"a"
                            nfill = vlen - len(ws) - tail
                            value = fill * (nfill // len(fill)) + b"a" * (nfill % len(fill)) + ws + b"b" * tail
                            raw = name + b":" + value + CRLF
                            if j % 2 == 0:
                                st = b"GET / HTTP/1.1\r\n" + raw + b"\r\n"
                                g = Group("f%d" % j, "req-reparse", {"stream": st.hex(), "kind": "req", "what": "header line of %d bytes, %r %d bytes before its end" % (len(raw), ws, tail)})
                                g.add("rt", gen.req_op(tree, ov, (None, lim, None) if lim != 1000 else (1000, 1000, 10_000_000), [st], op="RTREQ"))
                            else:
                                st = b"HTTP/1.1 200 OK\r\n" + raw + b"Content-Length: 0\r\n\r\n"
                                g = Group("f%d" % j, "resp-reparse", {"stream": st.hex(), "kind": "resp", "what": "header line of %d bytes, %r %d bytes before its end" % (len(raw), ws, tail)})
                                g.add("rt", gen.resp_op(tree, ov, lim, [st], op="RTRESP"))
                            groups.append(g)
                            j += 1
        return groups

    @staticmethod
    def oracle(group, res):
        fails = []
        out = strip_ann(res[group.tag(0)])
        parts = out.split(" || ")
        first = ParseResult(parts[0])
        if first.verdict != "complete" or len(parts) < 2:
            return fails
        kind = group.meta["kind"]
        if not parts[1].startswith("OK "):
            # re-serialised header lines that do not fit the line limit are outside the property
            if "HeaderLine" in parts[1]:
                return fails
            fails.append(Failure(group, "reserialise", "an accepted message cannot be generated again: %s" % parts[1][:60], [0]))
            return fails
        g1 = unhex(parts[1][3:])
        second = ParseResult(parts[2]) if len(parts) > 2 else None
        if second is None or second.verdict != "complete":
            fails.append(Failure(group, "reparse", "the re-serialised message is answered with %s %s" % (second.verdict if second else "nothing", (second.category or "") if second else ""), [0]))
            return fails
        if second.total != len(g1):
            fails.append(Failure(group, "reparse", "the re-serialised message is not consumed whole (%d of %d)" % (second.total, len(g1)), [0]))
        for f in (["m", "t", "u", "h", "b"] if kind == "req" else ["c", "p", "h", "b"]):
            if first.fields.get(f) != second.fields.get(f):
                fails.append(Failure(group, "reparse", "field %s differs after parse, generate, parse" % f, [0]))
                break
        if kind == "resp":
            # the regenerated message is framed by Content-Length and carries the same body
            cls = [v for k2, v in second.headers() if k2.lower() == b"content-length"]
            if first.field_bytes("b") and (not cls or not cls[0].isdigit() or int(cls[0]) != len(first.field_bytes("b"))):
                fails.append(Failure(group, "reparse", "the regenerated response is not Content-Length-framed with the body length", [0]))
        return fails

    @staticmethod
    def nontrivial(group, res):
        return " || OK " in res[group.tag(0)]


# --------------------------------------------------------------------------------------------
# de-chunk rewrite (C12)

FRAMING = (b"content-length", b"transfer-encoding", b"trailer")
OTHER_CODINGS = [b"gzip", b"deflate", b"foo", b"bar", b"GZIP", b"x-custom", b"compress", b"", b"gzip", b"foo", b"identity", b"Identity", b"x-identity", b"x-gzip", b"X-GZip", b"x-compress", b"x-deflate"]


def _dict_codings():
    from . import srcdict
    return [t for t in srcdict.load()["tokens"] if b"," not in t and b" " not in t and t.lower() != b"chunked" and t not in OTHER_CODINGS]


OTHER_CODINGS = OTHER_CODINGS + _dict_codings()
# transfer parameters with quoted strings (no comma inside: the crate splits at every comma, and so does the reference),
# quoted pairs, an unbalanced quote (eleventh round: a quote-aware splitter that lost count at `\"`)
OTHER_CODINGS = OTHER_CODINGS + [b'foo;a="x\\""', b'a;p="\\\\"', b'b;q="\\""', b'c;d="', b'gzip;q="1"', b'x;y="a b"', b'"quoted"', b"foo;a=b", b"gzip ;q=1", b"foo ; a=b"]


def tokens_of(values):
    out = []
    for v in values:
        parts = v.split(b",")
        if parts and parts[-1].strip(b" \t") == b"" and len(parts) > 0 and v.endswith(b",") or v == b"":
            parts = parts[:-1]
        out += [p.strip(b" \t\r\n\x0b\x0c").lower() for p in parts]
    return out


class C12:
    pid = "C12"
    profiles = ["dev"]
    projection = staticmethod(proj_full)

    @staticmethod
    def generate(rng, tier, tree, ov):
        groups = []
        n = n_for(tier, 4000, 120000)
        for k in range(n):
            ts = [rng.pick(OTHER_CODINGS) for _ in range(rng.below(4) if rng.chance(2, 3) else 0)]
            hs = wf_headers(rng, rng.below(4))
            hs = [(a, b) for a, b in hs if a.lower() not in FRAMING]
            # Transfer-Encoding, possibly split over several headers, any case and spacing
            toks = ts + [gen.randcase(rng, b"chunked")]
            cut = rng.below(len(toks)) if rng.chance(1, 4) and len(toks) > 1 else 0
            def fmt(tt):
                return rng.pick([b", ", b",", b" , ", b",\t", b"\t, ", b" \t,\t "]).join(rng.pick([b"", b" "]) + gen.randcase(rng, t) for t in tt)
            te_hdrs = []
            if cut:
                te_hdrs.append((gen.randcase(rng, b"Transfer-Encoding"), fmt(toks[:cut]).strip(b" \t")))
                te_hdrs.append((gen.randcase(rng, b"Transfer-Encoding"), fmt(toks[cut:]).strip(b" \t")))
            else:
                te_hdrs.append((gen.randcase(rng, b"Transfer-Encoding"), fmt(toks).strip(b" \t")))
            if rng.chance(1, 6):
                # a list may end in a comma (an empty last element is no element: `split_terminator`), so `chunked` is still
                # the final coding (eighth round: the rewrite cut the value at its last comma)
                a, b = te_hdrs[-1]
                te_hdrs[-1] = (a, b + rng.pick([b",", b" ,", b", ", b",\t"]).rstrip(b" \t"))
            at = 0
            for th in te_hdrs:      # keep the order of the Transfer-Encoding headers among themselves
                at = rng.randint(at, len(hs))
                hs.insert(at, th)
                at += 1
            if rng.chance(1, 3):
                hs.insert(rng.below(len(hs) + 1), (gen.randcase(rng, b"Trailer"), rng.pick([b"X-T", b"X-T, Host", b"Content-Length"])))
            trs = []
            if rng.chance(1, 40):       # a long trailer section (a cap on the number of fields would show)
                first = [(b"Content-Length", b"9")] if rng.chance(1, 2) else []
                from . import extremes
                trs = first + [(b"T%d" % i, b"v%d" % i) for i in range(rng.pick([99, 100, 101, 102, 150] + [c for c in extremes.COUNTS if c > 5]))]
            for _ in range(rng.below(4) if rng.chance(2, 3) and not trs else 0):
                a, b = rng.pick(gen.TRAILER_FIELDS + [(x, y) for x, y in hs[:2]])
                trs.append((gen.randcase(rng, a) if rng.chance(1, 3) else a, b))
            payload = gen.rand_bytes(rng, rng.below(30), b"abc\r\n0")
            if ts and ts[-1].lower() in (b"gzip", b"x-gzip", b"deflate", b"x-deflate") and rng.chance(1, 2):
                # the payload really is a stream of the coding listed in front of `chunked`: the parser de-chunks and nothing
                # more — "every other listed coding remains" (tenth round: transfer codings undone when they decode)
                import gzip as _gz, zlib as _zl
                inner = gen.rand_bytes(rng, rng.below(40), b"abc ")
                payload = _gz.compress(inner) if b"gzip" in ts[-1].lower() else rng.pick([_zl.compress(inner), _zl.compress(inner)[2:-4]])
            body = b""
            pos = 0
            while pos < len(payload):
                m = rng.randint(1, len(payload) - pos)
                body += b"%x\r\n" % m + payload[pos:pos + m] + CRLF
                pos += m
            body += b"0\r\n" + b"".join(a + b": " + b + CRLF for a, b in trs) + CRLF
            # the status code does not enter the framing decision (C04): codes that *semantically* carry no body included
            code = rng.pick([b"200", b"200", b"200", b"100", b"101", b"199", b"204", b"205", b"304", b"404", b"500", b"999", b"0", b"1"])
            s = b"HTTP/1.1 " + code + b" " + rng.pick([b"OK", b"Not Modified", b"", b"No Content"]) + CRLF + b"".join(a + b": " + b + CRLF for a, b in hs) + CRLF + body
            g = Group("w%d" % k, "dechunk-rewrite", {"stream": s.hex(), "headers": [[a.hex(), b.hex()] for a, b in hs],
                                                    "trailers": [[a.hex(), b.hex()] for a, b in trs], "ts": [t.hex() for t in ts], "payload": payload.hex()})
            g.add("whole", gen.resp_op(tree, ov, None, [s]))
            if rng.chance(1, 4):
                g.add("bytewise", gen.resp_op(tree, ov, None, [s[i:i + 1] for i in range(len(s))]))
            groups.append(g)
        # bodies the op line cannot carry: the executor produces the chunks itself (`RESPBIG total piece`), one call per chunk.
        # Implementation only.  Beyond 4 GiB in the thorough tier (twelfth round: the decoded length kept in a u32)
        from . import srcdict
        bigs = [(300_000, 65_536), (1 << 20, 4096), ((1 << 24) + 5, 1 << 20)]
        if tier != "quick":
            bigs += [((1 << w) + 16, 1 << 26) for w in srcdict.load().get("widths", [32]) if 30 <= w <= 32]
        for j, (total, piece) in enumerate(bigs):
            g = Group("big%d" % j, "big-body", {"total": total, "piece": piece})
            g.add("big", "RESPBIG %d %d" % (total, piece), {"nocmp": True})
            groups.append(g)
        return groups

    @staticmethod
    def oracle(group, res):
        fails = []
        meta = group.meta
        if group.kind == "big-body":
            out = strip_ann(res[group.tag(0)])
            want = "BIG C cl=%d blen=%d te=False left=0" % (meta["total"], meta["total"])
            if out.startswith("ABORT") and meta["total"] >= 1 << 30:
                return fails        # the machine could not hold the body (the executor was killed): not judged
            if out.lower() != want.lower():
                fails.append(Failure(group, "dechunk-big", "a chunked body of %d bytes in chunks of %d: `%s`, expected `%s`" % (meta["total"], meta["piece"], out[:80], want), [0]))
            return fails
        hs = [(unhex(a), unhex(b)) for a, b in meta["headers"]]
        trs = [(unhex(a), unhex(b)) for a, b in meta["trailers"]]
        ts = [unhex(t).lower() for t in meta["ts"]]
        payload = unhex(meta["payload"])
        for i in range(len(group.members)):
            r = ParseResult(res[group.tag(i)])
            if r.verdict != "complete":
                fails.append(Failure(group, "dechunk", "a well-formed chunked response is answered with %s %s" % (r.verdict, r.category or ""), [i]))
                continue
            out = r.headers()
            body = r.field_bytes("b")
            if body != payload:
                fails.append(Failure(group, "dechunk", "body differs from the payload", [i]))
            cls = [v for k, v in out if k.lower() == b"content-length"]
            if cls != [str(len(body)).encode()]:
                fails.append(Failure(group, "content-length", "Content-Length values after de-chunking are %r, body length %d" % (cls, len(body)), [i]))
            tes = [v for k, v in out if k.lower() == b"transfer-encoding"]
            if tokens_of(tes) != [t for t in ts if t] or (not [t for t in ts if t] and tes):
                fails.append(Failure(group, "transfer-encoding", "Transfer-Encoding after de-chunking lists %r, expected %r" % (tokens_of(tes), ts), [i]))
            if any(k.lower() == b"trailer" for k, v in out):
                fails.append(Failure(group, "trailer-header", "the Trailer header is still present", [i]))
            others = [(k, v) for k, v in out if k.lower() not in FRAMING]
            want = [(k, v) for k, v in hs if k.lower() not in FRAMING] + [(k, v) for k, v in trs if k.lower() not in FRAMING]
            if others != want:
                fails.append(Failure(group, "other-headers", "the non-framing headers are not the original ones followed by the trailer fields, in order", [i]))
        return fails

    @staticmethod
    def nontrivial(group, res):
        if group.kind == "big-body":
            return True
        return ParseResult(res[group.tag(0)]).verdict == "complete"


# --------------------------------------------------------------------------------------------
# letter case (C18)

CASE_NAMES = [b"content-length", b"transfer-encoding", b"trailer", b"content-encoding", b"content-type"]
CASE_TOKENS = [b"chunked", b"gzip", b"deflate", b"text", b"charset"]


def case_patterns(rng, k, limit):
    """all 2^k patterns when small, else `limit` random ones"""
    if 2 ** k <= limit:
        return list(range(2 ** k))
    return [rng.getrandbits(k) for _ in range(limit)]


def apply_case(b: bytes, spans, mask):
    """flip the case of the letters inside the spans (list of (start, end)) according to mask"""
    out = bytearray(b)
    bit = 0
    for s, e in spans:
        for i in range(s, e):
            c = out[i]
            if 65 <= c <= 90 or 97 <= c <= 122:
                if mask >> bit & 1:
                    out[i] = c ^ 0x20
                bit += 1
    return bytes(out)


def letter_count(b, spans):
    return sum(1 for s, e in spans for i in range(s, e) if 65 <= b[i] <= 90 or 97 <= b[i] <= 122)


def find_spans(s: bytes, words):
    """spans of the relevant names / tokens inside a message (header names at line starts; tokens anywhere in the header area)"""
    spans = []
    low = s.lower()
    for w in words:
        start = 0
        while True:
            i = low.find(w, start)
            if i < 0:
                break
            spans.append((i, i + len(w)))
            start = i + len(w)
    return sorted(spans)


def norm_headers(hfield, lowered=(b"transfer-encoding", b"content-encoding")):
    out = []
    for k, v in parse_hdrs_out(hfield):
        kl = k.lower()
        if kl in lowered:
            v = v.lower()
        out.append((kl, v))
    return out


class C18:
    pid = "C18"
    profiles = ["dev"]
    projection = staticmethod(proj_full)

    @staticmethod
    def generate(rng, tier, tree, ov):
        from . import props_coding
        groups = []
        n = n_for(tier, 700, 25000)
        limit = n_for(tier, 16, 64)
        k = 0
        for _ in range(n):
            kind = rng.below(5)
            if kind == 0:
                s = build_valid_request(rng)
                if rng.chance(1, 3):
                    s = s.replace(b"\r\n\r\n", b"\r\nContent-Length: 2\r\n\r\nabcd", 1)
                hdr_end = s.find(b"\r\n\r\n") + 4
                spans = [(a, b) for a, b in find_spans(s[:hdr_end], [b"content-length"]) if s[a - 2:a] == CRLF]
                mk = lambda x: gen.req_op(tree, ov, (1000, 1000, 10_000_000), [x])
                gkind = "req-case"
            elif kind == 1:
                s, framing = build_valid_response(rng)
                if rng.chance(1, 4):
                    s, info = gen.gen_response(rng, good_p=0.95)
                hdr_end = s.find(b"\r\n\r\n") + 4
                if hdr_end < 4:
                    continue
                e0 = s.find(CRLF)
                spans = [(a, b) for a, b in find_spans(s[:hdr_end], [b"content-length", b"transfer-encoding", b"trailer"]) if s[a - 2:a] == CRLF]
                # `chunked` tokens inside Transfer-Encoding values
                for a, b in find_spans(s[:hdr_end], [b"chunked"]):
                    ls = s.rfind(CRLF, 0, a) + 2
                    if s[ls:a].lower().startswith(b"transfer-encoding"):
                        spans.append((a, b))
                spans.sort()
                mk = lambda x: gen.resp_op(tree, ov, None, [x])
                gkind = "resp-case"
            elif kind == 2:
                hs, body, _ = props_coding.gen_decode_case(rng)
                base = hdrs_field(hs)
                variants = []
                m = sum(letter_count(a, [(0, len(a))]) if a.lower() == b"content-encoding" or a.lower() == b"content-length" else 0 for a, b in hs)
                g = Group("c%d" % k, "decode-case", {})
                g.add("base", "DECODE %d %s %s" % (tree, base, hx(body)))
                for _ in range(min(limit, 8)):
                    hs2 = []
                    for a, b in hs:
                        if a.lower() in (b"content-encoding", b"content-length"):
                            a = gen.randcase(rng, a)
                        if a.lower() == b"content-encoding":
                            b = gen.randcase(rng, b)
                        hs2.append((a, b))
                    g.add("variant", "DECODE %d %s %s" % (tree, hdrs_field(hs2), hx(body)))
                groups.append(g)
                k += 1
                continue
            else:
                hs, body = props_coding.gen_text_case(rng)
                g = Group("c%d" % k, "text-case", {})
                g.add("base", "TEXT %s %s" % (hdrs_field(hs), hx(body)))
                for _ in range(min(limit, 8)):
                    hs2 = []
                    for a, b in hs:
                        if a.lower() == b"content-type":
                            a = gen.randcase(rng, a)
                            # type `text`, parameter name `charset`, and the label
                            low = b.lower()
                            spans = find_spans(b, [b"text", b"charset"])
                            i = low.find(b"charset=")
                            if i >= 0:
                                spans.append((i + 8, len(b)))
                            b = apply_case(b, sorted(set(spans)), rng.getrandbits(64))
                        hs2.append((a, b))
                    g.add("variant", "TEXT %s %s" % (hdrs_field(hs2), hx(body)))
                groups.append(g)
                k += 1
                continue
            nl = letter_count(s, spans)
            if nl == 0:
                continue
            g = Group("c%d" % k, gkind, {"stream": s.hex()})
            g.add("base", mk(s))
            for mask in case_patterns(rng, nl, limit):
                if mask:
                    g.add("variant", mk(apply_case(s, spans, mask)))
            groups.append(g)
            k += 1
        # the whole chain: a response is parsed (fixed length or chunked, the coding / type fields in the header block
        # or in the trailer) and what the parser hands over is decoded, as content and as text
        import gzip as _gzip, zlib as _zlib
        NAMES = [b"content-length", b"transfer-encoding", b"trailer", b"content-encoding", b"content-type"]
        TOKENS = [b"chunked", b"gzip", b"deflate", b"text", b"charset"]
        for _ in range(n // 4):
            text = rng.pick([b"hello, world", "caf\u00e9 \u2603".encode(), b"abc" * 20, b"", b"text charset gzip deflate chunked"])
            coding = rng.pick([b"gzip", b"deflate", b"identity", None, b"gzip, deflate", b"x-unknown"])
            body = text
            if coding == b"gzip":
                body = _gzip.compress(text, mtime=0)
            elif coding == b"deflate":
                body = _zlib.compress(text)
            elif coding == b"gzip, deflate":
                body = _zlib.compress(_gzip.compress(text, mtime=0))
            ctype = rng.pick([b"text/plain; charset=utf-8", b"text/html;charset=UTF-8", b"text/plain", b"application/json; charset=utf-8",
                              b"text/plain; charset=us-ascii", b"text/plain; charset=iso-8859-1", None])
            fields = []
            if coding is not None:
                fields.append((b"Content-Encoding", coding))
            if ctype is not None:
                fields.append((b"Content-Type", ctype))
            chunked = rng.chance(3, 5)
            in_trailer = []
            if chunked and fields and rng.chance(1, 2):
                # move (or repeat) some of them in the trailer
                for f in list(fields):
                    c = rng.below(3)
                    if c == 0:
                        fields.remove(f)
                        in_trailer.append(f)
                    elif c == 1:
                        in_trailer.append(f)
            if chunked and rng.chance(1, 3):
                # framing fields spelled canonically in the trailer (the parser keeps them out of the header list)
                in_trailer.insert(rng.below(len(in_trailer) + 1),
                                  rng.pick([(b"Content-Length", b"999"), (b"Transfer-Encoding", b"foobar"), (b"Transfer-Encoding", b"chunked"),
                                            (b"Trailer", b"X-Later"), (b"Content-Length", b"0")]))
            hs = [(b"Server", b"x")] + fields
            if rng.chance(1, 3):
                hs.append((b"X-Text", b"gzip chunked"))
            rng.shuffle(hs)
            head = b"HTTP/1.1 200 OK\r\n"
            if chunked:
                hs.append((b"Transfer-Encoding", b"chunked"))
                if in_trailer and rng.chance(1, 2):
                    hs.append((b"Trailer", b", ".join(a for a, _ in in_trailer)))
                head += b"".join(a + b": " + b + CRLF for a, b in hs) + CRLF
                payload = b""
                pos = 0
                while pos < len(body):
                    m = 1 + rng.below(max(1, len(body)))
                    piece = body[pos:pos + m]
                    payload += b"%x" % len(piece) + CRLF + piece + CRLF
                    pos += m
                payload += b"0" + CRLF
                tail = b"".join(a + b": " + b + CRLF for a, b in in_trailer) + CRLF
            else:
                hs.append((b"Content-Length", b"%d" % len(body)))
                head += b"".join(a + b": " + b + CRLF for a, b in hs) + CRLF
                payload = body
                tail = b""
            s = head + payload + tail
            spans = []
            for lo, hi in ((0, len(head)), (len(head) + len(payload), len(s))):
                region = s[lo:hi]
                for a, b in find_spans(region, NAMES):
                    if a == 0 or region[a - 2:a] == CRLF:
                        spans.append((lo + a, lo + b))
                for a, b in find_spans(region, TOKENS):
                    ls = region.rfind(CRLF, 0, a) + 2 if region.rfind(CRLF, 0, a) >= 0 else 0
                    colon = region.find(b":", ls)
                    if 0 <= colon < a and region[ls:colon].lower() in (b"content-encoding", b"transfer-encoding", b"content-type"):
                        spans.append((lo + a, lo + b))      # inside the value of a field the tokens are read from
            spans = sorted(set(spans))
            nl = letter_count(s, spans)
            if nl == 0:
                continue
            g = Group("c%d" % k, "resp-decode-case", {"stream": s.hex()})
            mk2 = lambda x: gen.resp_op(tree, ov, None, gen.cut(x, [rng.randint(1, len(x) - 1)]) if rng.chance(1, 3) else [x], op="RESPDEC")
            g.add("base", gen.resp_op(tree, ov, None, [s], op="RESPDEC"))
            for _ in range(min(limit, 12)):
                g.add("variant", mk2(apply_case(s, spans, rng.getrandbits(nl) | (1 << rng.below(nl)))))
            groups.append(g)
            k += 1
        return groups

    @staticmethod
    def oracle(group, res):
        fails = []
        b0 = strip_ann(res[group.tag(0)])
        if group.kind == "resp-decode-case":
            LOW = (b"transfer-encoding", b"content-encoding", b"content-type")
            def parts(o):
                ps = o.split(" || ")
                first = ParseResult(ps[0])
                txt = ps[1] if len(ps) > 1 else None
                dec = ps[2] if len(ps) > 2 else None
                if dec is not None and " | h=" in dec:
                    a, h = dec.split(" | h=", 1)
                    dec = (a, norm_headers(h, LOW))
                return first, txt, dec
            base, txt0, dec0 = parts(b0)
            for i in range(1, len(group.members)):
                r, txt, dec = parts(strip_ann(res[group.tag(i)]))
                why = None
                if (r.verdict, r.category, r.total) != (base.verdict, base.category, base.total):
                    why = "verdict or boundary changes (%s %d vs %s %d)" % (r.verdict, r.total, base.verdict, base.total)
                else:
                    for f in base.fields:
                        if f == "h":
                            if norm_headers(r.fields.get("h", ""), LOW) != norm_headers(base.fields.get("h", ""), LOW):
                                why = "header list changes beyond the spelling of names"
                        elif r.fields.get(f) != base.fields.get(f):
                            why = "field %s changes" % f
                    if why is None and txt != txt0:
                        why = "the text decoded from the parsed message changes"
                    if why is None and dec != dec0:
                        why = "the content decoded from the parsed message changes"
                if why:
                    fails.append(Failure(group, "case", "changing letter case: " + why, [0, i]))
            return fails
        if group.kind in ("req-case", "resp-case"):
            base = ParseResult(b0)
            for i in range(1, len(group.members)):
                r = ParseResult(res[group.tag(i)])
                why = None
                if r.steps != base.steps:
                    why = "verdict or boundary changes (%s vs %s)" % (" ".join(r.steps[-1:]), " ".join(base.steps[-1:]))
                else:
                    for f in base.fields:
                        if f == "h":
                            if norm_headers(r.fields.get("h", "")) != norm_headers(base.fields.get("h", "")):
                                why = "header list changes beyond the spelling of names"
                        elif r.fields.get(f) != base.fields.get(f):
                            why = "field %s changes" % f
                if why:
                    fails.append(Failure(group, "case", "changing letter case: " + why, [0, i]))
        elif group.kind == "decode-case":
            def norm(o):
                if " | h=" in o:
                    a, h = o.split(" | h=", 1)
                    return (a, norm_headers(h))
                return (o, None)
            for i in range(1, len(group.members)):
                if norm(strip_ann(res[group.tag(i)])) != norm(b0):
                    fails.append(Failure(group, "case", "changing letter case changes the result of content decoding", [0, i]))
        else:
            for i in range(1, len(group.members)):
                if strip_ann(res[group.tag(i)]) != b0:
                    fails.append(Failure(group, "case", "changing letter case changes the result of text decoding", [0, i]))
        return fails

    @staticmethod
    def nontrivial(group, res):
        o = res[group.tag(0)]
        return "C," in o or o.startswith("OK") or o.startswith("SOME")
