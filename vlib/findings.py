"""known_findings.json: stored examples (replayed first on every run), classifiers, corpus."""
import json
import os

from .core import Group

ROOT = os.path.dirname(os.path.dirname(os.path.abspath(__file__)))
KF_PATH = os.path.join(ROOT, "known_findings.json")
CORPUS_DIR = os.path.join(ROOT, "corpus")


def _load():
    if not os.path.exists(KF_PATH):
        return []
    return json.load(open(KF_PATH)).get("findings", [])


def known_ids(pid):
    return [f["id"] for f in _load() if f["status"] == "known" and pid in f["properties"]]


def describe(fid):
    for f in _load():
        if f["id"] == fid:
            return "%s: %s" % (fid, f["what"])
    return fid


def _retarget(op, tree, ov):
    """stored examples carry tree/ov fields; re-target them at the current run"""
    t = op.split(" ")
    if t[0] in ("REQ", "RESP", "RTREQ", "RTRESP"):
        t[1], t[2] = str(tree), str(ov)
    elif t[0] in ("DECODE", "DF"):
        t[1] = str(tree)
    return " ".join(t)


def example_groups(pid, tree, ov):
    out = []
    for f in _load():
        if f["status"] == "known" and pid in f["properties"]:
            for k, ex in enumerate(f.get("examples", {}).get(pid, [])):
                g = Group.from_json(ex)
                g.gid = "kf_%s_%d" % (f["id"], k)
                for m in g.members:
                    m.op = _retarget(m.op, tree, ov)
                out.append(g)
    return out


def corpus_groups(pid, tree, ov):
    out = []
    d = os.path.join(CORPUS_DIR, pid)
    if os.path.isdir(d):
        for k, name in enumerate(sorted(os.listdir(d))):
            if name.endswith(".json"):
                j = json.load(open(os.path.join(d, name)))
                g = Group.from_json(j["group"] if "group" in j else j)
                g.gid = "corpus_%d" % k
                for m in g.members:
                    m.op = _retarget(m.op, tree, ov)
                out.append(g)
    return out


# classifiers: narrow predicates recognising one known finding from a failing case -------------------
CLASSIFIERS = {}


def classifier(name):
    def deco(fn):
        CLASSIFIERS[name] = fn
        return fn
    return deco


def classify(pid, failure, impl):
    for f in _load():
        if f["status"] != "known" or pid not in f["properties"]:
            continue
        fn = CLASSIFIERS.get(f["classifier"])
        try:
            if fn and fn(pid, failure, impl):
                return f["id"]
        except Exception:
            pass
    return None


# ---------------------------------------------------------------------------------------------------
from .common import unhex, ParseResult, strip_ann  # noqa: E402
import re  # noqa: E402


def d8_target(t: bytes) -> bool:
    """targets for which rhymuri's text -> Uri -> text -> Uri is not the identity"""
    if re.search(rb"\[[^\]]*[A-F][^\]]*\]", t) or re.search(rb"\[[vV][^\]]*\]", t):
        return True
    if re.search(rb"%[0-9A-Fa-f]?($|[/?#@:\]])", t):
        return True     # an incomplete percent escape is dropped silently
    first = re.split(rb"[/?#]", t, 1)[0]
    return bool(re.search(rb"%3[Aa]", first)) and b":" not in first[:first.lower().find(b"%3a")]


@classifier("rhymessage-generate-limit-underflow")
def _kf_generate(pid, f, impl):
    m = f.group.members[f.members[0]]
    t = m.op.split(" ")
    return t[0] in ("REQGEN", "RESPGEN", "REQGRT", "RESPGRT") and t[1] in ("0", "1") and "P:arithmetic" in impl[f.group.tag(f.members[0])]


@classifier("rhymessage-continuation-lines-unlimited")
def _kf_cont(pid, f, impl):
    return f.oracle == "accept-within-limits" and "continuation line" in f.what


@classifier("rhymuri-display-parse-not-identity")
def _kf_uri(pid, f, impl):
    g = f.group
    if g.kind == "req-value":
        return f.oracle in ("roundtrip", "regenerate") and d8_target(unhex(g.meta["target"])) and ("target differs" in f.what or f.oracle == "regenerate")
    if g.kind == "req-reparse":
        s = unhex(g.meta["stream"])
        line = s.split(b"\r\n", 1)[0].split(b" ")
        return len(line) >= 2 and d8_target(line[1]) and ("field u" in f.what or "field t" in f.what or "RequestTargetUriInvalid" in f.what)
    return False


@classifier("rhymessage-header-limit-counts-dangling-cr-response")
def _kf_resp_hl(pid, f, impl):
    g = f.group
    hl = g.meta.get("hl")
    if hl is None:
        return False
    for i in f.members:
        m = g.members[i]
        t = m.op.split(" ")
        if t[0] != "RESP":
            continue
        r = ParseResult(impl[g.tag(i)])
        if r.verdict != "rejected" or r.category != "Headers(HeaderLineTooLong)":
            continue
        ds = [unhex(d) for d in t[-1].split("|")]
        ncalls = len(r.steps)
        presented = b"".join(ds[:ncalls])
        if not presented.endswith(b"\r"):
            continue
        last = presented.rfind(b"\r\n")
        unterminated = presented[last + 2:] if last >= 0 else presented
        if len(unterminated) + 1 == hl:
            return True
    return False


@classifier("rhymessage-fold-unfold-lossy")
def _kf_fold(pid, f, impl):
    """the re-serialised message contains a folded header line, and the header lists before and after differ only in the
    white space inside values (a tab or a run of blanks at the fold came back as one SP)"""
    if f.oracle != "reparse" or "field h differs" not in f.what:
        return False
    out = strip_ann(impl[f.group.tag(f.members[0])])
    parts = out.split(" || ")
    if len(parts) < 3 or not parts[1].startswith("OK "):
        return False
    g1 = unhex(parts[1][3:])
    if b"\r\n " not in g1 and b"\r\n\t" not in g1:
        return False
    a, b = ParseResult(parts[0]).headers(), ParseResult(parts[2]).headers()
    if len(a) != len(b) or a == b:
        return False
    norm = lambda v: re.sub(rb"[ \t]+", b" ", v)
    return all(x[0] == y[0] and norm(x[1]) == norm(y[1]) for x, y in zip(a, b))


@classifier("gzip-first-member-only")
def _kf_multi(pid, f, impl):
    """a gzip body of several members is answered with exactly the first member's content (what follows it is ignored)"""
    g = f.group
    if g.kind != "gzip-multi-member" or f.oracle != "multi-member":
        return False
    a = g.meta["a"]
    out = strip_ann(impl[g.tag(f.members[0])]).split(" | h=")[0].strip()
    return out == ("OK " + a if a else "OK")
