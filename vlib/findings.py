"""known_findings.json: stored examples (replayed first on every run), classifiers, corpus."""
import json
import os

from .core import Group

ROOT = os.path.dirname(os.path.dirname(os.path.abspath(__file__)))
KF_PATH = os.path.join(ROOT, "known_findings.json")
CORPUS_DIR = os.path.join(ROOT, "corpus")


def _load():
    if not os.path.exists(KF_PATH):
        return []
    return json.load(open(KF_PATH)).get("findings", [])


def known_ids(pid):
    return [f["id"] for f in _load() if f["status"] == "known" and pid in f["properties"]]


def describe(fid):
    for f in _load():
        if f["id"] == fid:
            return "%s: %s" % (fid, f["what"])
    return fid


def _retarget(op, tree, ov):
    """stored examples carry tree/ov fields; re-target them at the current run"""
    t = op.split(" ")
    if t[0] in ("REQ", "RESP", "RTREQ", "RTRESP"):
        t[1], t[2] = str(tree), str(ov)
    elif t[0] in ("DECODE", "DF"):
        t[1] = str(tree)
    return " ".join(t)


def example_groups(pid, tree, ov):
    out = []
    for f in _load():
        if f["status"] == "known" and pid in f["properties"]:
            for k, ex in enumerate(f.get("examples", {}).get(pid, [])):
                g = Group.from_json(ex)
                g.gid = "kf_%s_%d" % (f["id"], k)
                for m in g.members:
                    m.op = _retarget(m.op, tree, ov)
                out.append(g)
    return out


def corpus_groups(pid, tree, ov):
    out = []
    d = os.path.join(CORPUS_DIR, pid)
    if os.path.isdir(d):
        for k, name in enumerate(sorted(os.listdir(d))):
            if name.endswith(".json"):
                j = json.load(open(os.path.join(d, name)))
                g = Group.from_json(j["group"] if "group" in j else j)
                g.gid = "corpus_%d" % k
                for m in g.members:
                    m.op = _retarget(m.op, tree, ov)
                out.append(g)
    return out


# classifiers: narrow predicates recognising one known finding from a failing case -------------------
CLASSIFIERS = {}


def classifier(name):
    def deco(fn):
        CLASSIFIERS[name] = fn
        return fn
    return deco


def classify(pid, failure, impl):
    for f in _load():
        if f["status"] != "known" or pid not in f["properties"]:
            continue
        fn = CLASSIFIERS.get(f["classifier"])
        try:
            if fn and fn(pid, failure, impl):
                return f["id"]
        except Exception:
            pass
    return None
