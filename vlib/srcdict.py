"""A dictionary taken from the source under test (/repo/src/*.rs outside `#[cfg(test)]`, comments removed): the integer
literals and the short string literals of the code that is about to be checked.  Input generation only — the oracles
and the model do not see it.  A limit, a cap, a window size or a specially treated token that exists in the code is then
also a size, a count, or a token in the generated inputs (the idea of a fuzzing dictionary, rebuilt on every run from the
current working tree; DESIGN.md §0.6e)."""
import glob
import os
import re

REPO_SRC = os.environ.get("VERIF_REPO_SRC", "/repo/src")
_cache = {}


def _non_test_source():
    out = []
    for f in sorted(glob.glob(os.path.join(REPO_SRC, "*.rs"))):
        try:
            txt = open(f, encoding="utf-8", errors="replace").read()
        except OSError:
            continue
        cut = txt.find("#[cfg(test)]")
        if cut >= 0:
            txt = txt[:cut]
        out.append(txt)
    return "\n".join(out)


def _strip_comments(txt):
    # string literals first, so that `//` inside a string is not taken for a comment
    res, i, n = [], 0, len(txt)
    while i < n:
        c = txt[i]
        if c == '"':
            j = i + 1
            while j < n and txt[j] != '"':
                j += 2 if txt[j] == "\\" else 1
            res.append(txt[i:j + 1])
            i = j + 1
        elif txt.startswith("//", i):
            j = txt.find("\n", i)
            i = n if j < 0 else j
        elif txt.startswith("/*", i):
            j = txt.find("*/", i)
            i = n if j < 0 else j + 2
        else:
            res.append(c)
            i += 1
    return "".join(res)


def _unescape(s):
    out = bytearray()
    i = 0
    while i < len(s):
        c = s[i]
        if c == "\\" and i + 1 < len(s):
            e = s[i + 1]
            if e == "x" and i + 3 < len(s):
                try:
                    out.append(int(s[i + 2:i + 4], 16))
                    i += 4
                    continue
                except ValueError:
                    pass
            out += {"r": b"\r", "n": b"\n", "t": b"\t", "0": b"\x00", "\\": b"\\", '"': b'"', "'": b"'"}.get(e, e.encode())
            i += 2
        else:
            out += c.encode("utf-8")
            i += 1
    return bytes(out)


def load():
    if "d" in _cache:
        return _cache["d"]
    txt = _strip_comments(_non_test_source())
    strs = set()
    for m in re.finditer(r'b?"((?:[^"\\]|\\.)*)"', txt):
        raw = m.group(1)
        if "{" in raw and "}" in raw:
            continue                       # a format string
        b = _unescape(raw)
        if 1 <= len(b) <= 48:
            strs.add(b)
    no_strings = re.sub(r'b?"((?:[^"\\]|\\.)*)"', '""', txt)
    ints = set()
    for m in re.finditer(r"(?<![\w.])(0x[0-9a-fA-F_]+|0b[01_]+|\d[\d_]*)(?:_?(?:usize|isize|u8|u16|u32|u64|u128|i8|i16|i32|i64))?(?![\w.])", no_strings):
        t = m.group(1).replace("_", "")
        try:
            v = int(t, 16) if t.startswith("0x") else int(t[2:], 2) if t.startswith("0b") else int(t)
        except ValueError:
            continue
        if 2 <= v <= 2 ** 64:
            ints.add(v)
    for m in re.finditer(r"(\d[\d_]*)\s*(?:\*|<<)\s*(\d[\d_]*)", no_strings):      # 64 * 1024, 1 << 20
        a, b = int(m.group(1).replace("_", "")), int(m.group(2).replace("_", ""))
        for v in (a * b, a << b if b < 64 else 0):
            if 2 <= v <= 2 ** 64:
                ints.add(v)
    # chains of two to four literals with * / << >> + - evaluated left to right (16 * 1024 / 3, 64 * 1024 - 1)
    for m in re.finditer(r"\d[\d_]*(?:\s*(?:\*|/|<<|>>|\+|-)\s*\d[\d_]*){1,3}", no_strings):
        parts = re.split(r"\s*(\*|/|<<|>>|\+|-)\s*", m.group(0))
        try:
            v = int(parts[0].replace("_", ""))
            for op, b in zip(parts[1::2], parts[2::2]):
                b = int(b.replace("_", ""))
                v = v * b if op == "*" else (v // b if b else 0) if op == "/" else (v << b if b < 64 else 0) if op == "<<" else v >> b if op == ">>" else v + b if op == "+" else v - b
        except ValueError:
            continue
        if 2 <= v <= 2 ** 64:
            ints.add(v)
    # narrow integer types named in the code: their widths are sizes too (a count kept in u32 wraps at 2^32)
    widths = set()
    for m in re.finditer(r"\b([ui])(8|16|32|64)\b", no_strings):
        widths.add(int(m.group(2)) - (1 if m.group(1) == "i" else 0))
    tokens = sorted(s for s in strs if re.fullmatch(rb"[A-Za-z0-9!#$%&'*+.^_`|~/=;, \"-]{2,48}", s) and not s.isdigit() and s.count(b" ") <= 1)
    d = {"ints": sorted(ints), "strings": sorted(strs), "tokens": tokens,
         "names": [t for t in tokens if re.fullmatch(rb"[A-Za-z][A-Za-z0-9-]{2,40}", t) and b"-" in t or t in (b"Trailer", b"Expect", b"Connection", b"Host", b"Vary", b"Upgrade", b"TE")],
         "sizes": sorted(v for v in ints if 3 <= v <= 1_100_000),
         "big": sorted(v for v in ints if 1_100_000 < v <= 2 ** 27),
         "widths": sorted(widths | set([8, 16, 31, 32, 63]))}
    _cache["d"] = d
    return d


def sizes_around():
    """N-1, N, N+1 for the literals that can be the length of an element or a count"""
    out = set()
    for v in load()["sizes"]:
        out.update((v - 1, v, v + 1, v + 2))
    return sorted(x for x in out if x >= 1)


def summary():
    d = load()
    return {"integer_literals": len(d["ints"]), "string_literals": len(d["strings"]), "token_like": len(d["tokens"]),
            "sizes": d["sizes"][:40], "big": d["big"][:10], "tokens": [t.decode("latin-1") for t in d["tokens"][:60]]}
