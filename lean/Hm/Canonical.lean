import Hm.FixedHuff

/-! Canonical Huffman codes (RFC 1951 §3.2.2): for *every* list of code lengths that is not over-subscribed, the
    bit-by-bit decoder `decodeSym (mkHuff lens)` reads the canonical code word of a symbol back to that symbol.
    This is the decoder half of dynamic-Huffman blocks, for all tables at once. -/

/-- number of symbols with code length `l` (length 0 = unused) -/
def cnt (lens : List Nat) (l : Nat) : Nat := if l = 0 then 0 else (lens.filter (· == l)).length

/-- first code word of each length, RFC 1951 step 2 -/
def firstCode (lens : List Nat) : Nat → Nat
  | 0 => 0
  | l + 1 => (firstCode lens l + cnt lens l) * 2

/-- number of symbols with a shorter code -/
def indexAt (lens : List Nat) : Nat → Nat
  | 0 => 0
  | l + 1 => indexAt lens l + cnt lens l

/-- rank of `s` among the symbols of its own length -/
def rank (lens : List Nat) (s : Nat) : Nat :=
  ((List.range s).filter fun s' => lens.getD s' 0 == lens.getD s 0).length

def canonCode (lens : List Nat) (s : Nat) : Nat := firstCode lens (lens.getD s 0) + rank lens s

/-- the code word, most significant bit first -/
def canonBits (lens : List Nat) (s : Nat) : List Bool := bitsMSB (lens.getD s 0) (canonCode lens s)

/-- the symbols of length `l`, in increasing order -/
def symsOf (lens : List Nat) (l : Nat) : List Nat :=
  if l = 0 then [] else (List.range lens.length).filter fun s => lens.getD s 0 == l

def symList (lens : List Nat) : List Nat := (List.range 16).flatMap (symsOf lens)

theorem mkHuff_symbols (lens : List Nat) : (mkHuff lens).symbols = (symList lens).toArray := rfl

theorem mkHuff_counts (lens : List Nat) (l : Nat) (hl : l < 16) : (mkHuff lens).counts.getD l 0 = cnt lens l := by
  unfold mkHuff cnt
  simp only
  rw [Array.getD_eq_getD_getElem?, List.getElem?_toArray, List.getElem?_map, List.getElem?_range hl]
  rfl

/-- the two ways of counting agree -/
theorem filter_count (lens : List Nat) (l : Nat) :
    ((List.range lens.length).filter fun s => lens.getD s 0 == l).length = (lens.filter (· == l)).length := by
  induction lens with
  | nil => rfl
  | cons x rest ih =>
    rw [List.length_cons, List.range_succ_eq_map, List.filter_cons, List.filter_map, List.filter_cons]
    have h0 : (x :: rest).getD 0 0 = x := rfl
    have hs : ((fun s => (x :: rest).getD s 0 == l) ∘ Nat.succ) = fun s => rest.getD s 0 == l := by
      funext s; simp [List.getD]
    rw [h0, hs]
    split
    · simp only [List.length_cons, List.length_map, List.filter_cons, *, if_true]
    · simp only [List.length_map, List.filter_cons, *, if_false]

theorem symsOf_length (lens : List Nat) (l : Nat) : (symsOf lens l).length = cnt lens l := by
  unfold symsOf cnt
  split
  · rfl
  · exact filter_count lens l

theorem flatMap_range_length (lens : List Nat) (L : Nat) :
    ((List.range L).flatMap (symsOf lens)).length = indexAt lens L := by
  induction L with
  | zero => rfl
  | succ L ih =>
    rw [List.range_succ, List.flatMap_append, List.length_append, ih]
    simp [indexAt, symsOf_length]

/-- in a filtered list, the element `x` sits at the number of earlier matches -/
theorem filter_index {α : Type} (p : α → Bool) (a b : List α) (x : α) (hx : p x = true) :
    ((a ++ x :: b).filter p)[(a.filter p).length]? = some x := by
  rw [List.filter_append, List.filter_cons, if_pos hx, List.getElem?_append_right (Nat.le_refl _)]
  simp

theorem symsOf_rank (lens : List Nat) (s : Nat) (hs : s < lens.length) (h1 : lens.getD s 0 ≠ 0) :
    (symsOf lens (lens.getD s 0))[rank lens s]? = some s := by
  unfold symsOf rank
  rw [if_neg h1]
  have hsplit : List.range lens.length = List.range s ++ s :: (List.range (lens.length - s - 1)).map (s + 1 + ·) := by
    have : lens.length = s + (1 + (lens.length - s - 1)) := by omega
    conv => lhs; rw [this, List.range_add, List.range_add]
    simp [List.map_map, Function.comp_def, Nat.add_assoc]
  rw [hsplit]
  exact filter_index (fun s' => lens.getD s' 0 == lens.getD s 0) _ _ s (by simp)

theorem rank_lt (lens : List Nat) (s : Nat) (hs : s < lens.length) (h1 : lens.getD s 0 ≠ 0) :
    rank lens s < cnt lens (lens.getD s 0) := by
  have h := symsOf_rank lens s hs h1
  rw [← symsOf_length]
  by_cases hlt : rank lens s < (symsOf lens (lens.getD s 0)).length
  · exact hlt
  · rw [List.getElem?_eq_none (by omega)] at h; cases h

/-- where the symbol sits in `mkHuff`'s symbol table -/
theorem symList_index (lens : List Nat) (s : Nat) (hs : s < lens.length) (h1 : lens.getD s 0 ≠ 0) (h15 : lens.getD s 0 ≤ 15) :
    (symList lens)[indexAt lens (lens.getD s 0) + rank lens s]? = some s := by
  unfold symList
  have hsplit : List.range 16 = List.range (lens.getD s 0) ++ lens.getD s 0 :: (List.range (16 - lens.getD s 0 - 1)).map (lens.getD s 0 + 1 + ·) := by
    have : 16 = lens.getD s 0 + (1 + (16 - lens.getD s 0 - 1)) := by omega
    conv => lhs; rw [this, List.range_add, List.range_add]
    simp [List.map_map, Function.comp_def, Nat.add_assoc]
  rw [hsplit, List.flatMap_append, List.flatMap_cons]
  rw [List.getElem?_append_right (by rw [flatMap_range_length]; omega), flatMap_range_length,
    Nat.add_sub_cancel_left]
  rw [List.getElem?_append_left (by rw [symsOf_length]; exact rank_lt lens s hs h1)]
  exact symsOf_rank lens s hs h1

/-- canonical codes grow: every longer code word, cut to `len` bits, lies beyond the code words of length `len` -/
theorem firstCode_ge (lens : List Nat) (len : Nat) : ∀ d, (firstCode lens len + cnt lens len) * 2 ^ (d + 1) ≤ firstCode lens (len + d + 1) := by
  intro d
  induction d with
  | zero => simp [firstCode]
  | succ d ih =>
    have : firstCode lens (len + (d + 1) + 1) = (firstCode lens (len + d + 1) + cnt lens (len + d + 1)) * 2 := rfl
    rw [this, Nat.pow_succ]
    have h2 : (firstCode lens len + cnt lens len) * (2 ^ (d + 1) * 2) = (firstCode lens len + cnt lens len) * 2 ^ (d + 1) * 2 := by
      rw [Nat.mul_assoc]
    rw [h2]
    have : (firstCode lens len + cnt lens len) * 2 ^ (d + 1) * 2 ≤ firstCode lens (len + d + 1) * 2 := Nat.mul_le_mul_right 2 ih
    have h3 : firstCode lens (len + d + 1) * 2 ≤ (firstCode lens (len + d + 1) + cnt lens (len + d + 1)) * 2 :=
      Nat.mul_le_mul_right 2 (Nat.le_add_right _ _)
    omega

theorem bitsMSB_get (n v k : Nat) (hk : k < n) : (bitsMSB n v)[k]? = some (v / 2 ^ (n - 1 - k) % 2 == 1) := by
  induction n generalizing k with
  | zero => omega
  | succ n ih =>
    unfold bitsMSB
    cases k with
    | zero => simp
    | succ k =>
      rw [List.getElem?_cons_succ, ih k (by omega)]
      have : n + 1 - 1 - (k + 1) = n - 1 - k := by omega
      rw [this]

/-- the decoder's walk along the code word of `s` -/
theorem decodeSymAux_canon (lens : List Nat) (s L : Nat) (hs : s < lens.length) (hL : lens.getD s 0 = L)
    (h1 : 1 ≤ L) (h15 : L ≤ 15) :
    ∀ r len, len + r = L → 1 ≤ len →
      decodeSymAux (mkHuff lens) (16 - len) len (2 * (canonCode lens s / 2 ^ (r + 1))) (firstCode lens len) (indexAt lens len)
        (inpOfBits (canonBits lens s)) (len - 1) = .ok (s, L) := by
  have hne : lens.getD s 0 ≠ 0 := by omega
  intro r
  induction r with
  | zero =>
    intro len hlen h1len
    have hlenL : len = L := by omega
    subst hlenL
    obtain ⟨f, hf⟩ : ∃ f, 16 - len = f + 1 := ⟨14 - (len - 1), by omega⟩
    rw [hf]
    unfold decodeSymAux
    have hbit : readBit (inpOfBits (canonBits lens s)) (len - 1) = .ok ((canonCode lens s % 2 == 1), len - 1 + 1) := by
      unfold readBit inpOfBits canonBits
      rw [hL, bitsMSB_get len _ (len - 1) (by omega)]
      simp
    simp only [R.bind, hbit]
    have hcode : 2 * (canonCode lens s / 2 ^ (0 + 1)) + (canonCode lens s % 2 == 1).toNat = canonCode lens s := by
      rcases Nat.mod_two_eq_zero_or_one (canonCode lens s) with h | h <;> simp [h] <;> omega
    rw [hcode, mkHuff_counts lens len (by omega)]
    have hrank := rank_lt lens s hs hne
    rw [hL] at hrank
    have hlt : canonCode lens s < firstCode lens len + cnt lens len := by
      unfold canonCode; rw [hL]; omega
    rw [if_pos hlt]
    have hidx : indexAt lens len + (canonCode lens s - firstCode lens len) = indexAt lens len + rank lens s := by
      unfold canonCode; rw [hL]; omega
    have hsym := symList_index lens s hs hne (by omega)
    rw [hL] at hsym
    rw [hidx, mkHuff_symbols]
    simp only [List.getElem?_toArray, hsym, R.pure]
    simp only [Except.ok.injEq, Prod.mk.injEq, true_and]; omega
  | succ r ih =>
    intro len hlen h1len
    obtain ⟨f, hf⟩ : ∃ f, 16 - len = f + 1 := ⟨14 - (len - 1), by omega⟩
    rw [hf]
    unfold decodeSymAux
    have hbit : readBit (inpOfBits (canonBits lens s)) (len - 1)
        = .ok ((canonCode lens s / 2 ^ (r + 1) % 2 == 1), len - 1 + 1) := by
      unfold readBit inpOfBits canonBits
      rw [hL, bitsMSB_get L _ (len - 1) (by omega)]
      have : L - 1 - (len - 1) = r + 1 := by omega
      rw [this]
    simp only [R.bind, hbit]
    have hdiv : canonCode lens s / 2 ^ (r + 1 + 1) = canonCode lens s / 2 ^ (r + 1) / 2 := by
      rw [Nat.pow_succ, Nat.div_div_eq_div_mul]
    have hcode : 2 * (canonCode lens s / 2 ^ (r + 1 + 1)) + (canonCode lens s / 2 ^ (r + 1) % 2 == 1).toNat
        = canonCode lens s / 2 ^ (r + 1) := by
      rw [hdiv]
      rcases Nat.mod_two_eq_zero_or_one (canonCode lens s / 2 ^ (r + 1)) with h | h <;> simp [h] <;> omega
    rw [hcode, mkHuff_counts lens len (by omega)]
    have hge : firstCode lens len + cnt lens len ≤ canonCode lens s / 2 ^ (r + 1) := by
      have h := firstCode_ge lens len r
      have hLe : len + r + 1 = L := by omega
      rw [hLe] at h
      have hc : firstCode lens L ≤ canonCode lens s := by unfold canonCode; rw [hL]; omega
      have : (firstCode lens len + cnt lens len) * 2 ^ (r + 1) ≤ canonCode lens s := Nat.le_trans h hc
      exact (Nat.le_div_iff_mul_le (Nat.two_pow_pos _)).mpr this
    rw [if_neg (by omega)]
    have hnext := ih (len + 1) (by omega) (by omega)
    have hfuel : 16 - (len + 1) = f := by omega
    rw [hfuel] at hnext
    have hmul : canonCode lens s / 2 ^ (r + 1) * 2 = 2 * (canonCode lens s / 2 ^ (r + 1)) := Nat.mul_comm _ _
    rw [hmul]
    have hpos : len - 1 + 1 = len + 1 - 1 := by omega
    rw [hpos]
    exact hnext

/-- **canonical Huffman decoding is correct**: for every table of code lengths, every symbol with a code (length
    1..15) whose canonical code word fits its length (the table is not over-subscribed up to that symbol) is read
    back from its code word -/
theorem decodeSym_canon (lens : List Nat) (s : Nat) (hs : s < lens.length)
    (h1 : 1 ≤ lens.getD s 0) (h15 : lens.getD s 0 ≤ 15) (hfit : canonCode lens s < 2 ^ lens.getD s 0) :
    decodeSym (mkHuff lens) (inpOfBits (canonBits lens s)) 0 = .ok (s, (canonBits lens s).length) := by
  have h := decodeSymAux_canon lens s (lens.getD s 0) hs rfl h1 h15 (lens.getD s 0 - 1) 1 (by omega) (by omega)
  have hz : canonCode lens s / 2 ^ (lens.getD s 0 - 1 + 1) = 0 := by
    rw [show lens.getD s 0 - 1 + 1 = lens.getD s 0 by omega]
    exact Nat.div_eq_of_lt hfit
  rw [hz] at h
  unfold decodeSym
  have hf1 : firstCode lens 1 = 0 := by simp [firstCode, cnt]
  have hi1 : indexAt lens 1 = 0 := by simp [indexAt, cnt]
  rw [hf1, hi1] at h
  simp only [canonBits, bitsMSB_length]
  exact h

/-- wherever the stream carries the canonical code word, the symbol is decoded and the position advances by the
    code length -/
theorem decodeSym_canon_at (lens : List Nat) (s : Nat) (hs : s < lens.length)
    (h1 : 1 ≤ lens.getD s 0) (h15 : lens.getD s 0 ≤ 15) (hfit : canonCode lens s < 2 ^ lens.getD s 0)
    {i : Inp} {p : Nat} (hc : Carries i p (canonBits lens s)) :
    decodeSym (mkHuff lens) i p = .ok (s, p + (canonBits lens s).length) :=
  run_of_carries (Local.decodeSym _) (Shiftable.decodeSym _) (decodeSym_canon lens s hs h1 h15 hfit) hc
