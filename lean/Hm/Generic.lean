import Hm.Common

/-! DESIGN.md §5.1, generically: a resumable parser is a `step` on (state, remaining input);
    laws of `step` lift to the phase loop, and one induction over deliveries gives delivery independence -/

inductive Res (ε σ : Type) where
  | fail (e : ε)
  | ok (i : Internal) (s : σ) (c : Nat)

inductive PRes (ε σ : Type) where
  | fail (e : ε)
  | ok (st : Status) (s : σ) (c : Nat)

def Res.shift (k : Nat) : Res ε σ → Res ε σ
  | .fail e => .fail e
  | .ok i s c => .ok i s (k + c)

def PRes.shift (k : Nat) : PRes ε σ → PRes ε σ
  | .fail e => .fail e
  | .ok st s c => .ok st s (k + c)

structure Sys (ε σ : Type) where
  step : σ → Bytes → Res ε σ
  /-- enough fuel for the phase loop, from a state and the length of the remaining input -/
  μ : σ → Nat → Nat
  oof : ε

namespace Sys
variable {ε σ : Type}

/-- the phase loop on the unconsumed suffix; `none` = out of fuel -/
def loop (M : Sys ε σ) : Nat → σ → Bytes → Nat → Option (PRes ε σ)
  | 0, _, _, _ => none
  | f + 1, s, rem, acc =>
    match M.step s rem with
    | .fail e => some (.fail e)
    | .ok .completePart s' c => loop M f s' (rem.drop c) (acc + c)
    | .ok .completeWhole s' c => some (.ok .complete s' (acc + c))
    | .ok .incomplete s' c => some (.ok .incomplete s' (acc + c))

variable (M : Sys ε σ)

def parse (s : σ) (raw : Bytes) : PRes ε σ :=
  match M.loop (M.μ s raw.length) s raw 0 with
  | some r => r
  | none => .fail M.oof

/-- the laws, relative to a state invariant `Inv` that `step` preserves -/
structure Lawful (Inv : σ → Prop) : Prop where
  /-- `Inv` is an invariant of parsing *in progress*: it need not survive completion of the message -/
  inv : ∀ {s b i s' c}, Inv s → M.step s b = .ok i s' c → i ≠ .completeWhole → Inv s'
  le : ∀ {s b i s' c}, Inv s → M.step s b = .ok i s' c → c ≤ b.length
  p1 : ∀ {s b i s' c}, Inv s → M.step s b = .ok i s' c → i ≠ .incomplete → ∀ d, M.step s (b ++ d) = .ok i s' c
  p2 : ∀ {s b s' c}, Inv s → M.step s b = .ok .incomplete s' c → ∀ d, M.step s (b ++ d) = (M.step s' (b.drop c ++ d)).shift c
  p3 : ∀ {s b e}, Inv s → M.step s b = .fail e → ∀ d, ∃ e', M.step s (b ++ d) = .fail e'
  pos : ∀ s n, 0 < M.μ s n
  dec : ∀ {s b s' c}, Inv s → M.step s b = .ok .completePart s' c → M.μ s' (b.length - c) < M.μ s b.length
  mono : ∀ s {n m}, n ≤ m → M.μ s n ≤ M.μ s m

variable {M} {Inv : σ → Prop}

theorem loop_fuel_irrel (L : M.Lawful Inv) {f1 f2 : Nat} {s : σ} {rem : Bytes} {acc : Nat} (hI : Inv s)
    (h1 : M.μ s rem.length ≤ f1) (h2 : M.μ s rem.length ≤ f2) :
    M.loop f1 s rem acc = M.loop f2 s rem acc := by
  induction f1 generalizing f2 s rem acc with
  | zero => have := L.pos s rem.length; omega
  | succ f1 ih =>
    cases f2 with
    | zero => have := L.pos s rem.length; omega
    | succ f2 =>
      unfold loop
      cases hs : M.step s rem with
      | fail e => rfl
      | ok i s' c =>
        cases i with
        | completePart =>
          have hd := L.dec hI hs
          simp only
          apply ih (L.inv hI hs (by simp)) <;> simp only [List.length_drop] <;> omega
        | completeWhole => rfl
        | incomplete => rfl

theorem loop_isSome (L : M.Lawful Inv) {f : Nat} {s : σ} {rem : Bytes} {acc : Nat} (hI : Inv s)
    (h : M.μ s rem.length ≤ f) : (M.loop f s rem acc).isSome := by
  induction f generalizing s rem acc with
  | zero => have := L.pos s rem.length; omega
  | succ f ih =>
    unfold loop
    cases hs : M.step s rem with
    | fail e => rfl
    | ok i s' c =>
      cases i with
      | completePart =>
        have hd := L.dec hI hs
        simp only
        apply ih (L.inv hI hs (by simp)); simp only [List.length_drop]; omega
      | completeWhole => rfl
      | incomplete => rfl

theorem loop_fuel_mono {f : Nat} {s : σ} {rem : Bytes} {acc : Nat} {r : PRes ε σ}
    (h : M.loop f s rem acc = some r) (k : Nat) : M.loop (f + k) s rem acc = some r := by
  induction f generalizing s rem acc with
  | zero => simp [loop] at h
  | succ f ih =>
    rw [show f + 1 + k = (f + k) + 1 by omega]
    unfold loop at h ⊢
    split at h
    · exact h
    · exact ih h
    · exact h
    · exact h

theorem loop_consumed (L : M.Lawful Inv) {f : Nat} {s s' : σ} {rem : Bytes} {acc c : Nat} {st : Status}
    (hI : Inv s) (h : M.loop f s rem acc = some (.ok st s' c)) :
    acc ≤ c ∧ c ≤ acc + rem.length ∧ (st = .incomplete → Inv s') := by
  induction f generalizing s rem acc with
  | zero => simp [loop] at h
  | succ f ih =>
    unfold loop at h
    split at h
    · simp at h
    · rename_i s1 c1 hs
      have := L.le hI hs
      have := ih (L.inv hI hs (by simp)) h
      simp at this; exact ⟨by omega, by omega, this.2.2⟩
    · rename_i s1 c1 hs
      have := L.le hI hs
      simp at h; obtain ⟨rfl, rfl, rfl⟩ := h; exact ⟨by omega, by omega, by simp⟩
    · rename_i s1 c1 hs
      have := L.le hI hs
      have hi := L.inv hI hs (by simp)
      simp at h; obtain ⟨rfl, rfl, rfl⟩ := h; exact ⟨by omega, by omega, fun _ => hi⟩

/-- L1: completion is stable under extension (same fuel) -/
theorem loop_append_complete (L : M.Lawful Inv) {f : Nat} {s s' : σ} {rem : Bytes} {acc c : Nat}
    (hI : Inv s) (h : M.loop f s rem acc = some (.ok .complete s' c)) (d : Bytes) :
    M.loop f s (rem ++ d) acc = some (.ok .complete s' c) := by
  induction f generalizing s rem acc with
  | zero => simp [loop] at h
  | succ f ih =>
    unfold loop at h ⊢
    cases hs : M.step s rem with
    | fail e => simp [hs] at h
    | ok i s1 c1 =>
      have hle := L.le hI hs
      cases i with
      | completePart =>
        simp only [hs] at h
        rw [L.p1 hI hs (by simp) d]; simp only
        rw [List.drop_append_of_le_length hle]
        exact ih (L.inv hI hs (by simp)) h
      | completeWhole =>
        simp only [hs] at h
        rw [L.p1 hI hs (by simp) d]; exact h
      | incomplete => simp [hs] at h

/-- L3: failure is stable under extension (same fuel) -/
theorem loop_append_fail (L : M.Lawful Inv) {f : Nat} {s : σ} {rem : Bytes} {acc : Nat} {e : ε}
    (hI : Inv s) (h : M.loop f s rem acc = some (.fail e)) (d : Bytes) :
    ∃ e', M.loop f s (rem ++ d) acc = some (.fail e') := by
  induction f generalizing s rem acc with
  | zero => simp [loop] at h
  | succ f ih =>
    unfold loop at h ⊢
    cases hs : M.step s rem with
    | fail e1 =>
      obtain ⟨e', he'⟩ := L.p3 hI hs d
      exact ⟨e', by rw [he']⟩
    | ok i s1 c1 =>
      have hle := L.le hI hs
      cases i with
      | completePart =>
        simp only [hs] at h
        rw [L.p1 hI hs (by simp) d]; simp only
        rw [List.drop_append_of_le_length hle]
        exact ih (L.inv hI hs (by simp)) h
      | completeWhole => simp [hs] at h
      | incomplete => simp [hs] at h

/-- L2: an incomplete run can be resumed from the returned state -/
theorem loop_append_incomplete (L : M.Lawful Inv) {f : Nat} {s s' : σ} {rem : Bytes} {acc c : Nat}
    (hI : Inv s) (h : M.loop f s rem acc = some (.ok .incomplete s' c)) (d : Bytes) {f1 f2 : Nat}
    (h1 : M.μ s (rem ++ d).length ≤ f1) (h2 : M.μ s' (rem.drop (c - acc) ++ d).length ≤ f2) :
    M.loop f1 s (rem ++ d) acc = M.loop f2 s' (rem.drop (c - acc) ++ d) c := by
  induction f generalizing s rem acc f1 with
  | zero => simp [loop] at h
  | succ f ih =>
    unfold loop at h
    cases hs : M.step s rem with
    | fail e => simp [hs] at h
    | ok i s1 c1 =>
      have hle := L.le hI hs
      cases i with
      | completeWhole => simp [hs] at h
      | completePart =>
        have hI1 := L.inv hI hs (by simp)
        simp only [hs] at h
        have hc := loop_consumed L hI1 h
        have hs' := L.p1 hI hs (by simp) d
        cases f1 with
        | zero => have := L.pos s (rem ++ d).length; omega
        | succ f1 =>
          conv => lhs; unfold loop
          rw [hs']; simp only
          rw [List.drop_append_of_le_length hle]
          have hdrop : (rem.drop c1).drop (c - (acc + c1)) = rem.drop (c - acc) := by
            rw [List.drop_drop]; congr 1; omega
          have hd := L.dec hI hs'
          have := ih hI1 h (f1 := f1)
            (by rw [← List.drop_append_of_le_length hle]; simp only [List.length_drop]; omega)
            (by rw [hdrop]; exact h2)
          rw [this, hdrop]
      | incomplete =>
        have hI1 := L.inv hI hs (by simp)
        simp only [hs, Option.some.injEq, PRes.ok.injEq, true_and] at h
        obtain ⟨rfl, rfl⟩ := h
        have hcc : acc + c1 - acc = c1 := by omega
        rw [hcc] at h2 ⊢
        have hp2 := L.p2 hI hs d
        cases f1 with
        | zero => have := L.pos s (rem ++ d).length; omega
        | succ f1 =>
          cases f2 with
          | zero => have := L.pos s1 (rem.drop c1 ++ d).length; omega
          | succ f2 =>
            conv => lhs; unfold loop
            conv => rhs; unfold loop
            rw [hp2]
            cases hr : M.step s1 (rem.drop c1 ++ d) with
            | fail e => simp [Res.shift]
            | ok i s2 c2 =>
              cases i with
              | completeWhole => simp [Res.shift]; omega
              | incomplete => simp [Res.shift]; omega
              | completePart =>
                simp only [Res.shift]
                have hle2 := L.le hI1 hr
                have hdec := L.dec hI1 hr
                have hlist : (rem ++ d).drop (c1 + c2) = (rem.drop c1 ++ d).drop c2 := by
                  rw [← List.drop_drop, List.drop_append_of_le_length hle]
                rw [hlist, show acc + (c1 + c2) = acc + c1 + c2 by omega]
                apply loop_fuel_irrel L (L.inv hI1 hr (by simp))
                · have hs'' : M.step s (rem ++ d) = .ok .completePart s2 (c1 + c2) := by
                    rw [hp2, hr]; rfl
                  have := L.dec hI hs''
                  rw [← hlist]; simp only [List.length_drop]; omega
                · simp only [List.length_drop]; omega

/-! ### `parse` -/

theorem parse_inv (L : M.Lawful Inv) {s s' : σ} {raw : Bytes} {c : Nat} {st : Status}
    (hI : Inv s) (h : M.parse s raw = .ok st s' c) : (st = .incomplete → Inv s') ∧ c ≤ raw.length := by
  unfold parse at h
  cases hl : M.loop (M.μ s raw.length) s raw 0 with
  | none => simp [hl] at h
  | some r =>
    simp only [hl] at h; subst h
    have := loop_consumed L hI hl
    exact ⟨this.2.2, by omega⟩

theorem parse_append_complete (L : M.Lawful Inv) {s s' : σ} {raw : Bytes} {c : Nat}
    (hI : Inv s) (h : M.parse s raw = .ok .complete s' c) (d : Bytes) :
    M.parse s (raw ++ d) = .ok .complete s' c := by
  unfold parse at h ⊢
  cases hl : M.loop (M.μ s raw.length) s raw 0 with
  | none => simp [hl] at h
  | some r =>
    simp only [hl] at h; subst h
    have h1 := loop_append_complete L hI hl d
    have hm : M.μ s raw.length ≤ M.μ s (raw ++ d).length := L.mono s (by simp)
    obtain ⟨k, hk⟩ := Nat.exists_eq_add_of_le hm
    rw [hk, loop_fuel_mono h1 k]

theorem parse_append_fail (L : M.Lawful Inv) {s : σ} {raw : Bytes} {e : ε}
    (hI : Inv s) (h : M.parse s raw = .fail e) (d : Bytes) : ∃ e', M.parse s (raw ++ d) = .fail e' := by
  unfold parse at h ⊢
  cases hl : M.loop (M.μ s raw.length) s raw 0 with
  | none => have := loop_isSome L hI (Nat.le_refl (M.μ s raw.length)) (acc := 0) (rem := raw); simp [hl] at this
  | some r =>
    simp only [hl] at h; subst h
    obtain ⟨e', h1⟩ := loop_append_fail L hI hl d
    have hm : M.μ s raw.length ≤ M.μ s (raw ++ d).length := L.mono s (by simp)
    obtain ⟨k, hk⟩ := Nat.exists_eq_add_of_le hm
    exact ⟨e', by rw [hk, loop_fuel_mono h1 k]⟩

theorem loop_acc (M : Sys ε σ) {f : Nat} {s : σ} {rem : Bytes} {acc : Nat} :
    M.loop f s rem acc = (M.loop f s rem 0).map (PRes.shift acc) := by
  induction f generalizing s rem acc with
  | zero => simp [loop]
  | succ f ih =>
    unfold loop
    cases M.step s rem with
    | fail e => simp [PRes.shift]
    | ok i s1 c1 =>
      cases i with
      | completePart =>
        simp only
        rw [ih (acc := acc + c1), ih (acc := 0 + c1)]
        cases M.loop f s1 (rem.drop c1) 0 with
        | none => simp
        | some r => cases r <;> simp [PRes.shift]; omega
      | completeWhole => simp [PRes.shift]
      | incomplete => simp [PRes.shift]

theorem parse_append_incomplete (L : M.Lawful Inv) {s s' : σ} {raw : Bytes} {c : Nat}
    (hI : Inv s) (h : M.parse s raw = .ok .incomplete s' c) (d : Bytes) :
    M.parse s (raw ++ d) = (M.parse s' (raw.drop c ++ d)).shift c := by
  unfold parse at h ⊢
  cases hl : M.loop (M.μ s raw.length) s raw 0 with
  | none => simp [hl] at h
  | some r =>
    simp only [hl] at h; subst h
    have := loop_append_incomplete L hI hl d (f1 := M.μ s (raw ++ d).length)
      (f2 := M.μ s' (raw.drop c ++ d).length) (Nat.le_refl _) (by simp)
    simp only [Nat.sub_zero] at this
    rw [this, loop_acc]
    cases M.loop (M.μ s' (raw.drop c ++ d).length) s' (raw.drop c ++ d) 0 with
    | none => simp [PRes.shift]
    | some r => simp

theorem loop_cp' (M : Sys ε σ) {f : Nat} {s s' : σ} {rem : Bytes} {acc c : Nat}
    (h : M.step s rem = .ok .completePart s' c) : M.loop (f + 1) s rem acc = M.loop f s' (rem.drop c) (acc + c) := by
  conv => lhs; unfold Sys.loop
  rw [h]

theorem loop_cw' (M : Sys ε σ) {f : Nat} {s s' : σ} {rem : Bytes} {acc c : Nat}
    (h : M.step s rem = .ok .completeWhole s' c) : M.loop (f + 1) s rem acc = some (.ok .complete s' (acc + c)) := by
  conv => lhs; unfold Sys.loop
  rw [h]

end Sys
