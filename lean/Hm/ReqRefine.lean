import Hm.ReqProps

/-! The two descriptions of the request parser are one: `Request.parse` (the line-by-line transcription of
    src/request.rs, with the reservation log, which the driver executes and the correspondence check compares
    with the crate) and `requestSys` (the same parser as a resumable `step`, which the theorems C01 C03 C06 C08
    C09 C10 C11 C18 are about) give the same answer — verdict, error category, state, bytes consumed — on every
    state that satisfies the parser's invariant and every input of at most 2^30 bytes per call (beyond that the
    instrumented model's `vecReserve` raises its artificial "more than 1 GiB" marker).  Until now the driver
    compared the two at run time on every op (`MODEL-INCONSISTENT`); this makes it a theorem. -/

variable {u : UriImpl}

def outToPRes {σ : Type} : Out (ParseOut σ) → PRes Fail σ
  | .ok o => .ok o.status o.st o.consumed
  | .err c => .fail (.err c)
  | .panic k => .fail (.panic k)

/-- a phase result as the loop of `Request.parse` treats it (repair F7 is applied by the loop) -/
def phaseRes (cfg : ReqCfg) (remLen : Nat) : Out (PhaseOut (ReqState u)) → Res Fail (ReqState u)
  | .err c => .fail (.err c)
  | .panic k => .fail (.panic k)
  | .ok po =>
    match po.internal with
    | .incomplete =>
      if early cfg.max po.st.totalBytes (remLen - po.consumed) then .fail (.err .MessageTooLong)
      else .ok .incomplete po.st po.consumed
    | .completePart => .ok .completePart po.st po.consumed
    | .completeWhole => .ok .completeWhole po.st po.consumed

theorem countBytes_countR (cfg : ReqCfg) (hrep : cfg.tree.repaired = true) (s : ReqState u) (b : Nat) :
    countBytes cfg s b = (match countR cfg.max s.totalBytes b with
      | .error (.err c) => .err c
      | .error (.panic k) => .panic k
      | .error .oof => .err .MessageTooLong
      | .ok t => .ok { s with totalBytes := t }) := by
  unfold countBytes countR
  simp only [hrep, if_true]
  by_cases h1 : s.totalBytes + b ≤ usizeMax
  · simp only [h1, if_true]
    cases hm : cfg.max with
    | none => simp [overLimit]
    | some m =>
      simp only [overLimit]
      by_cases h2 : s.totalBytes + b > m
      · simp [h2]
      · simp [h2]
  · simp only [h1, if_false]
    cases hm : cfg.max with
    | none => simp
    | some m => simp

theorem body_refines (cfg : ReqCfg) (s : ReqState u) (rem : Bytes) (n : Nat) :
    phaseRes cfg rem.length (parseMessageForBody s rem n) = bodyStep cfg s rem n := by
  unfold parseMessageForBody bodyStep
  by_cases h1 : s.body.length > n
  · simp [h1, phaseRes]
  · simp only [h1, if_false]
    by_cases h2 : rem.length ≥ n - s.body.length
    · simp [h2, phaseRes]
    · simp [h2, phaseRes]

theorem rl_refines (cfg : ReqCfg) (hrep : cfg.tree.repaired = true) (s : ReqState u) (rem : Bytes) :
    phaseRes cfg rem.length (parseMessageForRequestLine u cfg s rem) = rlStep u cfg s rem := by
  unfold parseMessageForRequestLine rlStep
  simp only [hrep, if_true]
  cases hf : findCrlf rem with
  | none =>
    simp only
    by_cases h1 : overLimit cfg.rl (stripDanglingCr rem).length = true
    · simp [h1, phaseRes]
    · simp [h1, phaseRes]
  | some e =>
    simp only
    by_cases h1 : overLimit cfg.rl e = true
    · simp [h1, phaseRes]
    · simp only [h1, Bool.false_eq_true, if_false]
      by_cases h2 : validUtf8 (rem.take e) = true
      · simp only [h2, Bool.not_true, Bool.false_eq_true, if_false]
        have hcr := countBytes_countR cfg hrep s (e + 2)
        cases hc : countR cfg.max s.totalBytes (e + 2) with
        | error f =>
          have := countR_error_is_err hc
          subst this
          simp only [hc] at hcr
          simp [hcr, bind, Outcome.bind, phaseRes]
        | ok t =>
          simp only [hc] at hcr
          simp only [hcr, bind, Outcome.bind]
          cases hp : parseRequestLine u (rem.take e) with
          | error c => simp [phaseRes]
          | ok r => obtain ⟨m, tg⟩ := r; simp [phaseRes]
      · simp [h2, phaseRes]

theorem stripDanglingCr_length_le (raw : Bytes) : (stripDanglingCr raw).length ≤ raw.length := by
  unfold stripDanglingCr; split <;> simp

theorem hdr_refines (cfg : ReqCfg) (hrep : cfg.tree.repaired = true) (s : ReqState u) (rem : Bytes)
    (hbody : s.body = []) (hlen : rem.length ≤ 2 ^ 30) :
    phaseRes cfg rem.length (parseMessageForHeaders cfg s rem) = hdrStep cfg s rem := by
  have htree : cfg.tree = ⟨true⟩ := by cases h : cfg.tree; simp [h] at hrep; simp [hrep]
  unfold parseMessageForHeaders hdrStep
  simp only [hrep, if_true]
  cases hp : Headers.parse cfg.hl s.headers (stripDanglingCr rem) with
  | error e => simp [liftH, bind, Outcome.bind, phaseRes]
  | ok r0 =>
    obtain ⟨hs, st, c0⟩ := r0
    simp only [liftH, bind, Outcome.bind]
    have hcr := countBytes_countR cfg hrep { s with headers := hs } c0
    cases hc : countR cfg.max s.totalBytes c0 with
    | error f =>
      have := countR_error_is_err hc
      subst this
      simp only [hc] at hcr
      simp [hcr, phaseRes]
    | ok t =>
      simp only [hc] at hcr
      simp only [hcr]
      cases st with
      | incomplete => simp [phaseRes]
      | complete =>
        simp only [afterHeaders]
        cases hv : headerValue hs kContentLength with
        | none => simp [phaseRes]
        | some v =>
          simp only [htree]
          cases hn : parseNumber ⟨true⟩ 10 v with
          | none => simp [phaseRes]
          | some cl =>
            simp only
            have hcr2 := countBytes_countR cfg hrep { s with headers := hs, totalBytes := t } cl
            cases hc2 : countR cfg.max t cl with
            | error f =>
              have := countR_error_is_err hc2
              subst this
              simp only [hc2] at hcr2
              simp [hcr2, phaseRes]
            | ok t2 =>
              simp only [hc2] at hcr2
              simp only [hcr2]
              have hs1 := stripDanglingCr_length_le rem
              have hr : (vecReserve "request.body" s.body.length (min cl ((stripDanglingCr rem).length - c0)) : Out Reserve)
                  = .ok ⟨"request.body", s.body.length, min cl ((stripDanglingCr rem).length - c0)⟩ := by
                unfold vecReserve
                have h1 : ¬ (s.body.length + min cl ((stripDanglingCr rem).length - c0) > isizeMax) := by
                  rw [hbody]; simp [isizeMax]; omega
                have h2 : ¬ (min cl ((stripDanglingCr rem).length - c0) > 2 ^ 30) := by omega
                simp [h1, h2]
              simp [hr, phaseRes]

/-- the phase dispatch of `Request.parseLoop` -/
def reqPhase (u : UriImpl) (cfg : ReqCfg) (s : ReqState u) (rem : Bytes) : Out (PhaseOut (ReqState u)) :=
  match s.phase with
  | .body n => parseMessageForBody s rem n
  | .headers => parseMessageForHeaders cfg s rem
  | .requestLine => parseMessageForRequestLine u cfg s rem

theorem phase_refines (cfg : ReqCfg) (hrep : cfg.tree.repaired = true) (s : ReqState u) (rem : Bytes)
    (hI : ReqInv cfg s) (hlen : rem.length ≤ 2 ^ 30) :
    phaseRes cfg rem.length (reqPhase u cfg s rem) = reqStep u cfg s rem := by
  unfold reqPhase reqStep
  unfold ReqInv at hI
  cases hph : s.phase with
  | body n => exact body_refines cfg s rem n
  | headers => simp only [hph] at hI; exact hdr_refines cfg hrep s rem hI hlen
  | requestLine => exact rl_refines cfg hrep s rem

theorem parseLoop_unfold (cfg : ReqCfg) (fuel : Nat) (s : ReqState u) (raw : Bytes) (tc : Nat) (rs : List Reserve) :
    Request.parseLoop u cfg (fuel + 1) s raw tc rs =
      Outcome.bind (reqPhase u cfg s (raw.drop tc)) (fun po =>
        match po.internal with
        | .completePart => Request.parseLoop u cfg fuel po.st raw (tc + po.consumed) (rs ++ po.reserves)
        | .completeWhole => .ok { st := po.st, status := .complete, consumed := tc + po.consumed, reserves := rs ++ po.reserves }
        | .incomplete =>
          if cfg.tree.repaired && overLimit cfg.max (po.st.totalBytes + (raw.length - (tc + po.consumed))) then .err .MessageTooLong
          else .ok { st := po.st, status := .incomplete, consumed := tc + po.consumed, reserves := rs ++ po.reserves }) := by
  conv => lhs; unfold Request.parseLoop
  unfold reqPhase
  cases hph : s.phase <;> rfl

theorem loop_refines (cfg : ReqCfg) (hrep : cfg.tree.repaired = true) (raw : Bytes) (hlen : raw.length ≤ 2 ^ 30) :
    ∀ (fuel : Nat) (s : ReqState u) (tc : Nat) (rs : List Reserve), ReqInv cfg s → reqμ s 0 ≤ fuel →
      outToPRes (Request.parseLoop u cfg fuel s raw tc rs) =
        ((requestSys u cfg).loop fuel s (raw.drop tc) tc).getD (.fail .oof) := by
  intro fuel
  induction fuel with
  | zero =>
    intro s tc rs _ hμ
    have := (requestSys_lawful (u := u) cfg).pos s 0
    simp [requestSys] at this
    omega
  | succ fuel ih =>
    intro s tc rs hI hμ
    rw [parseLoop_unfold]
    have hrl : (raw.drop tc).length ≤ 2 ^ 30 := by simp; omega
    have hph := phase_refines cfg hrep s (raw.drop tc) hI hrl
    conv => rhs; unfold Sys.loop
    rw [show (requestSys u cfg).step = reqStep u cfg from rfl, ← hph]
    cases hx : reqPhase u cfg s (raw.drop tc) with
    | err c => simp [Outcome.bind, phaseRes, outToPRes]
    | panic k => simp [Outcome.bind, phaseRes, outToPRes]
    | ok po =>
      simp only [Outcome.bind, phaseRes]
      have hstep : reqStep u cfg s (raw.drop tc) = phaseRes cfg (raw.drop tc).length (.ok po) := by rw [← hph, hx]
      cases hi : po.internal with
      | completePart =>
        simp only
        have hs : (requestSys u cfg).step s (raw.drop tc) = .ok .completePart po.st po.consumed := by
          rw [show (requestSys u cfg).step = reqStep u cfg from rfl, hstep]; simp [phaseRes, hi]
        have hI' := (requestSys_lawful (u := u) cfg).inv hI hs (by simp)
        have hd := (requestSys_lawful (u := u) cfg).dec hI hs
        have hμ' : reqμ po.st 0 ≤ fuel := by
          simp only [requestSys] at hd
          have e1 : reqμ po.st ((raw.drop tc).length - po.consumed) = reqμ po.st 0 := rfl
          have e2 : reqμ s (raw.drop tc).length = reqμ s 0 := rfl
          omega
        rw [ih po.st (tc + po.consumed) (rs ++ po.reserves) hI' hμ', List.drop_drop]
      | completeWhole => simp [outToPRes]
      | incomplete =>
        simp only [hrep, Bool.true_and, early]
        have e : (raw.drop tc).length - po.consumed = raw.length - (tc + po.consumed) := by simp; omega
        rw [e]
        by_cases ho : overLimit cfg.max (po.st.totalBytes + (raw.length - (tc + po.consumed))) = true
        · simp [ho, outToPRes]
        · simp [ho, outToPRes]

/-- **`Request.parse` and `requestSys` agree.**  On the current tree, from every state that satisfies the parser's
    invariant (in particular a fresh parser and every state reached from it under the calling protocol) and for
    every input of at most 2^30 bytes in one call, the instrumented transcription of src/request.rs and the
    step-function form the theorems are about return the same verdict, the same error category, the same
    state and the same number of consumed bytes. -/
theorem Request.parse_refines (cfg : ReqCfg) (hrep : cfg.tree.repaired = true) (s : ReqState u) (raw : Bytes)
    (hI : ReqInv cfg s) (hlen : raw.length ≤ 2 ^ 30) :
    outToPRes (Request.parse u cfg s raw) = (requestSys u cfg).parse s raw := by
  unfold Request.parse Sys.parse
  have hμ : reqμ s 0 ≤ 4 := by unfold reqμ; split <;> omega
  have h4 := loop_refines cfg hrep raw hlen 4 s 0 [] hI hμ
  simp only [List.drop_zero] at h4
  rw [h4]
  have L := requestSys_lawful (u := u) cfg
  have hsome := Sys.loop_isSome L (f := (requestSys u cfg).μ s raw.length) (rem := raw) (acc := 0) hI (Nat.le_refl _)
  cases hl : (requestSys u cfg).loop ((requestSys u cfg).μ s raw.length) s raw 0 with
  | none => simp [hl] at hsome
  | some r =>
    have hk : (requestSys u cfg).μ s raw.length ≤ 4 := hμ
    have := Sys.loop_fuel_mono hl (4 - (requestSys u cfg).μ s raw.length)
    rw [show (requestSys u cfg).μ s raw.length + (4 - (requestSys u cfg).μ s raw.length) = 4 by omega] at this
    simp [this]
