import Hm.Lib

theorem findCrlf_append_of_some {b : Bytes} {i : Nat} (h : findCrlf b = some i) (d : Bytes) :
    findCrlf (b ++ d) = some i := by
  fun_induction findCrlf b generalizing i with
  | case1 => simp at h
  | case2 => simp at h
  | case3 a b rest hc => simp_all [findCrlf]
  | case4 a b rest hc ih =>
    simp only [Option.map_eq_some_iff] at h
    obtain ⟨j, hj, rfl⟩ := h
    have := ih hj
    simp only [List.cons_append] at this ⊢
    simp [findCrlf, hc, this]

theorem findCrlf_lt {b : Bytes} {i : Nat} (h : findCrlf b = some i) : i + 2 ≤ b.length := by
  fun_induction findCrlf b generalizing i with
  | case1 => simp at h
  | case2 => simp at h
  | case3 a b rest hc => simp_all; omega
  | case4 a b rest hc ih =>
    simp only [Option.map_eq_some_iff] at h
    obtain ⟨j, hj, rfl⟩ := h
    have := ih hj
    simp at *; omega

/-- a CRLF that only appears after appending starts at or after the last old byte; if at it, the
    pair straddles the seam: the last old byte is CR and the first new byte is LF -/
theorem findCrlf_append_of_none {b d : Bytes} {i : Nat}
    (hb : findCrlf b = none) (h : findCrlf (b ++ d) = some i) :
    b.length ≤ i ∨ (i + 1 = b.length ∧ b.getLast? = some CR ∧ d.head? = some LF) := by
  fun_induction findCrlf b generalizing i with
  | case1 => simp
  | case2 a =>
    cases d with
    | nil => simp [findCrlf] at h
    | cons x d =>
      simp only [List.cons_append, List.nil_append, findCrlf] at h
      split at h
      · rename_i hc; simp at h; subst h; right; simp [hc.1, hc.2]
      · simp only [Option.map_eq_some_iff] at h
        obtain ⟨j, _, rfl⟩ := h; left; simp
  | case3 a b rest hc => simp [findCrlf, hc] at hb
  | case4 a b rest hc ih =>
    simp only [Option.map_eq_none_iff] at hb
    simp only [List.cons_append, findCrlf, hc, if_false, Option.map_eq_some_iff] at h
    obtain ⟨j, hj, rfl⟩ := h
    have := ih hb (i := j) (by simpa using hj)
    rcases this with h1 | ⟨h1, h2, h3⟩
    · left; simp at *; omega
    · right; refine ⟨?_, ?_, h3⟩
      · simp at *; omega
      · simpa [List.getLast?_cons_cons] using h2

theorem take_append_of_findCrlf {b : Bytes} {i : Nat} (h : findCrlf b = some i) (d : Bytes) :
    (b ++ d).take i = b.take i := by
  have := findCrlf_lt h
  rw [List.take_append_of_le_length (by omega)]

theorem drop_append_of_le {b : Bytes} {k : Nat} (h : k ≤ b.length) (d : Bytes) :
    (b ++ d).drop k = b.drop k ++ d := by
  rw [List.drop_append_of_le_length h]
