import Hm.Rhymessage
import Hm.CrlfLemmas

/-! laws P1-P3 of DESIGN.md §5.1 for the header block (`Headers.parse`) -/

/-! ### the look-ahead `unfold` -/

theorem unfold_fuel_irrel {f1 f2 : Nat} {raw v : Bytes} {c : Nat}
    (h1 : raw.length + 1 ≤ f1) (h2 : raw.length + 1 ≤ f2) :
    unfold f1 raw v c = unfold f2 raw v c := by
  induction f1 generalizing f2 raw v c with
  | zero => omega
  | succ f1 ih =>
    cases f2 with
    | zero => omega
    | succ f2 =>
      unfold unfold
      cases hf : findCrlf raw with
      | none => rfl
      | some i =>
        have hlt := findCrlf_lt hf
        simp only
        split
        · rfl
        · split
          · split
            · rfl
            · apply ih <;> simp <;> omega
          · rfl

theorem unfold_fuel_mono_some {f : Nat} {raw v : Bytes} {c : Nat} {r : Bytes × Nat}
    (h : unfold f raw v c = .ok (some r)) (k : Nat) : unfold (f + k) raw v c = .ok (some r) := by
  induction f generalizing raw v c with
  | zero => simp [unfold] at h
  | succ f ih =>
    rw [show f + 1 + k = (f + k) + 1 by omega]
    unfold unfold at h ⊢
    cases hf : findCrlf raw with
    | none => simp [hf] at h
    | some i =>
      simp only [hf] at h ⊢
      split at h
      · simp_all
      · split at h
        · split at h
          · simp_all
          · rename_i h1 h2 h3
            simp only [h1, h2, h3]
            simpa using ih h
        · rename_i h1 h2
          simp only [h1, h2]
          simpa using h

theorem unfold_fuel_mono_error {f : Nat} {raw v : Bytes} {c : Nat} {e : HErr}
    (h : unfold f raw v c = .error e) (k : Nat) : unfold (f + k) raw v c = .error e := by
  induction f generalizing raw v c with
  | zero => simp [unfold] at h
  | succ f ih =>
    rw [show f + 1 + k = (f + k) + 1 by omega]
    unfold unfold at h ⊢
    cases hf : findCrlf raw with
    | none => simp [hf] at h
    | some i =>
      simp only [hf] at h ⊢
      split at h
      · rename_i h1; simp only [h1]; simpa using h
      · split at h
        · split at h
          · rename_i h1 h2 h3; simp only [h1, h2, h3]; simpa using h
          · rename_i h1 h2 h3
            simp only [h1, h2, h3]
            simpa using ih h
        · simp at h

theorem unfold_append {f : Nat} {raw v : Bytes} {c : Nat} {r : Bytes × Nat}
    (h : unfold f raw v c = .ok (some r)) (d : Bytes) :
    unfold f (raw ++ d) v c = .ok (some r) := by
  induction f generalizing raw v c with
  | zero => simp [unfold] at h
  | succ f ih =>
    unfold unfold at h ⊢
    cases hf : findCrlf raw with
    | none => simp [hf] at h
    | some i =>
      have hlt := findCrlf_lt hf
      simp only [hf] at h
      simp only [findCrlf_append_of_some hf d, take_append_of_findCrlf hf d,
        drop_append_of_le (show i + 2 ≤ raw.length by omega) d]
      split at h
      · simp_all
      · split at h
        · split at h
          · simp_all
          · rename_i h1 h2 h3
            simp only [h1, h2, h3]
            simpa using ih h
        · rename_i h1 h2
          simp only [h1, h2]
          simpa using h

theorem unfold_append_error {f : Nat} {raw v : Bytes} {c : Nat} {e : HErr}
    (h : unfold f raw v c = .error e) (d : Bytes) :
    unfold f (raw ++ d) v c = .error e := by
  induction f generalizing raw v c with
  | zero => simp [unfold] at h
  | succ f ih =>
    unfold unfold at h ⊢
    cases hf : findCrlf raw with
    | none => simp [hf] at h
    | some i =>
      have hlt := findCrlf_lt hf
      simp only [hf] at h
      simp only [findCrlf_append_of_some hf d, take_append_of_findCrlf hf d,
        drop_append_of_le (show i + 2 ≤ raw.length by omega) d]
      split at h
      · rename_i h1; simp only [h1]; simpa using h
      · split at h
        · split at h
          · rename_i h1 h2 h3; simp only [h1, h2, h3]; simpa using h
          · rename_i h1 h2 h3
            simp only [h1, h2, h3]
            simpa using ih h
        · simp at h

theorem unfold_consumed {f : Nat} {raw v : Bytes} {c : Nat} {r : Bytes × Nat}
    (h : unfold f raw v c = .ok (some r)) : c ≤ r.2 ∧ r.2 + 2 ≤ c + raw.length := by
  induction f generalizing raw v c with
  | zero => simp [unfold] at h
  | succ f ih =>
    unfold unfold at h
    cases hf : findCrlf raw with
    | none => simp [hf] at h
    | some i =>
      have hlt := findCrlf_lt hf
      simp only [hf] at h
      split at h
      · simp at h
      · split at h
        · split at h
          · simp at h
          · have := ih h
            simp at this; omega
        · simp at h; subst h; simp; omega

/-! ### one loop iteration -/

theorem headerStep_field_bounds {limit : Option Nat} {rest : Bytes} {h : Header} {n : Nat}
    (hs : headerStep limit rest = .ok (.field h n)) : 3 ≤ n ∧ n + 2 ≤ rest.length := by
  unfold headerStep at hs
  by_cases hr : rest = []
  · simp [hr] at hs
  · rw [if_neg hr] at hs
    cases hf : findCrlf rest with
    | none => simp only [hf] at hs; split at hs <;> simp at hs
    | some i =>
      have hlt := findCrlf_lt hf
      simp only [hf] at hs
      by_cases hlim : overLimit limit (i + 2) = true
      · simp [hlim] at hs
      · rw [if_neg hlim] at hs
        by_cases h0 : i = 0
        · simp [h0] at hs
        · rw [if_neg h0] at hs
          cases hp : parseFirstLine (rest.take i) with
          | error e => simp [hp] at hs
          | ok nv =>
            obtain ⟨name, v0⟩ := nv
            simp only [hp] at hs
            cases hu : unfold (rest.length + 1) (rest.drop (i + 2)) v0 0 with
            | error e => simp [hu, finishField] at hs
            | ok o =>
              cases o with
              | none => simp [hu, finishField] at hs
              | some vn =>
                obtain ⟨v, m⟩ := vn
                have hm := unfold_consumed hu
                simp only [hu, finishField] at hs
                simp at hs hm
                obtain ⟨_, rfl⟩ := hs
                omega

theorem headerStep_append_field {limit : Option Nat} {rest : Bytes} {h : Header} {n : Nat}
    (hs : headerStep limit rest = .ok (.field h n)) (d : Bytes) :
    headerStep limit (rest ++ d) = .ok (.field h n) := by
  unfold headerStep at hs ⊢
  by_cases hr : rest = []
  · simp [hr] at hs
  · have hr' : rest ++ d ≠ [] := by simp [hr]
    rw [if_neg hr] at hs; rw [if_neg hr']
    cases hf : findCrlf rest with
    | none => simp only [hf] at hs; split at hs <;> simp at hs
    | some i =>
      have hlt := findCrlf_lt hf
      simp only [hf] at hs
      simp only [findCrlf_append_of_some hf d, take_append_of_findCrlf hf d,
        drop_append_of_le (show i + 2 ≤ rest.length by omega) d]
      by_cases hlim : overLimit limit (i + 2) = true
      · simp [hlim] at hs
      · rw [if_neg hlim] at hs ⊢
        by_cases h0 : i = 0
        · simp [h0] at hs
        · rw [if_neg h0] at hs ⊢
          cases hp : parseFirstLine (rest.take i) with
          | error e => simp [hp] at hs
          | ok nv =>
            obtain ⟨name, v0⟩ := nv
            simp only [hp] at hs ⊢
            cases hu : unfold (rest.length + 1) (rest.drop (i + 2)) v0 0 with
            | error e => simp [hu, finishField] at hs
            | ok o =>
              cases o with
              | none => simp [hu, finishField] at hs
              | some vn =>
                have hu' := unfold_fuel_mono_some (unfold_append hu d) d.length
                rw [show (rest ++ d).length + 1 = rest.length + 1 + d.length by simp; omega, hu']
                simpa [hu, finishField] using hs

theorem headerStep_append_done {limit : Option Nat} {rest : Bytes}
    (hs : headerStep limit rest = .ok .done) (d : Bytes) :
    headerStep limit (rest ++ d) = .ok .done ∧ 2 ≤ rest.length := by
  unfold headerStep at hs ⊢
  by_cases hr : rest = []
  · simp [hr] at hs
  · have hr' : rest ++ d ≠ [] := by simp [hr]
    rw [if_neg hr] at hs; rw [if_neg hr']
    cases hf : findCrlf rest with
    | none => simp only [hf] at hs; split at hs <;> simp at hs
    | some i =>
      have hlt := findCrlf_lt hf
      simp only [hf] at hs
      simp only [findCrlf_append_of_some hf d, take_append_of_findCrlf hf d]
      by_cases hlim : overLimit limit (i + 2) = true
      · simp [hlim] at hs
      · rw [if_neg hlim] at hs ⊢
        by_cases h0 : i = 0
        · simp [h0]; omega
        · rw [if_neg h0] at hs
          exfalso
          cases hp : parseFirstLine (rest.take i) with
          | error e => simp [hp] at hs
          | ok nv =>
            obtain ⟨name, v0⟩ := nv
            simp only [hp] at hs
            cases hu : unfold (rest.length + 1) (rest.drop (i + 2)) v0 0 with
            | error e => simp [hu, finishField] at hs
            | ok o => cases o <;> simp [hu, finishField] at hs

theorem overLimit_mono {limit : Option Nat} {a b : Nat} (h : overLimit limit a = true) (hab : a ≤ b) :
    overLimit limit b = true := by
  unfold overLimit at *
  cases limit with
  | none => simp at h
  | some lim => simp at *; omega

/-- rejection by one iteration is stable under extension, provided no CRLF can straddle the seam
    (or there is no line limit): exactly the hypothesis that defect D2 violates -/
theorem headerStep_append_error {limit : Option Nat} {rest : Bytes} {e : HErr} (d : Bytes)
    (hs : headerStep limit rest = .error e)
    (hcr : limit = none ∨ rest.getLast? ≠ some CR ∨ d.head? ≠ some LF) :
    ∃ e', headerStep limit (rest ++ d) = .error e' := by
  unfold headerStep at hs ⊢
  by_cases hr : rest = []
  · simp [hr] at hs
  · have hr' : rest ++ d ≠ [] := by simp [hr]
    rw [if_neg hr] at hs; rw [if_neg hr']
    cases hf : findCrlf rest with
    | none =>
      simp only [hf] at hs
      have hov : overLimit limit (rest.length + 2) = true := by
        apply Decidable.byContradiction; intro hc; simp [hc] at hs
      have hlimsome : limit ≠ none := by intro hn; simp [hn, overLimit] at hov
      have hcr' : rest.getLast? ≠ some CR ∨ d.head? ≠ some LF := by
        rcases hcr with h | h
        · exact absurd h hlimsome
        · exact h
      cases hf2 : findCrlf (rest ++ d) with
      | none =>
        simp only
        have : overLimit limit (rest.length + d.length + 2) = true := overLimit_mono hov (by omega)
        simp [this]
      | some i =>
        simp only
        have hi := findCrlf_append_of_none hf hf2
        have hi' : rest.length ≤ i := by
          rcases hi with h | ⟨_, h, h'⟩
          · exact h
          · rcases hcr' with g | g
            · exact absurd h g
            · exact absurd h' g
        have : overLimit limit (i + 2) = true := overLimit_mono hov (by omega)
        simp [this]
    | some i =>
      have hlt := findCrlf_lt hf
      simp only [hf] at hs
      simp only [findCrlf_append_of_some hf d, take_append_of_findCrlf hf d,
        drop_append_of_le (show i + 2 ≤ rest.length by omega) d]
      by_cases hlim : overLimit limit (i + 2) = true
      · simp [hlim]
      · rw [if_neg hlim] at hs ⊢
        by_cases h0 : i = 0
        · simp [h0] at hs
        · rw [if_neg h0] at hs ⊢
          cases hp : parseFirstLine (rest.take i) with
          | error e1 => simp
          | ok nv =>
            obtain ⟨name, v0⟩ := nv
            simp only [hp] at hs ⊢
            cases hu : unfold (rest.length + 1) (rest.drop (i + 2)) v0 0 with
            | ok o => cases o <;> simp [hu, finishField] at hs
            | error e1 =>
              have hu' := unfold_fuel_mono_error (unfold_append_error hu d) d.length
              rw [show (rest ++ d).length + 1 = rest.length + 1 + d.length by simp; omega, hu']
              simp [finishField]
