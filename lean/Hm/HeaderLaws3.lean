import Hm.HeaderLaws2

/-! every unconsumed byte of an incomplete header block lies before the end of the block -/

theorem findCrlf_restrict {b d : Bytes} {i : Nat} (h : findCrlf (b ++ d) = some i) (hi : i + 2 ≤ b.length) :
    findCrlf b = some i := by
  cases hb : findCrlf b with
  | some j =>
    have := findCrlf_append_of_some hb d
    rw [h] at this; simp at this; rw [this]
  | none =>
    have := findCrlf_append_of_none hb h
    omega

/-- if the look-ahead ran out of lines on `W` but succeeds on `W ++ e` without leaving `W`,
    then the look-ahead line is unterminated inside `W` -/
theorem unfold_none_some {f f2 : Nat} {W e v : Bytes} {c : Nat} {r : Bytes × Nat}
    (hn : unfold f W v c = .ok none) (hf : W.length + 1 ≤ f)
    (hs : unfold f2 (W ++ e) v c = .ok (some r)) (hk : r.2 - c ≤ W.length) :
    c ≤ r.2 ∧ findCrlf (W.drop (r.2 - c)) = none := by
  induction f generalizing f2 W v c with
  | zero => omega
  | succ f ih =>
    cases f2 with
    | zero => simp [unfold] at hs
    | succ f2 =>
      unfold unfold at hn hs
      cases hW : findCrlf W with
      | none =>
        simp only [hW] at hn
        cases hWe : findCrlf (W ++ e) with
        | none => simp [hWe] at hs
        | some i =>
          have hi := findCrlf_append_of_none hW hWe
          simp only [hWe] at hs
          split at hs
          · simp at hs
          · split at hs
            · split at hs
              · simp at hs
              · -- a continuation line that ends beyond `W`: then more than `|W|` bytes are consumed
                have := unfold_consumed hs
                exfalso
                have h1 : c + i + 2 ≤ r.2 := this.1
                omega
            · simp at hs; subst hs; simp [hW]
      | some i =>
        have hlt := findCrlf_lt hW
        simp only [hW] at hn
        simp only [findCrlf_append_of_some hW e, take_append_of_findCrlf hW e,
          drop_append_of_le (show i + 2 ≤ W.length by omega) e] at hs
        split at hn
        · simp at hn
        · split at hn
          · split at hn
            · simp at hn
            · rename_i h1 h2 h3
              simp only [h1, h2, h3] at hs
              simp only [Bool.false_eq_true, ↓reduceIte] at hs
              have hc := unfold_consumed hs
              have := ih hn (by simp; omega) hs (by simp; omega)
              refine ⟨by omega, ?_⟩
              have hd : (W.drop (i + 2)).drop (r.2 - (c + i + 2)) = W.drop (r.2 - c) := by
                rw [List.drop_drop]; congr 1; omega
              rw [← hd]; exact this.2
          · simp at hn

theorem headerStep_more_of_noCrlf {limit : Option Nat} {R : Bytes} (h : findCrlf R = none) :
    headerStep limit R = .ok .more ∨ ∃ e, headerStep limit R = .error e := by
  unfold headerStep
  by_cases hr : R = []
  · simp [hr]
  · rw [if_neg hr]; simp only [h]
    split
    · right; exact ⟨_, rfl⟩
    · left; rfl

/-- after a field consumed inside `R`, the rest of `R` is again undecided (or rejected) -/
theorem headerStep_rest_more {limit : Option Nat} {R e : Bytes} {h : Header} {n : Nat}
    (hm : headerStep limit R = .ok .more) (hfld : headerStep limit (R ++ e) = .ok (.field h n))
    (hn : n ≤ R.length) :
    headerStep limit (R.drop n) = .ok .more ∨ ∃ e', headerStep limit (R.drop n) = .error e' := by
  have hb := headerStep_field_bounds hfld
  unfold headerStep at hm hfld
  by_cases hr : R = []
  · simp [hr] at hn; omega
  · have hr' : R ++ e ≠ [] := by simp [hr]
    rw [if_neg hr] at hm; rw [if_neg hr'] at hfld
    cases hRe : findCrlf (R ++ e) with
    | none => simp only [hRe] at hfld; split at hfld <;> simp at hfld
    | some i =>
      simp only [hRe] at hfld
      by_cases hlim : overLimit limit (i + 2) = true
      · simp [hlim] at hfld
      · rw [if_neg hlim] at hfld
        by_cases h0 : i = 0
        · simp [h0] at hfld
        · rw [if_neg h0] at hfld
          cases hp : parseFirstLine ((R ++ e).take i) with
          | error e1 => simp [hp] at hfld
          | ok nv =>
            obtain ⟨name, v0⟩ := nv
            rw [hp] at hfld
            simp only at hfld
            cases hu : unfold ((R ++ e).length + 1) ((R ++ e).drop (i + 2)) v0 0 with
            | error e1 => rw [hu] at hfld; simp [finishField] at hfld
            | ok o =>
              cases o with
              | none => rw [hu] at hfld; simp [finishField] at hfld
              | some vn =>
                obtain ⟨v, m⟩ := vn
                rw [hu] at hfld
                simp only [finishField, Except.ok.injEq, Step.field.injEq] at hfld
                obtain ⟨_, rfl⟩ := hfld
                -- the first CRLF lies inside `R`
                have hR : findCrlf R = some i := findCrlf_restrict hRe (by omega)
                have hlt := findCrlf_lt hR
                simp only [hR] at hm
                rw [if_neg hlim, if_neg h0] at hm
                rw [take_append_of_findCrlf hR e] at hp
                simp only [hp] at hm
                rw [drop_append_of_le (show i + 2 ≤ R.length by omega) e] at hu
                cases hu0 : unfold (R.length + 1) (R.drop (i + 2)) v0 0 with
                | error e1 => simp [hu0, finishField] at hm
                | ok o0 =>
                  cases o0 with
                  | some vn0 => simp [hu0, finishField] at hm
                  | none =>
                    have := unfold_none_some hu0 (by simp only [List.length_drop]; omega) hu (by simp only [List.length_drop]; omega)
                    simp only [Nat.sub_zero] at this
                    have hd : R.drop (i + 2 + m) = (R.drop (i + 2)).drop m := by
                      rw [List.drop_drop]
                    rw [hd]
                    exact headerStep_more_of_noCrlf this.2

theorem getLast?_drop_ne_CR {R : Bytes} {n : Nat} (h : R.getLast? ≠ some CR) : (R.drop n).getLast? ≠ some CR := by
  rw [List.getLast?_drop]; split
  · simp
  · exact h

/-- the header block cannot complete inside bytes on which the first step was undecided -/
theorem parseLoop_complete_gt {limit : Option Nat} {f : Nat} {hs hs2 : List Header} {R e : Bytes}
    {off c2 : Nat} (hm : headerStep limit R = .ok .more)
    (hc : parseLoop limit f hs (R ++ e) off = .ok (hs2, .complete, c2))
    (hns : limit = none ∨ R.getLast? ≠ some CR ∨ e.head? ≠ some LF) :
    off + R.length < c2 := by
  induction f generalizing hs R off with
  | zero => simp [parseLoop] at hc
  | succ f ih =>
    unfold parseLoop at hc
    cases hst : headerStep limit (R ++ e) with
    | error e1 => simp [hst] at hc
    | ok st =>
      cases st with
      | more => simp [hst] at hc
      | done =>
        simp only [hst, Except.ok.injEq, Prod.mk.injEq] at hc
        obtain ⟨_, _, rfl⟩ := hc
        -- a blank line at the very start: `R` has at most one byte
        unfold headerStep at hst hm
        by_cases hr : R = []
        · simp [hr]
        · have hr' : R ++ e ≠ [] := by simp [hr]
          rw [if_neg hr'] at hst; rw [if_neg hr] at hm
          cases hRe : findCrlf (R ++ e) with
          | none => simp only [hRe] at hst; split at hst <;> simp at hst
          | some i =>
            simp only [hRe] at hst
            have hi0 : i = 0 := by
              apply Decidable.byContradiction; intro hne
              by_cases hlim : overLimit limit (i + 2) = true
              · simp [hlim] at hst
              · rw [if_neg hlim, if_neg hne] at hst
                cases hp : parseFirstLine ((R ++ e).take i) with
                | error e1 => rw [hp] at hst; simp at hst
                | ok nv =>
                  obtain ⟨name, v0⟩ := nv
                  rw [hp] at hst
                  simp only at hst
                  cases hu : unfold ((R ++ e).length + 1) ((R ++ e).drop (i + 2)) v0 0 with
                  | error e1 => rw [hu] at hst; simp [finishField] at hst
                  | ok o => cases o <;> (rw [hu] at hst; simp [finishField] at hst)
            subst hi0
            cases hR : findCrlf R with
            | some j =>
              have := findCrlf_append_of_some hR e
              rw [hRe] at this; simp at this; subst this
              simp only [hR] at hm
              split at hm
              · simp at hm
              · simp at hm
            | none =>
              have := findCrlf_append_of_none hR hRe
              rcases this with h1 | ⟨h1, h2, h3⟩
              · omega
              · -- a straddling CRLF: excluded, unless there is no limit ... then `R = [CR]`, one byte
                omega
      | field h n =>
        simp only [hst] at hc
        have hcons := parseLoop_consumed hc
        by_cases hn : n ≤ R.length
        · rw [drop_append_of_le hn e] at hc
          rcases headerStep_rest_more hm hst hn with h1 | ⟨e1, h1⟩
          · have := ih h1 hc (by
              rcases hns with g | g | g
              · exact Or.inl g
              · exact Or.inr (Or.inl (getLast?_drop_ne_CR g))
              · exact Or.inr (Or.inr g))
            simp at this; omega
          · -- the rest of `R` is rejected, so is the extended input: no completion
            exfalso
            cases f with
            | zero => simp [parseLoop] at hc
            | succ f =>
              unfold parseLoop at hc
              obtain ⟨e2, he2⟩ := headerStep_append_error e h1 (by
                rcases hns with g | g | g
                · exact Or.inl g
                · exact Or.inr (Or.inl (getLast?_drop_ne_CR g))
                · exact Or.inr (Or.inr g))
              simp [he2] at hc
        · omega
