import Hm.Prim

/-! DESIGN.md §5.3: sequential bit readers and the `Local` predicate -/

inductive RErr where | eof | bad
deriving DecidableEq, Repr

/-- bit-addressed input: bit `k` of the stream (LSB-first inside each byte), `none` past the end -/
abbrev Inp := Nat → Option Bool

def R (α : Type) := Inp → Nat → Except RErr (α × Nat)

namespace R
def pure (a : α) : R α := fun _ p => .ok (a, p)
def bind (m : R α) (f : α → R β) : R β := fun i p =>
  match m i p with
  | .ok (a, p') => f a i p'
  | .error e => .error e
def fail (e : RErr) : R α := fun _ _ => .error e
instance : Monad R where
  pure := R.pure
  bind := R.bind
end R

def readBit : R Bool := fun i p =>
  match i p with
  | some b => .ok (b, p + 1)
  | none => .error .eof

/-- current position (used only to align to a byte boundary) -/
def getPos : R Nat := fun _ p => .ok (p, p)
/-- skip forward to the next byte boundary; the skipped bits are not inspected -/
def alignByte : R Unit := fun _ p => .ok ((), (p + 7) / 8 * 8)

/-- `m` only moves forward; its result depends only on the positions it passed over; and if the input
    ends inside that window, it fails with `eof` -/
structure Local (m : R α) : Prop where
  mono : ∀ i p a p', m i p = .ok (a, p') → p ≤ p'
  agree : ∀ i j p a p', m i p = .ok (a, p') → (∀ k, p ≤ k → k < p' → i k = j k) → m j p = .ok (a, p')
  cut : ∀ i j p a p' n, m i p = .ok (a, p') → p ≤ n → n < p' →
          (∀ k, p ≤ k → k < n → i k = j k) → (∀ k, n ≤ k → j k = none) → m j p = .error .eof

theorem Local.pure (a : α) : Local (R.pure a) where
  mono := by intro i p a' p' h; simp [R.pure] at h; omega
  agree := by intro i j p a' p' h _; simpa [R.pure] using h
  cut := by intro i j p a' p' n h h1 h2; simp [R.pure] at h; omega

theorem Local.fail (e : RErr) : Local (R.fail e : R α) where
  mono := by intro i p a' p' h; simp [R.fail] at h
  agree := by intro i j p a' p' h _; simp [R.fail] at h
  cut := by intro i j p a' p' n h; simp [R.fail] at h

theorem Local.readBit : Local readBit where
  mono := by
    intro i p a p' h; unfold _root_.readBit at h; split at h <;> simp at h; omega
  agree := by
    intro i j p a p' h hk; unfold _root_.readBit at h ⊢
    split at h <;> simp at h
    obtain ⟨rfl, rfl⟩ := h
    rename_i b hb
    rw [← hk p (Nat.le_refl _) (by omega), hb]
  cut := by
    intro i j p a p' n h h1 h2 hk hn; unfold _root_.readBit at h ⊢
    split at h <;> simp at h
    obtain ⟨rfl, rfl⟩ := h
    have : n = p := by omega
    subst this; simp [hn n (Nat.le_refl _)]

/-- alignment skips at most 7 uninspected bits: local in the first two senses; a cut inside the padding
    is harmless for it (the *next* read fails), so it is stated separately -/
theorem alignByte_mono (i : Inp) (p : Nat) : ∃ p', alignByte i p = .ok ((), p') ∧ p ≤ p' ∧ p' < p + 8 ∧ p' % 8 = 0 := by
  refine ⟨(p + 7) / 8 * 8, rfl, ?_, ?_, ?_⟩ <;> omega

theorem Local.bind {m : R α} {f : α → R β} (hm : Local m) (hf : ∀ a, Local (f a)) :
    Local (R.bind m f) where
  mono := by
    intro i p b p' h; unfold R.bind at h
    split at h
    · rename_i a q hq; exact Nat.le_trans (hm.mono _ _ _ _ hq) ((hf a).mono _ _ _ _ h)
    · simp at h
  agree := by
    intro i j p b p' h hk; unfold R.bind at h ⊢
    split at h
    · rename_i a q hq
      have h1 := hm.mono _ _ _ _ hq
      have h2 := (hf a).mono _ _ _ _ h
      rw [hm.agree i j p a q hq (fun k a1 a2 => hk k a1 (by omega))]
      exact (hf a).agree i j q b p' h (fun k a1 a2 => hk k (by omega) a2)
    · simp at h
  cut := by
    intro i j p b p' n h h1 h2 hk hn; unfold R.bind at h ⊢
    split at h
    · rename_i a q hq
      have hpq := hm.mono _ _ _ _ hq
      by_cases hnq : n < q
      · rw [hm.cut i j p a q n hq h1 hnq hk hn]
      · rw [hm.agree i j p a q hq (fun k a1 a2 => hk k a1 (by omega))]
        exact (hf a).cut i j q b p' n h (by omega) h2 (fun k a1 a2 => hk k (by omega) a2) hn
    · simp at h

/-- little-endian multi-bit field, as everywhere in DEFLATE and in the containers -/
def readBits : Nat → R Nat
  | 0 => R.pure 0
  | n + 1 => R.bind readBit fun b => R.bind (readBits n) fun v => R.pure (b.toNat + 2 * v)

theorem Local.readBits (n : Nat) : Local (readBits n) := by
  induction n with
  | zero => exact Local.pure 0
  | succ n ih => exact Local.bind Local.readBit fun _ => Local.bind ih fun _ => Local.pure _

/-- input from a byte list -/
def inpOfBytes (bs : Array UInt8) : Inp := fun k =>
  if h : k / 8 < bs.size then some ((bs[k / 8].toNat >>> (k % 8)) % 2 == 1) else none
