import Hm.ChunkSys
import Hm.HeaderRoundTrip

/-! C05 (round trip): decoding a well-formed chunked encoding yields exactly the payload and the trailer
    fields and stops exactly at the end of the trailer section (repaired tree) -/

structure Chunk where
  sizeText : Bytes
  ext : Bytes
  data : Bytes

/-- a size line: `1*HEXDIG` (any case, leading zeros) spelling the data length, then nothing or `;…`,
    free of CR; ASCII -/
structure WfSizeLine (sizeText ext : Bytes) (n : Nat) : Prop where
  size_parse : parseNumber ⟨true⟩ 16 sizeText = some n
  size_clean : ∀ b ∈ sizeText, b ≠ CR ∧ b ≠ SEMI ∧ b < 128
  ext_form : ext = [] ∨ ext.head? = some SEMI
  ext_clean : ∀ b ∈ ext, b ≠ CR ∧ b < 128

structure WfChunk (c : Chunk) : Prop where
  line : WfSizeLine c.sizeText c.ext c.data.length
  data_ne : c.data ≠ []

def encChunk (c : Chunk) : Bytes := c.sizeText ++ c.ext ++ CRLF ++ c.data ++ CRLF

theorem parseChunkSize_line {sizeText ext : Bytes} {n : Nat} (w : WfSizeLine sizeText ext n) :
    parseChunkSize ⟨true⟩ (sizeText ++ ext) = some n := by
  unfold parseChunkSize
  simp only [if_true]
  have hnot : SEMI ∉ sizeText := fun hc => (w.size_clean SEMI hc).2.1 rfl
  rcases w.ext_form with he | he
  · subst he
    have : findByte SEMI (sizeText ++ []) = none := by
      unfold findByte; rw [List.append_nil, List.idxOf?_eq_none_iff]; exact hnot
    rw [this]; simp [w.size_parse]
  · cases hext : ext with
    | nil => simp [hext] at he
    | cons x xs =>
      rw [hext] at he; simp at he; subst he
      rw [findByte_append_notin SEMI sizeText xs hnot]
      simp only [Option.getD_some]
      rw [List.take_left' rfl]; exact w.size_parse

theorem sizeLine_bytes {sizeText ext : Bytes} {n : Nat} (w : WfSizeLine sizeText ext n) :
    (∀ b ∈ sizeText ++ ext, b ≠ CR) ∧ (∀ b ∈ sizeText ++ ext, b < 128) := by
  constructor <;> intro b hb <;> simp only [List.mem_append] at hb <;> rcases hb with hb | hb
  · exact (w.size_clean b hb).1
  · exact (w.ext_clean b hb).1
  · exact (w.size_clean b hb).2.2
  · exact (w.ext_clean b hb).2

theorem csizeStep_line {sizeText ext : Bytes} {n : Nat} (w : WfSizeLine sizeText ext n) (c : ChunkState) (more : Bytes) :
    csizeStep c (sizeText ++ ext ++ CRLF ++ more) =
      .ok .completePart { c with needed := n, phase := if n = 0 then .trailer else .chunkData }
        ((sizeText ++ ext).length + 2) := by
  have hb := sizeLine_bytes w
  unfold csizeStep
  rw [findCrlf_clean_append _ _ hb.1]
  have htake : (sizeText ++ ext ++ CRLF ++ more).take (sizeText ++ ext).length = sizeText ++ ext := by
    rw [List.append_assoc]; exact List.take_left' rfl
  simp only [htake, validUtf8_of_ascii _ hb.2, Bool.not_true, Bool.false_eq_true, if_false,
    parseChunkSize_line w]

theorem cdataStep_exact (c : ChunkState) (data more : Bytes) (hn : c.needed = data.length) :
    cdataStep c (data ++ more) =
      .ok .completePart { c with needed := 0, buffer := c.buffer ++ data, phase := .chunkTerminator } data.length := by
  unfold cdataStep
  have hk : min (data ++ more).length data.length = data.length := by simp
  simp only [hn, hk, Nat.sub_self, if_true, List.take_left' rfl]

theorem ctermStep_crlf (c : ChunkState) (more : Bytes) :
    ctermStep c (CRLF ++ more) = .ok .completePart { c with phase := .chunkSize } 2 := by
  simp [ctermStep, CRLF]

theorem chunkSys_step : chunkSys.step = chunkStep := rfl

theorem Sys.loop_cp {ε σ : Type} (M : Sys ε σ) {f : Nat} {s s' : σ} {rem : Bytes} {acc c : Nat}
    (h : M.step s rem = .ok .completePart s' c) : M.loop (f + 1) s rem acc = M.loop f s' (rem.drop c) (acc + c) := by
  conv => lhs; unfold Sys.loop
  rw [h]

theorem Sys.loop_cw {ε σ : Type} (M : Sys ε σ) {f : Nat} {s s' : σ} {rem : Bytes} {acc c : Nat}
    (h : M.step s rem = .ok .completeWhole s' c) : M.loop (f + 1) s rem acc = some (.ok .complete s' (acc + c)) := by
  conv => lhs; unfold Sys.loop
  rw [h]

/-- three loop iterations per chunk -/
theorem chunkLoop_chunks (cs : List Chunk) (hw : ∀ c ∈ cs, WfChunk c) (st : ChunkState) (hph : st.phase = .chunkSize)
    (more : Bytes) (acc f : Nat) :
    chunkSys.loop (3 * cs.length + f) st (cs.flatMap encChunk ++ more) acc =
      chunkSys.loop f { st with buffer := st.buffer ++ cs.flatMap (·.data),
                                needed := if cs = [] then st.needed else 0 }
        more (acc + (cs.flatMap encChunk).length) := by
  induction cs generalizing st acc with
  | nil => simp
  | cons c rest ih =>
    have w := hw c (by simp)
    have hw' : ∀ x ∈ rest, WfChunk x := fun x hx => hw x (by simp [hx])
    have hne : c.data.length ≠ 0 := fun h => w.data_ne (List.length_eq_zero_iff.mp h)
    -- regroup the input as the three steps see it
    have hin : (c :: rest).flatMap encChunk ++ more =
        c.sizeText ++ c.ext ++ CRLF ++ (c.data ++ (CRLF ++ (rest.flatMap encChunk ++ more))) := by
      simp [encChunk]
    rw [hin, show 3 * (c :: rest).length + f = (3 * rest.length + f) + 1 + 1 + 1 by simp; omega]
    -- step 1: size line
    have e1 : chunkSys.step st (c.sizeText ++ c.ext ++ CRLF ++ (c.data ++ (CRLF ++ (rest.flatMap encChunk ++ more))))
        = .ok .completePart { st with needed := c.data.length, phase := .chunkData } ((c.sizeText ++ c.ext).length + 2) := by
      rw [chunkSys_step]
      unfold chunkStep; rw [hph]; simp only
      rw [csizeStep_line w.line]; simp [hne]
    rw [Sys.loop_cp _ e1]
    have hd1 : (c.sizeText ++ c.ext ++ CRLF ++ (c.data ++ (CRLF ++ (rest.flatMap encChunk ++ more)))).drop ((c.sizeText ++ c.ext).length + 2)
        = c.data ++ (CRLF ++ (rest.flatMap encChunk ++ more)) := by
      rw [List.append_assoc, List.drop_append, List.drop_of_length_le (by omega)]
      simp [CRLF]
    rw [hd1]
    -- step 2: data
    have e2 : chunkSys.step { st with needed := c.data.length, phase := .chunkData } (c.data ++ (CRLF ++ (rest.flatMap encChunk ++ more)))
        = .ok .completePart { st with needed := 0, buffer := st.buffer ++ c.data, phase := .chunkTerminator } c.data.length := by
      rw [chunkSys_step]
      unfold chunkStep; simp only
      rw [cdataStep_exact _ _ _ rfl]
    rw [Sys.loop_cp _ e2, List.drop_left]
    -- step 3: terminator
    have e3 : chunkSys.step { st with needed := 0, buffer := st.buffer ++ c.data, phase := .chunkTerminator } (CRLF ++ (rest.flatMap encChunk ++ more))
        = .ok .completePart { st with needed := 0, buffer := st.buffer ++ c.data, phase := .chunkSize } 2 := by
      rw [chunkSys_step]
      unfold chunkStep; simp only
      rw [ctermStep_crlf]
    rw [Sys.loop_cp _ e3]
    have hd3 : (CRLF ++ (rest.flatMap encChunk ++ more)).drop 2 = rest.flatMap encChunk ++ more := by simp [CRLF]
    rw [hd3, ih hw' _ rfl]
    have hst : ({ buffer := (st.buffer ++ c.data) ++ rest.flatMap (·.data),
                  needed := if rest = [] then 0 else 0, phase := ChunkPhase.chunkSize, trailer := st.trailer } : ChunkState)
        = { st with buffer := st.buffer ++ (c :: rest).flatMap (·.data),
                    needed := if (c :: rest) = [] then st.needed else 0 } := by
      simp only [List.flatMap_cons, List.append_assoc, hph, reduceCtorEq, if_false]
      congr 1
      split <;> rfl
    have hacc : acc + ((c.sizeText ++ c.ext).length + 2) + c.data.length + 2 + (rest.flatMap encChunk).length
        = acc + ((c :: rest).flatMap encChunk).length := by
      simp [encChunk, CRLF]; omega
    simp only at hst ⊢
    rw [hst, hacc]

/-- the last-chunk line and the trailer section -/
theorem chunkLoop_last (st : ChunkState) (hph : st.phase = .chunkSize) (htr : st.trailer = [])
    (lastSize lastExt : Bytes) (hl : WfSizeLine lastSize lastExt 0) (trs : List Header) (ht : ∀ h ∈ trs, WfHeader h)
    (tail : Bytes) (acc f : Nat) :
    chunkSys.loop (f + 2) st (lastSize ++ lastExt ++ CRLF ++ (genBlock trs ++ tail)) acc =
      some (.ok .complete ⟨st.buffer, 0, .trailer, trs⟩ (acc + ((lastSize ++ lastExt).length + 2) + (genBlock trs).length)) := by
  have e1 : chunkSys.step st (lastSize ++ lastExt ++ CRLF ++ (genBlock trs ++ tail))
      = .ok .completePart ⟨st.buffer, 0, .trailer, []⟩ ((lastSize ++ lastExt).length + 2) := by
    rw [chunkSys_step]
    unfold chunkStep; rw [hph]; simp only
    rw [csizeStep_line hl]; simp [htr]
  rw [show f + 2 = (f + 1) + 1 by omega, Sys.loop_cp _ e1]
  have hd1 : (lastSize ++ lastExt ++ CRLF ++ (genBlock trs ++ tail)).drop ((lastSize ++ lastExt).length + 2)
      = genBlock trs ++ tail := by
    rw [List.append_assoc, List.drop_append, List.drop_of_length_le (by omega)]
    simp [CRLF]
  rw [hd1]
  have e2 : chunkSys.step ⟨st.buffer, 0, .trailer, []⟩ (genBlock trs ++ tail)
      = .ok .completeWhole ⟨st.buffer, 0, .trailer, trs⟩ (genBlock trs).length := by
    rw [chunkSys_step]
    unfold chunkStep; simp only
    unfold ctrailerStep
    simp only [Headers.parse_generate trs ht]
  rw [Sys.loop_cw _ e2]

/-- C05 (round trip): for every list of well-formed chunks, every well-formed last-chunk line and every
    list of well-formed trailer fields, the decoder — whatever follows — reports completion exactly at
    the end of the trailer section, with exactly the payload and exactly those trailer fields -/
theorem C05_roundtrip (cs : List Chunk) (hw : ∀ c ∈ cs, WfChunk c) (lastSize lastExt : Bytes)
    (hl : WfSizeLine lastSize lastExt 0) (trs : List Header) (ht : ∀ h ∈ trs, WfHeader h) (tail : Bytes) :
    let enc := cs.flatMap encChunk ++ (lastSize ++ lastExt ++ CRLF) ++ genBlock trs
    ∃ f, chunkSys.loop f ChunkState.new (enc ++ tail) 0 =
      some (.ok .complete ⟨cs.flatMap (·.data), 0, .trailer, trs⟩ enc.length) := by
  intro enc
  refine ⟨3 * cs.length + 2, ?_⟩
  have hin : enc ++ tail = cs.flatMap encChunk ++ (lastSize ++ lastExt ++ CRLF ++ (genBlock trs ++ tail)) := by
    simp [enc]
  rw [hin, chunkLoop_chunks cs hw ChunkState.new rfl _ 0 2]
  rw [show (2 : Nat) = 0 + 2 by rfl, chunkLoop_last _ rfl rfl lastSize lastExt hl trs ht tail]
  simp only [ChunkState.new, List.nil_append, Option.some.injEq, PRes.ok.injEq, true_and]
  simp [enc, CRLF]; omega

/-- the same at the level of `parse` (the fuel the decoder gives itself is enough) -/
theorem C05_roundtrip_parse (cs : List Chunk) (hw : ∀ c ∈ cs, WfChunk c) (lastSize lastExt : Bytes)
    (hl : WfSizeLine lastSize lastExt 0) (trs : List Header) (ht : ∀ h ∈ trs, WfHeader h) (tail : Bytes) :
    let enc := cs.flatMap encChunk ++ (lastSize ++ lastExt ++ CRLF) ++ genBlock trs
    chunkSys.parse ChunkState.new (enc ++ tail) =
      .ok .complete ⟨cs.flatMap (·.data), 0, .trailer, trs⟩ enc.length := by
  intro enc
  obtain ⟨f, hf⟩ := C05_roundtrip cs hw lastSize lastExt hl trs ht tail
  -- `f = 3 * cs.length + 2` would do; any fuel with a definite answer agrees with a larger one
  have hbig : ∃ k, chunkSys.μ ChunkState.new (enc ++ tail).length + f = f + k := ⟨_, Nat.add_comm _ _⟩
  obtain ⟨k, hk⟩ := hbig
  have h1 := Sys.loop_fuel_mono hf k
  have h2 : chunkSys.loop (chunkSys.μ ChunkState.new (enc ++ tail).length) ChunkState.new (enc ++ tail) 0
      = chunkSys.loop (f + k) ChunkState.new (enc ++ tail) 0 :=
    Sys.loop_fuel_irrel chunkSys_lawful trivial (Nat.le_refl _) (by rw [← hk]; omega)
  unfold Sys.parse
  rw [h2, h1]
