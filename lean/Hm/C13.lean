import Hm.Coding

/-! C13, the part that is rhymuweb's own logic: a stack of codings is undone in reverse order -/

variable {gz fl : Bytes → Option Bytes}

/-- applying the listed codings in the order listed -/
def encStack (encGz encFl : Bytes → Bytes) : List Bytes → Bytes → Bytes
  | [], x => x
  | c :: cs, x => encStack encGz encFl cs (if c = kGzip then encGz x else encFl x)

/-- decoding the reversed, all-known list `cs` (followed by further tokens) strips exactly the layers of `cs` -/
theorem decodeRev_strip {encGz encFl : Bytes → Bytes}
    (hgz : ∀ x, gz (encGz x) = some x) (hfl : ∀ x, fl (encFl x) = some x)
    (cs : List Bytes) (hk : ∀ c ∈ cs, c = kGzip ∨ c = kDeflate) (more : List Bytes) (y : Bytes) :
    decodeRev gz fl (cs.reverse ++ more) (encStack encGz encFl cs y) = decodeRev gz fl more y := by
  induction cs generalizing more y with
  | nil => simp [encStack]
  | cons d ds ih =>
    have hkd : ∀ c' ∈ ds, c' = kGzip ∨ c' = kDeflate := fun c' hc' => hk c' (by simp [hc'])
    simp only [encStack, List.reverse_cons, List.append_assoc]
    rw [ih hkd]
    simp only [List.singleton_append, decodeRev]
    rcases hk d (by simp) with rfl | rfl
    · simp [hgz]
    · have : kDeflate ≠ kGzip := by decide
      simp [this, hfl]

/-- C13 (stack): whatever the stream decoders are, if each inverts its encoder then a body encoded with
    the codings `cs` in the order listed is decoded back to the original, with nothing kept -/
theorem C13_stack {encGz encFl : Bytes → Bytes}
    (hgz : ∀ x, gz (encGz x) = some x) (hfl : ∀ x, fl (encFl x) = some x)
    (cs : List Bytes) (hk : ∀ c ∈ cs, c = kGzip ∨ c = kDeflate) (x : Bytes) :
    decodeRev gz fl cs.reverse (encStack encGz encFl cs x) = some ([], x) := by
  have := decodeRev_strip hgz hfl cs hk [] x
  simpa [decodeRev] using this
