import Hm.Response

/-! C07 (second sentence) on the instrumented model of the repaired tree: no reservation exceeds the
    bytes presented in the same call -/

theorem vecReserve_additional {site : String} {len add : Nat} {r : Reserve}
    (h : (vecReserve site len add : Out Reserve) = .ok r) : r.additional = add := by
  unfold vecReserve at h
  split at h
  · simp at h
  · split at h
    · simp at h
    · simp at h; subst h; rfl

variable {u : UriImpl}

theorem request_headers_reserve (cfg : ReqCfg) (hrep : cfg.tree.repaired = true) (s : ReqState u) (raw : Bytes)
    (po : PhaseOut (ReqState u)) (h : parseMessageForHeaders cfg s raw = .ok po) :
    ∀ r ∈ po.reserves, r.additional ≤ raw.length := by
  unfold parseMessageForHeaders at h
  simp only [hrep, if_true] at h
  cases hp : (liftH Cat.Headers (Headers.parse cfg.hl s.headers (stripDanglingCr raw)) : Out _) with
  | err e => simp [hp, bind, Outcome.bind] at h
  | panic k => simp [hp, bind, Outcome.bind] at h
  | ok r0 =>
    obtain ⟨hs, st, c0⟩ := r0
    simp only [hp, bind, Outcome.bind] at h
    cases hc : countBytes cfg { s with headers := hs } c0 with
    | err e => simp [hc] at h
    | panic k => simp [hc] at h
    | ok s1 =>
      simp only [hc] at h
      cases st with
      | incomplete => simp at h; subst h; simp
      | complete =>
        simp only at h
        cases hv : headerValue hs kContentLength with
        | none => simp [hv] at h; subst h; simp
        | some v =>
          simp only [hv] at h
          cases hn : parseNumber cfg.tree 10 v with
          | none => simp [hn] at h
          | some cl =>
            simp only [hn] at h
            cases hc2 : countBytes cfg s1 cl with
            | err e => simp [hc2] at h
            | panic k => simp [hc2] at h
            | ok s2 =>
              simp only [hc2] at h
              cases hr : (vecReserve "request.body" s2.body.length (min cl ((stripDanglingCr raw).length - c0)) : Out Reserve) with
              | err e => simp [hr] at h
              | panic k => simp [hr] at h
              | ok r =>
                simp only [hr] at h
                simp at h; subst h
                intro r' hr'
                simp at hr'; subst hr'
                rw [vecReserve_additional hr]
                have : (stripDanglingCr raw).length ≤ raw.length := by
                  unfold stripDanglingCr; split <;> simp
                omega

theorem request_body_reserve (s : ReqState u) (raw : Bytes) (n : Nat) (po : PhaseOut (ReqState u))
    (h : parseMessageForBody s raw n = .ok po) : po.reserves = [] := by
  unfold parseMessageForBody at h
  split at h
  · simp at h
  · simp only at h
    split at h <;> (simp at h; subst h; rfl)

theorem request_line_reserve (cfg : ReqCfg) (s : ReqState u) (raw : Bytes) (po : PhaseOut (ReqState u))
    (h : parseMessageForRequestLine u cfg s raw = .ok po) : po.reserves = [] := by
  unfold parseMessageForRequestLine at h
  cases hf : findCrlf raw with
  | none =>
    simp only [hf] at h
    by_cases hc : overLimit cfg.rl (if cfg.tree.repaired = true then (stripDanglingCr raw).length else raw.length) = true
    · simp [hc] at h
    · simp only [hc, Bool.false_eq_true, if_false] at h
      simp at h; subst h; rfl
  | some e =>
    simp only [hf] at h
    split at h
    · simp at h
    · split at h
      · simp at h
      · cases hc : countBytes cfg s (e + 2) with
        | err c => simp [hc, bind, Outcome.bind] at h
        | panic k => simp [hc, bind, Outcome.bind] at h
        | ok s1 =>
          simp only [hc, bind, Outcome.bind] at h
          split at h
          · simp at h
          · simp at h; subst h; rfl

/-- C07 (second sentence) for request parsing on the repaired tree: every buffer reservation made
    during a `parse` call asks for at most as many bytes as were presented to that call — whatever
    length the peer declared, and whether or not a maximum message size is set -/
theorem C07_request_reserve_bounded (cfg : ReqCfg) (hrep : cfg.tree.repaired = true) (s : ReqState u) (raw : Bytes)
    (o : ParseOut (ReqState u)) (h : Request.parse u cfg s raw = .ok o) :
    ∀ r ∈ o.reserves, r.additional ≤ raw.length := by
  unfold Request.parse at h
  suffices H : ∀ (fuel : Nat) (s : ReqState u) (tc : Nat) (rs : List Reserve) (o : ParseOut (ReqState u)),
      (∀ r ∈ rs, r.additional ≤ raw.length) → Request.parseLoop u cfg fuel s raw tc rs = .ok o →
      ∀ r ∈ o.reserves, r.additional ≤ raw.length from H 4 s 0 [] o (by simp) h
  intro fuel
  induction fuel with
  | zero =>
    intro s tc rs o hrs h
    simp [Request.parseLoop] at h; subst h; exact hrs
  | succ fuel ih =>
    intro s tc rs o hrs h
    unfold Request.parseLoop at h
    simp only at h
    have hlen : (raw.drop tc).length ≤ raw.length := by simp
    -- what happens after the phase has run, given a bound on what it reserved
    have hjp : ∀ po : PhaseOut (ReqState u), (∀ r ∈ po.reserves, r.additional ≤ raw.length) →
        (match po.internal with
          | .completePart => Request.parseLoop u cfg fuel po.st raw (tc + po.consumed) (rs ++ po.reserves)
          | .completeWhole => Outcome.ok { st := po.st, status := Status.complete, consumed := tc + po.consumed, reserves := rs ++ po.reserves }
          | .incomplete =>
            if (cfg.tree.repaired && overLimit cfg.max (po.st.totalBytes + (raw.length - (tc + po.consumed)))) = true then
              Outcome.err Cat.MessageTooLong
            else Outcome.ok { st := po.st, status := Status.incomplete, consumed := tc + po.consumed, reserves := rs ++ po.reserves }) = .ok o →
        ∀ r ∈ o.reserves, r.additional ≤ raw.length := by
      intro po hb hcont
      have hrs' : ∀ r ∈ rs ++ po.reserves, r.additional ≤ raw.length := by
        intro r hr; simp only [List.mem_append] at hr
        rcases hr with hr | hr
        · exact hrs r hr
        · exact hb r hr
      cases hi : po.internal with
      | completePart => simp only [hi] at hcont; exact ih _ _ _ _ hrs' hcont
      | completeWhole => simp only [hi] at hcont; simp at hcont; subst hcont; exact hrs'
      | incomplete =>
        simp only [hi] at hcont
        split at hcont
        · simp at hcont
        · simp at hcont; subst hcont; exact hrs'
    cases hph : s.phase with
    | body n =>
      simp only [hph, bind, Outcome.bind] at h
      cases hp : parseMessageForBody s (raw.drop tc) n with
      | err c => simp [hp] at h
      | panic k => simp [hp] at h
      | ok po =>
        simp only [hp] at h
        exact hjp po (by rw [request_body_reserve _ _ _ _ hp]; simp) h
    | headers =>
      simp only [hph, bind, Outcome.bind] at h
      cases hp : parseMessageForHeaders cfg s (raw.drop tc) with
      | err c => simp [hp] at h
      | panic k => simp [hp] at h
      | ok po =>
        simp only [hp] at h
        exact hjp po (fun r hr => Nat.le_trans (request_headers_reserve cfg hrep _ _ _ hp r hr) hlen) h
    | requestLine =>
      simp only [hph, bind, Outcome.bind] at h
      cases hp : parseMessageForRequestLine u cfg s (raw.drop tc) with
      | err c => simp [hp] at h
      | panic k => simp [hp] at h
      | ok po =>
        simp only [hp] at h
        exact hjp po (by rw [request_line_reserve _ _ _ _ hp]; simp) h
