import Hm.ReqProps

/-! C17 for requests on the repaired tree: an accepted message's Content-Length is `1*DIGIT` -/

variable {u : UriImpl}

def isDigit (b : UInt8) : Bool := 48 ≤ b && b ≤ 57
def allDigits (s : Bytes) : Bool := !s.isEmpty && s.all isDigit

theorem digitVal_ten {b : UInt8} {d : Nat} (h : digitVal 10 b = some d) : isDigit b = true := by
  unfold digitVal at h
  unfold isDigit
  by_cases h1 : 48 ≤ b ∧ b ≤ 57
  · simp [h1.1, h1.2]
  · simp only [h1, if_false] at h
    by_cases h2 : 97 ≤ b ∧ b ≤ 102
    · simp only [h2, and_self, if_true] at h
      split at h <;> simp at h
      omega
    · simp only [h2, if_false] at h
      by_cases h3 : 65 ≤ b ∧ b ≤ 70
      · simp only [h3, and_self, if_true] at h
        split at h <;> simp at h
        omega
      · simp [h3] at h

theorem accDigits_ten {max acc n : Nat} {s : Bytes} (h : accDigits 10 max acc s = some n) :
    s.all isDigit = true := by
  induction s generalizing acc with
  | nil => simp
  | cons b rest ih =>
    unfold accDigits at h
    cases hd : digitVal 10 b with
    | none => simp [hd] at h
    | some d =>
      simp only [hd] at h
      split at h
      · simp at h
      · simp [digitVal_ten hd, ih h]

/-- the repaired numeric-field parser accepts only non-empty digit strings -/
theorem parseNumber_digits {v : Bytes} {n : Nat} (h : parseNumber ⟨true⟩ 10 v = some n) : allDigits v = true := by
  unfold parseNumber at h
  unfold allDigits
  cases v with
  | nil => simp [rustParseUnsigned] at h
  | cons b rest =>
    simp only [Bool.true_and, List.head?_cons, Option.some.injEq] at h
    by_cases hb : b = PLUS
    · simp [hb] at h
    · simp only [hb, decide_false, Bool.false_eq_true, if_false] at h
      unfold rustParseUnsigned at h
      cases rest with
      | nil =>
        simp only [hb, false_or] at h
        split at h
        · simp at h
        · simpa using accDigits_ten h
      | cons c rest' =>
        simp only [hb, if_false] at h
        simpa using accDigits_ten h

/-- in the body phase the declared length came from an accepted Content-Length spelling -/
def ClInv (s : ReqState u) : Prop :=
  match s.phase with
  | .body n => ∃ v, headerValue s.headers kContentLength = some v ∧ parseNumber ⟨true⟩ 10 v = some n
  | _ => True

def ClOk (s : ReqState u) : Prop :=
  ∀ v, headerValue s.headers kContentLength = some v → allDigits v = true

theorem reqStep_clInv {cfg : ReqCfg} {s s' : ReqState u} {rem : Bytes} {c : Nat} {i : Internal}
    (hI : ClInv s) (h : reqStep u cfg s rem = .ok i s' c) :
    ClInv s' ∧ (i = .completeWhole → ClOk s') := by
  unfold reqStep at h
  unfold ClInv at hI
  split at h
  · rename_i n hph
    simp only [hph] at hI
    obtain ⟨v0, hv0, hp0⟩ := hI
    have hph' := (bodyStep_phase h).1
    have hhdr : s'.headers = s.headers := by
      unfold bodyStep at h
      split at h
      · simp at h
      · split at h
        · simp at h; obtain ⟨_, rfl, _⟩ := h; rfl
        · split at h
          · simp at h
          · simp at h; obtain ⟨_, rfl, _⟩ := h; rfl
    constructor
    · unfold ClInv; rw [hph', hph]; simp only; rw [hhdr]; exact ⟨v0, hv0, hp0⟩
    · intro _ v hv
      rw [hhdr, hv0] at hv; simp at hv; subst hv
      exact parseNumber_digits hp0
  · rename_i hph
    unfold hdrStep at h
    cases hp : Headers.parse cfg.hl s.headers (stripDanglingCr rem) with
    | error e0 => simp [hp] at h
    | ok r =>
      obtain ⟨hs, st, c0⟩ := r
      simp only [hp] at h
      cases hc : countR cfg.max s.totalBytes c0 with
      | error f => simp [hc] at h
      | ok t =>
        simp only [hc] at h
        cases st with
        | incomplete =>
          simp only at h; split at h
          · simp at h
          · simp at h; obtain ⟨rfl, rfl, _⟩ := h
            exact ⟨by unfold ClInv; simp [hph], by simp⟩
        | complete =>
          simp only at h
          unfold afterHeaders at h
          cases hv : headerValue hs kContentLength with
          | none =>
            simp only [hv] at h
            simp at h; obtain ⟨rfl, rfl, _⟩ := h
            exact ⟨by unfold ClInv; simp [hph], by intro _ v hv'; simp [hv] at hv'⟩
          | some v =>
            simp only [hv] at h
            cases hn : parseNumber ⟨true⟩ 10 v with
            | none => simp [hn] at h
            | some cl =>
              simp only [hn] at h
              cases hc2 : countR cfg.max t cl with
              | error f => simp [hc2] at h
              | ok t2 =>
                simp only [hc2] at h
                simp at h; obtain ⟨rfl, rfl, _⟩ := h
                exact ⟨by unfold ClInv; simp; exact ⟨v, hv, hn⟩, by simp⟩
  · rename_i hph
    cases i with
    | incomplete =>
      have := rlStep_incomplete h
      rw [this.1]
      exact ⟨by unfold ClInv; simp [hph], by simp⟩
    | completePart =>
      have := rlStep_completePart h (by simp)
      exact ⟨by unfold ClInv; simp [this.2.1], by simp⟩
    | completeWhole =>
      have := rlStep_completePart h (by simp)
      simp at this

theorem reqLoop_cl {cfg : ReqCfg} {f : Nat} {s s' : ReqState u} {rem : Bytes} {acc c : Nat} {st : Status}
    (hI : ClInv s) (h : (requestSys u cfg).loop f s rem acc = some (.ok st s' c)) :
    ClInv s' ∧ (st = .complete → ClOk s') := by
  induction f generalizing s rem acc with
  | zero => simp [Sys.loop] at h
  | succ f ih =>
    unfold Sys.loop at h
    cases hs : (requestSys u cfg).step s rem with
    | fail e1 => simp [hs] at h
    | ok i s1 c1 =>
      have hstep := reqStep_clInv hI hs
      cases i with
      | completePart => simp only [hs] at h; exact ih hstep.1 h
      | completeWhole =>
        simp only [hs, Option.some.injEq, PRes.ok.injEq] at h
        obtain ⟨rfl, rfl, _⟩ := h
        exact ⟨hstep.1, fun _ => hstep.2 rfl⟩
      | incomplete =>
        simp only [hs, Option.some.injEq, PRes.ok.injEq] at h
        obtain ⟨rfl, rfl, _⟩ := h
        exact ⟨hstep.1, by simp⟩

/-- C17 (Content-Length of requests): whatever the deliveries and limits, a request that is reported
    complete has a Content-Length value consisting solely of decimal digits, if it has one at all -/
theorem C17_request_content_length (u : UriImpl) (cfg : ReqCfg) (ds : List Bytes) :
    let c0 : GConn Fail (ReqState u) := { st := Request.new u, pending := [], total := 0, verdict := .more }
    let r := (requestSys u cfg).run c0 ds
    (match r.verdict with | .complete => True | _ => False) →
      ∀ v, headerValue r.st.headers kContentLength = some v → allDigits v = true := by
  intro c0
  -- connection invariant: ClInv, and ClOk once complete
  let P : GConn Fail (ReqState u) → Prop := fun c =>
    ClInv c.st ∧ ((match c.verdict with | .complete => True | _ => False) → ClOk c.st)
  have h0 : P c0 := ⟨by simp [c0, ClInv, Request.new], by simp [c0]⟩
  have hstep : ∀ c d, P c → P ((requestSys u cfg).deliver c d) := by
    intro c d hc
    unfold Sys.deliver
    cases hv : c.verdict with
    | complete => simpa [P, hv] using hc
    | failed e => simpa [P, hv] using hc
    | more =>
      simp only
      unfold Sys.parse
      cases hl : (requestSys u cfg).loop ((requestSys u cfg).μ c.st (c.pending ++ d).length) c.st (c.pending ++ d) 0 with
      | none => exact ⟨hc.1, by simp⟩
      | some r =>
        cases r with
        | fail e => exact ⟨hc.1, by simp⟩
        | ok st s' n =>
          have := reqLoop_cl hc.1 hl
          cases st with
          | complete => exact ⟨this.1, fun _ => this.2 rfl⟩
          | incomplete => exact ⟨this.1, by simp⟩
  have : ∀ c, P c → P ((requestSys u cfg).run c ds) := by
    induction ds with
    | nil => intro c hc; exact hc
    | cons d ds ih => intro c hc; exact ih _ (hstep c d hc)
  exact (this c0 h0).2
