import Hm.GenericRun

/-! C07, first sentence, generically: if every `step` lets a size measure of the state grow by at most the
    bytes that step consumed (plus, on the step that completes the message, a slack that depends on the
    final state only), then over the phase loop, over one `parse` call, and over any list of deliveries
    under the documented calling protocol, the measure of the state is bounded by its initial value plus
    the bytes consumed so far — whatever the input *announces*. -/

def GVerdict.isComplete : GVerdict ε → Bool | .complete => true | _ => false

namespace Sys
variable {ε σ : Type} (M : Sys ε σ)

/-- `size` grows by at most the bytes consumed; the completing step may add `slack` of the final state -/
def Grows (size slack : σ → Nat) : Prop :=
  ∀ s b i s' c, M.step s b = .ok i s' c →
    size s' ≤ size s + c + (if i = .completeWhole then slack s' else 0)

variable {M} {size slack : σ → Nat}

theorem loop_size (G : M.Grows size slack) {f : Nat} {s s' : σ} {rem : Bytes} {acc n : Nat} {st : Status}
    (h : M.loop f s rem acc = some (.ok st s' n)) :
    size s' + acc ≤ size s + n + (if st = .complete then slack s' else 0) := by
  induction f generalizing s rem acc with
  | zero => simp [loop] at h
  | succ f ih =>
    unfold loop at h
    split at h
    · simp at h
    · rename_i s1 c1 hs
      have g := G _ _ _ _ _ hs
      have := ih h
      simp at g; omega
    · rename_i s1 c1 hs
      have g := G _ _ _ _ _ hs
      simp at h; obtain ⟨rfl, rfl, rfl⟩ := h
      simp at g ⊢; omega
    · rename_i s1 c1 hs
      have g := G _ _ _ _ _ hs
      simp at h; obtain ⟨rfl, rfl, rfl⟩ := h
      simp at g ⊢; omega

theorem parse_size (G : M.Grows size slack) {s s' : σ} {raw : Bytes} {n : Nat} {st : Status}
    (h : M.parse s raw = .ok st s' n) :
    size s' ≤ size s + n + (if st = .complete then slack s' else 0) := by
  unfold parse at h
  split at h
  · rename_i r hr
    subst h
    have := loop_size G hr
    omega
  · simp at h

/-- what one delivery adds: the state's measure grows by at most what the connection's `total` grows -/
theorem deliver_size (G : M.Grows size slack) (c : GConn ε σ) (d : Bytes) :
    size (M.deliver c d).st + c.total ≤ size c.st + (M.deliver c d).total +
      (if (M.deliver c d).verdict.isComplete ∧ ¬ c.verdict.isComplete then slack (M.deliver c d).st else 0) := by
  unfold deliver
  cases hv : c.verdict with
  | complete => simp
  | failed e => simp
  | more =>
    simp only
    cases hp : M.parse c.st (c.pending ++ d) with
    | fail e => simp
    | ok st s' n =>
      have := parse_size G hp
      cases st with
      | complete => simp [GVerdict.isComplete] at this ⊢; omega
      | incomplete => simp [GVerdict.isComplete] at this ⊢; omega

theorem deliver_total_mono (c : GConn ε σ) (d : Bytes) : c.total ≤ (M.deliver c d).total := by
  unfold deliver
  cases hv : c.verdict with
  | complete => simp
  | failed e => simp
  | more =>
    simp only
    cases hp : M.parse c.st (c.pending ++ d) with
    | fail e => simp
    | ok st s' n => cases st <;> simp

theorem deliver_complete_stays {c : GConn ε σ} (h : c.verdict.isComplete = true) (d : Bytes) :
    M.deliver c d = c := by
  unfold deliver
  cases hv : c.verdict with
  | complete => rfl
  | failed e => rfl
  | more => simp [hv, GVerdict.isComplete] at h

/-- over any list of deliveries: measure of the state ≤ initial measure + bytes consumed (+ the slack of the
    final state if the message has been completed) -/
theorem run_size (G : M.Grows size slack) (c : GConn ε σ) (hc : c.verdict.isComplete = false) (ds : List Bytes) :
    size (M.run c ds).st + c.total ≤ size c.st + (M.run c ds).total +
      (if (M.run c ds).verdict.isComplete then slack (M.run c ds).st else 0) := by
  induction ds generalizing c with
  | nil => simp [run]
  | cons d ds ih =>
    have hrun : M.run c (d :: ds) = M.run (M.deliver c d) ds := by simp [run]
    rw [hrun]
    have h1 := deliver_size G c d
    have hm := deliver_total_mono (M := M) c d
    by_cases hd : (M.deliver c d).verdict.isComplete = true
    · have hstay : M.run (M.deliver c d) ds = M.deliver c d := by
        clear ih h1 hm hrun
        induction ds with
        | nil => rfl
        | cons d2 ds ih2 => simp only [run, List.foldl_cons] at ih2 ⊢; rw [deliver_complete_stays hd]; exact ih2
      rw [hstay]
      simp [hd, hc] at h1 ⊢
      omega
    · have hd' : (M.deliver c d).verdict.isComplete = false := by simpa using hd
      have h2 := ih (M.deliver c d) hd'
      simp [hd'] at h1
      omega

end Sys

namespace Sys
variable {ε σ : Type} {M : Sys ε σ} {Inv : σ → Prop}

/-- the connection state carries the invariant while the verdict is "more" -/
theorem deliver_inv (L : M.Lawful Inv) (c : GConn ε σ) (hI : c.verdict = .more → Inv c.st) (d : Bytes) :
    (M.deliver c d).verdict = .more → Inv (M.deliver c d).st := by
  unfold deliver
  cases hv : c.verdict with
  | complete => simp [hv]
  | failed e => simp [hv]
  | more =>
    simp only
    cases hp : M.parse c.st (c.pending ++ d) with
    | fail e => simp
    | ok st s' n =>
      cases st with
      | complete => simp
      | incomplete => intro _; exact (parse_inv L (hI hv) hp).1 rfl

/-- bytes consumed plus bytes still pending never exceed the bytes delivered -/
theorem deliver_total_le (L : M.Lawful Inv) (c : GConn ε σ) (hI : c.verdict = .more → Inv c.st) (d : Bytes) :
    (M.deliver c d).total + (M.deliver c d).pending.length ≤ c.total + c.pending.length + d.length := by
  unfold deliver
  cases hv : c.verdict with
  | complete => simp
  | failed e => simp
  | more =>
    simp only
    cases hp : M.parse c.st (c.pending ++ d) with
    | fail e => simp
    | ok st s' n =>
      have := (parse_inv L (hI hv) hp).2
      cases st <;> simp at this ⊢ <;> omega

theorem run_total_le (L : M.Lawful Inv) (c : GConn ε σ) (hI : c.verdict = .more → Inv c.st) (ds : List Bytes) :
    (M.run c ds).total + (M.run c ds).pending.length ≤ c.total + c.pending.length + (ds.map List.length).sum := by
  induction ds generalizing c with
  | nil => simp [run]
  | cons d ds ih =>
    have hrun : M.run c (d :: ds) = M.run (M.deliver c d) ds := by simp [run]
    rw [hrun]
    have h1 := deliver_total_le L c hI d
    have h2 := ih (M.deliver c d) (deliver_inv L c hI d)
    simp at h2 ⊢
    omega

end Sys

/-! ### two measures and a factor: `size` while the message is in progress, `fin` once it is complete -/

namespace Sys
variable {ε σ : Type} (M : Sys ε σ)

/-- every step that does not complete the message lets `size` grow by at most `k` times the bytes consumed; the step
    that completes it leaves a state whose `fin` is at most the old `size` plus `k` times the bytes consumed plus
    `slack` of the final state -/
def GrowsK (k : Nat) (size fin slack : σ → Nat) : Prop :=
  ∀ s b i s' c, M.step s b = .ok i s' c →
    (i ≠ .completeWhole → size s' ≤ size s + k * c) ∧ (i = .completeWhole → fin s' ≤ size s + k * c + slack s')

variable {M} {k : Nat} {size fin slack : σ → Nat}

theorem loop_sizeK (G : M.GrowsK k size fin slack) {f : Nat} {s s' : σ} {rem : Bytes} {acc n : Nat} {st : Status}
    (h : M.loop f s rem acc = some (.ok st s' n)) :
    (st = .incomplete → size s' + k * acc ≤ size s + k * n) ∧
    (st = .complete → fin s' + k * acc ≤ size s + k * n + slack s') := by
  induction f generalizing s rem acc with
  | zero => simp [loop] at h
  | succ f ih =>
    unfold loop at h
    split at h
    · simp at h
    · rename_i s1 c1 hs
      have g := (G _ _ _ _ _ hs).1 (by simp)
      have := ih h
      rw [Nat.mul_add] at this
      exact ⟨fun e => by have := this.1 e; omega, fun e => by have := this.2 e; omega⟩
    · rename_i s1 c1 hs
      have g := (G _ _ _ _ _ hs).2 rfl
      simp at h; obtain ⟨rfl, rfl, rfl⟩ := h
      rw [Nat.mul_add]
      exact ⟨by simp, fun _ => by omega⟩
    · rename_i s1 c1 hs
      have g := (G _ _ _ _ _ hs).1 (by simp)
      simp at h; obtain ⟨rfl, rfl, rfl⟩ := h
      rw [Nat.mul_add]
      exact ⟨fun _ => by omega, by simp⟩

theorem parse_sizeK (G : M.GrowsK k size fin slack) {s s' : σ} {raw : Bytes} {n : Nat} {st : Status}
    (h : M.parse s raw = .ok st s' n) :
    (st = .incomplete → size s' ≤ size s + k * n) ∧ (st = .complete → fin s' ≤ size s + k * n + slack s') := by
  unfold parse at h
  split at h
  · rename_i r hr
    subst h
    have := loop_sizeK G hr
    simp at this
    exact this
  · simp at h

/-- over any list of deliveries to a connection that is waiting for input: until the message is complete (also when
    the run has ended in an error, which leaves the state of the last successful call), `size` of the state is at most
    its initial value plus `k` times the bytes consumed; once complete, `fin` is at most that plus `slack` -/
theorem run_sizeK (G : M.GrowsK k size fin slack) (c : GConn ε σ) (hc : c.verdict = .more) (ds : List Bytes) :
    ((M.run c ds).verdict ≠ .complete → size (M.run c ds).st + k * c.total ≤ size c.st + k * (M.run c ds).total) ∧
    ((M.run c ds).verdict = .complete →
      fin (M.run c ds).st + k * c.total ≤ size c.st + k * (M.run c ds).total + slack (M.run c ds).st) := by
  induction ds generalizing c with
  | nil => simp [run, hc]
  | cons d ds ih =>
    have hrun : M.run c (d :: ds) = M.run (M.deliver c d) ds := by simp [run]
    rw [hrun]
    unfold deliver
    simp only [hc]
    cases hp : M.parse c.st (c.pending ++ d) with
    | fail e =>
      simp only
      rw [run_of_not_more (by simp)]
      simp
    | ok st s' n =>
      have hps := parse_sizeK G hp
      cases st with
      | complete =>
        simp only
        rw [run_of_not_more (by simp)]
        have := hps.2 rfl
        simp only [Nat.mul_add]
        exact ⟨by simp, fun _ => by omega⟩
      | incomplete =>
        simp only
        have := hps.1 rfl
        have h2 := ih { st := s', pending := (c.pending ++ d).drop n, total := c.total + n, verdict := .more } rfl
        simp only [Nat.mul_add] at h2
        exact ⟨fun e => by have := h2.1 e; omega, fun e => by have := h2.2 e; omega⟩

end Sys
