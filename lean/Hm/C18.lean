import Hm.C03C04
import Hm.Coding
import Hm.RustTrim

/-! C18 for token values: the token list of a header value depends only on its ASCII lower-casing -/

theorem asciiLower_eq_comma (b : UInt8) : asciiLower b = COMMA ↔ b = COMMA := by
  have : ∀ n, n < 256 → (asciiLower n.toUInt8 = COMMA ↔ n.toUInt8 = COMMA) := by decide +kernel
  have h := this b.toNat b.toNat_lt
  simpa using h

theorem isAsciiWs_lower (b : UInt8) : isAsciiWs (asciiLower b) = isAsciiWs b := by
  have : ∀ n, n < 256 → isAsciiWs (asciiLower n.toUInt8) = isAsciiWs n.toUInt8 := by decide +kernel
  have h := this b.toNat b.toNat_lt
  simpa using h

theorem splitOn_lower (v : Bytes) : splitOn COMMA (lower v) = (splitOn COMMA v).map lower := by
  induction v with
  | nil => simp [splitOn, lower]
  | cons b rest ih =>
    simp only [lower, List.map_cons] at ih ⊢
    unfold splitOn
    by_cases hb : b = COMMA
    · have : asciiLower b = COMMA := (asciiLower_eq_comma b).mpr hb
      simp only [hb, this, if_true, List.map_cons, List.map_nil]
      rw [ih]; rfl
    · have : ¬ asciiLower b = COMMA := fun h => hb ((asciiLower_eq_comma b).mp h)
      simp only [hb, this, if_false]
      rw [ih]
      cases splitOn COMMA rest with
      | nil => simp [lower]
      | cons p ps => simp [lower]

theorem splitTerminator_lower (v : Bytes) : splitTerminator COMMA (lower v) = (splitTerminator COMMA v).map lower := by
  unfold splitTerminator
  simp only [splitOn_lower]
  cases h : (splitOn COMMA v).getLast? with
  | none => simp [h, List.getLast?_map]
  | some l =>
    cases l with
    | nil => simp [h, List.getLast?_map, lower, List.map_dropLast]
    | cons x xs => simp [h, List.getLast?_map, lower]

theorem dropWhile_ws_lower (t : Bytes) : (lower t).dropWhile isAsciiWs = lower (t.dropWhile isAsciiWs) := by
  induction t with
  | nil => simp [lower]
  | cons b rest ih =>
    simp only [lower, List.map_cons, List.dropWhile_cons, isAsciiWs_lower] at ih ⊢
    split
    · exact ih
    · simp

theorem trim_lower (t : Bytes) : trimBy isAsciiWs (lower t) = lower (trimBy isAsciiWs t) := by
  unfold trimBy trimEndBy trimStartBy
  rw [dropWhile_ws_lower]
  have hrev : ∀ l : Bytes, (lower l).reverse = lower l.reverse := by intro l; simp [lower]
  rw [hrev, dropWhile_ws_lower, hrev]

theorem lower_lower (t : Bytes) : lower (lower t) = lower t := by
  unfold lower
  rw [List.map_map]
  congr 1
  funext b
  have : ∀ n, n < 256 → asciiLower (asciiLower n.toUInt8) = asciiLower n.toUInt8 := by decide +kernel
  have h := this b.toNat b.toNat_lt
  simpa using h

/-- the tokens of one header value depend only on the value's ASCII lower-casing -/
theorem tokensOfValue_lower (v : Bytes) :
    (splitTerminator COMMA v).map (fun t => lower (rustTrim t)) =
    (splitTerminator COMMA (lower v)).map (fun t => lower (rustTrim t)) := by
  rw [splitTerminator_lower, List.map_map]
  apply List.map_congr_left
  intro t _
  simp only [Function.comp]
  rw [rustTrim_lower, lower_lower]

/-- C18 (token values): header lists that differ only in the letter case of names *and of the values of
    the looked-up header* list the same tokens — `chunked`, `gzip`, `deflate` are matched in any case -/
def HdrEquivCI : List Header → List Header → Prop
  | [], [] => True
  | a :: as, b :: bs => nameEq a.name b.name = true ∧ lower a.value = lower b.value ∧ HdrEquivCI as bs
  | _, _ => False

theorem C18_header_tokens_case {hs hs' : List Header} (h : HdrEquivCI hs hs') (n : Bytes) :
    headerTokens hs n = headerTokens hs' n := by
  induction hs generalizing hs' with
  | nil => cases hs' <;> simp_all [HdrEquivCI]
  | cons a as ih =>
    cases hs' with
    | nil => simp [HdrEquivCI] at h
    | cons b bs =>
      obtain ⟨hn, hv, hr⟩ := h
      have hab : nameEq a.name n = nameEq b.name n := by
        cases h1 : nameEq a.name n with
        | true => exact (nameEq_trans (nameEq_symm hn) h1).symm
        | false =>
          cases h2 : nameEq b.name n with
          | false => rfl
          | true => rw [nameEq_trans hn h2] at h1; exact h1.symm
      have := ih hr
      unfold headerTokens headerMultiValue at this ⊢
      simp only [List.filter_cons, hab]
      split
      · simp only [List.map_cons, List.flatMap_cons]
        rw [this, tokensOfValue_lower a.value, tokensOfValue_lower b.value, hv]
      · exact this

/-- hence the two decisions that hang on tokens: chunked framing, and which codings `decode_body` sees -/
theorem C18_has_chunked_case {hs hs' : List Header} (h : HdrEquivCI hs hs') :
    hasHeaderToken hs kTransferEncoding kChunked = hasHeaderToken hs' kTransferEncoding kChunked := by
  unfold hasHeaderToken; rw [C18_header_tokens_case h]

theorem C18_decode_case {gz fl : Bytes → Option Bytes} {hs hs' : List Header} (h : HdrEquivCI hs hs') (body : Bytes) :
    (decodeBody gz fl hs body).2 = (decodeBody gz fl hs' body).2 := by
  unfold decodeBody
  rw [C18_header_tokens_case h]
  cases decodeRev gz fl (headerTokens hs' kContentEncoding).reverse body with
  | none => rfl
  | some r => rfl
