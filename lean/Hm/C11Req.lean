import Hm.C10Req
import Hm.C03Whole
import Hm.HeaderWf

/-! C11 for requests (partial): parse → generate → parse -/

variable {u : UriImpl}

/-- C11 (requests, partial): whatever bytes `s` a request parser (any limits) accepted, if its
    method is ASCII without CR (every RFC token is), and the URI
    implementation satisfies its law at the parsed target, then generating from the parsed message
    and parsing that output (no limits) yields the same method, target, header list and body, with
    the whole output consumed.
    Missing for the full statement: methods with non-ASCII UTF-8 or a lone CR (needs UTF-8
    validity of a prefix cut at an ASCII byte, and `findCrlf line = none` in place of "no CR"). -/
theorem C11_request_reparse_partial (cfg : ReqCfg) {s : Bytes} {st : ReqState u} {n : Nat}
    (h : (requestSys u cfg).parse (Request.new u) s = .ok .complete st n)
    (hm : ∀ b ∈ st.method, b ≠ CR ∧ b < 128)
    (hlaw : u.parse (u.display st.target) = some st.target)
    (hdne : u.display st.target ≠ [])
    (hdc : ∀ b ∈ u.display st.target, b ≠ SP ∧ b ≠ CR ∧ b < 128)
    (ov : Bool) (tail : Bytes) :
    let v : ReqValue u := ⟨st.method, st.target, st.headers, st.body⟩
    ∃ st', (requestSys u (noLimits ov)).parse (Request.new u) (reqBytes v ++ tail) = .ok .complete st' (reqBytes v).length ∧
      st'.method = st.method ∧ st'.target = st.target ∧ st'.headers = st.headers ∧ st'.body = st.body := by
  intro v
  obtain ⟨e, c, hf, hv, _, hline, hhdr, hcase⟩ := C03_accept_sound u cfg h
  obtain ⟨tgt, hl, hmne, hmsp, _, _, _⟩ := C03_request_line_sound u hline
  have hframing : (∃ val, headerValue st.headers kContentLength = some val ∧ parseNumber ⟨true⟩ 10 val = some st.body.length) ∨
      (headerValue st.headers kContentLength = none ∧ st.body = []) := by
    rcases hcase with ⟨hnone, hb, _⟩ | ⟨val, cl, hval, hnum, _, hlen, _⟩
    · exact Or.inr ⟨hnone, hb⟩
    · exact Or.inl ⟨val, hval, by rw [hlen]; exact hnum⟩
  exact C10_request_roundtrip v
    { method_ne := hmne
      method_clean := fun b hb => ⟨fun hc => hmsp (hc ▸ hb), (hm b hb).1, (hm b hb).2⟩
      target_ne := hdne, target_clean := hdc, target_law := hlaw
      hdrs := Headers.parse_wf (by simp) hhdr
      framing := hframing } ov tail

/-- instance for the real `rhymuri` model: any accepted request whose parsed target is an origin-form
    path (arbitrary segment bytes) -/
theorem C11_request_reparse_rhymuri (cfg : ReqCfg) {s : Bytes} {st : ReqState rhymuriImpl} {n : Nat}
    (h : (requestSys rhymuriImpl cfg).parse (Request.new rhymuriImpl) s = .ok .complete st n)
    (hm : ∀ b ∈ st.method, b ≠ CR ∧ b < 128)
    (r : List Bytes) (hr : r = [] ∨ ∃ x xs, r = x :: xs ∧ x ≠ [])
    (ht : st.target = (⟨none, none, [] :: r, none, none⟩ : Uri))
    (ov : Bool) (tail : Bytes) :
    let v : ReqValue rhymuriImpl := ⟨st.method, st.target, st.headers, st.body⟩
    ∃ st', (requestSys rhymuriImpl (noLimits ov)).parse (Request.new rhymuriImpl) (reqBytes v ++ tail)
        = .ok .complete st' (reqBytes v).length ∧
      st'.method = st.method ∧ st'.target = st.target ∧ st'.headers = st.headers ∧ st'.body = st.body := by
  refine C11_request_reparse_partial cfg h hm ?_ ?_ ?_ ov tail
  · rw [ht]; exact Rhymuri.parse_display_path r hr
  · rw [ht]; exact (Rhymuri.display_path_ok r).1
  · rw [ht]; exact (Rhymuri.display_path_ok r).2
