import Hm.C03Complete

/-! C03 (categories): the request parser's answer to a whole byte string, written as one decision list in the
    order in which the elements of the message are examined — request line (length, text, grammar), header block,
    Content-Length, total size, body — and proved equal to the parser.  Each rejection category of the property is
    a corollary: the category named is that of the first offending element. -/

variable {u : UriImpl}

/-- the answer for a complete header block `hs` that ended `c` bytes into `rest` -/
def bodyVerdict (cfg : ReqCfg) (s0 : ReqState u) (hs : List Header) (t2 e c : Nat) (rest : Bytes) : PRes Fail (ReqState u) :=
  match headerValue hs kContentLength with
  | none => .ok .complete { s0 with headers := hs, totalBytes := t2 } (e + 2 + c)
  | some v =>
    match parseNumber ⟨true⟩ 10 v with
    | none => .fail (.err .InvalidContentLength)
    | some cl =>
      match countR cfg.max t2 cl with
      | .error f => .fail f
      | .ok t3 =>
        let s1 : ReqState u := { s0 with headers := hs, totalBytes := t3, phase := .body cl }
        let avail := rest.drop c
        if avail.length ≥ cl then .ok .complete { s1 with body := avail.take cl } (e + 2 + c + cl)
        else if early cfg.max t3 0 then .fail (.err .MessageTooLong)
        else .ok .incomplete { s1 with body := avail } (e + 2 + c + avail.length)

/-- the request parser's answer to a byte string given in one piece, element by element -/
def requestVerdict (u : UriImpl) (cfg : ReqCfg) (s : Bytes) : PRes Fail (ReqState u) :=
  match findCrlf s with
  | none =>
    if overLimit cfg.rl (stripDanglingCr s).length then .fail (.err .RequestLineTooLong)
    else if early cfg.max 0 s.length then .fail (.err .MessageTooLong)
    else .ok .incomplete (Request.new u) 0
  | some e =>
    if overLimit cfg.rl e then .fail (.err .RequestLineTooLong) else
    if !validUtf8 (s.take e) then .fail (.err .RequestLineNotValidText) else
    match countR cfg.max 0 (e + 2) with
    | .error f => .fail f
    | .ok t1 =>
      match parseRequestLine u (s.take e) with
      | .error c => .fail (.err c)
      | .ok (m, tg) =>
        let s0 : ReqState u := { Request.new u with phase := .headers, method := m, target := tg, totalBytes := t1 }
        let rest := s.drop (e + 2)
        match Headers.parse cfg.hl [] (stripDanglingCr rest) with
        | .error he => .fail (.err (.Headers he))
        | .ok (hs, st, c) =>
          match countR cfg.max t1 c with
          | .error f => .fail f
          | .ok t2 =>
            match st with
            | .incomplete =>
              if early cfg.max t2 (rest.length - c) then .fail (.err .MessageTooLong)
              else .ok .incomplete { s0 with headers := hs, totalBytes := t2 } (e + 2 + c)
            | .complete => bodyVerdict cfg s0 hs t2 e c rest

theorem requestSys_step (u : UriImpl) (cfg : ReqCfg) : (requestSys u cfg).step = reqStep u cfg := rfl

/-- the body phase, from an empty body -/
theorem loop_body_phase (cfg : ReqCfg) (s1 : ReqState u) (cl : Nat) (hph : s1.phase = .body cl) (hb : s1.body = [])
    (avail : Bytes) (acc f : Nat) :
    (requestSys u cfg).loop (f + 1) s1 avail acc =
      some (if avail.length ≥ cl then .ok .complete { s1 with body := avail.take cl } (acc + cl)
            else if early cfg.max s1.totalBytes 0 then .fail (.err .MessageTooLong)
            else .ok .incomplete { s1 with body := avail } (acc + avail.length)) := by
  unfold Sys.loop
  rw [requestSys_step]
  unfold reqStep
  rw [hph]; simp only
  unfold bodyStep
  simp only [hb, List.length_nil, Nat.sub_zero, List.nil_append, gt_iff_lt, Nat.not_lt_zero, if_false]
  by_cases h1 : avail.length ≥ cl
  · simp [h1, hph]
  · simp only [h1, if_false]
    by_cases h2 : early cfg.max s1.totalBytes 0 = true
    · simp [h2]
    · simp [h2, hph]

/-- C03 (decision list): the parser's answer to a byte string given in one piece is `requestVerdict` -/
theorem C03_verdict (u : UriImpl) (cfg : ReqCfg) (s : Bytes) :
    (requestSys u cfg).parse (Request.new u) s = requestVerdict u cfg s := by
  unfold Sys.parse requestVerdict
  have hμ : (requestSys u cfg).μ (Request.new u) s.length = 3 := rfl
  rw [hμ]
  unfold Sys.loop
  rw [requestSys_step]
  have h1 : reqStep u cfg (Request.new u) s = rlStep u cfg (Request.new u) s := rfl
  rw [h1]
  unfold rlStep
  cases hf : findCrlf s with
  | none =>
    simp only [Request.new]
    by_cases ha : overLimit cfg.rl (stripDanglingCr s).length = true
    · simp [ha]
    · by_cases hb : early cfg.max 0 s.length = true
      · simp [ha, hb]
      · simp [ha, hb]
  | some e =>
    simp only
    by_cases hrl : overLimit cfg.rl e = true
    · simp [hrl]
    · simp only [hrl, Bool.false_eq_true, if_false]
      by_cases hv : validUtf8 (s.take e) = true
      · simp only [hv, Bool.not_true, Bool.false_eq_true, if_false]
        have hnew : (Request.new u).totalBytes = 0 := rfl
        rw [hnew]
        cases hc1 : countR cfg.max 0 (e + 2) with
        | error f => simp
        | ok t1 =>
          simp only
          cases hp : parseRequestLine u (s.take e) with
          | error c => simp
          | ok mt =>
            obtain ⟨m, tg⟩ := mt
            simp only
            -- second step: the header block
            unfold Sys.loop
            rw [requestSys_step]
            have h2 : ∀ x, reqStep u cfg { Request.new u with phase := .headers, method := m, target := tg, totalBytes := t1 } x
                = hdrStep cfg { Request.new u with phase := .headers, method := m, target := tg, totalBytes := t1 } x := fun _ => rfl
            rw [h2]
            unfold hdrStep
            have hh0 : ({ Request.new u with phase := .headers, method := m, target := tg, totalBytes := t1 } : ReqState u).headers = [] := rfl
            rw [hh0]
            cases hh : Headers.parse cfg.hl [] (stripDanglingCr (s.drop (e + 2))) with
            | error he => simp
            | ok r =>
              obtain ⟨hs, st, c⟩ := r
              simp only
              cases hc2 : countR cfg.max t1 c with
              | error f => simp
              | ok t2 =>
                simp only
                cases st with
                | incomplete =>
                  simp only
                  by_cases hea : early cfg.max t2 ((s.drop (e + 2)).length - c) = true
                  · rw [if_pos hea, if_pos hea]
                  · rw [if_neg hea, if_neg hea]
                    simp only [Option.some.injEq, PRes.ok.injEq, true_and]
                    first | omega | exact ⟨rfl, by omega⟩
                | complete =>
                  simp only
                  unfold afterHeaders bodyVerdict
                  cases hcl : headerValue hs kContentLength with
                  | none =>
                    simp only [Option.some.injEq, PRes.ok.injEq, true_and]
                    first | omega | exact ⟨rfl, by omega⟩
                  | some v =>
                    simp only
                    cases hn : parseNumber ⟨true⟩ 10 v with
                    | none => simp
                    | some cl =>
                      simp only
                      cases hc3 : countR cfg.max t2 cl with
                      | error f => simp
                      | ok t3 =>
                        simp only
                        rw [loop_body_phase cfg _ cl rfl rfl]
                        simp only [List.drop_drop]
                        by_cases hlen : (s.drop (e + 2 + c)).length ≥ cl
                        · rw [if_pos hlen, if_pos hlen]
                          simp only [Option.some.injEq, PRes.ok.injEq, true_and]
                          first | omega | exact ⟨rfl, by omega⟩
                        · rw [if_neg hlen, if_neg hlen]
                          by_cases he3 : early cfg.max t3 0 = true
                          · rw [if_pos he3, if_pos he3]
                          · rw [if_neg he3, if_neg he3]
                            simp only [Option.some.injEq, PRes.ok.injEq, true_and]
                            first | omega | exact ⟨rfl, by omega⟩
      · simp [hv]

/-! ### the categories of the property, each as a corollary: the rejection names the first offending element -/

/-- request line over its limit (terminated line) -/
theorem C03_cat_line_too_long (u : UriImpl) (cfg : ReqCfg) {s : Bytes} {e : Nat}
    (hf : findCrlf s = some e) (h : overLimit cfg.rl e = true) :
    (requestSys u cfg).parse (Request.new u) s = .fail (.err .RequestLineTooLong) := by
  rw [C03_verdict]; simp [requestVerdict, hf, h]

/-- request line within its limit but not text -/
theorem C03_cat_not_text (u : UriImpl) (cfg : ReqCfg) {s : Bytes} {e : Nat}
    (hf : findCrlf s = some e) (hrl : overLimit cfg.rl e = false) (h : validUtf8 (s.take e) = false) :
    (requestSys u cfg).parse (Request.new u) s = .fail (.err .RequestLineNotValidText) := by
  rw [C03_verdict]; simp [requestVerdict, hf, hrl, h]

/-- a request line that is text, within the limits, but outside the grammar: the category is the one
    `parseRequestLine` names — no method delimiter, empty method, no target delimiter, empty target, invalid URI,
    wrong protocol, each characterised declaratively by `C03_request_line_category` -/
theorem C03_cat_request_line (u : UriImpl) (cfg : ReqCfg) {s : Bytes} {e t1 : Nat} {c : Cat}
    (hf : findCrlf s = some e) (hrl : overLimit cfg.rl e = false) (hv : validUtf8 (s.take e) = true)
    (hc : countR cfg.max 0 (e + 2) = .ok t1) (h : parseRequestLine u (s.take e) = .error c) :
    (requestSys u cfg).parse (Request.new u) s = .fail (.err c) := by
  rw [C03_verdict]; simp [requestVerdict, hf, hrl, hv, hc, h]

/-- a well-formed request line followed by a header block the header parser rejects: a header error with the
    header parser's category, however many bytes follow -/
theorem C03_cat_header (u : UriImpl) (cfg : ReqCfg) {s m : Bytes} {tg : u.U} {e t1 : Nat} {he : HErr}
    (hf : findCrlf s = some e) (hrl : overLimit cfg.rl e = false) (hv : validUtf8 (s.take e) = true)
    (hc : countR cfg.max 0 (e + 2) = .ok t1) (hp : parseRequestLine u (s.take e) = .ok (m, tg))
    (h : Headers.parse cfg.hl [] (stripDanglingCr (s.drop (e + 2))) = .error he) :
    (requestSys u cfg).parse (Request.new u) s = .fail (.err (.Headers he)) := by
  rw [C03_verdict]; simp [requestVerdict, hf, hrl, hv, hc, hp, h]

/-- request line and header block complete and well-formed, Content-Length not a number in RFC form -/
theorem C03_cat_content_length (u : UriImpl) (cfg : ReqCfg) {s m v : Bytes} {tg : u.U} {e t1 t2 c : Nat} {hs : List Header}
    (hf : findCrlf s = some e) (hrl : overLimit cfg.rl e = false) (hv : validUtf8 (s.take e) = true)
    (hc : countR cfg.max 0 (e + 2) = .ok t1) (hp : parseRequestLine u (s.take e) = .ok (m, tg))
    (hh : Headers.parse cfg.hl [] (stripDanglingCr (s.drop (e + 2))) = .ok (hs, .complete, c))
    (hc2 : countR cfg.max t1 c = .ok t2)
    (hval : headerValue hs kContentLength = some v) (h : parseNumber ⟨true⟩ 10 v = none) :
    (requestSys u cfg).parse (Request.new u) s = .fail (.err .InvalidContentLength) := by
  rw [C03_verdict]; simp [requestVerdict, bodyVerdict, hf, hrl, hv, hc, hp, hh, hc2, hval, h]

/-- the accounting fails only with the category "too long", and only when a maximum is set -/
theorem countR_error {max : Option Nat} {t b : Nat} {f : Fail} (h : countR max t b = .error f) :
    f = .err .MessageTooLong ∧ max.isSome = true := by
  unfold countR at h
  split at h
  · split at h
    · rename_i ho
      simp at h; subst h
      refine ⟨rfl, ?_⟩
      unfold overLimit at ho; cases max <;> simp_all
    · simp at h
  · split at h
    · rename_i hs; simp at h; exact ⟨h.symm, hs⟩
    · simp at h

/-- C03: once the request line and the header block are complete (and nothing offends), the answer is "more
    input" only if body bytes are still missing: every other defect has been reported by then -/
theorem C03_rejected_by_block_end (u : UriImpl) (cfg : ReqCfg) {s : Bytes} {e c : Nat} {hs : List Header}
    {st : ReqState u} {n : Nat}
    (hf : findCrlf s = some e)
    (hh : Headers.parse cfg.hl [] (stripDanglingCr (s.drop (e + 2))) = .ok (hs, .complete, c))
    (h : (requestSys u cfg).parse (Request.new u) s = .ok .incomplete st n) :
    ∃ v cl, headerValue hs kContentLength = some v ∧ parseNumber ⟨true⟩ 10 v = some cl ∧
      ((s.drop (e + 2)).drop c).length < cl ∧ st.body = (s.drop (e + 2)).drop c ∧ n = s.length := by
  rw [C03_verdict] at h
  unfold requestVerdict at h
  simp only [hf] at h
  split at h
  · simp at h
  · split at h
    · simp at h
    · split at h
      · simp at h
      · split at h
        · simp at h
        · simp only [hh] at h
          split at h
          · simp at h
          · unfold bodyVerdict at h
            split at h
            · simp at h
            · split at h
              · simp at h
              · rename_i v hv _ cl hn
                split at h
                · simp at h
                · simp only at h
                  split at h
                  · simp at h
                  · rename_i hlen
                    split at h
                    · simp at h
                    · simp only [PRes.ok.injEq, true_and] at h
                      obtain ⟨rfl, rfl⟩ := h
                      have hc := parseLoop_consumed (by unfold Headers.parse at hh; exact hh)
                      have hsl := strip_length_le (s.drop (e + 2))
                      have he := findCrlf_lt hf
                      refine ⟨v, cl, hv, hn, by omega, rfl, ?_⟩
                      simp only [List.length_drop] at hc hsl ⊢
                      omega
