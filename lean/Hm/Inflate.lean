import Hm.Reader

/-! RFC 1951 inflate, RFC 1952 gzip member, RFC 1950 zlib wrapper, CRC-32, Adler-32 — as flate2/miniz_oxide
    behave on valid streams, their truncations and container-field edits -/

theorem Local.getPos : Local _root_.getPos where
  mono := by intro i p a p' h; simp [_root_.getPos] at h; omega
  agree := by intro i j p a p' h _; simpa [_root_.getPos] using h
  cut := by intro i j p a p' n h h1 h2; simp [_root_.getPos] at h; omega

/-- skip to the next byte boundary by reading (and ignoring) the padding bits -/
def alignRead : R Unit := R.bind getPos fun p => R.bind (readBits ((8 - p % 8) % 8)) fun _ => R.pure ()

theorem Local.alignRead : Local alignRead :=
  Local.bind Local.getPos fun _ => Local.bind (Local.readBits _) fun _ => Local.pure _

def readByte : R UInt8 := R.bind (readBits 8) fun v => R.pure v.toUInt8
theorem Local.readByte : Local readByte := Local.bind (Local.readBits 8) fun _ => Local.pure _

/-- `n` bytes -/
def readBytes : Nat → R (List UInt8)
  | 0 => R.pure []
  | n + 1 => R.bind readByte fun b => R.bind (readBytes n) fun bs => R.pure (b :: bs)
theorem Local.readBytes (n : Nat) : Local (readBytes n) := by
  induction n with
  | zero => exact Local.pure _
  | succ n ih => exact Local.bind Local.readByte fun _ => Local.bind ih fun _ => Local.pure _

/-! ### canonical Huffman codes -/

structure Huff where
  counts : Array Nat     -- counts[len], len = 0..15
  symbols : Array Nat    -- symbols ordered by (length, value)

def mkHuff (lens : List Nat) : Huff :=
  let counts := (List.range 16).map (fun l => if l = 0 then 0 else (lens.filter (· == l)).length)
  let symbols := (List.range 16).flatMap fun l =>
    if l = 0 then [] else ((List.range lens.length).filter fun s => lens.getD s 0 == l)
  { counts := counts.toArray, symbols := symbols.toArray }

/-- bit-by-bit canonical decoding (as in zlib's `puff`) -/
def decodeSymAux (h : Huff) : Nat → Nat → Nat → Nat → Nat → R Nat
  | 0, _, _, _, _ => R.fail .bad
  | fuel + 1, len, code, first, index =>
    R.bind readBit fun b =>
      let code := code + b.toNat
      let count := h.counts.getD len 0
      if code < first + count then
        (match h.symbols[index + (code - first)]? with
         | some s => R.pure s
         | none => R.fail .bad)
      else decodeSymAux h fuel (len + 1) ((code) * 2) ((first + count) * 2) (index + count)

def decodeSym (h : Huff) : R Nat := decodeSymAux h 15 1 0 0 0

theorem Local.decodeSymAux (h : Huff) (fuel len code first index : Nat) :
    Local (decodeSymAux h fuel len code first index) := by
  induction fuel generalizing len code first index with
  | zero => exact Local.fail _
  | succ fuel ih =>
    unfold _root_.decodeSymAux
    apply Local.bind Local.readBit
    intro b
    simp only
    split
    · split
      · exact Local.pure _
      · exact Local.fail _
    · exact ih _ _ _ _

theorem Local.decodeSym (h : Huff) : Local (decodeSym h) := Local.decodeSymAux h _ _ _ _ _

def lenBase : Array Nat := #[3,4,5,6,7,8,9,10,11,13,15,17,19,23,27,31,35,43,51,59,67,83,99,115,131,163,195,227,258]
def lenExtra : Array Nat := #[0,0,0,0,0,0,0,0,1,1,1,1,2,2,2,2,3,3,3,3,4,4,4,4,5,5,5,5,0]
def distBase : Array Nat := #[1,2,3,4,5,7,9,13,17,25,33,49,65,97,129,193,257,385,513,769,1025,1537,2049,3073,4097,6145,8193,12289,16385,24577]
def distExtra : Array Nat := #[0,0,0,0,1,1,2,2,3,3,4,4,5,5,6,6,7,7,8,8,9,9,10,10,11,11,12,12,13,13]

/-- copy `len` bytes from `dist` back, byte by byte (overlap allowed).  A distance that reaches before the
    start of the output reads zeros: miniz_oxide, decoding into its wrapping 32 KiB window as flate2 drives it,
    does not reject such a match (`DistanceOutOfBounds` is raised only for a non-wrapping output buffer or a
    distance beyond the window) but copies from the still-zeroed part of the window -/
def copyBack : Nat → Nat → Array UInt8 → Array UInt8
  | 0, _, out => out
  | n + 1, dist, out => copyBack n dist (out.push (if dist ≤ out.size then out.getD (out.size - dist) 0 else 0))

/-- one literal/length symbol loop of a Huffman-coded block -/
def inflateCodes (lit dist : Huff) : Nat → Array UInt8 → R (Array UInt8)
  | 0, _ => R.fail .bad
  | fuel + 1, out =>
    R.bind (decodeSym lit) fun sym =>
      if sym < 256 then inflateCodes lit dist fuel (out.push sym.toUInt8)
      else if sym = 256 then R.pure out
      else if sym > 285 then R.fail .bad
      else
        R.bind (readBits (lenExtra.getD (sym - 257) 0)) fun eb =>
        let len := lenBase.getD (sym - 257) 0 + eb
        R.bind (decodeSym dist) fun ds =>
          if ds > 29 then R.fail .bad else
          R.bind (readBits (distExtra.getD ds 0)) fun db =>
          let d := distBase.getD ds 0 + db
          inflateCodes lit dist fuel (copyBack len d out)

theorem Local.inflateCodes (lit dist : Huff) (fuel : Nat) (out : Array UInt8) :
    Local (inflateCodes lit dist fuel out) := by
  induction fuel generalizing out with
  | zero => exact Local.fail _
  | succ fuel ih =>
    unfold _root_.inflateCodes
    apply Local.bind (Local.decodeSym lit)
    intro sym
    split
    · exact ih _
    · split
      · exact Local.pure _
      · split
        · exact Local.fail _
        · apply Local.bind (Local.readBits _); intro eb
          apply Local.bind (Local.decodeSym dist); intro ds
          split
          · exact Local.fail _
          · apply Local.bind (Local.readBits _); intro db
            simp only
            exact ih _

def fixedLit : Huff := mkHuff ((List.replicate 144 8) ++ (List.replicate 112 9) ++ (List.replicate 24 7) ++ (List.replicate 8 8))
def fixedDist : Huff := mkHuff (List.replicate 30 5)

def clOrder : List Nat := [16,17,18,0,8,7,9,6,10,5,11,4,12,3,13,2,14,1,15]

/-- the run-length coded code lengths of a dynamic block -/
def readLens (cl : Huff) (total : Nat) : Nat → List Nat → R (List Nat)
  | 0, _ => R.fail .bad
  | fuel + 1, acc =>
    if acc.length ≥ total then (if acc.length = total then R.pure acc else R.fail .bad) else
    R.bind (decodeSym cl) fun sym =>
      if sym < 16 then readLens cl total fuel (acc ++ [sym])
      else if sym = 16 then
        (match acc.getLast? with
         | none => R.fail .bad
         | some prev => R.bind (readBits 2) fun r => readLens cl total fuel (acc ++ List.replicate (3 + r) prev))
      else if sym = 17 then R.bind (readBits 3) fun r => readLens cl total fuel (acc ++ List.replicate (3 + r) 0)
      else R.bind (readBits 7) fun r => readLens cl total fuel (acc ++ List.replicate (11 + r) 0)

theorem Local.readLens (cl : Huff) (total fuel : Nat) (acc : List Nat) : Local (readLens cl total fuel acc) := by
  induction fuel generalizing acc with
  | zero => exact Local.fail _
  | succ fuel ih =>
    unfold _root_.readLens
    split
    · split
      · exact Local.pure _
      · exact Local.fail _
    · apply Local.bind (Local.decodeSym cl); intro sym
      split
      · exact ih _
      · split
        · split
          · exact Local.fail _
          · apply Local.bind (Local.readBits _); intro r; exact ih _
        · split
          · apply Local.bind (Local.readBits _); intro r; exact ih _
          · apply Local.bind (Local.readBits _); intro r; exact ih _

def readClLens : Nat → R (List Nat)
  | 0 => R.pure []
  | n + 1 => R.bind (readBits 3) fun v => R.bind (readClLens n) fun vs => R.pure (v :: vs)
theorem Local.readClLens (n : Nat) : Local (readClLens n) := by
  induction n with
  | zero => exact Local.pure _
  | succ n ih => exact Local.bind (Local.readBits 3) fun _ => Local.bind ih fun _ => Local.pure _

def placeCl (vals : List Nat) : List Nat :=
  (List.range 19).map fun sym =>
    match clOrder.idxOf? sym with
    | some k => vals.getD k 0
    | none => 0

def storedBlock (out : Array UInt8) : R (Array UInt8) :=
  R.bind alignRead fun _ =>
  R.bind (readBits 16) fun len =>
  R.bind (readBits 16) fun nlen =>
  if len + nlen ≠ 65535 then R.fail .bad else
  R.bind (readBytes len) fun bs => R.pure (bs.foldl Array.push out)

theorem Local.storedBlock (out : Array UInt8) : Local (storedBlock out) := by
  unfold _root_.storedBlock
  apply Local.bind Local.alignRead; intro _
  apply Local.bind (Local.readBits 16); intro len
  apply Local.bind (Local.readBits 16); intro nlen
  split
  · exact Local.fail _
  · exact Local.bind (Local.readBytes _) fun _ => Local.pure _

/-- miniz_oxide `init_tree`: no code length may be over-subscribed, and an incomplete code is accepted only
    for a literal/length or distance table whose longest code has length at most 1 (the code-length code must
    always be complete) -/
def validTable (isCodeLength : Bool) (lens : List Nat) : Bool :=
  let cnt (l : Nat) : Nat := (lens.filter (· == l)).length
  let step (acc : Option Nat) (l : Nat) : Option Nat :=
    acc.bind fun left => if 2 * left < cnt l then none else some (2 * left - cnt l)
  match (List.range' 1 15).foldl step (some 1) with
  | none => false
  | some left => left == 0 || (!isCodeLength && (List.range' 2 14).all fun l => cnt l == 0)

def dynamicBlock (fuel : Nat) (out : Array UInt8) : R (Array UInt8) :=
  R.bind (readBits 5) fun hlit =>
  R.bind (readBits 5) fun hdist =>
  R.bind (readBits 4) fun hclen =>
  R.bind (readClLens (hclen + 4)) fun clv =>
  if !validTable true (placeCl clv) then R.fail .bad else
  let cl := mkHuff (placeCl clv)
  R.bind (readLens cl (hlit + 257 + hdist + 1) (hlit + hdist + 400) []) fun lens =>
  if hlit + 257 > 286 ∨ hdist + 1 > 30 then R.fail .bad else
  if !validTable false (lens.take (hlit + 257)) || !validTable false (lens.drop (hlit + 257)) then R.fail .bad else
  inflateCodes (mkHuff (lens.take (hlit + 257))) (mkHuff (lens.drop (hlit + 257))) fuel out

theorem Local.dynamicBlock (fuel : Nat) (out : Array UInt8) : Local (dynamicBlock fuel out) := by
  unfold _root_.dynamicBlock
  apply Local.bind (Local.readBits 5); intro hlit
  apply Local.bind (Local.readBits 5); intro hdist
  apply Local.bind (Local.readBits 4); intro hclen
  apply Local.bind (Local.readClLens _); intro clv
  split
  · exact Local.fail _
  · simp only
    apply Local.bind (Local.readLens _ _ _ _); intro lens
    split
    · exact Local.fail _
    · split
      · exact Local.fail _
      · exact Local.inflateCodes _ _ _ _

/-- the block loop; `fuel` bounds both the number of blocks and the symbols per block -/
def inflateBlocks (symFuel : Nat) : Nat → Array UInt8 → R (Array UInt8)
  | 0, _ => R.fail .bad
  | fuel + 1, out =>
    R.bind readBit fun bfinal =>
    R.bind (readBits 2) fun btype =>
    R.bind (if btype = 0 then storedBlock out
            else if btype = 1 then inflateCodes fixedLit fixedDist symFuel out
            else if btype = 2 then dynamicBlock symFuel out
            else R.fail .bad) fun out' =>
    if bfinal then R.pure out' else inflateBlocks symFuel fuel out'

theorem Local.inflateBlocks (symFuel fuel : Nat) (out : Array UInt8) : Local (inflateBlocks symFuel fuel out) := by
  induction fuel generalizing out with
  | zero => exact Local.fail _
  | succ fuel ih =>
    unfold _root_.inflateBlocks
    apply Local.bind Local.readBit; intro bfinal
    apply Local.bind (Local.readBits 2); intro btype
    apply Local.bind
    · split
      · exact Local.storedBlock _
      · split
        · exact Local.inflateCodes _ _ _ _
        · split
          · exact Local.dynamicBlock _ _
          · exact Local.fail _
    · intro out'
      split
      · exact Local.pure _
      · exact ih _

/-- raw RFC 1951 stream starting at the current position -/
def inflateR (nbits : Nat) : R (Array UInt8) := inflateBlocks (nbits + 1) (nbits + 1) #[]
theorem Local.inflateR (nbits : Nat) : Local (inflateR nbits) := Local.inflateBlocks _ _ _

/-! ### checksums -/

def crcTable : Array UInt32 := (Array.range 256).map fun n =>
  (List.range 8).foldl (fun (c : UInt32) _ => if c &&& 1 == 1 then (0xEDB88320 : UInt32) ^^^ (c >>> 1) else c >>> 1) n.toUInt32

def crc32 (bs : Array UInt8) : UInt32 :=
  (bs.foldl (fun (c : UInt32) b => (crcTable.getD ((c ^^^ b.toUInt32) &&& 0xFF).toNat 0) ^^^ (c >>> 8)) 0xFFFFFFFF) ^^^ 0xFFFFFFFF

def adler32 (bs : Array UInt8) : Nat :=
  let (a, b) := bs.foldl (fun (ab : Nat × Nat) x => let a := (ab.1 + x.toNat) % 65521; (a, (ab.2 + a) % 65521)) (1, 0)
  b * 65536 + a

/-! ### gzip member (RFC 1952), as flate2's `GzDecoder` reads it -/

def readCString : Nat → R (List UInt8)
  | 0 => R.fail .bad
  | fuel + 1 => R.bind readByte fun b => if b = 0 then R.pure [] else R.bind (readCString fuel) fun bs => R.pure (b :: bs)
theorem Local.readCString (fuel : Nat) : Local (readCString fuel) := by
  induction fuel with
  | zero => exact Local.fail _
  | succ fuel ih =>
    unfold _root_.readCString
    apply Local.bind Local.readByte; intro b
    split
    · exact Local.pure _
    · exact Local.bind ih fun _ => Local.pure _

def gunzipR (nbits : Nat) : R (Array UInt8) :=
  R.bind (readBytes 10) fun hdr =>
  if hdr.getD 0 0 ≠ 0x1f ∨ hdr.getD 1 0 ≠ 0x8b ∨ hdr.getD 2 0 ≠ 8 then R.fail .bad else
  let flg := (hdr.getD 3 0).toNat
  if flg &&& 0xE0 ≠ 0 then R.fail .bad else
  R.bind (if flg &&& 4 ≠ 0 then R.bind (readBits 16) fun xlen => R.bind (readBytes xlen) fun x => R.pure (some (xlen, x)) else R.pure none) fun extra =>
  R.bind (if flg &&& 8 ≠ 0 then R.bind (readCString 65537) fun s => R.pure (some s) else R.pure none) fun name =>
  R.bind (if flg &&& 16 ≠ 0 then R.bind (readCString 65537) fun s => R.pure (some s) else R.pure none) fun comment =>
  R.bind (if flg &&& 2 ≠ 0 then R.bind (readBits 16) fun c => R.pure (some c) else R.pure none) fun hcrc =>
  let hdrBytes : List UInt8 := hdr
    ++ (match extra with | some (xlen, x) => [(xlen % 256).toUInt8, (xlen / 256).toUInt8] ++ x | none => [])
    ++ (match name with | some s => s ++ [0] | none => [])
    ++ (match comment with | some s => s ++ [0] | none => [])
  if (match hcrc with | some c => c != (crc32 hdrBytes.toArray).toNat % 65536 | none => false) then R.fail .bad else
  R.bind (inflateR nbits) fun out =>
  R.bind alignRead fun _ =>
  R.bind (readBits 32) fun crc =>
  R.bind (readBits 32) fun isize =>
  if crc ≠ (crc32 out).toNat ∨ isize ≠ out.size % 4294967296 then R.fail .bad else R.pure out

def zlibR (nbits : Nat) : R (Array UInt8) :=
  R.bind readByte fun cmf =>
  R.bind readByte fun flg =>
  if (cmf.toNat * 256 + flg.toNat) % 31 ≠ 0 ∨ flg.toNat &&& 32 ≠ 0 ∨ cmf.toNat &&& 15 ≠ 8 ∨ cmf.toNat / 16 > 7 then R.fail .bad else
  R.bind (inflateR nbits) fun out =>
  R.bind alignRead fun _ =>
  R.bind (readBytes 4) fun ad =>
  let stored := ad.foldl (fun acc b => acc * 256 + b.toNat) 0
  if stored ≠ adler32 out then R.fail .bad else R.pure out

def runR (m : Nat → R (Array UInt8)) (bs : Bytes) : Option Bytes :=
  let arr := bs.toArray
  match m (8 * arr.size) (inpOfBytes arr) 0 with
  | .ok (out, _) => some out.toList
  | .error _ => none

def gunzip (bs : Bytes) : Option Bytes := runR gunzipR bs
def inflateRaw (bs : Bytes) : Option Bytes := runR inflateR bs
def zlibDecode (bs : Bytes) : Option Bytes := runR zlibR bs
