import Hm.ReqLaws5
import Hm.C02

/-! Two ways of cutting the same stream end alike — in particular deliveries without a byte, wherever they are put,
    change nothing (twelfth round: a body collected so far lost on an empty call; a trailer taken as finished).
    Corollaries of C01 / C02 (`Sys.run_flatten`), which quantify over every delivery list. -/

namespace Sys

theorem Equiv.symm {ε σ : Type} {a b : GConn ε σ} (h : Equiv a b) : Equiv b a := by
  unfold Equiv at h ⊢
  rcases h with ⟨h1, h2⟩ | ⟨h1, h2, h3, h4, h5⟩
  · exact Or.inl ⟨h2, h1⟩
  · refine Or.inr ⟨h2, h1, ?_, h4.symm, h5.symm⟩
    cases ha : a.verdict <;> cases hb : b.verdict <;> simp [ha, hb] at h3 ⊢

/-- generic: from any connection state whose parser state satisfies the invariant, two delivery lists with the same
    concatenation end alike -/
theorem run_same_stream {ε σ : Type} {M : Sys ε σ} {Inv : σ → Prop} (L : M.Lawful Inv) (c : GConn ε σ) (hI : Inv c.st)
    (d d' : Bytes) (ds ds' : List Bytes) (h : d ++ ds.flatten = d' ++ ds'.flatten) :
    Equiv (M.run c (d :: ds)) (M.run c (d' :: ds')) := by
  have h1 := run_flatten L c hI d ds
  have h2 := run_flatten L c hI d' ds'
  rw [h] at h1
  exact Equiv.trans h1 (Equiv.symm h2)

end Sys

/-- C05: the chunked-body decoder on its own, empty deliveries included -/
theorem C05_chunk_same_stream (d d' : Bytes) (ds ds' : List Bytes) (h : d ++ ds.flatten = d' ++ ds'.flatten) :
    let c0 : GConn Fail ChunkState := { st := ChunkState.new, pending := [], total := 0, verdict := .more }
    Sys.Equiv (chunkSys.run c0 (d :: ds)) (chunkSys.run c0 (d' :: ds')) :=
  Sys.run_same_stream chunkSys_lawful _ trivial d d' ds ds' h

theorem C05_chunk_empty_delivery (d : Bytes) (ds₁ ds₂ : List Bytes) :
    let c0 : GConn Fail ChunkState := { st := ChunkState.new, pending := [], total := 0, verdict := .more }
    Sys.Equiv (chunkSys.run c0 (d :: (ds₁ ++ [] :: ds₂))) (chunkSys.run c0 (d :: (ds₁ ++ ds₂))) := by
  apply C05_chunk_same_stream
  simp

/-- C01: any two delivery lists with the same concatenation (both non-empty as lists) -/
theorem C01_request_same_stream (u : UriImpl) (cfg : ReqCfg) (d d' : Bytes) (ds ds' : List Bytes)
    (h : d ++ ds.flatten = d' ++ ds'.flatten) :
    let c0 : GConn Fail (ReqState u) := { st := Request.new u, pending := [], total := 0, verdict := .more }
    Sys.Equiv ((requestSys u cfg).run c0 (d :: ds)) ((requestSys u cfg).run c0 (d' :: ds')) := by
  intro c0
  have h1 := C01_request_delivery_independent u cfg d ds
  have h2 := C01_request_delivery_independent u cfg d' ds'
  simp only at h1 h2
  rw [h] at h1
  exact Sys.Equiv.trans h1 (Sys.Equiv.symm h2)

/-- C01: empty deliveries inserted anywhere (here: one, between any two parts of the list) are irrelevant -/
theorem C01_request_empty_delivery (u : UriImpl) (cfg : ReqCfg) (d : Bytes) (ds₁ ds₂ : List Bytes) :
    let c0 : GConn Fail (ReqState u) := { st := Request.new u, pending := [], total := 0, verdict := .more }
    Sys.Equiv ((requestSys u cfg).run c0 (d :: (ds₁ ++ [] :: ds₂))) ((requestSys u cfg).run c0 (d :: (ds₁ ++ ds₂))) := by
  apply C01_request_same_stream
  simp

theorem C02_response_same_stream (hl : Option Nat) (d d' : Bytes) (ds ds' : List Bytes)
    (h : d ++ ds.flatten = d' ++ ds'.flatten) :
    let c0 : GConn Fail RespState := { st := Response.new, pending := [], total := 0, verdict := .more }
    Sys.Equiv ((respSys hl).run c0 (d :: ds)) ((respSys hl).run c0 (d' :: ds')) := by
  intro c0
  have h1 := C02_response_delivery_independent hl d ds
  have h2 := C02_response_delivery_independent hl d' ds'
  simp only at h1 h2
  rw [h] at h1
  exact Sys.Equiv.trans h1 (Sys.Equiv.symm h2)

theorem C02_response_empty_delivery (hl : Option Nat) (d : Bytes) (ds₁ ds₂ : List Bytes) :
    let c0 : GConn Fail RespState := { st := Response.new, pending := [], total := 0, verdict := .more }
    Sys.Equiv ((respSys hl).run c0 (d :: (ds₁ ++ [] :: ds₂))) ((respSys hl).run c0 (d :: (ds₁ ++ ds₂))) := by
  apply C02_response_same_stream
  simp
