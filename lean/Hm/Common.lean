import Hm.Rhymessage

/-- error.rs variants (payloads dropped) -/
inductive Cat where
  | ChunkSizeLineNotValidText | Headers (e : HErr) | InvalidChunkSize | InvalidChunkTerminator
  | InvalidContentLength | InvalidStatusCode | MessageTooLong
  | RequestLineNoMethodDelimiter | RequestLineNoMethodOrExtraWhitespace
  | RequestLineNoTargetDelimiter | RequestLineNoTargetOrExtraWhitespace
  | RequestLineNotValidText | RequestLineProtocol | RequestLineTooLong | RequestTargetUriInvalid
  | StatusCodeOutOfRange | StatusLineNoProtocolDelimiter | StatusLineNoStatusCodeDelimiter
  | StatusLineNotValidText | StatusLineProtocol | Trailer (e : HErr)
deriving DecidableEq, Repr

inductive Status where | complete | incomplete
deriving DecidableEq, Repr
inductive Internal where | completePart | completeWhole | incomplete
deriving DecidableEq, Repr

abbrev Out := Outcome Cat

def liftH (f : HErr → Cat) : Except HErr α → Out α
  | .ok a => .ok a
  | .error e => .err (f e)

def http11 : Bytes := kHttp11

/-- which tree is being described: the pinned one or the one with the candidate repairs F1-F7 -/
structure Tree where
  repaired : Bool

/-- numeric fields: pinned = Rust's parser as is; repaired = no leading `+` (F4) -/
def parseNumber (t : Tree) (radix : Nat) (s : Bytes) : Option Nat :=
  if t.repaired && s.head? = some PLUS then none else rustParseUnsigned radix usizeMax s

/-- a dangling CR does not count (F1 / F1b) -/
def stripDanglingCr (raw : Bytes) : Bytes :=
  if raw.getLast? = some CR then raw.dropLast else raw
