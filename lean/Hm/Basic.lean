def hello := "world"
