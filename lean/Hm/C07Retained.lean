import Hm.Retained
import Hm.RespSys
import Hm.C03Grammar
import Hm.ReqLaws5
import Hm.RespLaws
import Hm.C10Req

/-! C07, first sentence ("the memory the library requests is bounded by a constant plus a small multiple of the
    bytes actually presented"), as far as the model can carry it: **what the parsers retain is bounded by what
    they consumed**.  The measure counts every byte string a parser state holds — method, reason phrase, header
    names and values, body, de-chunking buffer, trailer fields, trailing data — and the theorems say that, from a
    fresh parser and under any delivery schedule, it never exceeds the number of input bytes consumed so far
    (plus the few bytes of the initial `GET` / `OK` and, once a chunked response has been completed, the
    `Content-Length` field the library writes itself).  No declared length appears in the bound.  Together with
    `C07_*_reserve_bounded` (every explicit reservation ≤ the bytes presented to the call) what is left to
    observation is the growth policy of `Vec` / `String` (amortised doubling: capacity ≤ 2 × length +
    reservation), which the counting allocator measures. -/

def hdrSize (hs : List Header) : Nat := (hs.map fun h => h.name.length + h.value.length).sum

theorem hdrSize_append (a b : List Header) : hdrSize (a ++ b) = hdrSize a + hdrSize b := by
  simp [hdrSize]

theorem hdrSize_filter_le (p : Header → Bool) (hs : List Header) : hdrSize (hs.filter p) ≤ hdrSize hs := by
  induction hs with
  | nil => simp [hdrSize]
  | cons h t ih =>
    simp only [List.filter_cons]
    split
    · simp [hdrSize] at ih ⊢; omega
    · simp [hdrSize] at ih ⊢; omega

theorem trimBy_length_le (p : UInt8 → Bool) (v : Bytes) : (trimBy p v).length ≤ v.length := by
  unfold trimBy trimEndBy trimStartBy
  have h1 := (List.dropWhile_sublist p (l := v)).length_le
  have h2 := (List.dropWhile_sublist p (l := (v.dropWhile p).reverse)).length_le
  simp at h2 ⊢
  omega

/-- unfolding a field value: every continuation line adds at most its own length plus one -/
theorem unfold_size {fuel : Nat} {raw value v : Bytes} {consumed n : Nat}
    (h : unfold fuel raw value consumed = .ok (some (v, n))) :
    v.length + consumed ≤ value.length + n := by
  induction fuel generalizing raw value consumed with
  | zero => simp [unfold] at h
  | succ fuel ih =>
    unfold unfold at h
    split at h
    · simp at h
    · rename_i i hf
      simp only at h
      split at h
      · simp at h
      · split at h
        · split at h
          · simp at h
          · have := ih h
            have ht := trimBy_length_le isWsp (List.take i raw)
            have hl := findCrlf_lt hf
            simp [trimWsp] at this ht
            omega
        · simp at h; obtain ⟨rfl, rfl⟩ := h; omega

theorem parseFirstLine_size {line name v0 : Bytes} (h : parseFirstLine line = .ok (name, v0)) :
    name.length + v0.length + 1 ≤ line.length := by
  unfold parseFirstLine at h
  split at h
  · simp at h
  · split at h
    · simp at h
    · rename_i c hc
      split at h
      · simp at h
      · split at h
        · simp at h
        · simp at h; obtain ⟨rfl, rfl⟩ := h
          have := congrArg List.length (findByte_some hc).1
          simp at this ⊢; omega

theorem headerStep_field_size {limit : Option Nat} {rest : Bytes} {h : Header} {n : Nat}
    (hs : headerStep limit rest = .ok (.field h n)) : h.name.length + h.value.length ≤ n := by
  unfold headerStep at hs
  split at hs
  · simp at hs
  · split at hs
    · split at hs <;> simp at hs
    · rename_i i hf
      split at hs
      · simp at hs
      · split at hs
        · simp at hs
        · split at hs
          · simp at hs
          · rename_i name v0 hp
            have h1 := parseFirstLine_size hp
            have hl := findCrlf_lt hf
            cases hu : unfold (rest.length + 1) (rest.drop (i + 2)) v0 0 with
            | error e => simp [hu, finishField] at hs
            | ok r =>
              cases r with
              | none => simp [hu, finishField] at hs
              | some p =>
                obtain ⟨v, m⟩ := p
                have h2 := unfold_size hu
                simp [hu, finishField] at hs
                obtain ⟨rfl, rfl⟩ := hs
                have ht := trimBy_length_le isWsp v
                simp [trimWsp] at h1 ⊢
                omega

theorem parseLoop_size {limit : Option Nat} {fuel : Nat} {hs hs' : List Header} {rest : Bytes} {off c : Nat}
    {st : HStatus} (h : parseLoop limit fuel hs rest off = .ok (hs', st, c)) :
    hdrSize hs' + off ≤ hdrSize hs + c := by
  induction fuel generalizing hs rest off with
  | zero => simp [parseLoop] at h; obtain ⟨rfl, _, rfl⟩ := h; omega
  | succ fuel ih =>
    unfold parseLoop at h
    split at h
    · simp at h
    · simp at h; obtain ⟨rfl, _, rfl⟩ := h; omega
    · simp at h; obtain ⟨rfl, _, rfl⟩ := h; omega
    · rename_i hd n hstep
      have := ih h
      have hf := headerStep_field_size hstep
      rw [hdrSize_append] at this
      have h1 : hdrSize [hd] = hd.name.length + hd.value.length := by simp [hdrSize]
      omega

/-- the header parser retains at most what it consumed -/
theorem Headers.parse_size {limit : Option Nat} {hs hs' : List Header} {raw : Bytes} {st : HStatus} {c : Nat}
    (h : Headers.parse limit hs raw = .ok (hs', st, c)) : hdrSize hs' ≤ hdrSize hs + c := by
  have := parseLoop_size h
  omega

/-! ### requests -/

variable {u : UriImpl}

/-- bytes held by a request parser (the target is held as a parsed URI of the abstract implementation `u` and is
    not counted: it is built from the request line, which is bounded by its own limit and by the bytes consumed) -/
def reqRetained (s : ReqState u) : Nat := s.method.length + hdrSize s.headers + s.body.length

theorem parseRequestLine_method_le {line m : Bytes} {t : u.U} (h : parseRequestLine u line = .ok (m, t)) :
    m.length ≤ line.length := by
  unfold parseRequestLine at h
  split at h
  · simp at h
  · split at h
    · simp at h
    · simp only at h
      split at h
      · simp at h
      · split at h
        · simp at h
        · split at h
          · simp at h
          · split at h
            · simp at h; obtain ⟨rfl, _⟩ := h; simp; omega
            · simp at h

theorem reqStep_grows (cfg : ReqCfg) : (requestSys u cfg).Grows (fun s => reqRetained s) (fun _ => 0) := by
  intro s b i s' c h
  simp only [Nat.add_zero, ite_self]
  change reqStep u cfg s b = _ at h
  unfold reqStep at h
  split at h
  · -- body
    unfold bodyStep at h
    split at h
    · simp at h
    · split at h
      · simp at h; obtain ⟨_, rfl, rfl⟩ := h
        simp [reqRetained]; omega
      · split at h
        · simp at h
        · simp at h; obtain ⟨_, rfl, rfl⟩ := h
          simp [reqRetained]; omega
  · -- headers
    unfold hdrStep at h
    split at h
    · simp at h
    · rename_i hs st c0 hp
      have hsz := Headers.parse_size hp
      split at h
      · simp at h
      · rename_i t ht
        split at h
        · split at h
          · simp at h
          · simp at h; obtain ⟨_, rfl, rfl⟩ := h
            simp [reqRetained]; omega
        · unfold afterHeaders at h
          split at h
          · simp at h; obtain ⟨_, rfl, rfl⟩ := h
            simp [reqRetained]; omega
          · split at h
            · simp at h
            · split at h
              · simp at h
              · simp at h; obtain ⟨_, rfl, rfl⟩ := h
                simp [reqRetained]; omega
  · -- request line
    unfold rlStep at h
    split at h
    · split at h
      · simp at h
      · split at h
        · simp at h
        · simp at h; obtain ⟨_, rfl, rfl⟩ := h; omega
    · rename_i e hf
      split at h
      · simp at h
      · split at h
        · simp at h
        · split at h
          · simp at h
          · split at h
            · simp at h
            · rename_i m tg hpl
              have := parseRequestLine_method_le hpl
              simp at h; obtain ⟨_, rfl, rfl⟩ := h
              simp [reqRetained] at this ⊢
              have hl := findCrlf_lt hf
              omega

def reqFresh (u : UriImpl) : GConn Fail (ReqState u) :=
  { st := Request.new u, pending := [], total := 0, verdict := .more }

/-- **C07 (first sentence), requests.**  For every URI implementation, every limit configuration (including
    none at all) and every list of deliveries to a fresh parser: the bytes the parser holds — method, header
    names and values, body — are at most the three bytes of the initial `GET` plus the input bytes consumed so
    far.  A declared Content-Length, however large, contributes nothing. -/
theorem C07_request_retained_bounded (u : UriImpl) (cfg : ReqCfg) (ds : List Bytes) :
    reqRetained ((requestSys u cfg).run (reqFresh u) ds).st ≤ 3 + ((requestSys u cfg).run (reqFresh u) ds).total := by
  have := Sys.run_size (reqStep_grows (u := u) cfg) (reqFresh u) (by simp [reqFresh, GVerdict.isComplete]) ds
  have h0 : reqRetained (Request.new u) = 3 := by simp [reqRetained, Request.new, hdrSize, kGet]
  have h1 : (reqFresh u).total = 0 := rfl
  have h2 : (reqFresh u).st = Request.new u := rfl
  rw [h1, h2, h0] at this
  generalize (requestSys u cfg).run (reqFresh u) ds = r at this ⊢
  by_cases hc : r.verdict.isComplete = true <;> simp [hc] at this <;> omega

/-- with every byte the caller delivers counted: consumed ≤ delivered -/
theorem C07_request_retained_vs_delivered (u : UriImpl) (cfg : ReqCfg) (ds : List Bytes) :
    reqRetained ((requestSys u cfg).run (reqFresh u) ds).st ≤ 3 + (ds.map List.length).sum := by
  have h1 := C07_request_retained_bounded u cfg ds
  have h2 := Sys.run_total_le (requestSys_lawful (u := u) cfg) (reqFresh u) (fun _ => reqInv_new cfg) ds
  have e1 : (reqFresh u).total = 0 := rfl
  have e2 : (reqFresh u).pending.length = 0 := rfl
  rw [e1, e2] at h2
  omega

/-! ### chunked bodies and responses -/

def chunkRetained (c : ChunkState) : Nat := c.buffer.length + hdrSize c.trailer

theorem chunkStep_grows : chunkSys.Grows chunkRetained (fun _ => 0) := by
  intro c b i c' n h
  simp only [Nat.add_zero, ite_self]
  change chunkStep c b = _ at h
  unfold chunkStep at h
  split at h
  · unfold cdataStep at h
    simp only at h
    split at h
    · simp at h; obtain ⟨_, rfl, rfl⟩ := h; simp [chunkRetained]; omega
    · simp at h; obtain ⟨_, rfl, rfl⟩ := h; simp [chunkRetained]; omega
  · unfold csizeStep at h
    split at h
    · simp at h; obtain ⟨_, rfl, rfl⟩ := h; omega
    · split at h
      · simp at h
      · split at h
        · simp at h
        · simp at h; obtain ⟨_, rfl, rfl⟩ := h; simp [chunkRetained]
  · unfold ctermStep at h
    split at h
    · simp at h; obtain ⟨_, rfl, rfl⟩ := h; omega
    · split at h
      · simp at h; obtain ⟨_, rfl, rfl⟩ := h; omega
      · simp at h
    · split at h
      · simp at h; obtain ⟨_, rfl, rfl⟩ := h; simp [chunkRetained]
      · simp at h
  · unfold ctrailerStep at h
    split at h
    · simp at h
    · rename_i hs n0 hp
      have := Headers.parse_size hp
      simp at h; obtain ⟨_, rfl, rfl⟩ := h; simp [chunkRetained]; omega
    · rename_i hs n0 hp
      have := Headers.parse_size hp
      simp at h; obtain ⟨_, rfl, rfl⟩ := h; simp [chunkRetained]; omega

/-- **C07 (first sentence), chunk decoder, from any state**: one `decode` call lets the de-chunking buffer and
    the trailer fields grow by at most the bytes it consumed — never by an announced chunk size -/
theorem C07_chunk_retained_bounded {c c' : ChunkState} {raw : Bytes} {st : Status} {n : Nat}
    (h : chunkSys.parse c raw = .ok st c' n) : chunkRetained c' ≤ chunkRetained c + n := by
  have := Sys.parse_size chunkStep_grows h
  simp at this; omega

/-- bytes held by a response parser: reason phrase, header names and values, body, and — while a chunked body is
    being decoded — the de-chunking buffer and the trailer fields read so far -/
def respRetained (s : RespState) : Nat :=
  s.reasonPhrase.length + hdrSize s.headers + s.body.length +
    (match s.phase with | .chunkedBody cs => chunkRetained cs | _ => 0)

theorem parseStatusLine_reason_le {t : Tree} {line reason : Bytes} {code : Nat}
    (h : parseStatusLine t line = .ok (code, reason)) : reason.length ≤ line.length := by
  unfold parseStatusLine at h
  split at h
  · simp at h
  · split at h
    · simp at h
    · simp only at h
      split at h
      · simp at h
      · split at h
        · simp at h
        · split at h
          · simp at h; obtain ⟨_, rfl⟩ := h; simp; try omega
          · simp at h

/-- size of the payload of a response state, the part a declared length could be aimed at -/
def respPayload (s : RespState) : Nat :=
  s.body.length + (match s.phase with | .chunkedBody cs => cs.buffer.length | _ => 0)

theorem dechunkRewrite_body (t : Tree) (s : RespState) (c : ChunkState) :
    (dechunkRewrite t s c).body = c.buffer ∧ (dechunkRewrite t s c).phase = .statusLine ∧
    (dechunkRewrite t s c).reasonPhrase = s.reasonPhrase := by
  simp [dechunkRewrite]

/-- every step of the response parser lets the retained bytes grow by at most what it consumed; the step that
    completes the message is allowed the header list it leaves behind (after de-chunking the library rewrites
    it: trailer fields appended, Transfer-Encoding re-joined, Content-Length written) -/
theorem respStep_grows (hl : Option Nat) :
    (respSys hl).Grows respRetained (fun s' => hdrSize s'.headers) := by
  intro s b i s' c h
  change respStep hl s b = _ at h
  unfold respStep at h
  split at h
  · -- chunked body
    rename_i cs hph
    unfold rchunkStep at h
    split at h
    · simp at h
    · rename_i cs' n hp
      have := C07_chunk_retained_bounded hp
      simp at h; obtain ⟨rfl, rfl, rfl⟩ := h
      have hb := dechunkRewrite_body ⟨true⟩ s cs'
      simp [respRetained, hph, hb.1, hb.2.1, hb.2.2, chunkRetained] at this ⊢
      omega
    · rename_i cs' n hp
      have := C07_chunk_retained_bounded hp
      simp at h; obtain ⟨rfl, rfl, rfl⟩ := h
      simp [respRetained, hph] at this ⊢
      omega
  · -- fixed body
    rename_i n hph
    unfold rfixedStep at h
    split at h
    · simp at h
    · split at h
      · simp at h; obtain ⟨rfl, rfl, rfl⟩ := h
        simp [respRetained, hph]; omega
      · simp at h; obtain ⟨rfl, rfl, rfl⟩ := h
        simp [respRetained, hph]; omega
  · -- headers
    rename_i hph
    unfold rhdrStep at h
    split at h
    · simp at h
    · rename_i hs c0 hp
      have := Headers.parse_size hp
      simp at h; obtain ⟨rfl, rfl, rfl⟩ := h
      simp [respRetained, hph]; omega
    · rename_i hs c0 hp
      have := Headers.parse_size hp
      unfold rframing at h
      split at h
      · split at h
        · simp at h
        · simp at h; obtain ⟨rfl, rfl, rfl⟩ := h
          simp [respRetained, hph]; omega
      · split at h
        · simp at h; obtain ⟨rfl, rfl, rfl⟩ := h
          have hz : hdrSize ([] : List Header) = 0 := rfl
          simp [respRetained, hph, chunkRetained, ChunkState.new, hz]; omega
        · simp at h; obtain ⟨rfl, rfl, rfl⟩ := h
          simp [respRetained, hph]; omega
  · -- status line
    rename_i hph
    unfold rstatusStep at h
    split at h
    · simp at h; obtain ⟨rfl, rfl, rfl⟩ := h; simp
    · rename_i e hf
      split at h
      · simp at h
      · split at h
        · simp at h
        · rename_i code reason hps
          have := parseStatusLine_reason_le hps
          have hl := findCrlf_lt hf
          simp at h; obtain ⟨rfl, rfl, rfl⟩ := h
          simp [respRetained, hph] at this ⊢
          omega

def respFresh : GConn Fail RespState :=
  { st := Response.new, pending := [], total := 0, verdict := .more }

/-- **C07 (first sentence), responses.**  For every header line limit and every list of deliveries to a fresh
    parser, under every framing: the bytes the parser holds — reason phrase, header names and values, body,
    de-chunking buffer, trailer fields — are at most the two bytes of the initial `OK` plus the input bytes
    consumed so far; once the message is complete, the header list the library leaves behind is allowed on top
    (see `respStep_grows`).  In particular the payload buffers (`respPayload`: body and de-chunking buffer) never
    exceed the bytes consumed, whatever Content-Length or chunk sizes the peer announces. -/
theorem C07_response_retained_bounded (hl : Option Nat) (ds : List Bytes) :
    respRetained ((respSys hl).run respFresh ds).st ≤ 2 + ((respSys hl).run respFresh ds).total +
      (if ((respSys hl).run respFresh ds).verdict.isComplete then hdrSize ((respSys hl).run respFresh ds).st.headers else 0) := by
  have := Sys.run_size (respStep_grows hl) respFresh (by simp [respFresh, GVerdict.isComplete]) ds
  have h0 : respRetained Response.new = 2 := by simp [respRetained, Response.new, hdrSize, kOk]
  have h1 : respFresh.total = 0 := rfl
  have h2 : respFresh.st = Response.new := rfl
  rw [h1, h2, h0] at this
  omega

theorem respPayload_le (s : RespState) : respPayload s + hdrSize s.headers ≤ respRetained s := by
  unfold respPayload respRetained
  split <;> simp [chunkRetained] <;> omega

/-- the payload buffers alone, with no allowance at all -/
theorem C07_response_payload_bounded (hl : Option Nat) (ds : List Bytes) :
    respPayload ((respSys hl).run respFresh ds).st ≤ 2 + ((respSys hl).run respFresh ds).total := by
  have h1 := C07_response_retained_bounded hl ds
  have h2 := respPayload_le ((respSys hl).run respFresh ds).st
  split at h1 <;> omega

theorem C07_response_payload_vs_delivered (hl : Option Nat) (ds : List Bytes) :
    respPayload ((respSys hl).run respFresh ds).st ≤ 2 + (ds.map List.length).sum := by
  have h1 := C07_response_payload_bounded hl ds
  have h2 := Sys.run_total_le (respSys_lawful hl) respFresh (fun _ => respInv_new) ds
  have e1 : respFresh.total = 0 := rfl
  have e2 : respFresh.pending.length = 0 := rfl
  rw [e1, e2] at h2
  omega

/-! the bound is met by a run that is not trivial (a test, evaluated by `#guard`): a chunked response that
    announces a chunk of 2^64-1 bytes and delivers three holds three payload bytes; a request that announces
    10^19 body bytes without a maximum holds the two it was given -/
#guard respPayload ((respSys none).run respFresh
    [str "HTTP/1.1 200 OK\r\nTransfer-Encoding: chunked\r\n\r\nffffffffffffffff\r\nabc"]).st = 3
#guard (((respSys none).run respFresh
    [str "HTTP/1.1 200 OK\r\nTransfer-Encoding: chunked\r\n\r\nffffffffffffffff\r\nabc"]).verdict matches .more)
#guard reqRetained ((requestSys rhymuriImpl { rl := none, hl := none, max := none, ov := true, tree := ⟨true⟩ }).run (reqFresh rhymuriImpl)
    [str "POST / HTTP/1.1\r\nContent-Length: 10000000000000000000\r\n\r\nab"]).st = 4 + 14 + 20 + 2
