import Hm.C11Full
import Hm.C12
import Hm.RustTrim

/-! C11 for chunked responses: the de-chunked message is a well-formed value whose regenerated form is the
    Content-Length-framed equivalent carrying the de-chunked body -/

/-! ### tokens are well-formed header-value material -/

theorem lower_table : ∀ n, n < 256 →
    ((isWsp n.toUInt8 || isGraphic n.toUInt8) = true → (isWsp (asciiLower n.toUInt8) || isGraphic (asciiLower n.toUInt8)) = true) ∧
    (isAsciiWs n.toUInt8 = false → isWsp (asciiLower n.toUInt8) = false) := by decide +kernel

theorem lower_valid (b : UInt8) (h : (isWsp b || isGraphic b) = true) : (isWsp (asciiLower b) || isGraphic (asciiLower b)) = true := by
  have := (lower_table b.toNat b.toNat_lt).1; simpa using this (by simpa using h)

theorem lower_not_wsp (b : UInt8) (h : isAsciiWs b = false) : isWsp (asciiLower b) = false := by
  have := (lower_table b.toNat b.toNat_lt).2; simpa using this (by simpa using h)

/-- a byte string whose first and last bytes are not blanks is its own trimmed form -/
theorem trimWsp_of_ends {v : Bytes} (hh : ∀ x, v.head? = some x → isWsp x = false)
    (hl : ∀ x, v.getLast? = some x → isWsp x = false) : trimWsp v = v := by
  unfold trimWsp trimBy trimEndBy trimStartBy
  rw [dropWhile_of_head hh]
  have : v.reverse.dropWhile isWsp = v.reverse := dropWhile_of_head (by
    intro x hx; rw [List.head?_reverse] at hx; exact hl x hx)
  rw [this, List.reverse_reverse]

structure GoodTok (t : Bytes) : Prop where
  ne : t ≠ []
  valid : validValue t = true
  head : ∀ x, t.head? = some x → isWsp x = false
  last : ∀ x, t.getLast? = some x → isWsp x = false

theorem mem_splitOn_sub (sep : UInt8) : ∀ (s : Bytes) (p : Bytes), p ∈ splitOn sep s → ∀ b ∈ p, b ∈ s := by
  intro s
  induction s with
  | nil => intro p hp b hb; simp [splitOn] at hp; subst hp; simp at hb
  | cons x xs ih =>
    intro p hp b hb
    unfold splitOn at hp
    split at hp
    · simp only [List.mem_cons] at hp
      rcases hp with rfl | hp
      · simp at hb
      · exact List.mem_cons_of_mem _ (ih p hp b hb)
    · split at hp
      · simp only [List.mem_singleton] at hp; subst hp
        simp only [List.mem_singleton] at hb; subst hb; simp
      · rename_i q qs hq
        simp only [List.mem_cons] at hp
        rcases hp with rfl | hp
        · simp only [List.mem_cons] at hb
          rcases hb with rfl | hb
          · simp
          · exact List.mem_cons_of_mem _ (ih q (by rw [hq]; simp) b hb)
        · exact List.mem_cons_of_mem _ (ih p (by rw [hq]; simp [hp]) b hb)

theorem mem_splitTerminator_sub (sep : UInt8) (s p : Bytes) (hp : p ∈ splitTerminator sep s) : ∀ b ∈ p, b ∈ s := by
  unfold splitTerminator at hp
  simp only at hp
  split at hp
  · exact mem_splitOn_sub sep s p ((List.dropLast_prefix _).subset hp)
  · exact mem_splitOn_sub sep s p hp

theorem trimBy_sub (p : UInt8 → Bool) (v : Bytes) : ∀ b ∈ trimBy p v, b ∈ v := by
  intro b hb
  unfold trimBy trimEndBy trimStartBy at hb
  rw [List.mem_reverse] at hb
  have h1 := (List.dropWhile_suffix p (l := (v.dropWhile p).reverse)).subset hb
  rw [List.mem_reverse] at h1
  exact (List.dropWhile_suffix p (l := v)).subset h1

theorem trimBy_head (p : UInt8 → Bool) (v : Bytes) : ∀ x, (trimBy p v).head? = some x → p x = false := by
  intro x hx
  unfold trimBy trimEndBy trimStartBy at hx
  have hpre : ((v.dropWhile p).reverse.dropWhile p).reverse <+: v.dropWhile p := by
    have hs : (v.dropWhile p).reverse.dropWhile p <:+ (v.dropWhile p).reverse := List.dropWhile_suffix _
    have := List.reverse_prefix.mpr hs
    simpa using this
  exact head_dropWhile (l := v) x (head_of_prefix hpre x hx)

theorem trimBy_last (p : UInt8 → Bool) (v : Bytes) : ∀ x, (trimBy p v).getLast? = some x → p x = false := by
  intro x hx
  unfold trimBy trimEndBy trimStartBy at hx
  rw [List.getLast?_reverse] at hx
  exact head_dropWhile (l := (v.dropWhile p).reverse) x hx

/-- a non-empty token cut out of a valid header value is good material for a header value -/
theorem goodTok_of_piece {v p : Bytes} (hv : validValue v = true) (hp : ∀ b ∈ p, b ∈ v)
    (hne : lower (trimBy isAsciiWs p) ≠ []) : GoodTok (lower (trimBy isAsciiWs p)) := by
  unfold validValue at hv
  rw [List.all_eq_true] at hv
  refine ⟨hne, ?_, ?_, ?_⟩
  · unfold validValue lower
    rw [List.all_eq_true]
    intro b hb
    rw [List.mem_map] at hb
    obtain ⟨a, ha, rfl⟩ := hb
    exact lower_valid a (hv a (hp a (trimBy_sub _ _ a ha)))
  · intro x hx
    unfold lower at hx
    rw [List.head?_map] at hx
    cases hh : (trimBy isAsciiWs p).head? with
    | none => simp [hh] at hx
    | some a =>
      simp only [hh, Option.map_some, Option.some.injEq] at hx; subst hx
      exact lower_not_wsp a (trimBy_head _ _ a hh)
  · intro x hx
    unfold lower at hx
    rw [List.getLast?_map] at hx
    cases hh : (trimBy isAsciiWs p).getLast? with
    | none => simp [hh] at hx
    | some a =>
      simp only [hh, Option.map_some, Option.some.injEq] at hx; subst hx
      exact lower_not_wsp a (trimBy_last _ _ a hh)

/-! ### joining tokens with ", " -/

theorem joinWith_good : ∀ (ts : List Bytes), ts ≠ [] → (∀ t ∈ ts, GoodTok t) →
    let v := joinWith [COMMA, SP] ts
    validValue v = true ∧ (∀ x, v.head? = some x → isWsp x = false) ∧ (∀ x, v.getLast? = some x → isWsp x = false)
  | [], h, _ => absurd rfl h
  | [t], _, hg => by
    have g := hg t (by simp)
    simp only [joinWith]
    exact ⟨g.valid, g.head, g.last⟩
  | t :: t2 :: rest, _, hg => by
    have g := hg t (by simp)
    have ih := joinWith_good (t2 :: rest) (by simp) (fun x hx => hg x (by simp [hx]))
    simp only [joinWith] at ih ⊢
    obtain ⟨iv, ih1, il⟩ := ih
    have hne2 : joinWith [COMMA, SP] (t2 :: rest) ≠ [] := by
      have g2 := hg t2 (by simp)
      cases rest with
      | nil => simpa [joinWith] using g2.ne
      | cons r rs =>
        simp only [joinWith]
        intro hc
        have : t2 = [] := by
          have := congrArg List.length hc; simp at this
        exact g2.ne this
    refine ⟨?_, ?_, ?_⟩
    · have gv := g.valid
      unfold validValue at *
      rw [List.all_append, List.all_append, gv, iv]
      simp [COMMA, SP, isWsp, isGraphic]
    · intro x hx
      have hth : t.head? = some x := by
        cases ht : t with
        | nil => exact absurd ht g.ne
        | cons a as => simp [ht] at hx; simp [hx]
      exact g.head x hth
    · intro x hx
      rw [List.getLast?_append] at hx
      cases hl : (joinWith [COMMA, SP] (t2 :: rest)).getLast? with
      | none => rw [List.getLast?_eq_none_iff] at hl; exact absurd hl hne2
      | some y => simp [hl] at hx; subst hx; exact il y hl

/-! ### where tokens come from -/

theorem validByte_ascii : ∀ b : UInt8, (isWsp b || isGraphic b) = true → b < 128 := by
  intro b hb
  have : ∀ n, n < 256 → (isWsp n.toUInt8 || isGraphic n.toUInt8) = true → n.toUInt8 < 128 := by decide +kernel
  have h := this b.toNat b.toNat_lt
  have e : b.toNat.toUInt8 = b := by simp
  rw [e] at h
  exact h hb

theorem mem_headerTokens {hs : List Header} {name t : Bytes} (ht : t ∈ headerTokens hs name) :
    ∃ h ∈ hs, ∃ p ∈ splitTerminator COMMA h.value, t = lower (rustTrim p) := by
  unfold headerTokens headerMultiValue at ht
  simp only [List.mem_flatMap, List.mem_map, List.mem_filter] at ht
  obtain ⟨v, ⟨h, ⟨hh, _⟩, rfl⟩, p, hp, rfl⟩ := ht
  exact ⟨h, hh, p, hp, rfl⟩

theorem goodTok_of_tokens {hs : List Header} (hw : ∀ h ∈ hs, WfHeader h) {name t : Bytes}
    (ht : t ∈ headerTokens hs name) (hne : t ≠ []) : GoodTok t := by
  obtain ⟨h, hh, p, hp, rfl⟩ := mem_headerTokens ht
  -- a piece of a valid (hence ASCII) header value: `str::trim` is the ASCII trim on it
  have hsub := mem_splitTerminator_sub COMMA _ p hp
  have hascii : ∀ b ∈ p, b < 128 := by
    intro b hb
    have hv := (hw h hh).value_ok
    unfold validValue at hv
    rw [List.all_eq_true] at hv
    exact validByte_ascii b (hv b (hsub b hb))
  rw [rustTrim_ascii p hascii] at hne ⊢
  exact goodTok_of_piece (hw h hh).value_ok hsub hne

/-! ### the rewritten header list is well-formed -/

theorem wf_filter {hs : List Header} (hw : ∀ h ∈ hs, WfHeader h) (p : Header → Bool) : ∀ h ∈ hs.filter p, WfHeader h :=
  fun h hh => hw h (List.mem_filter.mp hh).1

theorem wf_setHeaderAux (name value : Bytes) (hv : validValue value = true) (ht : trimWsp value = value) :
    ∀ (seen : Bool) (hs : List Header), (∀ h ∈ hs, WfHeader h) → ∀ h ∈ setHeaderAux name value seen hs, WfHeader h := by
  intro seen hs
  induction hs generalizing seen with
  | nil => intro _ h hh; simp [setHeaderAux] at hh
  | cons x xs ih =>
    intro hw h hh
    have hx := hw x (by simp)
    have hxs : ∀ h ∈ xs, WfHeader h := fun h hh => hw h (by simp [hh])
    unfold setHeaderAux at hh
    split at hh
    · split at hh
      · exact ih true hxs h hh
      · simp only [List.mem_cons] at hh
        rcases hh with rfl | hh
        · exact ⟨hx.name_graphic, hx.name_no_colon, hv, ht⟩
        · exact ih true hxs h hh
    · simp only [List.mem_cons] at hh
      rcases hh with rfl | hh
      · exact hx
      · exact ih seen hxs h hh

theorem wf_kTransferEncoding : kTransferEncoding.all isGraphic = true ∧ COLON ∉ kTransferEncoding := by decide
theorem wf_kContentLength : kContentLength.all isGraphic = true ∧ COLON ∉ kContentLength := by decide

theorem wf_setHeader {hs : List Header} (hw : ∀ h ∈ hs, WfHeader h) (value : Bytes)
    (hv : validValue value = true) (ht : trimWsp value = value) :
    ∀ h ∈ setHeader hs kTransferEncoding value, WfHeader h := by
  unfold setHeader
  split
  · exact wf_setHeaderAux _ _ hv ht false hs hw
  · intro h hh
    simp only [List.mem_append, List.mem_singleton] at hh
    rcases hh with hh | rfl
    · exact hw h hh
    · exact ⟨wf_kTransferEncoding.1, wf_kTransferEncoding.2, hv, ht⟩

theorem natToDec_wf (n : Nat) : WfHeader ⟨kContentLength, natToDec n⟩ := by
  have hd := natToDec_digits n
  have hvalid : validValue (natToDec n) = true := by
    unfold validValue; rw [List.all_eq_true]
    intro b hb
    have := hd.1 b hb
    unfold isDig at this; unfold isGraphic isWsp
    simp only [Bool.and_eq_true, decide_eq_true_eq] at this
    have h1 := UInt8.le_iff_toNat_le.mp this.1
    have h2 := UInt8.le_iff_toNat_le.mp this.2
    simp only [Bool.or_eq_true, Bool.and_eq_true, decide_eq_true_eq]
    right
    exact ⟨UInt8.le_iff_toNat_le.mpr (by simp at h1 ⊢; omega), UInt8.le_iff_toNat_le.mpr (by simp at h2 ⊢; omega)⟩
  have hnw : ∀ x ∈ natToDec n, isWsp x = false := by
    intro x hx
    have := hd.1 x hx
    unfold isDig at this; unfold isWsp
    simp only [Bool.and_eq_true, decide_eq_true_eq] at this
    have h1 := UInt8.le_iff_toNat_le.mp this.1
    simp only [Bool.or_eq_false_iff, beq_eq_false_iff_ne]
    constructor <;> (intro hc; subst hc; simp [SP, HT] at h1)
  refine ⟨wf_kContentLength.1, wf_kContentLength.2, hvalid, ?_⟩
  apply trimWsp_of_ends
  · intro x hx; exact hnw x (List.mem_of_mem_head? hx)
  · intro x hx; exact hnw x (List.mem_of_getLast? hx)

theorem rewritten_wf {hs trs : List Header} (hw : ∀ h ∈ hs, WfHeader h) (htr : ∀ h ∈ trs, WfHeader h) (n : Nat) :
    ∀ h ∈ rewritten hs trs n, WfHeader h := by
  unfold rewritten
  simp only
  have h1 : ∀ h ∈ hs ++ trs.filter fun h => !isFraming h.name, WfHeader h := by
    intro h hh
    rw [List.mem_append] at hh
    rcases hh with hh | hh
    · exact hw h hh
    · exact wf_filter htr _ h hh
  intro h hh
  unfold removeHeader at hh
  have hh' := (List.mem_filter.mp hh).1
  unfold addHeader at hh'
  rw [List.mem_append] at hh'
  rcases hh' with hh' | hh'
  · split at hh'
    · exact wf_filter h1 _ h hh'
    · rename_i hte
      have hgood : ∀ t ∈ ((headerTokens (hs ++ trs.filter fun h => !isFraming h.name) kTransferEncoding).dropLast).filter (fun c => !c.isEmpty), GoodTok t := by
        intro t ht
        have := List.mem_filter.mp ht
        have hne : t ≠ [] := by intro hc; subst hc; simp at this
        exact goodTok_of_tokens h1 ((List.dropLast_prefix _).subset this.1) hne
      have hne : ((headerTokens (hs ++ trs.filter fun h => !isFraming h.name) kTransferEncoding).dropLast).filter (fun c => !c.isEmpty) ≠ [] := by
        intro hc; rw [hc] at hte; simp at hte
      obtain ⟨hv, hhd, hlt⟩ := joinWith_good _ hne hgood
      exact wf_setHeader h1 _ hv (trimWsp_of_ends hhd hlt) h hh'
  · simp only [List.mem_singleton] at hh'; subst hh'
    exact natToDec_wf n

/-! ### the trailer fields a chunked body of the grammar carries are well-formed -/

theorem Sound.trailer_wf {c : ChunkState} {pre : Bytes} {st : ChunkState} (h : Sound c pre st) :
    (∀ x ∈ c.trailer, WfHeader x) → ∀ x ∈ st.trailer, WfHeader x := by
  induction h with
  | size c line rest n st _ _ _ _ _ ih => intro hw; exact ih hw
  | data c d rest st _ _ _ ih => intro hw; exact ih hw
  | term c rest st _ _ ih => intro hw; exact ih hw
  | trailer c blk hs _ hparse => intro hw; exact Headers.parse_wf hw hparse

theorem headerValue_none_multi {hs : List Header} {n : Bytes} (h : headerValue hs n = none) : headerMultiValue hs n = [] := by
  unfold headerValue at h
  split at h
  · assumption
  · simp at h

/-- C11 (chunked responses): for every accepted chunked response, the parsed message — headers rewritten, body
    de-chunked — regenerates to a Content-Length-framed message that parses back to the same status code, reason
    phrase, header list and body with the whole output consumed; its Content-Length is the length of the
    de-chunked body, so re-serialising neither loses nor invents body bytes -/
theorem C11_response_reparse_dechunked (hl : Option Nat) {s : Bytes} {st : RespState} {n : Nat}
    (h : (respSys hl).parse Response.new s = .ok .complete st n)
    (hde : st.phase = .statusLine) (hsmall : st.body.length ≤ usizeMax) (tail : Bytes) :
    let g := statusLine' st.statusCode st.reasonPhrase ++ CRLF ++ genBlock st.headers ++ st.body
    headerValue st.headers kContentLength = some (natToDec st.body.length) ∧
    ∃ st', (respSys none).parse Response.new (g ++ tail) = .ok .complete st' g.length ∧
      st'.statusCode = st.statusCode ∧ st'.reasonPhrase = st.reasonPhrase ∧ st'.headers = st.headers ∧ st'.body = st.body := by
  intro g
  obtain ⟨line, hb, code, reason, hs, hno, hutf, hline, hhdr, hcase⟩ := (C04_accept_iff hl s n st).mp h
  obtain ⟨hno', hutf', hline'⟩ := statusLine'_ok hno hutf hline
  rcases hcase with ⟨v, body, tl, _, _, _, _, rfl⟩ | ⟨hnone, _, pre, cst, tl, hsound, _, _, rfl⟩ | ⟨_, _, tl, _, _, rfl⟩
  · simp [respAfterHeaders] at hde
  · -- the de-chunked message
    have hhs : ∀ x ∈ hs, WfHeader x := Headers.parse_wf (by simp) hhdr
    have htr : ∀ x ∈ cst.trailer, WfHeader x := hsound.trailer_wf (by simp [ChunkState.new])
    obtain ⟨hH, hB⟩ := dechunkRewrite_headers (respAfterHeaders code reason hs (.chunkedBody ChunkState.new)) cst
    have hH' : (dechunkRewrite ⟨true⟩ (respAfterHeaders code reason hs (.chunkedBody ChunkState.new)) cst).headers
        = rewritten hs cst.trailer cst.buffer.length := hH
    have hwf : ∀ x ∈ rewritten hs cst.trailer cst.buffer.length, WfHeader x := rewritten_wf hhs htr _
    have hmulti := C12_content_length hs cst.trailer cst.buffer.length (headerValue_none_multi hnone)
    have hval : headerValue (rewritten hs cst.trailer cst.buffer.length) kContentLength = some (natToDec cst.buffer.length) := by
      unfold headerValue; rw [hmulti]; simp [joinWith]
    have hsm : cst.buffer.length ≤ usizeMax := by rw [← hB]; exact hsmall
    have hnum := parseNumber_natToDec ⟨true⟩ cst.buffer.length hsm
    have hhdr' := Headers.parse_generate (rewritten hs cst.trailer cst.buffer.length) hwf []
    simp only [List.append_nil] at hhdr'
    have hcomp := C04_accept_complete_fixed none (tail := tail) (body := cst.buffer) hno' hutf' hline' hhdr' hval hnum
    have hcode : (dechunkRewrite ⟨true⟩ (respAfterHeaders code reason hs (.chunkedBody ChunkState.new)) cst).statusCode = code := rfl
    have hreason : (dechunkRewrite ⟨true⟩ (respAfterHeaders code reason hs (.chunkedBody ChunkState.new)) cst).reasonPhrase = reason := rfl
    refine ⟨by rw [hH', hB]; exact hval,
      { respAfterHeaders code reason (rewritten hs cst.trailer cst.buffer.length) (.fixedBody cst.buffer.length) with body := cst.buffer },
      ?_, ?_, ?_, ?_, ?_⟩
    · have hlen : g.length = (statusLine' code reason).length + 2 + (genBlock (rewritten hs cst.trailer cst.buffer.length)).length + cst.buffer.length := by
        simp only [g, hH', hB, hcode, hreason, List.length_append, CRLF, List.length_cons, List.length_nil]
      rw [hlen]
      simp only [g, hH', hB, hcode, hreason]
      exact hcomp
    · exact hcode.symm
    · exact hreason.symm
    · exact hH'.symm
    · exact hB.symm
  · simp [respAfterHeaders] at hde
