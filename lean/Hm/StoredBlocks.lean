import Hm.StoredBlock

/-! C13: any sequence of stored blocks (what a level-0 encoder emits for a body of any size) is inflated
    to the concatenation of the data -/

theorem bit_of_zero (i : Nat) (hi : i < 8) : ((0 >>> i) % 2 == 1) = false := by
  have : ∀ i, i < 8 → ((0 >>> i) % 2 == 1) = false := by decide
  exact this i hi

/-- one stored block whose header byte sits at byte offset `k`: the block loop reads it and either
    stops (final) or goes on behind it -/
theorem inflateBlocks_stored_at (arr : Array UInt8) (k : Nat) (final : Bool) (data : Bytes) (hlen : data.length ≤ 65535)
    (hk : k + 5 + data.length ≤ arr.size)
    (h0 : (arr[k]'(by omega)).toNat = if final then 1 else 0)
    (h1 : (arr[k + 1]'(by omega)).toNat = data.length % 256)
    (h2 : (arr[k + 1 + 1]'(by omega)).toNat = data.length / 256)
    (h3 : (arr[k + 3]'(by omega)).toNat = (65535 - data.length) % 256)
    (h4 : (arr[k + 3 + 1]'(by omega)).toNat = (65535 - data.length) / 256)
    (hd : (arr.toList.drop (k + 5)).take data.length = data)
    (sf fuel : Nat) (out : Array UInt8) :
    inflateBlocks sf (fuel + 1) out (inpOfBytes arr) (8 * k) =
      if final then .ok (data.foldl Array.push out, 8 * (k + 5 + data.length))
      else inflateBlocks sf fuel (data.foldl Array.push out) (inpOfBytes arr) (8 * (k + 5 + data.length)) := by
  have hbit : ∀ i, i < 8 → inpOfBytes arr (8 * k + i) = some (final && decide (i = 0)) := by
    intro i hi
    have := inpOfBytes_bit arr k i (by omega) hi
    rw [this, h0]
    cases final
    · simp [bit_of_zero i hi]
    · simp [bit_of_one i hi]
  conv => lhs; unfold inflateBlocks
  have hb0 := hbit 0 (by omega)
  simp only [Nat.add_zero] at hb0
  simp only [R.bind, readBit, hb0, decide_true, Bool.and_true]
  have hb2 : readBits 2 (inpOfBytes arr) (8 * k + 1) = .ok (0, 8 * k + 3) := by
    rw [readBits_eq _ 2 (8 * k + 1) (fun i hi => by rw [Nat.add_assoc, hbit (1 + i) (by omega)]; rfl)]
    simp [bitsVal, hbit 1 (by omega), hbit 2 (by omega), Nat.add_assoc]
  simp only [hb2, if_true]
  have hstored : storedBlock out (inpOfBytes arr) (8 * k + 3) = .ok (data.foldl Array.push out, 8 * (k + 5 + data.length)) := by
    unfold storedBlock alignRead
    simp only [R.bind, getPos]
    have hpad : readBits ((8 - (8 * k + 3) % 8) % 8) (inpOfBytes arr) (8 * k + 3) = .ok (0, 8 * (k + 1)) := by
      rw [show (8 - (8 * k + 3) % 8) % 8 = 5 by omega,
        readBits_eq _ 5 (8 * k + 3) (fun i hi => by rw [Nat.add_assoc, hbit (3 + i) (by omega)]; rfl)]
      simp [bitsVal, hbit 3 (by omega), hbit 4 (by omega), hbit 5 (by omega), hbit 6 (by omega), hbit 7 (by omega), Nat.add_assoc]
      omega
    simp only [hpad, R.pure]
    have h16a : readBits 16 (inpOfBytes arr) (8 * (k + 1)) = .ok (data.length % 256 + 256 * (data.length / 256), 8 * (k + 3)) := by
      have := readBits16_eq arr (k + 1) (by omega)
      rw [this, h1, h2]; simp; omega
    have h16b : readBits 16 (inpOfBytes arr) (8 * (k + 3)) = .ok ((65535 - data.length) % 256 + 256 * ((65535 - data.length) / 256), 8 * (k + 5)) := by
      have := readBits16_eq arr (k + 3) (by omega)
      rw [this, h3, h4]; simp; omega
    simp only [h16a, h16b]
    have hsum : data.length % 256 + 256 * (data.length / 256) + ((65535 - data.length) % 256 + 256 * ((65535 - data.length) / 256)) = 65535 := by
      omega
    simp only [hsum, ne_eq, not_true_eq_false, if_false]
    have hl : data.length % 256 + 256 * (data.length / 256) = data.length := by omega
    have hrb : readBytes data.length (inpOfBytes arr) (8 * (k + 5)) = .ok (data, 8 * (k + 5 + data.length)) := by
      have := readBytes_eq arr data.length (k + 5) (by omega)
      rw [hd] at this
      exact this
    simp only [hl, R.bind, hrb, R.pure]
  simp only [hstored, R.pure]
  cases final <;> simp [R.pure]

def storedHdr (final : Bool) (d : Bytes) : Bytes :=
  [if final then 1 else 0, (d.length % 256).toUInt8, (d.length / 256).toUInt8,
   ((65535 - d.length) % 256).toUInt8, ((65535 - d.length) / 256).toUInt8]

/-- the deflate stream made of one stored block per piece, the last one marked final -/
def storedEnc : List Bytes → Bytes
  | [] => []
  | [d] => storedHdr true d ++ d
  | d :: d' :: ds => storedHdr false d ++ d ++ storedEnc (d' :: ds)

theorem arr_get_of_drop (arr : Array UInt8) (k j : Nat) (L : Bytes) (h : arr.toList.drop k = L) (hj : j < L.length)
    (hb : k + j < arr.size) : arr[k + j] = L[j] := by
  subst h; simp [List.getElem_drop]

theorem drop_size (arr : Array UInt8) (k : Nat) (L : Bytes) (h : arr.toList.drop k = L) : L.length = arr.size - k := by
  subst h; simp

/-- one step of the induction: a block (header + data) found at offset `k`, followed by `rest` -/
theorem inflateBlocks_stored_step (arr : Array UInt8) (k : Nat) (final : Bool) (d rest : Bytes) (hlen : d.length ≤ 65535)
    (h : arr.toList.drop k = storedHdr final d ++ d ++ rest) (sf fuel : Nat) (out : Array UInt8) :
    inflateBlocks sf (fuel + 1) out (inpOfBytes arr) (8 * k) =
      if final then .ok (out ++ d.toArray, 8 * (k + 5 + d.length))
      else inflateBlocks sf fuel (out ++ d.toArray) (inpOfBytes arr) (8 * (k + 5 + d.length)) := by
  have hsz := drop_size arr k _ h
  simp only [List.length_append, storedHdr, List.length_cons, List.length_nil] at hsz
  have hk : k + 5 + d.length ≤ arr.size := by omega
  have g : ∀ j (hj : j < 5), arr[k + j]'(by omega) = (storedHdr final d)[j]'(by simp [storedHdr]; omega) := by
    intro j hj
    rw [arr_get_of_drop arr k j _ h (by simp [storedHdr]; omega) (by omega)]
    rw [List.getElem_append_left (by simp [storedHdr]; omega), List.getElem_append_left (by simp [storedHdr]; omega)]
  have h0 := g 0 (by omega); have h1 := g 1 (by omega); have h2 := g 2 (by omega)
  have h3 := g 3 (by omega); have h4 := g 4 (by omega)
  simp only [storedHdr, List.getElem_cons_zero, List.getElem_cons_succ, Nat.add_zero] at h0 h1 h2 h3 h4
  have hd : (arr.toList.drop (k + 5)).take d.length = d := by
    rw [← List.drop_drop, h]
    simp [storedHdr]
  have := inflateBlocks_stored_at arr k final d hlen hk
    (by rw [h0]; cases final <;> rfl) (by rw [h1]; simp) (by rw [h2]; simp; omega) (by rw [h3]; simp) (by rw [h4]; simp; omega)
    hd sf fuel out
  rw [this]; simp

theorem arr_drop_next (arr : Array UInt8) (k : Nat) (H d rest : Bytes) (hH : H.length = 5)
    (h : arr.toList.drop k = H ++ d ++ rest) : arr.toList.drop (k + 5 + d.length) = rest := by
  rw [Nat.add_assoc, ← List.drop_drop, h, List.append_assoc, ← hH, ← List.length_append, ← List.append_assoc,
    List.drop_left]

/-- C13 (stored blocks, any number of them): the block loop returns the concatenation of the pieces and
    stops exactly at the end of the last block -/
theorem inflateBlocks_storedEnc (arr : Array UInt8) (sf : Nat) : ∀ (ds : List Bytes), ds ≠ [] →
    (∀ d ∈ ds, d.length ≤ 65535) → ∀ (k : Nat) (post : Bytes) (fuel : Nat) (out : Array UInt8),
    ds.length ≤ fuel → arr.toList.drop k = storedEnc ds ++ post →
    inflateBlocks sf fuel out (inpOfBytes arr) (8 * k) = .ok (out ++ ds.flatten.toArray, 8 * (k + (storedEnc ds).length))
  | [], hne, _, _, _, _, _, _, _ => absurd rfl hne
  | [d], _, hl, k, post, fuel, out, hf, h => by
    cases fuel with
    | zero => simp at hf
    | succ fuel =>
      simp only [storedEnc] at h ⊢
      rw [inflateBlocks_stored_step arr k true d post (hl d (by simp)) h]
      simp [storedHdr]; omega
  | d :: d' :: ds, _, hl, k, post, fuel, out, hf, h => by
    cases fuel with
    | zero => simp at hf
    | succ fuel =>
      simp only [storedEnc] at h ⊢
      have h' : arr.toList.drop k = storedHdr false d ++ d ++ (storedEnc (d' :: ds) ++ post) := by
        rw [h]; simp
      rw [inflateBlocks_stored_step arr k false d _ (hl d (by simp)) h']
      simp only [Bool.false_eq_true, if_false]
      have hnext := arr_drop_next arr k _ d _ (by simp [storedHdr]) h'
      rw [inflateBlocks_storedEnc arr sf (d' :: ds) (by simp) (fun x hx => hl x (by simp [hx])) _ post fuel _
        (by simp at hf ⊢; omega) hnext]
      simp [storedHdr, Array.append_assoc]; omega

theorem storedEnc_length_ge : ∀ ds : List Bytes, ds.length ≤ (storedEnc ds).length
  | [] => by simp [storedEnc]
  | [d] => by simp [storedEnc, storedHdr]
  | d :: d' :: ds => by
    have := storedEnc_length_ge (d' :: ds)
    simp [storedEnc, storedHdr] at this ⊢; omega

/-- C13 (inflate inverts the level-0 encoder, bodies of any size): for every split of a body into
    pieces of at most 65 535 bytes, `inflate` of the stored-block stream returns the body and consumes
    the stream exactly -/
theorem C13_inflate_stored_blocks (ds : List Bytes) (hne : ds ≠ []) (hl : ∀ d ∈ ds, d.length ≤ 65535) :
    inflateR (8 * (storedEnc ds).length) (inpOfBytes (storedEnc ds).toArray) 0
      = .ok (ds.flatten.toArray, 8 * (storedEnc ds).length) := by
  have := inflateBlocks_storedEnc (storedEnc ds).toArray (8 * (storedEnc ds).length + 1) ds hne hl 0 []
    (8 * (storedEnc ds).length + 1) #[] (by have := storedEnc_length_ge ds; omega) (by simp)
  simpa [inflateR] using this

/-- the same through the entry point `coding.rs` uses for `deflate` (raw): bodies of any size -/
theorem C13_inflateRaw_stored_blocks (ds : List Bytes) (hne : ds ≠ []) (hl : ∀ d ∈ ds, d.length ≤ 65535) :
    inflateRaw (storedEnc ds) = some ds.flatten := by
  unfold inflateRaw runR
  simp only [List.size_toArray]
  rw [C13_inflate_stored_blocks ds hne hl]

/-- non-vacuity (and a kernel-evaluated instance): two pieces -/
example : inflateRaw (storedEnc [[1, 2, 3], [4]]) = some [1, 2, 3, 4] :=
  C13_inflateRaw_stored_blocks [[1, 2, 3], [4]] (by simp) (by simp)
