import Hm.C03Grammar
import Hm.RespProps

/-! C04: the status-line splitter accepts only `HTTP/1.1 SP 1*DIGIT SP reason` with a code below 1000 -/

theorem C04_status_line_sound {line reason : Bytes} {code : Nat}
    (h : parseStatusLine ⟨true⟩ line = .ok (code, reason)) :
    ∃ codeText, line = http11 ++ [SP] ++ codeText ++ [SP] ++ reason ∧ allDigits codeText = true ∧
      SP ∉ codeText ∧ parseNumber ⟨true⟩ 10 codeText = some code ∧ code < 1000 := by
  unfold parseStatusLine at h
  cases hpd : findByte SP line with
  | none => simp [hpd] at h
  | some pd =>
    simp only [hpd] at h
    by_cases hproto : line.take pd = http11
    · simp only [hproto, ne_eq, not_true_eq_false, if_false] at h
      cases hcd : findByte SP (line.drop (pd + 1)) with
      | none => simp [hcd] at h
      | some cd =>
        simp only [hcd] at h
        cases hn : parseNumber ⟨true⟩ 10 ((line.drop (pd + 1)).take cd) with
        | none => simp [hn] at h
        | some k =>
          simp only [hn] at h
          by_cases hk : k < 1000
          · rw [if_pos hk] at h
            simp only [Except.ok.injEq, Prod.mk.injEq] at h
            obtain ⟨rfl, rfl⟩ := h
            obtain ⟨e1, _⟩ := findByte_some hpd
            obtain ⟨e2, n2⟩ := findByte_some hcd
            refine ⟨(line.drop (pd + 1)).take cd, ?_, parseNumber_digits hn, n2, hn, hk⟩
            conv => lhs; rw [e1, e2, hproto]
            simp [List.append_assoc]
          · simp [hk] at h
    · simp [hproto] at h
