import Hm.Canonical

/-! Huffman-coded blocks over an arbitrary pair of code books: the symbol loop `inflateCodes lit dist` decodes any
    sequence of usable symbols, written with the books' code words, to its expansion.  The fixed code and every
    pair of valid dynamic tables are instances. -/

/-- what the symbol loop needs to know about a pair of tables -/
structure Book where
  lit : Huff
  dist : Huff
  litBits : Nat → List Bool
  distBits : Nat → List Bool
  litOk : Nat → Prop
  distOk : Nat → Prop
  hlit : ∀ s, litOk s → ∀ (i : Inp) (p : Nat), Carries i p (litBits s) → decodeSym lit i p = .ok (s, p + (litBits s).length)
  hdist : ∀ d, distOk d → ∀ (i : Inp) (p : Nat), Carries i p (distBits d) → decodeSym dist i p = .ok (d, p + (distBits d).length)

def Tok.okIn (B : Book) : Tok → Prop
  | .lit b => B.litOk b.toNat
  | .mat ls eb ds db => ls < 29 ∧ eb < 2 ^ lenExtra.getD ls 0 ∧ ds < 30 ∧ db < 2 ^ distExtra.getD ds 0 ∧
      B.litOk (257 + ls) ∧ B.distOk ds

def tokBitsRaw (lb db : Nat → List Bool) : Tok → List Bool
  | .lit b => lb b.toNat
  | .mat ls eb ds db' =>
    lb (257 + ls) ++ (bitsLSB (lenExtra.getD ls 0) eb ++ (db ds ++ bitsLSB (distExtra.getD ds 0) db'))

/-- symbols, then end-of-block, for given code-word functions -/
def codesBitsRaw (lb db : Nat → List Bool) (toks : List Tok) : List Bool := toks.flatMap (tokBitsRaw lb db) ++ lb 256

def tokBitsIn (B : Book) : Tok → List Bool := tokBitsRaw B.litBits B.distBits

/-- symbols, then end-of-block -/
def codesBits (B : Book) (toks : List Tok) : List Bool := codesBitsRaw B.litBits B.distBits toks

theorem inflateCodes_book (B : Book) (heob : B.litOk 256) : ∀ (toks : List Tok) (fuel : Nat) (out : Array UInt8) (i : Inp) (p : Nat),
    (∀ t ∈ toks, t.okIn B) → toks.length < fuel →
    Carries i p (codesBits B toks) →
    inflateCodes B.lit B.dist fuel out i p = .ok (toks.foldl tokApply out, p + (codesBits B toks).length) := by
  intro toks
  induction toks with
  | nil =>
    intro fuel out i p _ hf hc
    cases fuel with
    | zero => simp at hf
    | succ fuel =>
      unfold inflateCodes
      simp only [codesBits, codesBitsRaw, List.flatMap_nil, List.nil_append] at hc ⊢
      have hd := B.hlit 256 heob i p hc
      simp only [R.bind, hd]
      simp [R.pure]
  | cons t rest ih =>
    intro fuel out i p hv hf hc
    cases fuel with
    | zero => simp at hf
    | succ fuel =>
      have hvr : ∀ t ∈ rest, t.okIn B := fun t ht => hv t (by simp [ht])
      have hfr : rest.length < fuel := by simp at hf; omega
      simp only [codesBits, codesBitsRaw, List.flatMap_cons, List.append_assoc] at hc ⊢
      unfold inflateCodes
      cases t with
      | lit b =>
        have hok : B.litOk b.toNat := hv (.lit b) (by simp)
        simp only [tokBitsRaw] at hc ⊢
        have hd := B.hlit b.toNat hok i p hc.append_left
        have hb256 : b.toNat < 256 := b.toNat_lt
        simp only [R.bind, hd, hb256, if_true]
        have := ih fuel (out.push b.toNat.toUInt8) i (p + (B.litBits b.toNat).length) hvr hfr hc.append_right
        rw [this]
        simp only [codesBits, codesBitsRaw, List.foldl_cons, tokApply, UInt8.ofNat_toNat, Nat.toUInt8_eq, List.length_append, Except.ok.injEq, Prod.mk.injEq]
        exact ⟨by simp, by omega⟩
      | mat ls eb ds db =>
        have hvt := hv (.mat ls eb ds db) (by simp)
        obtain ⟨hls, heb, hds, hdb, hlo, hdo⟩ := hvt
        simp only [tokBitsRaw, List.append_assoc] at hc ⊢
        have hd := B.hlit (257 + ls) hlo i p hc.append_left
        have c1 := hc.append_right
        have hr1 := readBits_carries _ eb i _ heb c1.append_left
        have c2 := c1.append_right
        simp only [bitsLSB_length] at c2
        have hd2 := B.hdist ds hdo i _ c2.append_left
        have c3 := c2.append_right
        have hr2 := readBits_carries _ db i _ hdb c3.append_left
        have c4 := c3.append_right
        have hn1 : ¬ (257 + ls < 256) := by omega
        have hn2 : ¬ (257 + ls = 256) := by omega
        have hn3 : ¬ (257 + ls > 285) := by omega
        have hn4 : ¬ (ds > 29) := by omega
        have hsub : 257 + ls - 257 = ls := by omega
        simp only [R.bind, hd, hn1, hn2, hn3, if_false, hsub, hr1, hd2, hn4, hr2]
        simp only [bitsLSB_length] at c4
        have := ih fuel (copyBack (lenBase.getD ls 0 + eb) (distBase.getD ds 0 + db) out) i _ hvr hfr c4
        rw [this]
        simp only [codesBits, codesBitsRaw, List.foldl_cons, tokApply, List.length_append, bitsLSB_length, Except.ok.injEq, Prod.mk.injEq, true_and]
        omega

/-- the fixed code as a book -/
def fixedBook : Book where
  lit := fixedLit
  dist := fixedDist
  litBits := litCode
  distBits := distCode
  litOk s := s < 288
  distOk d := d < 30
  hlit s hs _ _ hc := decodeSym_lit hs hc
  hdist d hd _ _ hc := decodeSym_dist hd hc

/-! ### tables that pass `validTable` are not over-subscribed, so canonical code words fit -/

def vtStep (lens : List Nat) (acc : Option Nat) (l : Nat) : Option Nat :=
  acc.bind fun left => if 2 * left < (lens.filter (· == l)).length then none else some (2 * left - (lens.filter (· == l)).length)

theorem vtStep_none (lens : List Nat) (ls : List Nat) : ls.foldl (vtStep lens) none = none := by
  induction ls with
  | nil => rfl
  | cons l rest ih => simpa [vtStep] using ih

/-- the running Kraft budget after lengths `1..L` -/
theorem vt_prefix (lens : List Nat) : ∀ L left, (List.range' 1 L).foldl (vtStep lens) (some 1) = some left →
    left + firstCode lens L + cnt lens L = 2 ^ L := by
  intro L
  induction L with
  | zero =>
    intro left h
    simp at h; subst h
    simp [firstCode, cnt]
  | succ L ih =>
    intro left h
    rw [List.range'_1_concat, List.foldl_append] at h
    simp only [List.foldl_cons, List.foldl_nil] at h
    cases hp : (List.range' 1 L).foldl (vtStep lens) (some 1) with
    | none => rw [hp] at h; simp [vtStep] at h
    | some l0 =>
      rw [hp] at h
      have h0 := ih l0 hp
      simp only [vtStep, Option.bind_some, Nat.add_comm 1 L] at h
      have hc : cnt lens (L + 1) = (lens.filter (· == L + 1)).length := by
        unfold cnt; rw [if_neg (by omega)]
      split at h
      · cases h
      · simp only [Option.some.injEq] at h
        have hfc : firstCode lens (L + 1) = (firstCode lens L + cnt lens L) * 2 := rfl
        rw [hfc, hc, Nat.pow_succ]
        omega

theorem vt_all_prefixes (lens : List Nat) (L M : Nat) (left : Nat)
    (h : (List.range' 1 (L + M)).foldl (vtStep lens) (some 1) = some left) :
    ∃ l0, (List.range' 1 L).foldl (vtStep lens) (some 1) = some l0 := by
  have hsplit : List.range' 1 (L + M) = List.range' 1 L ++ List.range' (1 + L) M := by
    rw [List.range'_append_1]
  rw [hsplit, List.foldl_append] at h
  cases hp : (List.range' 1 L).foldl (vtStep lens) (some 1) with
  | none => rw [hp, vtStep_none] at h; cases h
  | some l0 => exact ⟨l0, rfl⟩

theorem validTable_budget (b : Bool) (lens : List Nat) (h : validTable b lens = true) (L : Nat) (hL : L ≤ 15) :
    firstCode lens L + cnt lens L ≤ 2 ^ L := by
  unfold validTable at h
  simp only at h
  have hstep : (fun (acc : Option Nat) (l : Nat) =>
      acc.bind fun left => if 2 * left < (lens.filter (· == l)).length then none else some (2 * left - (lens.filter (· == l)).length))
      = vtStep lens := rfl
  rw [hstep] at h
  cases hf : (List.range' 1 15).foldl (vtStep lens) (some 1) with
  | none => rw [hf] at h; simp at h
  | some left =>
    obtain ⟨l0, hl0⟩ := vt_all_prefixes lens L (15 - L) left (by rw [show L + (15 - L) = 15 by omega]; exact hf)
    have := vt_prefix lens L l0 hl0
    omega

/-- in a valid table every canonical code word fits its length -/
theorem validTable_fit (b : Bool) (lens : List Nat) (h : validTable b lens = true) (s : Nat) (hs : s < lens.length)
    (h1 : 1 ≤ lens.getD s 0) (h15 : lens.getD s 0 ≤ 15) : canonCode lens s < 2 ^ lens.getD s 0 := by
  have hb := validTable_budget b lens h (lens.getD s 0) h15
  have hr := rank_lt lens s hs (by omega)
  unfold canonCode
  omega

/-- every pair of tables a dynamic block may declare is a book: usable symbols are those with a code -/
def dynBook (litLens distLens : List Nat) (hl : validTable false litLens = true) (hd : validTable false distLens = true) : Book where
  lit := mkHuff litLens
  dist := mkHuff distLens
  litBits := canonBits litLens
  distBits := canonBits distLens
  litOk s := s < litLens.length ∧ 1 ≤ litLens.getD s 0 ∧ litLens.getD s 0 ≤ 15
  distOk d := d < distLens.length ∧ 1 ≤ distLens.getD d 0 ∧ distLens.getD d 0 ≤ 15
  hlit s hs _ _ hc := decodeSym_canon_at litLens s hs.1 hs.2.1 hs.2.2 (validTable_fit false litLens hl s hs.1 hs.2.1 hs.2.2) hc
  hdist d hs _ _ hc := decodeSym_canon_at distLens d hs.1 hs.2.1 hs.2.2 (validTable_fit false distLens hd d hs.1 hs.2.1 hs.2.2) hc
