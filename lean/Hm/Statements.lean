import Hm.Response

/-! the documented calling protocol and the statements of some property theorems, as `Prop`s -/

inductive Verdict where
  | more | complete | rejected (c : Cat) | crashed (k : PanicKind)
deriving DecidableEq, Repr

def Verdict.isRejected : Verdict → Bool | .rejected _ => true | _ => false
def Verdict.isCrashed : Verdict → Bool | .crashed _ => true | _ => false

structure Conn (σ : Type) where
  st : σ
  pending : Bytes
  total : Nat
  presented : Nat
  verdict : Verdict
  reserves : List Reserve

def Conn.init (s : σ) : Conn σ :=
  { st := s, pending := [], total := 0, presented := 0, verdict := .more, reserves := [] }

/-- unconsumed bytes are re-presented in front of the new ones; the caller stops at the first
    completion, rejection or crash -/
def Request.deliver (u : UriImpl) (cfg : ReqCfg) (c : Conn (ReqState u)) (d : Bytes) : Conn (ReqState u) :=
  match c.verdict with
  | .more =>
    let buf := c.pending ++ d
    match Request.parse u cfg c.st buf with
    | .err e => { c with verdict := .rejected e, presented := c.presented + d.length }
    | .panic k => { c with verdict := .crashed k, presented := c.presented + d.length }
    | .ok o =>
      { st := o.st, pending := buf.drop o.consumed, total := c.total + o.consumed,
        presented := c.presented + d.length,
        verdict := if o.status = .complete then .complete else .more,
        reserves := c.reserves ++ o.reserves }
  | _ => c

def Request.run (u : UriImpl) (cfg : ReqCfg) (ds : List Bytes) : Conn (ReqState u) :=
  ds.foldl (Request.deliver u cfg) (Conn.init (Request.new u))

structure ReqPublic (u : UriImpl) where
  method : Bytes
  target : u.U
  headers : List Header
  body : Bytes

def ReqState.pub (s : ReqState u) : ReqPublic u := ⟨s.method, s.target, s.headers, s.body⟩

/-- C01, as a statement about one tree (`cfg.tree`) -/
def C01_statement (u : UriImpl) (cfg : ReqCfg) : Prop :=
  ∀ ds : List Bytes,
    let a := Request.run u cfg ds
    let b := Request.run u cfg [ds.flatten]
    (a.verdict.isRejected = b.verdict.isRejected) ∧ (a.verdict.isCrashed = b.verdict.isCrashed) ∧
    (a.verdict = .complete ↔ b.verdict = .complete) ∧
    (a.verdict = .complete → a.total = b.total ∧ a.st.method = b.st.method ∧ a.st.headers = b.st.headers ∧ a.st.body = b.st.body) ∧
    (a.verdict = .more → a.total = b.total ∧ a.st.phase = b.st.phase ∧ a.st.totalBytes = b.st.totalBytes
        ∧ a.st.headers = b.st.headers ∧ a.st.body = b.st.body)

/-- C06 for the request parser -/
def C06_request_statement (u : UriImpl) (cfg : ReqCfg) : Prop :=
  ∀ ds : List Bytes, (Request.run u cfg ds).verdict.isCrashed = false

/-- C07 (second sentence) for the request parser -/
def C07_request_statement (u : UriImpl) (cfg : ReqCfg) : Prop :=
  ∀ ds : List Bytes, ∀ r ∈ (Request.run u cfg ds).reserves,
    r.additional ≤ (ds.map List.length).sum

/-- C08: an answer "more input" implies the bytes presented for this message are within the maximum -/
def C08_more_statement (u : UriImpl) (cfg : ReqCfg) : Prop :=
  ∀ ds : List Bytes, ∀ m, cfg.max = some m → (Request.run u cfg ds).verdict = .more →
    (Request.run u cfg ds).presented ≤ m

/-- C17 for Content-Length of requests -/
def allDigitsStmt (s : Bytes) : Bool := !s.isEmpty && s.all fun b => 48 ≤ b && b ≤ 57
def C17_request_statement (u : UriImpl) (cfg : ReqCfg) : Prop :=
  ∀ ds : List Bytes, (Request.run u cfg ds).verdict = .complete →
    ∀ v, headerValue (Request.run u cfg ds).st.headers kContentLength = some v → allDigitsStmt v = true

/-- a URI instance for witnesses: accepts exactly "/" -/
def slashUri : UriImpl := { U := Bytes, parse := fun t => if t = [47] then some t else none, display := id, default := [] }

def pinned (rl : Option Nat) : ReqCfg := { rl := rl, hl := none, max := none, ov := true, tree := ⟨false⟩ }

def bReqLine : Bytes := [71, 69, 84, 32, 47, 32, 72, 84, 84, 80, 47, 49, 46, 49]   -- "GET / HTTP/1.1"
#guard bReqLine = str "GET / HTTP/1.1"

/-- the C01 defect on the pinned tree, replayed inside the model and checked by the kernel -/
theorem C01_pinned_witness :
    (Request.run slashUri (pinned (some 14)) [bReqLine ++ [CR], [LF, CR, LF]]).verdict.isRejected = true ∧
    (Request.run slashUri (pinned (some 14)) [bReqLine ++ [CR, LF, CR, LF]]).verdict = .complete := by
  decide

theorem C01_pinned_false : ¬ C01_statement slashUri (pinned (some 14)) := by
  intro h
  have := h [bReqLine ++ [CR], [LF, CR, LF]]
  revert this
  decide

/-- the same input on the repaired tree -/
def repairedCfg (rl : Option Nat) : ReqCfg := { rl := rl, hl := none, max := none, ov := true, tree := ⟨true⟩ }
example :
    (Request.run slashUri (repairedCfg (some 14)) [bReqLine ++ [CR], [LF, CR, LF]]).verdict = .complete := by
  decide
