import Hm.HeaderRoundTrip

/-! what the header parser stores is well-formed in the sense of `WfHeader` — the half of C11 that says
    "the product of parsing can be re-serialised" -/

theorem all_dropWhile {p q : UInt8 → Bool} {l : Bytes} (h : l.all q = true) : (l.dropWhile p).all q = true := by
  induction l with
  | nil => simp
  | cons x xs ih =>
    simp only [List.all_cons, Bool.and_eq_true] at h
    simp only [List.dropWhile_cons]
    split
    · exact ih h.2
    · simp [h.1, h.2]

theorem validValue_trimWsp {v : Bytes} (h : validValue v = true) : validValue (trimWsp v) = true := by
  unfold validValue at h ⊢
  unfold trimWsp trimBy trimEndBy trimStartBy
  have h1 := all_dropWhile (p := isWsp) h
  have h2 : ((v.dropWhile isWsp).reverse).all (fun b => isWsp b || isGraphic b) = true := by
    rw [List.all_reverse]; exact h1
  have h3 := all_dropWhile (p := isWsp) h2
  rw [List.all_reverse]; exact h3

/-- a list whose first byte is not `p` is left alone by `dropWhile p` -/
theorem dropWhile_of_head {p : UInt8 → Bool} {l : Bytes} (h : ∀ x, l.head? = some x → p x = false) :
    l.dropWhile p = l := by
  cases l with
  | nil => rfl
  | cons x xs => simp [List.dropWhile_cons, h x rfl]

theorem head_dropWhile {p : UInt8 → Bool} {l : Bytes} : ∀ x, (l.dropWhile p).head? = some x → p x = false := by
  intro x hx
  have := List.head?_dropWhile_not p l
  rw [hx] at this
  simpa using this

/-- a non-empty prefix has the same head -/
theorem head_of_prefix {a b : Bytes} (h : a <+: b) : ∀ x, a.head? = some x → b.head? = some x := by
  intro x hx
  obtain ⟨r, rfl⟩ := h
  cases a with
  | nil => simp at hx
  | cons y ys => simpa using hx

theorem trimWsp_idem (v : Bytes) : trimWsp (trimWsp v) = trimWsp v := by
  unfold trimWsp trimBy trimEndBy trimStartBy
  -- t: start-trimmed;  r: also end-trimmed
  let t := v.dropWhile isWsp
  let r := (t.reverse.dropWhile isWsp).reverse
  show ((r.dropWhile isWsp).reverse.dropWhile isWsp).reverse = r
  -- r is a prefix of t, so its head (if any) is t's head, which is not WSP
  have hpre : r <+: t := by
    have hs : t.reverse.dropWhile isWsp <:+ t.reverse := List.dropWhile_suffix _
    have := List.reverse_prefix.mpr hs
    simpa [r] using this
  have h1 : r.dropWhile isWsp = r :=
    dropWhile_of_head fun x hx => head_dropWhile (l := v) x (head_of_prefix hpre x hx)
  -- r.reverse is a `dropWhile` result, so its head is not WSP either
  have h2 : r.reverse.dropWhile isWsp = r.reverse := by
    have : r.reverse = t.reverse.dropWhile isWsp := by simp [r]
    rw [this]
    exact dropWhile_of_head fun x hx => head_dropWhile (l := t.reverse) x hx
  rw [h1, h2, List.reverse_reverse]

theorem validValue_append {a b : Bytes} (ha : validValue a = true) (hb : validValue b = true) :
    validValue (a ++ b) = true := by
  unfold validValue at *; simp [List.all_append, ha, hb]

theorem unfold_valid {f : Nat} {raw v : Bytes} {c : Nat} {r : Bytes × Nat}
    (hv : validValue v = true) (h : unfold f raw v c = .ok (some r)) : validValue r.1 = true := by
  induction f generalizing raw v c with
  | zero => simp [unfold] at h
  | succ f ih =>
    unfold unfold at h
    cases hf : findCrlf raw with
    | none => simp [hf] at h
    | some i =>
      simp only [hf] at h
      split at h
      · simp at h
      · split at h
        · split at h
          · simp at h
          · rename_i hline
            have hl : validValue (raw.take i) = true := by simpa using hline
            apply ih _ h
            have hsp : validValue [SP] = true := by simp [validValue, isWsp]
            exact validValue_append (validValue_append hv hsp) (validValue_trimWsp hl)
        · simp at h; subst h; exact hv

theorem parseFirstLine_wf {line name v0 : Bytes} (h : parseFirstLine line = .ok (name, v0)) :
    name.all isGraphic = true ∧ COLON ∉ name ∧ validValue v0 = true := by
  unfold parseFirstLine at h
  split at h
  · simp at h
  · cases hc : findByte COLON line with
    | none => simp [hc] at h
    | some c =>
      simp only [hc] at h
      split at h
      · simp at h
      · rename_i hn
        split at h
        · simp at h
        · rename_i hv
          simp only [Except.ok.injEq, Prod.mk.injEq] at h
          obtain ⟨rfl, rfl⟩ := h
          exact ⟨by simpa [validName] using hn, (findByte_some' hc), by simpa using hv⟩
where
  findByte_some' {b : UInt8} {l : Bytes} {i : Nat} (h : findByte b l = some i) : b ∉ l.take i := by
    unfold findByte at h
    induction l generalizing i with
    | nil => simp [List.idxOf?] at h
    | cons x xs ih =>
      simp only [List.idxOf?, List.findIdx?_cons, beq_iff_eq] at h ih
      by_cases hx : x = b
      · simp only [hx, if_true, Option.some.injEq] at h; subst h; simp
      · simp only [hx, if_false, Option.map_eq_some_iff] at h
        obtain ⟨j, hj, rfl⟩ := h
        simp only [List.take_succ_cons, List.mem_cons, not_or]
        exact ⟨fun hc => hx hc.symm, ih hj⟩

theorem headerStep_wf {limit : Option Nat} {rest : Bytes} {h : Header} {n : Nat}
    (hs : headerStep limit rest = .ok (.field h n)) : WfHeader h := by
  unfold headerStep at hs
  by_cases hr : rest = []
  · simp [hr] at hs
  · rw [if_neg hr] at hs
    cases hf : findCrlf rest with
    | none => simp only [hf] at hs; split at hs <;> simp at hs
    | some i =>
      simp only [hf] at hs
      by_cases hlim : overLimit limit (i + 2) = true
      · simp [hlim] at hs
      · rw [if_neg hlim] at hs
        by_cases h0 : i = 0
        · simp [h0] at hs
        · rw [if_neg h0] at hs
          cases hp : parseFirstLine (rest.take i) with
          | error e => simp [hp] at hs
          | ok nv =>
            obtain ⟨name, v0⟩ := nv
            simp only [hp] at hs
            obtain ⟨hn1, hn2, hv0⟩ := parseFirstLine_wf hp
            cases hu : unfold (rest.length + 1) (rest.drop (i + 2)) v0 0 with
            | error e => simp [hu, finishField] at hs
            | ok o =>
              cases o with
              | none => simp [hu, finishField] at hs
              | some vn =>
                obtain ⟨v, m⟩ := vn
                simp only [hu, finishField, Except.ok.injEq, Step.field.injEq] at hs
                obtain ⟨rfl, _⟩ := hs
                have hv := unfold_valid hv0 hu
                exact ⟨hn1, hn2, validValue_trimWsp hv, trimWsp_idem v⟩

/-- C11 (header half): whatever header list the parser builds consists of fields that `generate` prints
    on one line each and `parse` reads back unchanged -/
theorem parseLoop_wf {limit : Option Nat} {f : Nat} {hs0 hs : List Header} {rest : Bytes} {off c : Nat}
    {st : HStatus} (h0 : ∀ h ∈ hs0, WfHeader h) (h : parseLoop limit f hs0 rest off = .ok (hs, st, c)) :
    ∀ h ∈ hs, WfHeader h := by
  induction f generalizing hs0 rest off with
  | zero => simp [parseLoop] at h; obtain ⟨rfl, _⟩ := h; exact h0
  | succ f ih =>
    unfold parseLoop at h
    split at h
    · simp at h
    · simp at h; obtain ⟨rfl, _⟩ := h; exact h0
    · simp at h; obtain ⟨rfl, _⟩ := h; exact h0
    · rename_i hh n hstep
      apply ih _ h
      intro x hx
      simp only [List.mem_append, List.mem_singleton] at hx
      rcases hx with hx | rfl
      · exact h0 x hx
      · exact headerStep_wf hstep

theorem Headers.parse_wf {limit : Option Nat} {hs0 hs : List Header} {raw : Bytes} {c : Nat} {st : HStatus}
    (h0 : ∀ h ∈ hs0, WfHeader h) (h : Headers.parse limit hs0 raw = .ok (hs, st, c)) : ∀ h ∈ hs, WfHeader h :=
  parseLoop_wf h0 h

/-- and therefore: parse, generate, parse again gives the same header list (any limit on the first
    parse, none on the second) -/
theorem C11_headers_reparse {limit : Option Nat} {hs : List Header} {raw : Bytes} {c : Nat}
    (h : Headers.parse limit [] raw = .ok (hs, .complete, c)) (tail : Bytes) :
    Headers.parse none [] (genBlock hs ++ tail) = .ok (hs, .complete, (genBlock hs).length) :=
  Headers.parse_generate hs (Headers.parse_wf (by simp) h) tail
