import Hm.C15Gzip

/-! C15 (integrity fields): a stream that differs from an accepted one only in the stored check value
    is rejected -/

theorem readBits_pos {n : Nat} {i : Inp} {p v p' : Nat} (h : readBits n i p = .ok (v, p')) : p' = p + n := by
  induction n generalizing p v p' with
  | zero => simp [readBits, R.pure] at h; omega
  | succ n ih =>
    unfold readBits at h
    obtain ⟨b, p1, hb, h⟩ := bind_ok h
    obtain ⟨v1, p2, hv, h⟩ := bind_ok h
    simp [R.pure] at h
    have := ih hv
    unfold readBit at hb
    split at hb <;> simp at hb
    omega

theorem readByte_pos {i : Inp} {p p' : Nat} {b : UInt8} (h : readByte i p = .ok (b, p')) : p' = p + 8 := by
  unfold readByte at h
  obtain ⟨v, p1, hv, h⟩ := bind_ok h
  simp [R.pure] at h
  have := readBits_pos hv; omega

theorem readBytes_pos {n : Nat} {i : Inp} {p p' : Nat} {bs : List UInt8} (h : readBytes n i p = .ok (bs, p')) :
    p' = p + 8 * n := by
  induction n generalizing p bs p' with
  | zero => simp [readBytes, R.pure] at h; omega
  | succ n ih =>
    unfold readBytes at h
    obtain ⟨b, p1, hb, h⟩ := bind_ok h
    obtain ⟨bs1, p2, hbs, h⟩ := bind_ok h
    simp [R.pure] at h
    have := readByte_pos hb
    have := ih hbs
    omega

/-- C15 (zlib, altered Adler-32): let `i` be accepted, and let `j` agree with `i` on every bit before
    the four trailer bytes.  If the four bytes `j` has there spell anything but the Adler-32 of the
    content, `j` is rejected — the decoder never hands the content out on the strength of the
    deflate data alone -/
theorem C15_zlib_field_altered (N : Nat) (i j : Inp) {out : Array UInt8} {p' : Nat}
    (h : zlibR N i 0 = .ok (out, p'))
    (hagree : ∀ k, k + 32 < p' → i k = j k)
    {ad' : List UInt8} {q' : Nat} (hread : readBytes 4 j (p' - 32) = .ok (ad', q'))
    (hdiff : ad'.foldl (fun acc b => acc * 256 + b.toNat) 0 ≠ adler32 out) :
    zlibR N j 0 = .error .bad := by
  unfold zlibR at h ⊢
  obtain ⟨cmf, p1, h1, h⟩ := bind_ok h
  obtain ⟨flg, p2, h2, h⟩ := bind_ok h
  obtain ⟨hchk, h⟩ := ite_fail_ok h
  obtain ⟨out1, p3, h3, h⟩ := bind_ok h
  obtain ⟨u, p4, h4, h⟩ := bind_ok h
  obtain ⟨ad, p5, h5, h⟩ := bind_ok h
  simp only at h
  obtain ⟨hne, h⟩ := ite_fail_ok h
  simp [R.pure] at h
  obtain ⟨rfl, rfl⟩ := h
  have e5 := readBytes_pos h5
  have m1 := Local.readByte.mono _ _ _ _ h1
  have m2 := Local.readByte.mono _ _ _ _ h2
  have m3 := (Local.inflateR N).mono _ _ _ _ h3
  have m4 := Local.alignRead.mono _ _ _ _ h4
  have j1 := Local.readByte.agree i j 0 cmf p1 h1 (fun k _ hk => hagree k (by omega))
  have j2 := Local.readByte.agree i j p1 flg p2 h2 (fun k _ hk => hagree k (by omega))
  have j3 := (Local.inflateR N).agree i j p2 out1 p3 h3 (fun k _ hk => hagree k (by omega))
  have j4 := Local.alignRead.agree i j p3 u p4 h4 (fun k _ hk => hagree k (by omega))
  have hp4 : p5 - 32 = p4 := by omega
  rw [hp4] at hread
  simp only [R.bind, j1, j2, if_neg hchk, j3, j4, hread]
  rw [if_pos hdiff]; rfl

/-- C15 (gzip, altered CRC-32 or ISIZE): let `i` be accepted, and let `j` agree with `i` on every bit
    before the eight trailer bytes.  If the two little-endian words `j` has there are not the CRC-32
    and the length (mod 2^32) of the content, `j` is rejected -/
theorem C15_gzip_field_altered (N : Nat) (i j : Inp) {out : Array UInt8} {p' : Nat}
    (h : gunzipR N i 0 = .ok (out, p'))
    (hagree : ∀ k, k + 64 < p' → i k = j k)
    {crc' isize' q1 q2 : Nat} (hr1 : readBits 32 j (p' - 64) = .ok (crc', q1)) (hr2 : readBits 32 j q1 = .ok (isize', q2))
    (hdiff : crc' ≠ (crc32 out).toNat ∨ isize' ≠ out.size % 4294967296) :
    gunzipR N j 0 = .error .bad := by
  unfold gunzipR at h ⊢
  obtain ⟨hdr, p1, h1, h⟩ := bind_ok h
  obtain ⟨hc1, h⟩ := ite_fail_ok h
  obtain ⟨hc2, h⟩ := ite_fail_ok h
  obtain ⟨extra, p2, h2, h⟩ := bind_ok h
  obtain ⟨name, p3, h3, h⟩ := bind_ok h
  obtain ⟨comment, p4, h4, h⟩ := bind_ok h
  obtain ⟨hcrc, p5, h5, h⟩ := bind_ok h
  simp only at h
  obtain ⟨hc3, h⟩ := ite_fail_ok h
  obtain ⟨out1, p6, h6, h⟩ := bind_ok h
  obtain ⟨u, p7, h7, h⟩ := bind_ok h
  obtain ⟨crc, p8, h8, h⟩ := bind_ok h
  obtain ⟨isize, p9, h9, h⟩ := bind_ok h
  obtain ⟨hne, h⟩ := ite_fail_ok h
  simp [R.pure] at h
  obtain ⟨rfl, rfl⟩ := h
  have e8 := readBits_pos h8
  have e9 := readBits_pos h9
  have L2 : Local (if (hdr.getD 3 0).toNat &&& 4 ≠ 0 then R.bind (readBits 16) fun xlen => R.bind (readBytes xlen) fun x => R.pure (some (xlen, x)) else R.pure none) :=
    Local.ite (Local.bind (Local.readBits 16) fun _ => Local.bind (Local.readBytes _) fun _ => Local.pure _) (Local.pure _)
  have L3 : Local (if (hdr.getD 3 0).toNat &&& 8 ≠ 0 then R.bind (readCString 65537) fun s => R.pure (some s) else R.pure none) :=
    Local.ite (Local.bind (Local.readCString _) fun _ => Local.pure _) (Local.pure _)
  have L4 : Local (if (hdr.getD 3 0).toNat &&& 16 ≠ 0 then R.bind (readCString 65537) fun s => R.pure (some s) else R.pure none) :=
    Local.ite (Local.bind (Local.readCString _) fun _ => Local.pure _) (Local.pure _)
  have L5 : Local (if (hdr.getD 3 0).toNat &&& 2 ≠ 0 then R.bind (readBits 16) fun c => R.pure (some c) else R.pure none) :=
    Local.ite (Local.bind (Local.readBits 16) fun _ => Local.pure _) (Local.pure _)
  have m1 := (Local.readBytes 10).mono _ _ _ _ h1
  have m2 := L2.mono _ _ _ _ h2
  have m3 := L3.mono _ _ _ _ h3
  have m4 := L4.mono _ _ _ _ h4
  have m5 := L5.mono _ _ _ _ h5
  have m6 := (Local.inflateR N).mono _ _ _ _ h6
  have m7 := Local.alignRead.mono _ _ _ _ h7
  have j1 := (Local.readBytes 10).agree i j 0 hdr p1 h1 (fun k _ hk => hagree k (by omega))
  have j2 := L2.agree i j p1 extra p2 h2 (fun k _ hk => hagree k (by omega))
  have j3 := L3.agree i j p2 name p3 h3 (fun k _ hk => hagree k (by omega))
  have j4 := L4.agree i j p3 comment p4 h4 (fun k _ hk => hagree k (by omega))
  have j5 := L5.agree i j p4 hcrc p5 h5 (fun k _ hk => hagree k (by omega))
  have j6 := (Local.inflateR N).agree i j p5 out1 p6 h6 (fun k _ hk => hagree k (by omega))
  have j7 := Local.alignRead.agree i j p6 u p7 h7 (fun k _ hk => hagree k (by omega))
  have hp7 : p9 - 64 = p7 := by omega
  rw [hp7] at hr1
  simp only [R.bind, j1, if_neg hc1, if_neg hc2, j2, j3, j4, j5, if_neg hc3, j6, j7, hr1, hr2]
  rw [if_pos hdiff]; rfl

/-- C15 (gzip, signature and method): nothing is returned unless the first three bytes are
    `1f 8b 08` and the reserved flag bits are clear -/
theorem C15_gzip_signature (N : Nat) (i : Inp) {out : Array UInt8} {p' : Nat}
    (h : gunzipR N i 0 = .ok (out, p')) :
    ∃ hdr p1, readBytes 10 i 0 = .ok (hdr, p1) ∧ hdr.getD 0 0 = 0x1f ∧ hdr.getD 1 0 = 0x8b ∧ hdr.getD 2 0 = 8 ∧
      (hdr.getD 3 0).toNat &&& 0xE0 = 0 := by
  unfold gunzipR at h
  obtain ⟨hdr, p1, h1, h⟩ := bind_ok h
  obtain ⟨hc1, h⟩ := ite_fail_ok h
  obtain ⟨hc2, _⟩ := ite_fail_ok h
  refine ⟨hdr, p1, h1, ?_, ?_, ?_, ?_⟩
  · apply Decidable.byContradiction; intro hc; exact hc1 (Or.inl hc)
  · apply Decidable.byContradiction; intro hc; exact hc1 (Or.inr (Or.inl hc))
  · apply Decidable.byContradiction; intro hc; exact hc1 (Or.inr (Or.inr hc))
  · apply Decidable.byContradiction; intro hc; exact hc2 hc

/-- C15 (zlib, header): nothing is returned unless CMF/FLG form a valid zlib header (method 8, window
    ≤ 32 KiB, check bits, no preset dictionary) -/
theorem C15_zlib_header (N : Nat) (i : Inp) {out : Array UInt8} {p' : Nat}
    (h : zlibR N i 0 = .ok (out, p')) :
    ∃ cmf flg p1 p2, readByte i 0 = .ok (cmf, p1) ∧ readByte i p1 = .ok (flg, p2) ∧
      (cmf.toNat * 256 + flg.toNat) % 31 = 0 ∧ flg.toNat &&& 32 = 0 ∧ cmf.toNat &&& 15 = 8 ∧ cmf.toNat / 16 ≤ 7 := by
  unfold zlibR at h
  obtain ⟨cmf, p1, h1, h⟩ := bind_ok h
  obtain ⟨flg, p2, h2, h⟩ := bind_ok h
  obtain ⟨hc, _⟩ := ite_fail_ok h
  refine ⟨cmf, flg, p1, p2, h1, h2, ?_, ?_, ?_, ?_⟩
  · apply Decidable.byContradiction; intro hx; exact hc (Or.inl hx)
  · apply Decidable.byContradiction; intro hx; exact hc (Or.inr (Or.inl hx))
  · apply Decidable.byContradiction; intro hx; exact hc (Or.inr (Or.inr (Or.inl hx)))
  · apply Decidable.byContradiction; intro hx; exact hc (Or.inr (Or.inr (Or.inr (by omega))))
