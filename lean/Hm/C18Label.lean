import Hm.C16Select
import Hm.C18

/-! C18 / C16: the charset label is matched case-insensitively — for every label -/

def labelChar (b : UInt8) : Bool :=
  (65 ≤ b && b ≤ 90) || (97 ≤ b && b ≤ 122) || (48 ≤ b && b ≤ 57) || b == 45 || b == 95 || b == 58 || b == 46

theorem isLabelWs_lower (b : UInt8) : isLabelWs (asciiLower b) = isLabelWs b := by
  have : ∀ n, n < 256 → isLabelWs (asciiLower n.toUInt8) = isLabelWs n.toUInt8 := by decide +kernel
  have h := this b.toNat b.toNat_lt
  simpa using h

theorem labelChar_lower (b : UInt8) : labelChar (asciiLower b) = labelChar b := by
  have : ∀ n, n < 256 → labelChar (asciiLower n.toUInt8) = labelChar n.toUInt8 := by decide +kernel
  have h := this b.toNat b.toNat_lt
  simpa using h

theorem dropWhile_lower (p : UInt8 → Bool) (hp : ∀ b, p (asciiLower b) = p b) (t : Bytes) :
    (lower t).dropWhile p = lower (t.dropWhile p) := by
  induction t with
  | nil => simp [lower]
  | cons b rest ih =>
    simp only [lower, List.map_cons, List.dropWhile_cons, hp] at ih ⊢
    split
    · exact ih
    · simp

theorem takeWhile_lower (p : UInt8 → Bool) (hp : ∀ b, p (asciiLower b) = p b) (t : Bytes) :
    (lower t).takeWhile p = lower (t.takeWhile p) := by
  induction t with
  | nil => simp [lower]
  | cons b rest ih =>
    simp only [lower, List.map_cons, List.takeWhile_cons, hp] at ih ⊢
    split
    · simp [ih]
    · simp

theorem all_lower (p : UInt8 → Bool) (hp : ∀ b, p (asciiLower b) = p b) (t : Bytes) : (lower t).all p = t.all p := by
  induction t with
  | nil => simp [lower]
  | cons b rest ih => simp only [lower, List.map_cons, List.all_cons, hp] at ih ⊢; rw [ih]

theorem normLabel_lower (l : Bytes) : normLabel (lower l) = normLabel l := by
  have hnw : ∀ b, (!isLabelWs (asciiLower b)) = !isLabelWs b := fun b => by rw [isLabelWs_lower]
  unfold normLabel
  simp only [dropWhile_lower isLabelWs isLabelWs_lower, takeWhile_lower (fun b => !isLabelWs b) hnw,
    dropWhile_lower (fun b => !isLabelWs b) hnw, all_lower isLabelWs isLabelWs_lower]
  have hall := all_lower labelChar labelChar_lower ((l.dropWhile isLabelWs).takeWhile fun b => !isLabelWs b)
  unfold labelChar at hall
  rw [hall, lower_lower]
  simp [lower]

/-- C16/C18: `Encoding::for_label` gives the same answer for a label and for its lower-case form, hence
    for any two spellings of a label that differ only in ASCII letter case — for every byte string -/
theorem C18_charset_label_case (l : Bytes) : forLabel (lower l) = forLabel l := by
  unfold forLabel; rw [normLabel_lower]

theorem C18_charset_label_case' {l l' : Bytes} (h : eqIgnoreCase l l' = true) : forLabel l = forLabel l' := by
  unfold eqIgnoreCase at h
  have : lower l = lower l' := by simpa using h
  rw [← C18_charset_label_case l, this, C18_charset_label_case]
