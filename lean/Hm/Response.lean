import Hm.Request

/-! src/chunked_body.rs and src/response.rs -/

inductive ChunkPhase where | chunkData | chunkSize | chunkTerminator | trailer
deriving DecidableEq, Repr

structure ChunkState where
  buffer : Bytes
  needed : Nat
  phase : ChunkPhase
  trailer : List Header
deriving Repr

def ChunkState.new : ChunkState := { buffer := [], needed := 0, phase := .chunkSize, trailer := [] }

/-- chunked_body.rs:8-14 -/
def parseChunkSize (t : Tree) (line : Bytes) : Option Nat :=
  let delim : Nat :=
    if t.repaired then (findByte SEMI line).getD line.length
    else (line.findIdx? fun b => b == SEMI || b == CR).getD line.length
  parseNumber t 16 (line.take delim)

/-- chunked_body.rs:88-101 -/
def decodeData (c : ChunkState) (raw : Bytes) : PhaseOut ChunkState :=
  let consumed := min raw.length c.needed
  let c := { c with needed := c.needed - consumed, buffer := c.buffer ++ raw.take consumed }
  if c.needed = 0 then { internal := .completePart, st := { c with phase := .chunkTerminator }, consumed := consumed }
  else { internal := .incomplete, st := c, consumed := consumed }

/-- chunked_body.rs:103-127 -/
def decodeSize (ov : Bool) (t : Tree) (c : ChunkState) (raw : Bytes) : Out (PhaseOut ChunkState) :=
  match findCrlf raw with
  | none => .ok { internal := .incomplete, st := c, consumed := 0 }
  | some e =>
    let line := raw.take e
    if !validUtf8 line then .err .ChunkSizeLineNotValidText else
    match parseChunkSize t line with
    | none => .err .InvalidChunkSize
    | some n => do
      let r ← if t.repaired then vecReserve "chunk.buffer" c.buffer.length (min n (raw.length - (e + 2)))
              else do
                let want ← usizeAdd ov c.buffer.length n
                vecReserve "chunk.buffer" c.buffer.length want
      .ok { internal := .completePart,
            st := { c with needed := n, phase := if n = 0 then .trailer else .chunkData },
            consumed := e + 2, reserves := [r] }

/-- chunked_body.rs:129-141 -/
def decodeTerminator (c : ChunkState) (raw : Bytes) : Out (PhaseOut ChunkState) :=
  match raw with
  | [] => .ok { internal := .incomplete, st := c, consumed := 0 }
  | [b] => if b = CR then .ok { internal := .incomplete, st := c, consumed := 0 } else .err .InvalidChunkTerminator
  | a :: b :: _ =>
    if a = CR ∧ b = LF then .ok { internal := .completePart, st := { c with phase := .chunkSize }, consumed := 2 }
    else .err .InvalidChunkTerminator

/-- chunked_body.rs:143-158 (trailer headers are parsed with no line limit) -/
def decodeTrailer (c : ChunkState) (raw : Bytes) : Out (PhaseOut ChunkState) := do
  let (hs, status, consumed) ← liftH Cat.Trailer (Headers.parse none c.trailer raw)
  let c := { c with trailer := hs }
  match status with
  | .complete => .ok { internal := .completeWhole, st := c, consumed := consumed }
  | .incomplete => .ok { internal := .incomplete, st := c, consumed := consumed }

/-- chunked_body.rs:50-86 -/
def ChunkState.decodeLoop (ov : Bool) (t : Tree) : Nat → ChunkState → Bytes → Nat → List Reserve →
    Out (ParseOut ChunkState)
  | 0, c, _, tc, rs => .ok { st := c, status := .incomplete, consumed := tc, reserves := rs }
  | fuel + 1, c, raw, tc, rs => do
    let rem := raw.drop tc
    let po ← match c.phase with
      | .chunkData => .ok (decodeData c rem)
      | .chunkSize => decodeSize ov t c rem
      | .chunkTerminator => decodeTerminator c rem
      | .trailer => decodeTrailer c rem
    let tc := tc + po.consumed
    let rs := rs ++ po.reserves
    match po.internal with
    | .completePart => ChunkState.decodeLoop ov t fuel po.st raw tc rs
    | .completeWhole => .ok { st := po.st, status := .complete, consumed := tc, reserves := rs }
    | .incomplete => .ok { st := po.st, status := .incomplete, consumed := tc, reserves := rs }

def ChunkState.decode (ov : Bool) (t : Tree) (c : ChunkState) (raw : Bytes) :=
  ChunkState.decodeLoop ov t (2 * raw.length + 4) c raw 0 []

inductive RespPhase where
  | chunkedBody (c : ChunkState) | fixedBody (n : Nat) | headers | statusLine
deriving Repr

structure RespState where
  phase : RespPhase
  statusCode : Nat
  reasonPhrase : Bytes
  headers : List Header
  body : Bytes
  trailer : Bytes
deriving Repr

def Response.new : RespState :=
  { phase := .statusLine, statusCode := 200, reasonPhrase := kOk, headers := [], body := [], trailer := [] }

structure RespCfg where
  hl : Option Nat
  ov : Bool
  tree : Tree

/-- response.rs:16-44 -/
def parseStatusLine (t : Tree) (line : Bytes) : Except Cat (Nat × Bytes) :=
  match findByte SP line with
  | none => .error .StatusLineNoProtocolDelimiter
  | some pd =>
    if line.take pd ≠ http11 then .error .StatusLineProtocol else
    let atCode := line.drop (pd + 1)
    match findByte SP atCode with
    | none => .error .StatusLineNoStatusCodeDelimiter
    | some cd =>
      match parseNumber t 10 (atCode.take cd) with
      | none => .error .InvalidStatusCode
      | some code =>
        if code < 1000 then .ok (code, atCode.drop (cd + 1)) else .error .StatusCodeOutOfRange

/-- response.rs:412-455: move the decoded body in and rewrite the framing headers -/
def dechunkRewrite (t : Tree) (s : RespState) (c : ChunkState) : RespState :=
  let framing (n : Bytes) : Bool :=
    nameEq n kContentLength || nameEq n kTransferEncoding || nameEq n kTrailer
  let trailer := if t.repaired then c.trailer.filter fun h => !framing h.name else c.trailer
  let hs := trailer.foldl addHeader s.headers
  let te0 := (headerTokens hs kTransferEncoding).dropLast
  -- current tree: empty list elements carry no coding and are not written back (RFC 7230 §7)
  let te := if t.repaired then te0.filter (fun c => !c.isEmpty) else te0
  let hs := if te.isEmpty then removeHeader hs kTransferEncoding
            else setHeader hs kTransferEncoding (joinWith (if t.repaired then [COMMA, SP] else [SP]) te)
  let hs := addHeader hs ⟨kContentLength, natToDec c.buffer.length⟩
  let hs := removeHeader hs kTrailer
  { s with body := c.buffer, headers := hs, phase := .statusLine }

def Response.parseLoop (cfg : RespCfg) : Nat → RespState → Bytes → Nat → List Reserve →
    Out (ParseOut RespState)
  | 0, s, _, tc, rs => .ok { st := s, status := .incomplete, consumed := tc, reserves := rs }
  | fuel + 1, s, raw, tc, rs => do
    let rem := raw.drop tc
    let po : PhaseOut RespState ← match s.phase with
      | .chunkedBody c => do
        let r ← ChunkState.decode cfg.ov cfg.tree c rem
        match r.status with
        | .complete => .ok { internal := .completeWhole, st := dechunkRewrite cfg.tree s r.st, consumed := r.consumed, reserves := r.reserves }
        | .incomplete => .ok { internal := .incomplete, st := { s with phase := .chunkedBody r.st }, consumed := r.consumed, reserves := r.reserves }
      | .fixedBody n =>
        if s.body.length > n then .panic .arithmetic else
        let needed := n - s.body.length
        if rem.length ≥ needed then
          .ok { internal := .completeWhole, st := { s with body := s.body ++ rem.take needed, trailer := s.trailer ++ rem.drop needed }, consumed := rem.length }
        else .ok { internal := .incomplete, st := { s with body := s.body ++ rem }, consumed := rem.length }
      | .headers => do
        -- response.rs: a dangling CR is held back from the header parser (current tree)
        let rem := if cfg.tree.repaired then stripDanglingCr rem else rem
        let (hs, status, consumed) ← liftH Cat.Headers (Headers.parse cfg.hl s.headers rem)
        let s := { s with headers := hs }
        match status with
        | .incomplete => .ok { internal := .incomplete, st := s, consumed := consumed }
        | .complete =>
          match headerValue hs kContentLength with
          | some v =>
            match parseNumber cfg.tree 10 v with
            | none => .err .InvalidContentLength
            | some cl => do
              let want := if cfg.tree.repaired then min cl (rem.length - consumed) else cl
              let r ← vecReserve "response.body" s.body.length want
              .ok { internal := .completePart, st := { s with phase := .fixedBody cl }, consumed := consumed, reserves := [r] }
          | none =>
            if hasHeaderToken hs kTransferEncoding kChunked then
              .ok { internal := .completePart, st := { s with phase := .chunkedBody ChunkState.new }, consumed := consumed }
            else .ok { internal := .completeWhole, st := s, consumed := consumed }
      | .statusLine =>
        match findCrlf rem with
        | none => .ok { internal := .incomplete, st := s, consumed := 0 }
        | some e =>
          let line := rem.take e
          if !validUtf8 line then .err .StatusLineNotValidText else
          match parseStatusLine cfg.tree line with
          | .error c => .err c
          | .ok (code, reason) =>
            .ok { internal := .completePart, st := { s with phase := .headers, statusCode := code, reasonPhrase := reason }, consumed := e + 2 }
    let tc := tc + po.consumed
    let rs := rs ++ po.reserves
    match po.internal with
    | .completePart => Response.parseLoop cfg fuel po.st raw tc rs
    | .completeWhole => .ok { st := po.st, status := .complete, consumed := tc, reserves := rs }
    | .incomplete => .ok { st := po.st, status := .incomplete, consumed := tc, reserves := rs }

def Response.parse (cfg : RespCfg) (s : RespState) (raw : Bytes) :=
  Response.parseLoop cfg 4 s raw 0 []

def Response.generate (cfg : RespCfg) (s : RespState) : Option Bytes :=
  (Headers.generate cfg.hl s.headers).map fun h =>
    http11 ++ [SP] ++ natToDec s.statusCode ++ [SP] ++ s.reasonPhrase ++ CRLF ++ h ++ s.body
