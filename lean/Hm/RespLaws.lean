import Hm.RespSys

/-! ### declared-length body (normalised) -/

theorem rfixedStep_ok {s s' : RespState} {rem : Bytes} {n c : Nat} {i : Internal}
    (h : rfixedStep s rem n = .ok i s' c) :
    c ≤ rem.length ∧ i ≠ .completePart ∧ s'.phase = s.phase ∧ s'.body.length ≤ n := by
  unfold rfixedStep at h
  split at h
  · simp at h
  · split at h
    · simp at h; obtain ⟨rfl, rfl, rfl⟩ := h; simp; omega
    · simp at h; obtain ⟨rfl, rfl, rfl⟩ := h; simp; omega

theorem rfixedStep_p1 {s s' : RespState} {rem : Bytes} {n c : Nat} {i : Internal}
    (h : rfixedStep s rem n = .ok i s' c) (hi : i ≠ .incomplete) (d : Bytes) :
    rfixedStep s (rem ++ d) n = .ok i s' c := by
  unfold rfixedStep at h ⊢
  split at h
  · simp at h
  · rename_i hg
    rw [if_neg hg]
    split at h
    · rename_i hlen
      have : (rem ++ d).length ≥ n - s.body.length := by simp; omega
      rw [if_pos this, List.take_append_of_le_length hlen]
      exact h
    · simp at h; exact absurd h.1.symm hi

theorem rfixedStep_p3 {s : RespState} {rem : Bytes} {n : Nat} {e : Fail}
    (hI : s.body.length ≤ n) (h : rfixedStep s rem n = .fail e) (d : Bytes) :
    ∃ e', rfixedStep s (rem ++ d) n = .fail e' := by
  unfold rfixedStep at h
  split at h
  · omega
  · split at h <;> simp at h

theorem rfixedStep_p2 {s s' : RespState} {rem : Bytes} {n c : Nat}
    (hI : s.body.length ≤ n) (h : rfixedStep s rem n = .ok .incomplete s' c) (d : Bytes) :
    rfixedStep s (rem ++ d) n = (rfixedStep s' (rem.drop c ++ d) n).shift c := by
  unfold rfixedStep at h
  split at h
  · omega
  · split at h
    · simp at h
    · rename_i hg hlen
      simp only [Res.ok.injEq, true_and] at h
      obtain ⟨rfl, rfl⟩ := h
      simp only [List.drop_length, List.nil_append]
      unfold rfixedStep
      have hg' : ¬ (s.body ++ rem).length > n := by simp; omega
      rw [if_neg hg, if_neg hg']
      by_cases hl : (rem ++ d).length ≥ n - s.body.length
      · have hl' : d.length ≥ n - (s.body ++ rem).length := by simp at hl ⊢; omega
        rw [if_pos hl, if_pos hl']
        have htake : (rem ++ d).take (n - s.body.length) = rem ++ d.take (n - (s.body ++ rem).length) := by
          rw [List.take_append]
          have h1 : rem.take (n - s.body.length) = rem := List.take_of_length_le (by omega)
          rw [h1]; congr 2; simp; omega
        have hc : n - s.body.length = rem.length + (n - (s.body ++ rem).length) := by simp; omega
        simp only [Res.shift, htake, List.append_assoc]
        rw [hc]
      · have hl' : ¬ d.length ≥ n - (s.body ++ rem).length := by simp at hl ⊢; omega
        rw [if_neg hl, if_neg hl']
        simp [Res.shift]

/-! ### chunked body: the laws of the nested decoder's `parse` are the step laws here -/

theorem rchunkStep_ok {s s' : RespState} {cs : ChunkState} {rem : Bytes} {n : Nat} {i : Internal}
    (h : rchunkStep s cs rem = .ok i s' n) :
    n ≤ rem.length ∧ i ≠ .completePart ∧
    (i = .incomplete → ∃ cs', chunkSys.parse cs rem = .ok .incomplete cs' n ∧ s' = { s with phase := .chunkedBody cs' }) := by
  unfold rchunkStep at h
  cases hp : chunkSys.parse cs rem with
  | fail e => simp [hp] at h
  | ok st cs' m =>
    have := (Sys.parse_inv chunkSys_lawful trivial hp).2
    cases st with
    | complete => simp [hp] at h; obtain ⟨rfl, rfl, rfl⟩ := h; simp; omega
    | incomplete => simp [hp] at h; obtain ⟨rfl, rfl, rfl⟩ := h; simp; omega

theorem rchunkStep_p1 {s s' : RespState} {cs : ChunkState} {rem : Bytes} {n : Nat} {i : Internal}
    (h : rchunkStep s cs rem = .ok i s' n) (hi : i ≠ .incomplete) (d : Bytes) :
    rchunkStep s cs (rem ++ d) = .ok i s' n := by
  unfold rchunkStep at h ⊢
  cases hp : chunkSys.parse cs rem with
  | fail e => simp [hp] at h
  | ok st cs' m =>
    cases st with
    | incomplete => simp [hp] at h; exact absurd h.1.symm hi
    | complete =>
      rw [Sys.parse_append_complete chunkSys_lawful trivial hp d]
      simpa [hp] using h

theorem rchunkStep_p2 {s s' : RespState} {cs : ChunkState} {rem : Bytes} {n : Nat}
    (h : rchunkStep s cs rem = .ok .incomplete s' n) (d : Bytes) :
    ∃ cs', s' = { s with phase := .chunkedBody cs' } ∧
      rchunkStep s cs (rem ++ d) = (rchunkStep s' cs' (rem.drop n ++ d)).shift n := by
  obtain ⟨cs', hp, rfl⟩ := (rchunkStep_ok h).2.2 rfl
  refine ⟨cs', rfl, ?_⟩
  have := Sys.parse_append_incomplete chunkSys_lawful trivial hp d
  unfold rchunkStep
  rw [this]
  cases chunkSys.parse cs' (rem.drop n ++ d) with
  | fail e => simp [PRes.shift, Res.shift]
  | ok st cs2 m =>
    cases st with
    | complete => simp [PRes.shift, Res.shift, dechunkRewrite]
    | incomplete => simp [PRes.shift, Res.shift]

theorem rchunkStep_p3 {s : RespState} {cs : ChunkState} {rem : Bytes} {e : Fail}
    (h : rchunkStep s cs rem = .fail e) (d : Bytes) : ∃ e', rchunkStep s cs (rem ++ d) = .fail e' := by
  unfold rchunkStep at h ⊢
  cases hp : chunkSys.parse cs rem with
  | fail e0 =>
    obtain ⟨e1, he1⟩ := Sys.parse_append_fail chunkSys_lawful trivial hp d
    rw [he1]; exact ⟨_, rfl⟩
  | ok st cs' m => cases st <;> simp [hp] at h

/-! ### the instance -/

theorem respInv_new : RespInv Response.new := by simp [RespInv, Response.new]

theorem respSys_lawful (hl : Option Nat) : (respSys hl).Lawful RespInv where
  pos := by intro s n; simp only [respSys]; cases s.phase <;> simp [respRank]
  mono := by intro s n m _; simp [respSys]
  le := by
    intro s b i s' c hI h
    simp only [respSys, respStep] at h
    split at h
    · exact (rchunkStep_ok h).1
    · exact (rfixedStep_ok h).1
    · exact rhdrStep_le h
    · exact (rstatusStep_ok h).1
  inv := by
    intro s b i s' c hI h hcw
    simp only [respSys, respStep] at h
    unfold RespInv at hI ⊢
    split at h
    · rename_i cs hph
      cases i with
      | completePart => exact absurd rfl (rchunkStep_ok h).2.1
      | incomplete =>
        obtain ⟨cs', _, rfl⟩ := (rchunkStep_ok h).2.2 rfl
        simp
      | completeWhole => exact absurd rfl hcw
    · rename_i n hph
      simp only [hph] at hI
      have := rfixedStep_ok h
      rw [this.2.2.1, hph]; simp only; exact this.2.2.2
    · rename_i hph
      simp only [hph] at hI
      unfold rhdrStep at h
      cases hp : Headers.parse hl s.headers (stripDanglingCr b) with
      | error e => simp [hp] at h
      | ok r =>
        obtain ⟨hs, st, c0⟩ := r
        cases st with
        | incomplete => simp [hp] at h; obtain ⟨_, rfl, _⟩ := h; simp [hph, hI]
        | complete =>
          simp only [hp] at h
          have := rframing_ok h
          cases i with
          | incomplete => exact absurd rfl this.2.1
          | completeWhole => rw [this.2.2.2.1 rfl, hph]; simp only; rw [this.2.2.1, hI]
          | completePart =>
            rcases this.2.2.2.2 rfl with ⟨cl, hcl⟩ | ⟨cs, hcs⟩
            · rw [hcl]; simp only; rw [this.2.2.1, hI]; simp
            · rw [hcs]; trivial
    · rename_i hph
      simp only [hph] at hI
      have := rstatusStep_ok h
      cases i with
      | completeWhole => exact absurd rfl this.2.1
      | incomplete => obtain ⟨rfl, _⟩ := this.2.2.1 rfl; simp [hph, hI]
      | completePart => obtain ⟨h1, h2⟩ := this.2.2.2 rfl; rw [h1]; simp only; rw [h2, hI]
  p1 := by
    intro s b i s' c hI h hi d
    simp only [respSys, respStep] at h ⊢
    split at h
    · exact rchunkStep_p1 h hi d
    · exact rfixedStep_p1 h hi d
    · exact rhdrStep_p1 h hi d
    · exact rstatusStep_p1 h hi d
  p2 := by
    intro s b s' c hI h d
    simp only [respSys, respStep] at h ⊢
    unfold RespInv at hI
    split at h
    · rename_i cs hph
      obtain ⟨cs', rfl, hfuse⟩ := rchunkStep_p2 h d
      simp only; exact hfuse
    · rename_i n hph
      simp only [hph] at hI
      have := (rfixedStep_ok h).2.2.1
      rw [this, hph]; simp only
      exact rfixedStep_p2 hI h d
    · rename_i hph
      obtain ⟨hs, _, rfl⟩ := rhdrStep_incomplete h
      simpa only [hph] using rhdrStep_p2 h d
    · rename_i hph
      obtain ⟨rfl, rfl⟩ := (rstatusStep_ok h).2.2.1 rfl
      simp only [hph, List.drop_zero]
      cases rstatusStep s' (b ++ d) <;> simp [Res.shift]
  p3 := by
    intro s b e hI h d
    simp only [respSys, respStep] at h ⊢
    unfold RespInv at hI
    split at h
    · exact rchunkStep_p3 h d
    · rename_i n hph; simp only [hph] at hI; exact rfixedStep_p3 hI h d
    · exact rhdrStep_p3 h d
    · exact ⟨e, rstatusStep_p3 h d⟩
  dec := by
    intro s b s' c hI h
    simp only [respSys, respStep] at h
    simp only [respSys]
    split at h
    · exact absurd rfl (rchunkStep_ok h).2.1
    · exact absurd rfl (rfixedStep_ok h).2.1
    · rename_i hph
      unfold rhdrStep at h
      cases hp : Headers.parse hl s.headers (stripDanglingCr b) with
      | error e => simp [hp] at h
      | ok r =>
        obtain ⟨hs, st, c0⟩ := r
        cases st with
        | incomplete => simp [hp] at h
        | complete =>
          simp only [hp] at h
          rcases (rframing_ok h).2.2.2.2 rfl with ⟨cl, hcl⟩ | ⟨cs, hcs⟩
          · simp [hph, hcl, respRank]
          · simp [hph, hcs, respRank]
    · rename_i hph
      obtain ⟨h1, _⟩ := (rstatusStep_ok h).2.2.2 rfl
      simp [hph, h1, respRank]
