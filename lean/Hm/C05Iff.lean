import Hm.C05Conv
import Hm.C03Complete

/-! C05, both directions in one statement: the decoder reports completion after `n` bytes **iff** those bytes
    are a chunked body in the sense of the grammar `Sound` -/

theorem chunkSys_step' : chunkSys.step = chunkStep := rfl

/-- every derivation of the grammar is followed by the decoder, step by step -/
theorem Sound.loop {c : ChunkState} {pre : Bytes} {st : ChunkState} (h : Sound c pre st) :
    ∀ (tail : Bytes) (acc : Nat), ∃ f, chunkSys.loop f c (pre ++ tail) acc = some (.ok .complete st (acc + pre.length)) := by
  induction h with
  | size c line rest n st hph hno hutf hparse _ ih =>
    intro tail acc
    obtain ⟨f, hf⟩ := ih tail (acc + (line.length + 2))
    refine ⟨f + 1, ?_⟩
    have hstep : chunkSys.step c (line ++ CRLF ++ rest ++ tail)
        = .ok .completePart { c with needed := n, phase := if n = 0 then .trailer else .chunkData } (line.length + 2) := by
      rw [chunkSys_step']; unfold chunkStep; rw [hph]; simp only
      unfold csizeStep
      have hgroup : line ++ CRLF ++ rest ++ tail = line ++ CRLF ++ (rest ++ tail) := by simp
      rw [hgroup, findCrlf_line_append _ _ hno]
      have htake : (line ++ CRLF ++ (rest ++ tail)).take line.length = line := by
        rw [List.append_assoc]; exact List.take_left' rfl
      simp only [htake, hutf, Bool.not_true, Bool.false_eq_true, if_false, hparse]
    rw [Sys.loop_cp' _ hstep]
    have hdrop : (line ++ CRLF ++ rest ++ tail).drop (line.length + 2) = rest ++ tail := by
      have : line ++ CRLF ++ rest ++ tail = (line ++ CRLF) ++ (rest ++ tail) := by simp
      rw [this, List.drop_left' (by simp [CRLF])]
    rw [hdrop, hf]
    simp [CRLF]; omega
  | data c d rest st hph hlen _ ih =>
    intro tail acc
    obtain ⟨f, hf⟩ := ih tail (acc + d.length)
    refine ⟨f + 1, ?_⟩
    have hstep : chunkSys.step c (d ++ rest ++ tail)
        = .ok .completePart { c with needed := 0, buffer := c.buffer ++ d, phase := .chunkTerminator } d.length := by
      rw [chunkSys_step']; unfold chunkStep; rw [hph]; simp only
      unfold cdataStep
      have hmin : min (d ++ rest ++ tail).length c.needed = d.length := by simp; omega
      have htake : (d ++ rest ++ tail).take d.length = d := by
        rw [List.append_assoc]; exact List.take_left' rfl
      simp only [hmin]
      have hz : c.needed - d.length = 0 := by omega
      rw [if_pos hz, htake]
    rw [Sys.loop_cp' _ hstep]
    have hdrop : (d ++ rest ++ tail).drop d.length = rest ++ tail := by
      rw [List.append_assoc]; exact List.drop_left' rfl
    rw [hdrop, hf]
    simp; omega
  | term c rest st hph _ ih =>
    intro tail acc
    obtain ⟨f, hf⟩ := ih tail (acc + 2)
    refine ⟨f + 1, ?_⟩
    have hstep : chunkSys.step c (CRLF ++ rest ++ tail) = .ok .completePart { c with phase := .chunkSize } 2 := by
      rw [chunkSys_step']; unfold chunkStep; rw [hph]; simp only
      simp [ctermStep, CRLF]
    rw [Sys.loop_cp' _ hstep]
    have hdrop : (CRLF ++ rest ++ tail).drop 2 = rest ++ tail := by simp [CRLF]
    rw [hdrop, hf]
    simp [CRLF]; omega
  | trailer c blk hs hph hparse =>
    intro tail acc
    refine ⟨1, ?_⟩
    have hstep : chunkSys.step c (blk ++ tail) = .ok .completeWhole { c with trailer := hs } blk.length := by
      rw [chunkSys_step']; unfold chunkStep; rw [hph]; simp only
      unfold ctrailerStep
      rw [(Headers.parse_append_complete hparse tail).1]
      simp [hph]
    rw [show (1 : Nat) = 0 + 1 by rfl, Sys.loop_cw' _ hstep]

/-- C05 (completeness over the grammar): whatever follows, the decoder reports a chunked body of the grammar
    complete, stops exactly at its end, and is in the state the grammar describes -/
theorem C05_sound_complete {pre : Bytes} {st : ChunkState} (h : Sound ChunkState.new pre st) (tail : Bytes) :
    chunkSys.parse ChunkState.new (pre ++ tail) = .ok .complete st pre.length := by
  obtain ⟨f, hf⟩ := h.loop tail 0
  have hbig : ∃ k, chunkSys.μ ChunkState.new (pre ++ tail).length + f = f + k := ⟨_, Nat.add_comm _ _⟩
  obtain ⟨k, hk⟩ := hbig
  have h1 := Sys.loop_fuel_mono hf k
  have h2 : chunkSys.loop (chunkSys.μ ChunkState.new (pre ++ tail).length) ChunkState.new (pre ++ tail) 0
      = chunkSys.loop (f + k) ChunkState.new (pre ++ tail) 0 :=
    Sys.loop_fuel_irrel chunkSys_lawful trivial (Nat.le_refl _) (by rw [← hk]; omega)
  unfold Sys.parse
  rw [h2, h1]
  simp

/-- C05 — **complete exactly when**: the decoder reports completion after `n` bytes of `s`, in state `st`, iff
    the first `n` bytes of `s` are a chunked body of the grammar `Sound` ending in state `st` -/
theorem C05_complete_iff (s : Bytes) (st : ChunkState) (n : Nat) :
    chunkSys.parse ChunkState.new s = .ok .complete st n ↔ n ≤ s.length ∧ Sound ChunkState.new (s.take n) st := by
  constructor
  · intro h
    obtain ⟨h1, h2, _⟩ := C05_complete_only_if_wellformed s st n h
    exact ⟨h1, h2⟩
  · rintro ⟨hn, hs⟩
    have := C05_sound_complete hs (s.drop n)
    rw [List.take_append_drop, List.length_take, Nat.min_eq_left hn] at this
    exact this
