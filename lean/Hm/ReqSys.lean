import Hm.Request
import Hm.GenericRun

/-! the request parser of the repaired tree as a `Sys` (reservations erased: a reservation is at most the
    bytes available, so it cannot trap for any real slice; C06/C07 treat it separately) -/

inductive Fail where
  | err (c : Cat) | panic (k : PanicKind) | oof

/-- `count_bytes` after repair F2 -/
def countR (max : Option Nat) (total bytes : Nat) : Except Fail Nat :=
  if total + bytes ≤ usizeMax then
    (if overLimit max (total + bytes) then .error (.err .MessageTooLong) else .ok (total + bytes))
  else if max.isSome then .error (.err .MessageTooLong) else .ok usizeMax

/-- repair F7: presented but unconsumed bytes count against the maximum when answering "more" -/
def early (max : Option Nat) (total pending : Nat) : Bool := overLimit max (total + pending)

variable {u : UriImpl}

def bodyStep (cfg : ReqCfg) (s : ReqState u) (rem : Bytes) (n : Nat) : Res Fail (ReqState u) :=
  if s.body.length > n then .fail (.panic .arithmetic) else
  if rem.length ≥ n - s.body.length then
    .ok .completeWhole { s with body := s.body ++ rem.take (n - s.body.length) } (n - s.body.length)
  else if early cfg.max s.totalBytes 0 then .fail (.err .MessageTooLong)
  else .ok .incomplete { s with body := s.body ++ rem } rem.length

def rlStep (u : UriImpl) (cfg : ReqCfg) (s : ReqState u) (rem : Bytes) : Res Fail (ReqState u) :=
  match findCrlf rem with
  | none =>
    if overLimit cfg.rl (stripDanglingCr rem).length then .fail (.err .RequestLineTooLong)
    else if early cfg.max s.totalBytes rem.length then .fail (.err .MessageTooLong)
    else .ok .incomplete s 0
  | some e =>
    if overLimit cfg.rl e then .fail (.err .RequestLineTooLong) else
    if !validUtf8 (rem.take e) then .fail (.err .RequestLineNotValidText) else
    match countR cfg.max s.totalBytes (e + 2) with
    | .error f => .fail f
    | .ok t =>
      match parseRequestLine u (rem.take e) with
      | .error c => .fail (.err c)
      | .ok (m, tg) => .ok .completePart { s with phase := .headers, method := m, target := tg, totalBytes := t } (e + 2)

/-- what follows a completed header block -/
def afterHeaders (cfg : ReqCfg) (s : ReqState u) (hs : List Header) (t c : Nat) : Res Fail (ReqState u) :=
  match headerValue hs kContentLength with
  | none => .ok .completeWhole { s with headers := hs, totalBytes := t } c
  | some v =>
    match parseNumber ⟨true⟩ 10 v with
    | none => .fail (.err .InvalidContentLength)
    | some cl =>
      match countR cfg.max t cl with
      | .error f => .fail f
      | .ok t2 => .ok .completePart { s with headers := hs, totalBytes := t2, phase := .body cl } c

def hdrStep (cfg : ReqCfg) (s : ReqState u) (rem : Bytes) : Res Fail (ReqState u) :=
  match Headers.parse cfg.hl s.headers (stripDanglingCr rem) with
  | .error e => .fail (.err (.Headers e))
  | .ok (hs, st, c) =>
    match countR cfg.max s.totalBytes c with
    | .error f => .fail f
    | .ok t =>
      match st with
      | .incomplete =>
        if early cfg.max t (rem.length - c) then .fail (.err .MessageTooLong)
        else .ok .incomplete { s with headers := hs, totalBytes := t } c
      | .complete => afterHeaders cfg s hs t c

def reqStep (u : UriImpl) (cfg : ReqCfg) (s : ReqState u) (rem : Bytes) : Res Fail (ReqState u) :=
  match s.phase with
  | .body n => bodyStep cfg s rem n
  | .headers => hdrStep cfg s rem
  | .requestLine => rlStep u cfg s rem

def reqμ (s : ReqState u) (_ : Nat) : Nat :=
  match s.phase with | .requestLine => 3 | .headers => 2 | .body _ => 1

def requestSys (u : UriImpl) (cfg : ReqCfg) : Sys Fail (ReqState u) :=
  { step := reqStep u cfg, μ := reqμ, oof := .oof }
