import Hm.Utf8Case
import Hm.C18Label
import Hm.Rhymessage

/-! `MessageHeaders::parse` commutes with ASCII lower-casing of its input: the parser's verdict, the number of bytes
    consumed and the shape of the header list are those of the lower-cased block, and names and values come out
    lower-cased.  Hence two header blocks that differ only in ASCII letter case (anywhere) are accepted or refused
    alike, with the same error, at the same boundary, and give header lists equal up to case. -/

def lowerH (h : Header) : Header := ⟨lower h.name, lower h.value⟩

theorem lower_length (s : Bytes) : (lower s).length = s.length := by simp [lower]
theorem lower_take (n : Nat) (s : Bytes) : lower (s.take n) = (lower s).take n := by simp [lower, List.map_take]
theorem lower_drop (n : Nat) (s : Bytes) : lower (s.drop n) = (lower s).drop n := by simp [lower, List.map_drop]
theorem lower_append (a b : Bytes) : lower (a ++ b) = lower a ++ lower b := by simp [lower]
theorem lower_nil_iff (s : Bytes) : lower s = [] ↔ s = [] := by simp [lower]

theorem byteTable (P : UInt8 → Prop) [DecidablePred P] (h : ∀ n, n < 256 → P n.toUInt8) (b : UInt8) : P b := by
  have := h b.toNat b.toNat_lt
  simpa using this

theorem asciiLower_eq_cr (b : UInt8) : asciiLower b = CR ↔ b = CR :=
  byteTable (fun b => asciiLower b = CR ↔ b = CR) (by decide +kernel) b
theorem asciiLower_eq_lf (b : UInt8) : asciiLower b = LF ↔ b = LF :=
  byteTable (fun b => asciiLower b = LF ↔ b = LF) (by decide +kernel) b
theorem asciiLower_eq_colon (b : UInt8) : (asciiLower b == COLON) = (b == COLON) :=
  byteTable (fun b => (asciiLower b == COLON) = (b == COLON)) (by decide +kernel) b
theorem isWsp_lower (b : UInt8) : isWsp (asciiLower b) = isWsp b :=
  byteTable (fun b => isWsp (asciiLower b) = isWsp b) (by decide +kernel) b
theorem isGraphic_lower (b : UInt8) : isGraphic (asciiLower b) = isGraphic b :=
  byteTable (fun b => isGraphic (asciiLower b) = isGraphic b) (by decide +kernel) b

theorem findCrlf_lower (s : Bytes) : findCrlf (lower s) = findCrlf s := by
  induction s with
  | nil => rfl
  | cons a rest ih =>
    cases rest with
    | nil => rfl
    | cons b rest =>
      simp only [lower, List.map_cons] at ih ⊢
      unfold findCrlf
      simp only [asciiLower_eq_cr, asciiLower_eq_lf]
      split
      · rfl
      · rw [ih]

theorem findByte_colon_lower (s : Bytes) : findByte COLON (lower s) = findByte COLON s := by
  unfold findByte
  induction s with
  | nil => rfl
  | cons a rest ih =>
    simp only [lower, List.map_cons, List.idxOf?_cons, asciiLower_eq_colon] at ih ⊢
    split
    · rfl
    · rw [ih]

theorem validName_lower (s : Bytes) : validName (lower s) = validName s :=
  all_lower isGraphic isGraphic_lower s

theorem validValue_lower (s : Bytes) : validValue (lower s) = validValue s :=
  all_lower (fun b => isWsp b || isGraphic b) (fun b => by simp only [isWsp_lower, isGraphic_lower]) s

theorem trimWsp_lower (v : Bytes) : trimWsp (lower v) = lower (trimWsp v) := by
  unfold trimWsp trimBy trimEndBy trimStartBy
  rw [dropWhile_lower isWsp isWsp_lower]
  have hrev : ∀ l : Bytes, (lower l).reverse = lower l.reverse := by intro l; simp [lower]
  rw [hrev, dropWhile_lower isWsp isWsp_lower, hrev]

theorem head_wsp_lower (s : Bytes) : ((lower s).head?.map isWsp).getD false = (s.head?.map isWsp).getD false := by
  cases s with
  | nil => rfl
  | cons b r => simp [lower, isWsp_lower]

def lowerU : Except HErr (Option (Bytes × Nat)) → Except HErr (Option (Bytes × Nat))
  | .error e => .error e
  | .ok none => .ok none
  | .ok (some (v, n)) => .ok (some (lower v, n))

theorem unfold_lower (fuel : Nat) : ∀ (raw value : Bytes) (c : Nat),
    unfold fuel (lower raw) (lower value) c = lowerU (unfold fuel raw value c) := by
  induction fuel with
  | zero => intro raw value c; rfl
  | succ fuel ih =>
    intro raw value c
    unfold unfold
    rw [findCrlf_lower]
    cases hf : findCrlf raw with
    | none => rfl
    | some i =>
      simp only
      rw [← lower_take, validUtf8_lower, head_wsp_lower, validValue_lower]
      by_cases hv : validUtf8 (raw.take i) = true
      · simp only [hv, Bool.not_true, Bool.false_eq_true, if_false]
        by_cases hw : (i > 0 && ((raw.take i).head?.map isWsp).getD false) = true
        · rw [if_pos hw, if_pos hw]
          by_cases hvv : validValue (raw.take i) = true
          · simp only [hvv, Bool.not_true, Bool.false_eq_true, if_false]
            rw [← lower_drop, trimWsp_lower]
            have : lower value ++ [SP] ++ lower (trimWsp (raw.take i)) = lower (value ++ [SP] ++ trimWsp (raw.take i)) := by
              simp [lower_append, lower, asciiLower, SP]
            rw [this, ih]
          · simp only [hvv, Bool.not_false, if_true]; rfl
        · rw [if_neg hw, if_neg hw]; rfl
      · simp only [hv, Bool.not_false, if_true]; rfl

def lowerP : Except HErr (Bytes × Bytes) → Except HErr (Bytes × Bytes)
  | .error e => .error e
  | .ok (n, v) => .ok (lower n, lower v)

theorem parseFirstLine_lower (line : Bytes) : parseFirstLine (lower line) = lowerP (parseFirstLine line) := by
  unfold parseFirstLine
  rw [validUtf8_lower, findByte_colon_lower]
  by_cases hv : validUtf8 line = true
  · simp only [hv, Bool.not_true, Bool.false_eq_true, if_false]
    cases hc : findByte COLON line with
    | none => rfl
    | some c =>
      simp only
      rw [← lower_take, ← lower_drop, validName_lower, validValue_lower]
      by_cases hn : validName (line.take c) = true
      · simp only [hn, Bool.not_true, Bool.false_eq_true, if_false]
        by_cases hvv : validValue (line.drop (c + 1)) = true
        · simp only [hvv, Bool.not_true, Bool.false_eq_true, if_false]; rfl
        · simp only [hvv, Bool.not_false, if_true]; rfl
      · simp only [hn, Bool.not_false, if_true]; rfl
  · simp only [hv, Bool.not_false, if_true]; rfl

def lowerStep : Except HErr Step → Except HErr Step
  | .error e => .error e
  | .ok .more => .ok .more
  | .ok .done => .ok .done
  | .ok (.field h n) => .ok (.field (lowerH h) n)

theorem finishField_lower (i : Nat) (name : Bytes) (r : Except HErr (Option (Bytes × Nat))) :
    finishField i (lower name) (lowerU r) = lowerStep (finishField i name r) := by
  match r with
  | .error e => rfl
  | .ok none => rfl
  | .ok (some (v, n)) => simp [finishField, lowerU, lowerStep, lowerH, trimWsp_lower]

theorem headerStep_lower (limit : Option Nat) (rest : Bytes) :
    headerStep limit (lower rest) = lowerStep (headerStep limit rest) := by
  unfold headerStep
  by_cases h0 : rest = []
  · subst h0; rfl
  · have h0' : ¬ lower rest = [] := fun h => h0 ((lower_nil_iff rest).mp h)
    rw [if_neg h0, if_neg h0', findCrlf_lower, lower_length]
    cases hf : findCrlf rest with
    | none => simp only; split <;> rfl
    | some i =>
      simp only
      by_cases hl : overLimit limit (i + 2) = true
      · rw [if_pos hl, if_pos hl]; rfl
      · rw [if_neg hl, if_neg hl]
        by_cases hi : i = 0
        · rw [if_pos hi, if_pos hi]; rfl
        · rw [if_neg hi, if_neg hi, ← lower_take, parseFirstLine_lower]
          cases hp : parseFirstLine (rest.take i) with
          | error e => rfl
          | ok nv =>
            obtain ⟨name, v0⟩ := nv
            simp only [lowerP]
            rw [← lower_drop, unfold_lower, finishField_lower]

def lowerRes : Except HErr (List Header × HStatus × Nat) → Except HErr (List Header × HStatus × Nat)
  | .error e => .error e
  | .ok (hs, st, n) => .ok (hs.map lowerH, st, n)

theorem parseLoop_lower (limit : Option Nat) (fuel : Nat) : ∀ (hs : List Header) (rest : Bytes) (off : Nat),
    parseLoop limit fuel (hs.map lowerH) (lower rest) off = lowerRes (parseLoop limit fuel hs rest off) := by
  induction fuel with
  | zero => intro hs rest off; rfl
  | succ fuel ih =>
    intro hs rest off
    unfold parseLoop
    rw [headerStep_lower]
    cases hstep : headerStep limit rest with
    | error e => rfl
    | ok st =>
      cases st with
      | more => rfl
      | done => rfl
      | field h n =>
        simp only [lowerStep]
        rw [← lower_drop]
        have : hs.map lowerH ++ [lowerH h] = (hs ++ [h]).map lowerH := by simp
        rw [this, ih]

/-- `MessageHeaders::parse` commutes with lower-casing -/
theorem Headers.parse_lower (limit : Option Nat) (hs : List Header) (raw : Bytes) :
    Headers.parse limit (hs.map lowerH) (lower raw) = lowerRes (Headers.parse limit hs raw) := by
  unfold Headers.parse
  rw [lower_length, parseLoop_lower]

/-- two header blocks equal up to ASCII letter case: same verdict, same error, same boundary, header lists equal up to case -/
theorem Headers.parse_case (limit : Option Nat) {raw raw' : Bytes} (h : lower raw = lower raw') :
    lowerRes (Headers.parse limit [] raw) = lowerRes (Headers.parse limit [] raw') := by
  have a := Headers.parse_lower limit [] raw
  have b := Headers.parse_lower limit [] raw'
  simp only [List.map_nil] at a b
  rw [← a, ← b, h]
