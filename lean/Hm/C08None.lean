import Hm.C03Verdict

/-! C08: setting a limit to `None` disables exactly that limit -/

variable {u : UriImpl}

/-- removing the request line limit changes the answer only on inputs that were rejected for that limit -/
theorem C08_request_line_none_disables_only_that (u : UriImpl) (cfg : ReqCfg) (s : Bytes) :
    (requestSys u { cfg with rl := none }).parse (Request.new u) s = (requestSys u cfg).parse (Request.new u) s ∨
    (requestSys u cfg).parse (Request.new u) s = .fail (.err .RequestLineTooLong) := by
  rw [C03_verdict, C03_verdict]
  unfold requestVerdict
  cases hf : findCrlf s with
  | none =>
    simp only
    by_cases h : overLimit cfg.rl (stripDanglingCr s).length = true
    · right; simp [h]
    · left
      rw [show overLimit cfg.rl (stripDanglingCr s).length = false by simpa using h]
      rfl
  | some e =>
    simp only
    by_cases h : overLimit cfg.rl e = true
    · right; simp [h]
    · left
      rw [show overLimit cfg.rl e = false by simpa using h]
      rfl

