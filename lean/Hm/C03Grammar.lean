import Hm.Request
import Hm.HeaderRoundTrip

/-! C03: the request-line splitter accepts exactly `method SP target SP HTTP/1.1` -/

theorem findByte_some {b : UInt8} {l : Bytes} {i : Nat} (h : findByte b l = some i) :
    l = l.take i ++ b :: l.drop (i + 1) ∧ b ∉ l.take i := by
  unfold findByte at h
  induction l generalizing i with
  | nil => simp [List.idxOf?] at h
  | cons x xs ih =>
    simp only [List.idxOf?, List.findIdx?_cons, beq_iff_eq] at h ih
    by_cases hx : x = b
    · simp only [hx, if_true, Option.some.injEq] at h
      subst h; simp [hx]
    · simp only [hx, if_false, Option.map_eq_some_iff] at h
      obtain ⟨j, hj, rfl⟩ := h
      have := ih hj
      constructor
      · simp only [List.take_succ_cons, List.drop_succ_cons, List.cons_append]
        rw [← this.1]
      · simp only [List.take_succ_cons, List.mem_cons, not_or]
        exact ⟨fun hc => hx hc.symm, this.2⟩

theorem findByte_none {b : UInt8} {l : Bytes} (h : findByte b l = none) : b ∉ l := by
  unfold findByte at h
  rw [List.idxOf?_eq_none_iff] at h; exact h

/-- C03 (request line), soundness: whatever is accepted has the shape `method SP target SP HTTP/1.1`
    with a non-empty space-free method, a non-empty space-free target that the URI parser accepts,
    and the extracted fields are exactly those two components -/
theorem C03_request_line_sound (u : UriImpl) {line m : Bytes} {t : u.U}
    (h : parseRequestLine u line = .ok (m, t)) :
    ∃ tgt, line = m ++ [SP] ++ tgt ++ [SP] ++ http11 ∧ m ≠ [] ∧ SP ∉ m ∧ tgt ≠ [] ∧ SP ∉ tgt ∧
      u.parse tgt = some t := by
  unfold parseRequestLine at h
  cases hmd : findByte SP line with
  | none => simp [hmd] at h
  | some md =>
    simp only [hmd] at h
    by_cases h0 : md = 0
    · simp [h0] at h
    · rw [if_neg h0] at h
      cases htd : findByte SP (line.drop (md + 1)) with
      | none => simp [htd] at h
      | some td =>
        simp only [htd] at h
        by_cases h1 : td = 0
        · simp [h1] at h
        · rw [if_neg h1] at h
          cases hu : u.parse ((line.drop (md + 1)).take td) with
          | none => simp [hu] at h
          | some t' =>
            simp only [hu] at h
            by_cases hp : (line.drop (md + 1)).drop (td + 1) = http11
            · rw [if_pos hp] at h
              simp only [Except.ok.injEq, Prod.mk.injEq] at h
              obtain ⟨rfl, rfl⟩ := h
              obtain ⟨e1, n1⟩ := findByte_some hmd
              obtain ⟨e2, n2⟩ := findByte_some htd
              refine ⟨(line.drop (md + 1)).take td, ?_, ?_, n1, ?_, n2, hu⟩
              · rw [hp] at e2
                conv => lhs; rw [e1, e2]
                simp [List.append_assoc]
              · intro hc
                have hlt : md < line.length := by
                  have := congrArg List.length e1; simp at this; omega
                have hl : (line.take md).length = md := by rw [List.length_take]; omega
                rw [hc] at hl; simp at hl; omega
              · intro hc
                have hlt : td < (line.drop (md + 1)).length := by
                  have := congrArg List.length e2; simp at this ⊢; omega
                have hl : ((line.drop (md + 1)).take td).length = td := by rw [List.length_take]; omega
                rw [hc] at hl; simp at hl; omega
            · rw [List.drop_drop] at hp
              simp [hp] at h

/-- C03 (request line), completeness: every line of that shape is accepted, with exactly those fields -/
theorem C03_request_line_complete (u : UriImpl) {m tgt : Bytes} {t : u.U}
    (hm : m ≠ []) (hms : SP ∉ m) (ht : tgt ≠ []) (hts : SP ∉ tgt) (hu : u.parse tgt = some t) :
    parseRequestLine u (m ++ [SP] ++ tgt ++ [SP] ++ http11) = .ok (m, t) := by
  unfold parseRequestLine
  have h1 : findByte SP (m ++ [SP] ++ tgt ++ [SP] ++ http11) = some m.length := by
    rw [List.append_assoc, List.append_assoc, List.append_assoc]
    exact findByte_append_notin SP m _ hms
  rw [h1]
  have hm0 : m.length ≠ 0 := fun h => hm (List.length_eq_zero_iff.mp h)
  simp only [hm0, if_false]
  have hdrop : (m ++ [SP] ++ tgt ++ [SP] ++ http11).drop (m.length + 1) = tgt ++ [SP] ++ http11 := by
    rw [List.append_assoc, List.append_assoc, List.append_assoc, List.drop_append]
    simp
  rw [hdrop]
  have h2 : findByte SP (tgt ++ [SP] ++ http11) = some tgt.length := by
    rw [List.append_assoc]; exact findByte_append_notin SP tgt _ hts
  rw [h2]
  have ht0 : tgt.length ≠ 0 := fun h => ht (List.length_eq_zero_iff.mp h)
  simp only [ht0, if_false]
  have htake : (tgt ++ [SP] ++ http11).take tgt.length = tgt := by
    rw [List.append_assoc]; exact List.take_left' rfl
  have hdrop2 : (tgt ++ [SP] ++ http11).drop (tgt.length + 1) = http11 := by
    rw [List.append_assoc, List.drop_append]; simp
  have htakem : (m ++ [SP] ++ tgt ++ [SP] ++ http11).take m.length = m := by
    rw [List.append_assoc, List.append_assoc, List.append_assoc]; exact List.take_left' rfl
  simp only [htake, hu, hdrop2, if_true, htakem]
