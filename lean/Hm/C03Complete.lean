import Hm.C10Req
import Hm.C03Whole
import Hm.C05Conv
import Hm.C08b
import Hm.C04Whole

/-! C03 (whole message, completeness): the converse of `C03_accept_sound`, for **every** header block the
    header parser accepts and every limit triple -/

variable {u : UriImpl}

/-- a line without CRLF inside is ended by the first CRLF that follows it (even if the line itself ends in CR:
    CR CR LF has its first CRLF at the second CR) -/
theorem findCrlf_line_append (line more : Bytes) (h : findCrlf line = none) :
    findCrlf (line ++ CRLF ++ more) = some line.length := by
  induction line with
  | nil => simp [CRLF, findCrlf, CR, LF]
  | cons x xs ih =>
    cases xs with
    | nil =>
      have : ¬ (x = CR ∧ CR = LF) := by intro hc; exact absurd hc.2 (by decide)
      simp [CRLF, findCrlf, this]
    | cons y ys =>
      have hnot : ¬ (x = CR ∧ y = LF) := by
        intro hc; simp [findCrlf, hc] at h
      have hrest : findCrlf (y :: ys) = none := by
        simp only [findCrlf, hnot, if_false, Option.map_eq_none_iff] at h; exact h
      have := ih hrest
      simp only [List.cons_append, findCrlf, hnot, if_false] at this ⊢
      rw [this]; simp

/-- the accounting succeeds whenever the sum is within the maximum (a `usize`) -/
theorem countR_ok_of {max : Option Nat} {t b : Nat}
    (h : ∀ M, max = some M → t + b ≤ M ∧ M ≤ usizeMax) :
    ∃ t', countR max t b = .ok t' ∧ (∀ M, max = some M → t' = t + b) := by
  unfold countR
  cases hm : max with
  | none =>
    split
    · exact ⟨t + b, by simp [overLimit], by intro M hM; cases hM⟩
    · exact ⟨usizeMax, by simp, by intro M hM; cases hM⟩
  | some M =>
    obtain ⟨h1, h2⟩ := h M hm
    have : t + b ≤ usizeMax := by omega
    simp only [this, if_true, overLimit]
    have : ¬ (t + b > M) := by omega
    simp only [this, decide_false, Bool.false_eq_true, if_false]
    exact ⟨_, rfl, by intro M' _; rfl⟩

theorem strip_block_append {limit : Option Nat} {hs0 hs : List Header} {hb : Bytes}
    (h : Headers.parse limit hs0 hb = .ok (hs, .complete, hb.length)) (X : Bytes) :
    ∃ X', stripDanglingCr (hb ++ X) = hb ++ X' := by
  by_cases hX : X = []
  · subst hX
    refine ⟨[], ?_⟩
    have hl := Headers.parse_complete_last h
    rw [List.append_nil]
    exact strip_of_last_ne (by rw [hl]; simp [LF, CR])
  · exact ⟨stripDanglingCr X, strip_append_ne hX⟩

/-- C03 (whole message, completeness) — the converse of `C03_accept_sound`: a byte string that begins with a
    request line (no CRLF inside, valid UTF-8, accepted by the request-line grammar of `C03_request_line_sound /
    _complete`), followed by a header block the header parser accepts in full, followed — only if Content-Length is
    present — by that many body bytes, all within the three limits, is accepted as a complete request, with
    exactly those elements extracted and the boundary immediately after them, whatever follows (`tail`) -/
theorem C03_accept_complete (u : UriImpl) (cfg : ReqCfg) {line hb body tail m : Bytes} {t : u.U} {hs : List Header}
    (hnocrlf : findCrlf line = none)
    (hutf : validUtf8 line = true)
    (hline : parseRequestLine u line = .ok (m, t))
    (hhdr : Headers.parse cfg.hl [] hb = .ok (hs, .complete, hb.length))
    (hframe : (∃ v, headerValue hs kContentLength = some v ∧ parseNumber ⟨true⟩ 10 v = some body.length) ∨
              (headerValue hs kContentLength = none ∧ body = []))
    (hrl : overLimit cfg.rl line.length = false)
    (hmax : ∀ M, cfg.max = some M → line.length + 2 + hb.length + body.length ≤ M ∧ M ≤ usizeMax) :
    ∃ st, (requestSys u cfg).parse (Request.new u) (line ++ CRLF ++ hb ++ body ++ tail)
        = .ok .complete st (line.length + 2 + hb.length + body.length) ∧
      st.method = m ∧ st.target = t ∧ st.headers = hs ∧ st.body = body := by
  have hgroup : line ++ CRLF ++ hb ++ body ++ tail = line ++ CRLF ++ (hb ++ (body ++ tail)) := by simp
  rw [hgroup]
  unfold Sys.parse
  have hμ : (requestSys u cfg).μ (Request.new u) (line ++ CRLF ++ (hb ++ (body ++ tail))).length = 3 := rfl
  rw [hμ]
  -- step 1: the request line
  obtain ⟨t1, ht1, ht1v⟩ := countR_ok_of (max := cfg.max) (t := 0) (b := line.length + 2)
    (by intro M hM; have := hmax M hM; omega)
  have e1 : (requestSys u cfg).step (Request.new u) (line ++ CRLF ++ (hb ++ (body ++ tail)))
      = .ok .completePart { Request.new u with phase := .headers, method := m, target := t, totalBytes := t1 }
          (line.length + 2) := by
    rw [show (requestSys u cfg).step = reqStep u cfg from rfl]
    unfold reqStep; simp only [Request.new]
    unfold rlStep
    rw [findCrlf_line_append _ _ hnocrlf]
    have htake : (line ++ CRLF ++ (hb ++ (body ++ tail))).take line.length = line := by
      rw [List.append_assoc]; exact List.take_left' rfl
    simp only [hrl, Bool.false_eq_true, if_false, htake, hutf, Bool.not_true, hline, ht1]
  have hd1 : (line ++ CRLF ++ (hb ++ (body ++ tail))).drop (line.length + 2) = hb ++ (body ++ tail) := by
    rw [List.append_assoc, List.drop_append, List.drop_of_length_le (by omega)]
    simp [CRLF]
  -- step 2: header block and framing
  obtain ⟨X', hX'⟩ := strip_block_append hhdr (body ++ tail)
  have hparse : Headers.parse cfg.hl [] (hb ++ X') = .ok (hs, .complete, hb.length) :=
    (Headers.parse_append_complete hhdr X').1
  obtain ⟨t2, ht2, ht2v⟩ := countR_ok_of (max := cfg.max) (t := t1) (b := hb.length)
    (by intro M hM; have := hmax M hM; have := ht1v M hM; omega)
  rcases hframe with ⟨val, hval, hnum⟩ | ⟨hnone, hbody⟩
  · obtain ⟨t3, ht3, _⟩ := countR_ok_of (max := cfg.max) (t := t2) (b := body.length)
      (by intro M hM; have := hmax M hM; have := ht1v M hM; have := ht2v M hM; omega)
    have e2 : (requestSys u cfg).step
          { Request.new u with phase := .headers, method := m, target := t, totalBytes := t1 }
          (hb ++ (body ++ tail))
        = .ok .completePart
            { phase := .body body.length, totalBytes := t3, method := m, target := t, headers := hs, body := [] }
            hb.length := by
      rw [show (requestSys u cfg).step = reqStep u cfg from rfl]
      unfold reqStep; simp only [Request.new]
      unfold hdrStep
      simp only [hX', hparse, ht2]
      unfold afterHeaders
      simp only [hval, hnum, ht3]
    have e3 : (requestSys u cfg).step
          { phase := .body body.length, totalBytes := t3, method := m, target := t, headers := hs, body := [] }
          (body ++ tail)
        = .ok .completeWhole
            { phase := .body body.length, totalBytes := t3, method := m, target := t, headers := hs, body := body }
            body.length := by
      rw [show (requestSys u cfg).step = reqStep u cfg from rfl]
      unfold reqStep; simp only
      unfold bodyStep
      simp
    refine ⟨{ phase := .body body.length, totalBytes := t3, method := m, target := t, headers := hs, body := body }, ?_, rfl, rfl, rfl, rfl⟩
    rw [show (3 : Nat) = 2 + 1 by rfl, Sys.loop_cp' _ e1, hd1, show (2 : Nat) = 1 + 1 by rfl, Sys.loop_cp' _ e2, List.drop_left,
      show (1 : Nat) = 0 + 1 by rfl, Sys.loop_cw' _ e3]
    simp only [Option.some.injEq, PRes.ok.injEq, true_and]
    omega
  · have e2 : (requestSys u cfg).step
          { Request.new u with phase := .headers, method := m, target := t, totalBytes := t1 }
          (hb ++ (body ++ tail))
        = .ok .completeWhole
            { phase := .headers, totalBytes := t2, method := m, target := t, headers := hs, body := [] }
            hb.length := by
      rw [show (requestSys u cfg).step = reqStep u cfg from rfl]
      unfold reqStep; simp only [Request.new]
      unfold hdrStep
      simp only [hX', hparse, ht2]
      unfold afterHeaders
      simp only [hnone]
    refine ⟨{ phase := .headers, totalBytes := t2, method := m, target := t, headers := hs, body := [] }, ?_, rfl, rfl, rfl, hbody.symm⟩
    rw [show (3 : Nat) = 2 + 1 by rfl, Sys.loop_cp' _ e1, hd1, show (2 : Nat) = 1 + 1 by rfl, Sys.loop_cw' _ e2]
    simp only [Option.some.injEq, PRes.ok.injEq, true_and]
    simp [hbody]

/-- one-piece form of `C08_accept_within_max` -/
theorem parse_complete_le_max (u : UriImpl) (cfg : ReqCfg) {M : Nat} (hM : cfg.max = some M) {s : Bytes}
    {st : ReqState u} {n : Nat} (h : (requestSys u cfg).parse (Request.new u) s = .ok .complete st n) : n ≤ M := by
  have := C08_accept_within_max u cfg M hM [s]
  simp only [Sys.run, List.foldl_cons, List.foldl_nil, Sys.deliver, List.nil_append, h, Nat.zero_add] at this
  exact this trivial

/-- C03 — **accepted exactly when**: for every URI implementation, every limit triple (the maximum being a `usize`)
    and every byte string `s`, the parser reports a complete request after `n` bytes with method `m`, target `t`,
    header list `hs` and body `body` **iff** `s` is `line CRLF hb body tail` where `line` contains no CRLF, is valid
    UTF-8 and is `method SP target SP HTTP/1.1` (by `C03_request_line_sound/_complete`: `parseRequestLine` accepts
    exactly that grammar), `hb` is a header block the header parser accepts in full as `hs`, `body` has the length
    the Content-Length value spells (and is empty without Content-Length), the request line is within its limit,
    `n = |line| + 2 + |hb| + |body|` and `n` is within the maximum message size.  (The header line limit is inside
    `Headers.parse cfg.hl`; its exactness is `C08_header_line_exact`.) -/
theorem C03_accept_iff (u : UriImpl) (cfg : ReqCfg) (hcfg : ∀ M, cfg.max = some M → M ≤ usizeMax)
    (s : Bytes) (n : Nat) (m : Bytes) (t : u.U) (hs : List Header) (body : Bytes) :
    (∃ st, (requestSys u cfg).parse (Request.new u) s = .ok .complete st n ∧
        st.method = m ∧ st.target = t ∧ st.headers = hs ∧ st.body = body)
    ↔
    (∃ line hb tail, s = line ++ CRLF ++ hb ++ body ++ tail ∧ n = line.length + 2 + hb.length + body.length ∧
        findCrlf line = none ∧ validUtf8 line = true ∧ parseRequestLine u line = .ok (m, t) ∧
        Headers.parse cfg.hl [] hb = .ok (hs, .complete, hb.length) ∧
        ((∃ v, headerValue hs kContentLength = some v ∧ parseNumber ⟨true⟩ 10 v = some body.length) ∨
         (headerValue hs kContentLength = none ∧ body = [])) ∧
        overLimit cfg.rl line.length = false ∧ overLimit cfg.max n = false) := by
  constructor
  · rintro ⟨st, h, rfl, rfl, rfl, rfl⟩
    obtain ⟨e, c, hf, hv, hrl, hline, hhdr, hcase⟩ := C03_accept_sound u cfg h
    have hsplit := findCrlf_split hf
    have hhdr' := Headers.parse_complete_unstrip hhdr
    obtain ⟨hcut, hc⟩ := Headers.parse_cut hhdr'
    have hlenhb : ((s.drop (e + 2)).take c).length = c := by rw [List.length_take]; omega
    have hlenline : (s.take e).length = e := by have := findCrlf_lt hf; simp; omega
    have hmaxn : overLimit cfg.max n = false := by
      cases hM : cfg.max with
      | none => simp [overLimit]
      | some M => have := parse_complete_le_max u cfg hM h; simp [overLimit]; omega
    have hrest : s.drop (e + 2) = (s.drop (e + 2)).take c ++ (s.drop (e + 2)).drop c := (List.take_append_drop _ _).symm
    rcases hcase with ⟨hnone, hbody, hn⟩ | ⟨v, cl, hval, hnum, hbody, hblen, hn⟩
    · refine ⟨s.take e, (s.drop (e + 2)).take c, (s.drop (e + 2)).drop c, ?_, ?_, hsplit.2, hv, hline, ?_, Or.inr ⟨hnone, hbody⟩, ?_, hmaxn⟩
      · rw [hbody, List.append_nil, List.append_assoc, ← hrest]; exact hsplit.1
      · rw [hlenline, hlenhb, hbody]; simp; omega
      · rw [hlenhb]; exact hcut
      · rw [hlenline]; exact hrl
    · refine ⟨s.take e, (s.drop (e + 2)).take c, ((s.drop (e + 2)).drop c).drop cl, ?_, ?_, hsplit.2, hv, hline, ?_, Or.inl ⟨v, hval, by rw [hblen]; exact hnum⟩, ?_, hmaxn⟩
      · rw [hbody, List.append_assoc (s.take e ++ CRLF ++ _), List.take_append_drop, List.append_assoc, ← hrest]; exact hsplit.1
      · rw [hlenline, hlenhb, hblen]; omega
      · rw [hlenhb]; exact hcut
      · rw [hlenline]; exact hrl
  · rintro ⟨line, hb, tail, rfl, rfl, hnocrlf, hutf, hline, hhdr, hframe, hrl, hmaxn⟩
    refine C03_accept_complete u cfg hnocrlf hutf hline hhdr hframe hrl ?_
    intro M hM
    refine ⟨?_, hcfg M hM⟩
    rw [hM] at hmaxn; simp [overLimit] at hmaxn; omega
