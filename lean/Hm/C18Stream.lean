import Hm.HeaderCase
import Hm.C03Verdict
import Hm.C18

/-! C18 at byte-stream level, requests: two request byte strings that share the request line and everything after
    a header region, and whose header regions are equal up to ASCII letter case, get the same answer from the
    parser — same verdict, same error, same boundary, same method and target, same size accounting, header lists
    equal up to case, and the same body whenever the case changes all lie before the body. -/

variable {u : UriImpl}

theorem asciiLower_eq_plus (b : UInt8) : asciiLower b = PLUS ↔ b = PLUS :=
  byteTable (fun b => asciiLower b = PLUS ↔ b = PLUS) (by decide +kernel) b
theorem asciiLower_eq_minus (b : UInt8) : asciiLower b = 45 ↔ b = 45 :=
  byteTable (fun b => asciiLower b = 45 ↔ b = 45) (by decide +kernel) b
theorem digitVal10_lower (b : UInt8) : digitVal 10 (asciiLower b) = digitVal 10 b :=
  byteTable (fun b => digitVal 10 (asciiLower b) = digitVal 10 b) (by decide +kernel) b
theorem digitVal16_lower (b : UInt8) : digitVal 16 (asciiLower b) = digitVal 16 b :=
  byteTable (fun b => digitVal 16 (asciiLower b) = digitVal 16 b) (by decide +kernel) b

theorem accDigits_lower (radix max : Nat) (hd : ∀ b, digitVal radix (asciiLower b) = digitVal radix b) :
    ∀ (s : Bytes) (acc : Nat), accDigits radix max acc (lower s) = accDigits radix max acc s := by
  intro s
  induction s with
  | nil => intro acc; rfl
  | cons b rest ih =>
    intro acc
    simp only [lower, List.map_cons] at ih ⊢
    unfold accDigits
    rw [hd]
    cases digitVal radix b with
    | none => rfl
    | some d => simp only; split
                · rfl
                · exact ih _

theorem rustParseUnsigned_lower (radix max : Nat) (hd : ∀ b, digitVal radix (asciiLower b) = digitVal radix b) (s : Bytes) :
    rustParseUnsigned radix max (lower s) = rustParseUnsigned radix max s := by
  match s with
  | [] => rfl
  | [b] =>
    have h := accDigits_lower radix max hd [b] 0
    simp only [lower, List.map_cons, List.map_nil] at h ⊢
    unfold rustParseUnsigned
    simp only [asciiLower_eq_plus, asciiLower_eq_minus, h]
  | b :: c :: rest =>
    have h1 := accDigits_lower radix max hd (c :: rest) 0
    have h2 := accDigits_lower radix max hd (b :: c :: rest) 0
    simp only [lower, List.map_cons] at h1 h2 ⊢
    unfold rustParseUnsigned
    simp only [asciiLower_eq_plus, h1, h2]

theorem parseNumber10_lower (t : Tree) (s : Bytes) : parseNumber t 10 (lower s) = parseNumber t 10 s := by
  unfold parseNumber
  rw [rustParseUnsigned_lower 10 usizeMax digitVal10_lower]
  have : ((lower s).head? = some PLUS) ↔ (s.head? = some PLUS) := by
    cases s with
    | nil => simp [lower]
    | cons b r => simp [lower, asciiLower_eq_plus]
  simp only [this]

theorem parseNumber10_case (t : Tree) {v v' : Bytes} (h : lower v = lower v') : parseNumber t 10 v = parseNumber t 10 v' := by
  rw [← parseNumber10_lower t v, ← parseNumber10_lower t v', h]

theorem stripDanglingCr_lower (s : Bytes) : stripDanglingCr (lower s) = lower (stripDanglingCr s) := by
  unfold stripDanglingCr
  have h1 : ((lower s).getLast? = some CR) ↔ (s.getLast? = some CR) := by
    simp only [lower, List.getLast?_map]
    cases s.getLast? with
    | none => simp
    | some b => simp [asciiLower_eq_cr]
  by_cases h : s.getLast? = some CR
  · rw [if_pos h, if_pos (h1.mpr h)]; simp [lower, List.map_dropLast]
  · rw [if_neg h, if_neg (fun x => h (h1.mp x))]

theorem nameEq_lower_left (a n : Bytes) : nameEq (lower a) n = nameEq a n := by
  unfold nameEq eqIgnoreCase; rw [lower_lower]

theorem headerMultiValue_lowerH (hs : List Header) (n : Bytes) :
    headerMultiValue (hs.map lowerH) n = (headerMultiValue hs n).map lower := by
  unfold headerMultiValue
  induction hs with
  | nil => rfl
  | cons h rest ih =>
    simp only [List.map_cons, List.filter_cons, lowerH, nameEq_lower_left]
    split
    · simp only [List.map_cons]; rw [← ih]
    · exact ih

theorem joinWith_comma_lower : ∀ (vs : List Bytes), joinWith [COMMA] (vs.map lower) = lower (joinWith [COMMA] vs)
  | [] => rfl
  | [x] => rfl
  | x :: y :: rest => by
    have ih := joinWith_comma_lower (y :: rest)
    simp only [List.map_cons] at ih ⊢
    unfold joinWith
    rw [ih]
    simp [lower_append, lower, asciiLower, COMMA]

theorem headerValue_lowerH (hs : List Header) (n : Bytes) :
    headerValue (hs.map lowerH) n = (headerValue hs n).map lower := by
  unfold headerValue
  rw [headerMultiValue_lowerH]
  cases hm : headerMultiValue hs n with
  | nil => rfl
  | cons v vs =>
    have := joinWith_comma_lower (v :: vs)
    simp only [List.map_cons] at this ⊢
    simp only [Option.map_some]
    rw [this]

/-- header lists equal up to case give `Content-Length` values equal up to case, hence the same number -/
theorem contentLength_case (t : Tree) {hs hs' : List Header} (h : hs.map lowerH = hs'.map lowerH) :
    (headerValue hs kContentLength).bind (fun v => some (parseNumber t 10 v)) =
    (headerValue hs' kContentLength).bind (fun v => some (parseNumber t 10 v)) := by
  have a := headerValue_lowerH hs kContentLength
  have b := headerValue_lowerH hs' kContentLength
  rw [h] at a
  rw [b] at a
  cases h1 : headerValue hs kContentLength with
  | none =>
    cases h2 : headerValue hs' kContentLength with
    | none => rfl
    | some v' => rw [h1, h2] at a; simp at a
  | some v =>
    cases h2 : headerValue hs' kContentLength with
    | none => rw [h1, h2] at a; simp at a
    | some v' =>
      rw [h1, h2] at a
      simp only [Option.map_some, Option.some.injEq] at a
      simp only [Option.bind_some]
      rw [parseNumber10_case t a.symm]

theorem hdrEquivCI_of_lowerH : ∀ {hs hs' : List Header}, hs.map lowerH = hs'.map lowerH → HdrEquivCI hs hs'
  | [], [], _ => trivial
  | [], _ :: _, h => by simp at h
  | _ :: _, [], h => by simp at h
  | a :: as, b :: bs, h => by
    simp only [List.map_cons, List.cons.injEq, lowerH, Header.mk.injEq] at h
    exact ⟨nameEq_iff.mpr h.1.1, h.1.2, hdrEquivCI_of_lowerH h.2⟩

/-- how two answers of the request parser are related when the inputs differ only in letter case before offset `K` -/
def ReqCaseRel (K : Nat) : PRes Fail (ReqState u) → PRes Fail (ReqState u) → Prop
  | .fail e, .fail e' => e = e'
  | .ok st a n, .ok st' a' n' =>
    st = st' ∧ n = n' ∧ a.method = a'.method ∧ a.target = a'.target ∧ a.phase = a'.phase ∧
    a.totalBytes = a'.totalBytes ∧ a.headers.map lowerH = a'.headers.map lowerH ∧ lower a.body = lower a'.body ∧
    (K + a.body.length ≤ n → a.body = a'.body)
  | _, _ => False

theorem bodyVerdict_case (cfg : ReqCfg) (s0 : ReqState u) {hs hs' : List Header} (t2 e c k : Nat) {X X' : Bytes}
    (hh : hs.map lowerH = hs'.map lowerH) (hX : lower X = lower X')
    (htail : k ≤ c → X.drop c = X'.drop c) :
    ReqCaseRel (e + 2 + k) (bodyVerdict cfg s0 hs t2 e c X) (bodyVerdict cfg s0 hs' t2 e c X') := by
  have hcl := contentLength_case ⟨true⟩ hh
  have hlen : X.length = X'.length := by rw [← lower_length X, hX, lower_length]
  have hdrop : lower (X.drop c) = lower (X'.drop c) := by rw [lower_drop, lower_drop, hX]
  unfold bodyVerdict
  cases h1 : headerValue hs kContentLength with
  | none =>
    cases h2 : headerValue hs' kContentLength with
    | none => simp [ReqCaseRel, hh]
    | some v' => rw [h1, h2] at hcl; simp at hcl
  | some v =>
    cases h2 : headerValue hs' kContentLength with
    | none => rw [h1, h2] at hcl; simp at hcl
    | some v' =>
      rw [h1, h2] at hcl
      simp only [Option.bind_some, Option.some.injEq] at hcl
      simp only
      rw [← hcl]
      cases parseNumber ⟨true⟩ 10 v with
      | none => simp [ReqCaseRel]
      | some cl =>
        simp only
        cases countR cfg.max t2 cl with
        | error f => simp [ReqCaseRel]
        | ok t3 =>
          simp only
          have hal : (X.drop c).length = (X'.drop c).length := by simp [hlen]
          rw [← hal]
          by_cases hge : (X.drop c).length ≥ cl
          · rw [if_pos hge, if_pos hge]
            refine ⟨rfl, rfl, rfl, rfl, rfl, rfl, hh, ?_, ?_⟩
            · show lower ((X.drop c).take cl) = lower ((X'.drop c).take cl)
              rw [lower_take, lower_take, hdrop]
            · intro hK
              show (X.drop c).take cl = (X'.drop c).take cl
              have hbl : ((X.drop c).take cl).length = cl := by
                rw [List.length_take]; omega
              have hbl' : (({ s0 with headers := hs, totalBytes := t3, phase := ReqPhase.body cl, body := (X.drop c).take cl } : ReqState u).body).length = cl := hbl
              rw [hbl'] at hK
              rw [htail (by omega)]
          · rw [if_neg hge, if_neg hge]
            by_cases hearly : early cfg.max t3 0 = true
            · rw [if_pos hearly, if_pos hearly]; rfl
            · rw [if_neg hearly, if_neg hearly]
              refine ⟨rfl, ?_, rfl, rfl, rfl, rfl, hh, hdrop, ?_⟩
              · rw [hal]
              · intro hK
                show X.drop c = X'.drop c
                have hbl' : (({ s0 with headers := hs, totalBytes := t3, phase := ReqPhase.body cl, body := X.drop c } : ReqState u).body).length = (X.drop c).length := rfl
                rw [hbl'] at hK
                exact htail (by omega)

/-- C18 (requests, byte-stream level): `first` is the request line with its CRLF; `hb` and `hb'` are equal up to
    ASCII letter case; `tail` is shared.  The two answers are related by `ReqCaseRel` at the offset where the
    case-changed region ends: in particular when that region is (part of) the header block, the body, the
    verdict and the boundary are identical. -/
theorem C18_request_stream_case (u : UriImpl) (cfg : ReqCfg) (first hb hb' tail : Bytes) (e : Nat)
    (hf : findCrlf first = some e) (hlen : first.length = e + 2) (hcase : lower hb = lower hb') :
    ReqCaseRel (first.length + hb.length)
      ((requestSys u cfg).parse (Request.new u) (first ++ (hb ++ tail)))
      ((requestSys u cfg).parse (Request.new u) (first ++ (hb' ++ tail))) := by
  rw [C03_verdict, C03_verdict]
  unfold requestVerdict
  rw [findCrlf_append_of_some hf, findCrlf_append_of_some hf]
  simp only
  have htake : ∀ x : Bytes, (first ++ x).take e = first.take e := by
    intro x; exact List.take_append_of_le_length (by omega)
  have hdrop : ∀ x : Bytes, (first ++ x).drop (e + 2) = x := by
    intro x; exact List.drop_left' hlen
  rw [htake, htake, hdrop, hdrop]
  have hX : lower (hb ++ tail) = lower (hb' ++ tail) := by rw [lower_append, lower_append, hcase]
  have hXlen : (hb ++ tail).length = (hb' ++ tail).length := by rw [← lower_length (hb ++ tail), hX, lower_length]
  have hhb : hb.length = hb'.length := by rw [← lower_length hb, hcase, lower_length]
  by_cases hrl : overLimit cfg.rl e = true
  · rw [if_pos hrl, if_pos hrl]; rfl
  · rw [if_neg hrl, if_neg hrl]
    by_cases hv : (!validUtf8 (first.take e)) = true
    · rw [if_pos hv, if_pos hv]; rfl
    · rw [if_neg hv, if_neg hv]
      cases countR cfg.max 0 (e + 2) with
      | error f => rfl
      | ok t1 =>
        simp only
        cases parseRequestLine u (first.take e) with
        | error c => rfl
        | ok mt =>
          obtain ⟨m, tg⟩ := mt
          simp only
          have hP := Headers.parse_case cfg.hl (raw := stripDanglingCr (hb ++ tail)) (raw' := stripDanglingCr (hb' ++ tail))
            (by rw [← stripDanglingCr_lower, ← stripDanglingCr_lower, hX])
          cases hp1 : Headers.parse cfg.hl [] (stripDanglingCr (hb ++ tail)) with
          | error he =>
            cases hp2 : Headers.parse cfg.hl [] (stripDanglingCr (hb' ++ tail)) with
            | error he' => rw [hp1, hp2] at hP; simp only [lowerRes, Except.error.injEq] at hP; simp [ReqCaseRel, hP]
            | ok r' => rw [hp1, hp2] at hP; obtain ⟨a, b, c⟩ := r'; simp [lowerRes] at hP
          | ok r =>
            obtain ⟨hs, st, c⟩ := r
            cases hp2 : Headers.parse cfg.hl [] (stripDanglingCr (hb' ++ tail)) with
            | error he' => rw [hp1, hp2] at hP; simp [lowerRes] at hP
            | ok r' =>
              obtain ⟨hs', st', c'⟩ := r'
              rw [hp1, hp2] at hP
              simp only [lowerRes, Except.ok.injEq, Prod.mk.injEq] at hP
              obtain ⟨hh, hst, hc⟩ := hP
              subst hst; subst hc
              simp only
              cases countR cfg.max t1 c with
              | error f => rfl
              | ok t2 =>
                simp only
                cases st with
                | incomplete =>
                  simp only
                  rw [← hXlen]
                  by_cases hearly : early cfg.max t2 ((hb ++ tail).length - c) = true
                  · rw [if_pos hearly, if_pos hearly]; rfl
                  · rw [if_neg hearly, if_neg hearly]
                    exact ⟨rfl, rfl, rfl, rfl, rfl, rfl, hh, rfl, fun _ => rfl⟩
                | complete =>
                  simp only
                  rw [hlen]
                  apply bodyVerdict_case cfg _ t2 e c hb.length hh hX
                  intro hk
                  have hk' : hb'.length ≤ c := hhb ▸ hk
                  rw [List.drop_append, List.drop_append (l₁ := hb'),
                    List.drop_of_length_le hk, List.drop_of_length_le hk', hhb]
