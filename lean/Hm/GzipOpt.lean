import Hm.C13Bytes

/-! gzip members with the optional header fields of RFC 1952 — FTEXT, FEXTRA, FNAME, FCOMMENT, FHCRC in any
    combination — around any DEFLATE stream. -/

def flgOf (t h e n c : Bool) : UInt8 := (t.toNat + 2 * h.toNat + 4 * e.toNat + 8 * n.toNat + 16 * c.toNat).toUInt8

theorem flgOf_facts : ∀ t h e n c : Bool,
    (flgOf t h e n c).toNat &&& 0xE0 = 0 ∧
    (((flgOf t h e n c).toNat &&& 4 ≠ 0) ↔ e = true) ∧ (((flgOf t h e n c).toNat &&& 8 ≠ 0) ↔ n = true) ∧
    (((flgOf t h e n c).toNat &&& 16 ≠ 0) ↔ c = true) ∧ (((flgOf t h e n c).toNat &&& 2 ≠ 0) ↔ h = true) := by
  decide

def le16 (n : Nat) : Bytes := [(n % 256).toUInt8, (n / 256).toUInt8]

def extraPart : Option Bytes → Bytes
  | none => []
  | some x => le16 x.length ++ x

def cstrPart : Option Bytes → Bytes
  | none => []
  | some s => s ++ [0]

/-- the header without the optional CRC16 -/
def gzHead (t hc : Bool) (extra name comment : Option Bytes) (m0 m1 m2 m3 xfl os : UInt8) : Bytes :=
  [0x1f, 0x8b, 8, flgOf t hc extra.isSome name.isSome comment.isSome, m0, m1, m2, m3, xfl, os] ++
    (extraPart extra ++ (cstrPart name ++ cstrPart comment))

def gzHeader (t hc : Bool) (extra name comment : Option Bytes) (m0 m1 m2 m3 xfl os : UInt8) : Bytes :=
  gzHead t hc extra name comment m0 m1 m2 m3 xfl os ++
    (if hc then le16 ((crc32 (gzHead t hc extra name comment m0 m1 m2 m3 xfl os).toArray).toNat % 65536) else [])

theorem readCString_eq (arr : Array UInt8) : ∀ (s : Bytes) (k fuel : Nat) (rest : Bytes),
    arr.toList.drop k = s ++ 0 :: rest → (∀ b ∈ s, b ≠ 0) → s.length < fuel →
    readCString fuel (inpOfBytes arr) (8 * k) = .ok (s, 8 * (k + s.length + 1)) := by
  intro s
  induction s with
  | nil =>
    intro k fuel rest h _ hf
    cases fuel with
    | zero => simp at hf
    | succ fuel =>
      have hk : k < arr.size := by
        have := drop_size arr k _ h; simp at this; omega
      have h0 : arr[k] = 0 := by
        have := arr_get_of_drop arr k 0 _ h (by simp) (by omega)
        simpa using this
      unfold readCString
      simp only [R.bind, readByte_eq arr k hk, h0, if_true, R.pure, List.length_nil]
      simp only [Except.ok.injEq, Prod.mk.injEq, true_and]; omega
  | cons b s ih =>
    intro k fuel rest h hne hf
    cases fuel with
    | zero => simp at hf
    | succ fuel =>
      have hk : k < arr.size := by
        have := drop_size arr k _ h; simp at this; omega
      have hb : arr[k] = b := by
        have := arr_get_of_drop arr k 0 _ h (by simp) (by omega)
        simpa using this
      have hb0 : ¬ (b = 0) := hne b (by simp)
      have hdrop : arr.toList.drop (k + 1) = s ++ 0 :: rest := by
        have : arr.toList.drop (k + 1) = (arr.toList.drop k).drop 1 := by rw [List.drop_drop]
        rw [this, h]; simp
      have := ih (k + 1) fuel rest hdrop (fun x hx => hne x (by simp [hx])) (by simp at hf; omega)
      unfold readCString
      simp only [R.bind, readByte_eq arr k hk, hb, hb0, if_false]
      rw [show 8 * k + 8 = 8 * (k + 1) by omega, this]
      simp only [R.pure, List.length_cons, Except.ok.injEq, Prod.mk.injEq, true_and]; omega

/-- what the options must satisfy to be expressible in the format -/
def GzFieldsOk (extra name comment : Option Bytes) : Prop :=
  (∀ x, extra = some x → x.length < 65536) ∧
  (∀ s, name = some s → (∀ b ∈ s, b ≠ 0) ∧ s.length < 65537) ∧
  (∀ s, comment = some s → (∀ b ∈ s, b ≠ 0) ∧ s.length < 65537)

theorem drop_get2 (arr : Array UInt8) (k : Nat) (a b : UInt8) (rest : Bytes) (h : arr.toList.drop k = a :: b :: rest) :
    ∃ (h1 : k < arr.size) (h2 : k + 1 < arr.size), arr[k] = a ∧ arr[k + 1] = b := by
  have hs := drop_size arr k _ h
  simp only [List.length_cons] at hs
  refine ⟨by omega, by omega, ?_, ?_⟩
  · have := arr_get_of_drop arr k 0 _ h (by simp) (by omega); simpa using this
  · have := arr_get_of_drop arr k 1 _ h (by simp) (by omega); simpa using this

theorem readExtra_eq (arr : Array UInt8) (extra : Option Bytes) (hx : ∀ x, extra = some x → x.length < 65536)
    (k : Nat) (rest : Bytes) (h : arr.toList.drop k = extraPart extra ++ rest)
    (c : Prop) [Decidable c] (hc : c ↔ extra.isSome = true) :
    (if c then R.bind (readBits 16) fun xlen => R.bind (readBytes xlen) fun x => R.pure (some (xlen, x)) else R.pure none)
        (inpOfBytes arr) (8 * k)
      = .ok (extra.map fun x => (x.length, x), 8 * (k + (extraPart extra).length)) := by
  cases extra with
  | none =>
    have : ¬ c := by rw [hc]; simp
    rw [if_neg this]; simp [R.pure, extraPart]
  | some x =>
    have hcx : c := by rw [hc]; simp
    rw [if_pos hcx]
    have hxl := hx x rfl
    simp only [extraPart, le16, List.cons_append, List.nil_append] at h
    obtain ⟨h1, h2, ha, hb⟩ := drop_get2 arr k _ _ _ h
    have hsz := drop_size arr k _ h
    simp only [List.length_cons, List.length_append] at hsz
    have hr := readBits16_eq arr k (by omega)
    have hv : arr[k].toNat + 256 * arr[k + 1].toNat = x.length := by
      rw [ha, hb]; simp; omega
    rw [hv] at hr
    have hrb := readBytes_eq arr x.length (k + 2) (by omega)
    have hd : (arr.toList.drop (k + 2)).take x.length = x := by
      have : arr.toList.drop (k + 2) = (arr.toList.drop k).drop 2 := by rw [List.drop_drop]
      rw [this, h]; simp
    rw [hd] at hrb
    simp only [R.bind, hr, show 8 * k + 16 = 8 * (k + 2) by omega, hrb, R.pure, Option.map_some, extraPart, le16,
      List.length_append, List.length_cons, List.length_nil, Except.ok.injEq, Prod.mk.injEq, true_and]
    omega

theorem readCStr_eq (arr : Array UInt8) (name : Option Bytes) (hn : ∀ s, name = some s → (∀ b ∈ s, b ≠ 0) ∧ s.length < 65537)
    (k : Nat) (rest : Bytes) (h : arr.toList.drop k = cstrPart name ++ rest)
    (c : Prop) [Decidable c] (hc : c ↔ name.isSome = true) :
    (if c then R.bind (readCString 65537) fun s => R.pure (some s) else R.pure none) (inpOfBytes arr) (8 * k)
      = .ok (name, 8 * (k + (cstrPart name).length)) := by
  cases name with
  | none =>
    have : ¬ c := by rw [hc]; simp
    rw [if_neg this]; simp [R.pure, cstrPart]
  | some s =>
    have hcx : c := by rw [hc]; simp
    rw [if_pos hcx]
    obtain ⟨h0, hl⟩ := hn s rfl
    simp only [cstrPart, List.append_assoc, List.singleton_append] at h
    have := readCString_eq arr s k 65537 rest h h0 hl
    simp only [R.bind, this, R.pure, cstrPart, List.length_append, List.length_cons, List.length_nil,
      Except.ok.injEq, Prod.mk.injEq, true_and]
    omega

theorem readHcrc_eq (arr : Array UInt8) (hcf : Bool) (v : Nat) (hv : v < 65536) (k : Nat) (rest : Bytes)
    (h : arr.toList.drop k = (if hcf then le16 v else []) ++ rest)
    (c : Prop) [Decidable c] (hc : c ↔ hcf = true) :
    (if c then R.bind (readBits 16) fun c => R.pure (some c) else R.pure none) (inpOfBytes arr) (8 * k)
      = .ok (if hcf then some v else none, 8 * (k + (if hcf then le16 v else []).length)) := by
  cases hcf with
  | false =>
    have : ¬ c := by rw [hc]; simp
    rw [if_neg this]; simp [R.pure]
  | true =>
    have hcx : c := by rw [hc]
    rw [if_pos hcx]
    simp only [if_true, le16, List.cons_append, List.nil_append] at h ⊢
    obtain ⟨h1, h2, ha, hb⟩ := drop_get2 arr k _ _ _ h
    have hr := readBits16_eq arr k (by omega)
    have hval : arr[k].toNat + 256 * arr[k + 1].toNat = v := by
      rw [ha, hb]; simp; omega
    rw [hval] at hr
    simp only [R.bind, hr, R.pure, List.length_cons, List.length_nil, Except.ok.injEq, Prod.mk.injEq, true_and]
    omega

theorem le16_val (n : Nat) (h : n < 65536) : ((le16 n)[0]'(by simp [le16])).toNat + 256 * ((le16 n)[1]'(by simp [le16])).toNat = n := by
  simp [le16]; omega

theorem gunzipR_wrap_opt (t hc : Bool) (extra name comment : Option Bytes) (hok : GzFieldsOk extra name comment)
    (m0 m1 m2 m3 xfl os : UInt8) (D : Bytes) (out : Array UInt8) (e : Nat)
    (he : e ≤ 8 * ((gzHeader t hc extra name comment m0 m1 m2 m3 xfl os).length + D.length))
    (he2 : 8 * ((gzHeader t hc extra name comment m0 m1 m2 m3 xfl os).length + D.length) < e + 8)
    (hinf : inflateR (8 * (gzHeader t hc extra name comment m0 m1 m2 m3 xfl os ++ D ++ (le32 (crc32 out).toNat ++ le32 (out.size % 4294967296)) : Bytes).toArray.size)
              (inpOfBytes (gzHeader t hc extra name comment m0 m1 m2 m3 xfl os ++ D ++ (le32 (crc32 out).toNat ++ le32 (out.size % 4294967296)) : Bytes).toArray)
              (8 * (gzHeader t hc extra name comment m0 m1 m2 m3 xfl os).length) = .ok (out, e)) :
    gunzip (gzHeader t hc extra name comment m0 m1 m2 m3 xfl os ++ D ++ (le32 (crc32 out).toNat ++ le32 (out.size % 4294967296)))
      = some out.toList := by
  unfold gunzip runR
  simp only []
  obtain ⟨hxok, hnok, hcok⟩ := hok
  obtain ⟨fE0, fE, fN, fC, fH⟩ := flgOf_facts t hc extra.isSome name.isSome comment.isSome
  generalize hcrc : (crc32 out).toNat = crc at hinf ⊢
  have hcrclt : crc < 4294967296 := by rw [← hcrc]; exact UInt32.toNat_lt _
  generalize hisz : out.size % 4294967296 = isz at hinf ⊢
  have hiszlt : isz < 4294967296 := by rw [← hisz]; omega
  -- the pieces of the header
  generalize hEP : extraPart extra = EP
  generalize hNP : cstrPart name = NP
  generalize hCP : cstrPart comment = CP
  have hhead : gzHead t hc extra name comment m0 m1 m2 m3 xfl os =
      [0x1f, 0x8b, 8, flgOf t hc extra.isSome name.isSome comment.isSome, m0, m1, m2, m3, xfl, os] ++ (EP ++ (NP ++ CP)) := by
    simp only [gzHead, hEP, hNP, hCP]
  generalize hv16 : (crc32 (gzHead t hc extra name comment m0 m1 m2 m3 xfl os).toArray).toNat % 65536 = v16
  have hv16lt : v16 < 65536 := by rw [← hv16]; omega
  generalize hHP : (if hc then le16 v16 else []) = HP
  have hheader : gzHeader t hc extra name comment m0 m1 m2 m3 xfl os =
      [0x1f, 0x8b, 8, flgOf t hc extra.isSome name.isSome comment.isSome, m0, m1, m2, m3, xfl, os] ++ (EP ++ (NP ++ (CP ++ HP))) := by
    rw [gzHeader, hv16, hHP, hhead]
    simp only [List.append_assoc, List.cons_append, List.nil_append]
  rw [hheader] at he he2 hinf ⊢
  generalize harr : (([0x1f, 0x8b, 8, flgOf t hc extra.isSome name.isSome comment.isSome, m0, m1, m2, m3, xfl, os] ++ (EP ++ (NP ++ (CP ++ HP)))) ++ D ++ (le32 crc ++ le32 isz) : Bytes).toArray = arr at hinf ⊢
  have hlist : arr.toList = [0x1f, 0x8b, 8, flgOf t hc extra.isSome name.isSome comment.isSome, m0, m1, m2, m3, xfl, os] ++ (EP ++ (NP ++ (CP ++ (HP ++ (D ++ (le32 crc ++ le32 isz)))))) := by
    rw [← harr]; simp
  have hHlen : ([0x1f, 0x8b, 8, flgOf t hc extra.isSome name.isSome comment.isSome, m0, m1, m2, m3, xfl, os] ++ (EP ++ (NP ++ (CP ++ HP))) : Bytes).length
      = 10 + EP.length + NP.length + CP.length + HP.length := by simp; omega
  rw [hHlen] at he he2 hinf
  have hsize : arr.size = 10 + EP.length + NP.length + CP.length + HP.length + D.length + 8 := by
    rw [← harr]; simp [le32]; omega
  have hd10 : arr.toList.drop 10 = EP ++ (NP ++ (CP ++ (HP ++ (D ++ (le32 crc ++ le32 isz))))) := by rw [hlist]; rfl
  have hdN : arr.toList.drop (10 + EP.length) = NP ++ (CP ++ (HP ++ (D ++ (le32 crc ++ le32 isz)))) := by
    rw [← List.drop_drop, hd10, List.drop_left]
  have hdC : arr.toList.drop (10 + EP.length + NP.length) = CP ++ (HP ++ (D ++ (le32 crc ++ le32 isz))) := by
    rw [← List.drop_drop, hdN, List.drop_left]
  have hdH : arr.toList.drop (10 + EP.length + NP.length + CP.length) = HP ++ (D ++ (le32 crc ++ le32 isz)) := by
    rw [← List.drop_drop, hdC, List.drop_left]
  have hdT : arr.toList.drop (10 + EP.length + NP.length + CP.length + HP.length + D.length) = le32 crc ++ le32 isz := by
    rw [← List.drop_drop, ← List.drop_drop, hdH, List.drop_left, List.drop_left]
  -- the readers
  have rE := readExtra_eq arr extra hxok 10 _ (by rw [hd10, hEP]) ((flgOf t hc extra.isSome name.isSome comment.isSome).toNat &&& 4 ≠ 0) fE
  have rN := readCStr_eq arr name hnok (10 + EP.length) _ (by rw [hdN, hNP]) ((flgOf t hc extra.isSome name.isSome comment.isSome).toNat &&& 8 ≠ 0) fN
  have rC := readCStr_eq arr comment hcok (10 + EP.length + NP.length) _ (by rw [hdC, hCP]) ((flgOf t hc extra.isSome name.isSome comment.isSome).toNat &&& 16 ≠ 0) fC
  have rH := readHcrc_eq arr hc v16 hv16lt (10 + EP.length + NP.length + CP.length) _ (by rw [hdH, hHP]) ((flgOf t hc extra.isSome name.isSome comment.isSome).toNat &&& 2 ≠ 0) fH
  rw [hEP] at rE; rw [hNP] at rN; rw [hCP] at rC; rw [hHP] at rH
  have hz : gunzipR (8 * arr.size) (inpOfBytes arr) 0 = .ok (out, 8 * (10 + EP.length + NP.length + CP.length + HP.length + D.length) + 32 + 32) := by
    unfold gunzipR
    have hrb := readBytes_eq arr 10 0 (by omega)
    have hhdr : (arr.toList.drop 0).take 10 = [0x1f, 0x8b, 8, flgOf t hc extra.isSome name.isSome comment.isSome, m0, m1, m2, m3, xfl, os] := by
      rw [hlist]; simp
    rw [hhdr] at hrb
    simp only [Nat.mul_zero, Nat.zero_add] at hrb
    simp only [R.bind, hrb]
    have hmagic : ¬ (([0x1f, 0x8b, 8, flgOf t hc extra.isSome name.isSome comment.isSome, m0, m1, m2, m3, xfl, os] : List UInt8).getD 0 0 ≠ 0x1f ∨
        ([0x1f, 0x8b, 8, flgOf t hc extra.isSome name.isSome comment.isSome, m0, m1, m2, m3, xfl, os] : List UInt8).getD 1 0 ≠ 0x8b ∨
        ([0x1f, 0x8b, 8, flgOf t hc extra.isSome name.isSome comment.isSome, m0, m1, m2, m3, xfl, os] : List UInt8).getD 2 0 ≠ 8) := by simp
    rw [if_neg hmagic]
    have hflg : (([0x1f, 0x8b, 8, flgOf t hc extra.isSome name.isSome comment.isSome, m0, m1, m2, m3, xfl, os] : List UInt8).getD 3 0)
        = flgOf t hc extra.isSome name.isSome comment.isSome := by simp
    simp only [hflg, fE0, ne_eq, not_true_eq_false, if_false]
    simp only [ne_eq] at rE rN rC rH
    simp only [R.bind, rE, rN, rC, rH]
    -- the header CRC
    generalize hX : (crc32 (List.toArray _)).toNat % 65536 = X
    have hXv : X = v16 := by
      rw [← hX, ← hv16]
      congr 3
      cases extra <;> cases name <;> cases comment <;> simp [gzHead, extraPart, cstrPart, le16]
    rw [hXv]
    have hal := alignRead_avail arr e (10 + EP.length + NP.length + CP.length + HP.length + D.length) he he2 (by omega)
    have hr1 := readBits32_eq arr (10 + EP.length + NP.length + CP.length + HP.length + D.length) (by omega)
    have hr2 := readBits32_eq arr (10 + EP.length + NP.length + CP.length + HP.length + D.length + 4) (by omega)
    have hpre : ∀ (idx j : Nat) (hj : j < 8) (hidx : idx = 10 + EP.length + NP.length + CP.length + HP.length + D.length + j) (hb : idx < arr.size),
        arr[idx] = (le32 crc ++ le32 isz)[j]'(by simp [le32]; omega) := by
      intro idx j hj hidx hb
      subst hidx
      exact arr_get_of_drop arr _ j _ hdT (by simp [le32]; omega) (by omega)
    have e0 := hpre (10 + EP.length + NP.length + CP.length + HP.length + D.length) 0 (by omega) (by omega) (by omega)
    have e1 := hpre ((10 + EP.length + NP.length + CP.length + HP.length + D.length) + 1) 1 (by omega) (by omega) (by omega)
    have e2 := hpre ((10 + EP.length + NP.length + CP.length + HP.length + D.length) + 2) 2 (by omega) (by omega) (by omega)
    have e3 := hpre ((10 + EP.length + NP.length + CP.length + HP.length + D.length) + 2 + 1) 3 (by omega) (by omega) (by omega)
    have e4 := hpre ((10 + EP.length + NP.length + CP.length + HP.length + D.length) + 4) 4 (by omega) (by omega) (by omega)
    have e5 := hpre ((10 + EP.length + NP.length + CP.length + HP.length + D.length) + 4 + 1) 5 (by omega) (by omega) (by omega)
    have e6 := hpre ((10 + EP.length + NP.length + CP.length + HP.length + D.length) + 4 + 2) 6 (by omega) (by omega) (by omega)
    have e7 := hpre ((10 + EP.length + NP.length + CP.length + HP.length + D.length) + 4 + 2 + 1) 7 (by omega) (by omega) (by omega)
    simp only [le32, List.cons_append, List.nil_append, List.getElem_cons_zero, List.getElem_cons_succ] at e0 e1 e2 e3 e4 e5 e6 e7
    have v1 : arr[(10 + EP.length + NP.length + CP.length + HP.length + D.length)].toNat + 256 * arr[(10 + EP.length + NP.length + CP.length + HP.length + D.length) + 1].toNat + 65536 * (arr[(10 + EP.length + NP.length + CP.length + HP.length + D.length) + 2].toNat + 256 * arr[(10 + EP.length + NP.length + CP.length + HP.length + D.length) + 2 + 1].toNat) = crc := by
      rw [e0, e1, e2, e3]
      simp; omega
    have v2 : arr[(10 + EP.length + NP.length + CP.length + HP.length + D.length) + 4].toNat + 256 * arr[(10 + EP.length + NP.length + CP.length + HP.length + D.length) + 4 + 1].toNat + 65536 * (arr[(10 + EP.length + NP.length + CP.length + HP.length + D.length) + 4 + 2].toNat + 256 * arr[(10 + EP.length + NP.length + CP.length + HP.length + D.length) + 4 + 2 + 1].toNat) = isz := by
      rw [e4, e5, e6, e7]
      simp; omega
    rw [v1] at hr1; rw [v2] at hr2
    rw [show 8 * ((10 + EP.length + NP.length + CP.length + HP.length + D.length) + 4) = 8 * (10 + EP.length + NP.length + CP.length + HP.length + D.length) + 32 by omega] at hr2
    by_cases hh : hc = true
    · simp only [hh, if_true, bne_self_eq_false, Bool.false_eq_true, if_false, R.bind, hinf, hal, hr1, hr2, hcrc, hisz,
        ne_eq, not_true_eq_false, or_self, R.pure]
    · simp only [hh, if_false, Bool.false_eq_true, R.bind, hinf, hal, hr1, hr2, hcrc, hisz,
        ne_eq, not_true_eq_false, or_self, R.pure]
  rw [hz]

/-- C13 (gzip member with any optional header fields, any DEFLATE stream, any padding bits) -/
theorem C13_gzip_bytes_opt (t hc : Bool) (extra name comment : Option Bytes) (hok : GzFieldsOk extra name comment)
    (m0 m1 m2 m3 xfl os : UInt8) (d : Bytes) (blocks : List Block) (pad : List Bool) (hne : blocks ≠ [])
    (hbok : ∀ b ∈ blocks, b.Ok) (h : byteBits d = blocksBits 0 blocks ++ pad) (hpad : pad.length < 8) :
    gunzip (gzHeader t hc extra name comment m0 m1 m2 m3 xfl os ++ d ++
        (le32 (crc32 (expandBlocks #[] blocks)).toNat ++ le32 ((expandBlocks #[] blocks).size % 4294967296)))
      = some (expandBlocks #[] blocks).toList := by
  have hlen : (blocksBits 0 blocks).length + pad.length = 8 * d.length := by
    have := congrArg List.length h
    rw [byteBits_length, List.length_append] at this; omega
  have hinf := inflateR_blocks_bytes (gzHeader t hc extra name comment m0 m1 m2 m3 xfl os)
    (le32 (crc32 (expandBlocks #[] blocks)).toNat ++ le32 ((expandBlocks #[] blocks).size % 4294967296)) d blocks pad hne hbok h
  exact gunzipR_wrap_opt t hc extra name comment hok m0 m1 m2 m3 xfl os d (expandBlocks #[] blocks)
    (8 * (gzHeader t hc extra name comment m0 m1 m2 m3 xfl os).length + (blocksBits 0 blocks).length)
    (by omega) (by omega) hinf

/-- as a codec: any encoder, any header fields (which may depend on the body) -/
def gzipOptOf (E : Deflater) (t hc : Bool) (extra name comment : Option Bytes) (m0 m1 m2 m3 xfl os : UInt8) : Codec :=
  ⟨kGzip, fun x => gzHeader t hc extra name comment m0 m1 m2 m3 xfl os ++ packBits (blocksBits 0 (E.blocks x)) ++
      (le32 (crc32 x.toArray).toNat ++ le32 (x.length % 4294967296))⟩

theorem byteBits_packBits_exists (bs : List Bool) : ∃ pad, byteBits (packBits bs) = bs ++ pad ∧ pad.length < 8 := by
  refine ⟨(byteBits (packBits bs)).drop bs.length, ?_, ?_⟩
  · have hlen : bs.length ≤ (byteBits (packBits bs)).length := by rw [byteBits_length, packBits_length]; omega
    have hc := carries_packed [] [] bs
    simp only [List.nil_append, List.append_nil, List.length_nil, Nat.mul_zero] at hc
    apply List.ext_getElem?
    intro k
    by_cases hk : k < bs.length
    · rw [List.getElem?_append_left hk]
      have h1 := hc k hk
      simp only [Nat.zero_add] at h1
      have hkd : k / 8 < (packBits bs).length := by rw [packBits_length]; omega
      have h2 := byteBits_get (packBits bs) k hkd
      rw [h2, List.getElem?_eq_getElem hk]
      unfold inpOfBytes at h1
      rw [dif_pos (by simpa using hkd)] at h1
      simpa using h1
    · rw [List.getElem?_append_right (by omega), List.getElem?_drop]
      congr 1; omega
  · rw [List.length_drop, byteBits_length, packBits_length]; omega

theorem gzipOptOf_ok (E : Deflater) (t hc : Bool) (extra name comment : Option Bytes) (hok : GzFieldsOk extra name comment)
    (m0 m1 m2 m3 xfl os : UInt8) : (gzipOptOf E t hc extra name comment m0 m1 m2 m3 xfl os).Ok := by
  left
  refine ⟨rfl, fun x => ?_⟩
  obtain ⟨pad, hpad, hlt⟩ := byteBits_packBits_exists (blocksBits 0 (E.blocks x))
  have := C13_gzip_bytes_opt t hc extra name comment hok m0 m1 m2 m3 xfl os (packBits (blocksBits 0 (E.blocks x)))
    (E.blocks x) pad (E.ne x) (E.ok x) hpad hlt
  rw [E.sound x] at this
  simpa [gzipOptOf] using this
