import Hm.ReqProps

/-! C08 (early rejection): once the bytes presented for a request exceed the maximum message size,
    the repaired parser never answers "more input" -/

variable {u : UriImpl}

/-- bytes of the message not yet counted as consumed but already declared -/
def declaredLeft (s : ReqState u) : Nat :=
  match s.phase with | .body n => n - s.body.length | _ => 0

/-- bookkeeping invariant, for a finite maximum `m`: the counter equals consumed bytes plus declared
    body bytes still to come, and is within the maximum -/
def Acct (m : Nat) (consumed : Nat) (s : ReqState u) : Prop :=
  consumed + declaredLeft s = s.totalBytes ∧ s.totalBytes ≤ m

theorem countR_some {m t b t' : Nat} (h : countR (some m) t b = .ok t') : t' = t + b ∧ t' ≤ m := by
  have := countR_ok_ge h (by simp)
  refine ⟨this.1, ?_⟩
  have h2 := this.2
  simp [overLimit] at h2; exact h2

theorem reqStep_acct {cfg : ReqCfg} {m : Nat} (hm : cfg.max = some m) {s s' : ReqState u} {rem : Bytes}
    {k c : Nat} {i : Internal} (hI : ReqInv cfg s) (ha : Acct m k s) (h : reqStep u cfg s rem = .ok i s' c)
    (hi : i ≠ .completeWhole) :
    Acct m (k + c) s' ∧ (i = .incomplete → s'.totalBytes + (rem.length - c) ≤ m) := by
  unfold reqStep at h
  unfold ReqInv at hI
  unfold Acct declaredLeft at ha ⊢
  split at h
  · rename_i n hph
    simp only [hph] at hI ha
    unfold bodyStep at h
    split at h
    · simp at h
    · split at h
      · simp at h; exact absurd h.1.symm hi
      · rename_i hlen
        split at h
        · simp at h
        · simp at h; obtain ⟨rfl, rfl, rfl⟩ := h
          simp only [hph, List.length_append]
          refine ⟨⟨by omega, ha.2⟩, fun _ => by omega⟩
  · rename_i hph
    simp only [hph] at hI ha
    unfold hdrStep at h
    cases hp : Headers.parse cfg.hl s.headers (stripDanglingCr rem) with
    | error e0 => simp [hp] at h
    | ok r =>
      obtain ⟨hs, st, c0⟩ := r
      simp only [hp] at h
      cases hc : countR cfg.max s.totalBytes c0 with
      | error f => simp [hc] at h
      | ok t =>
        simp only [hc] at h
        rw [hm] at hc
        have ht := countR_some hc
        cases st with
        | incomplete =>
          simp only at h
          split at h
          · simp at h
          · rename_i hearly
            simp at h; obtain ⟨rfl, rfl, rfl⟩ := h
            simp only [hph]
            refine ⟨⟨by omega, ht.2⟩, fun _ => ?_⟩
            simp [early, overLimit, hm] at hearly
            simpa using hearly
        | complete =>
          simp only at h
          unfold afterHeaders at h
          split at h
          · simp at h; exact absurd h.1.symm hi
          · split at h
            · simp at h
            · rename_i cl _
              cases hc2 : countR cfg.max t cl with
              | error f => simp [hc2] at h
              | ok t2 =>
                simp only [hc2] at h
                rw [hm] at hc2
                have ht2 := countR_some hc2
                simp at h; obtain ⟨rfl, rfl, rfl⟩ := h
                simp only [hI, List.length_nil, Nat.sub_zero]
                exact ⟨⟨by omega, ht2.2⟩, by simp⟩
  · rename_i hph
    simp only [hph] at hI ha
    unfold rlStep at h
    cases hf : findCrlf rem with
    | none =>
      simp only [hf] at h
      split at h
      · simp at h
      · split at h
        · simp at h
        · rename_i hearly
          simp at h; obtain ⟨rfl, rfl, rfl⟩ := h
          simp only [hph]
          refine ⟨⟨by omega, ha.2⟩, fun _ => ?_⟩
          simp [early, overLimit, hm] at hearly
          simpa using hearly
    | some e =>
      simp only [hf] at h
      split at h
      · simp at h
      · split at h
        · simp at h
        · cases hc : countR cfg.max s.totalBytes (e + 2) with
          | error f => simp [hc] at h
          | ok t =>
            simp only [hc] at h
            rw [hm] at hc
            have ht := countR_some hc
            split at h
            · simp at h
            · simp at h; obtain ⟨rfl, rfl, rfl⟩ := h
              simp only
              exact ⟨⟨by omega, ht.2⟩, by simp⟩

theorem reqLoop_acct {cfg : ReqCfg} {m : Nat} (hm : cfg.max = some m) {f : Nat} {s s' : ReqState u}
    {rem : Bytes} {k acc c : Nat} (hI : ReqInv cfg s) (ha : Acct m k s)
    (h : (requestSys u cfg).loop f s rem acc = some (.ok .incomplete s' c)) :
    Acct m (k + (c - acc)) s' ∧ s'.totalBytes + (rem.length - (c - acc)) ≤ m := by
  induction f generalizing s rem acc k with
  | zero => simp [Sys.loop] at h
  | succ f ih =>
    unfold Sys.loop at h
    cases hs : (requestSys u cfg).step s rem with
    | fail e1 => simp [hs] at h
    | ok i s1 c1 =>
      have hle := (requestSys_lawful cfg).le hI hs
      cases i with
      | completeWhole => simp [hs] at h
      | completePart =>
        simp only [hs] at h
        have hst := reqStep_acct hm hI ha hs (by simp)
        have hI1 := (requestSys_lawful cfg).inv hI hs (by simp)
        have hc := Sys.loop_consumed (requestSys_lawful cfg) hI1 h
        have := ih hI1 hst.1 h
        simp only [List.length_drop] at this hc
        rw [show k + c1 + (c - (acc + c1)) = k + (c - acc) by omega] at this
        exact ⟨this.1, by omega⟩
      | incomplete =>
        simp only [hs, Option.some.injEq, PRes.ok.injEq, true_and] at h
        obtain ⟨rfl, rfl⟩ := h
        have hst := reqStep_acct hm hI ha hs (by simp)
        rw [show acc + c1 - acc = c1 by omega]
        exact ⟨hst.1, hst.2 rfl⟩

/-- C08 (early rejection), repaired tree: with a maximum message size `m` set, whenever the parser
    has answered "more input" the bytes presented so far for this message number at most `m`;
    equivalently, a caller following the protocol never has to buffer more than the limit -/
theorem C08_more_implies_within_max (u : UriImpl) (cfg : ReqCfg) (m : Nat) (hm : cfg.max = some m)
    (ds : List Bytes) :
    let c0 : GConn Fail (ReqState u) := { st := Request.new u, pending := [], total := 0, verdict := .more }
    let r := (requestSys u cfg).run c0 ds
    (match r.verdict with | .more => True | _ => False) → r.total + r.pending.length ≤ m ∨ ds = [] := by
  intro c0
  -- connection invariant while waiting: parser invariant, accounting, and (after the first delivery) the bound
  let P : GConn Fail (ReqState u) → Prop := fun c =>
    (match c.verdict with | .more => True | _ => False) →
      ReqInv cfg c.st ∧ Acct m c.total c.st ∧ (c.total + c.pending.length ≤ m ∨ (c.total = 0 ∧ c.pending = []))
  have h0 : P c0 := fun _ => ⟨reqInv_new cfg, by
    simp [c0, Acct, declaredLeft, Request.new], Or.inr ⟨rfl, rfl⟩⟩
  have hstep : ∀ c d, P c → P ((requestSys u cfg).deliver c d) ∧
      ((match ((requestSys u cfg).deliver c d).verdict with | .more => True | _ => False) →
        (match c.verdict with | .more => True | _ => False) →
        ((requestSys u cfg).deliver c d).total + ((requestSys u cfg).deliver c d).pending.length ≤ m) := by
    intro c d hc
    unfold Sys.deliver
    cases hv : c.verdict with
    | complete => simp [P, hv]
    | failed e => simp [P, hv]
    | more =>
      obtain ⟨hI, ha, _⟩ := hc (by simp [hv])
      simp only
      unfold Sys.parse
      cases hl : (requestSys u cfg).loop ((requestSys u cfg).μ c.st (c.pending ++ d).length) c.st (c.pending ++ d) 0 with
      | none => simp [P]
      | some r =>
        cases r with
        | fail e => simp [P]
        | ok st s' n =>
          cases st with
          | complete => simp [P]
          | incomplete =>
            have hacct := reqLoop_acct hm hI ha hl
            have hcons := Sys.loop_consumed (requestSys_lawful cfg) hI hl
            simp only [Nat.sub_zero] at hacct
            have hbound : c.total + n + ((c.pending ++ d).drop n).length ≤ m := by
              have h1 := hacct.1.1
              simp only [List.length_drop]
              omega
            exact ⟨fun _ => ⟨hcons.2.2 rfl, hacct.1, Or.inl hbound⟩, fun _ _ => hbound⟩
  intro r hr
  cases ds with
  | nil => right; rfl
  | cons d ds =>
    left
    -- after the first delivery the bound is part of the invariant
    have : ∀ (ds : List Bytes) (c : GConn Fail (ReqState u)), P c →
        ((match c.verdict with | .more => True | _ => False) → c.total + c.pending.length ≤ m) →
        (match ((requestSys u cfg).run c ds).verdict with | .more => True | _ => False) →
        ((requestSys u cfg).run c ds).total + ((requestSys u cfg).run c ds).pending.length ≤ m := by
      intro ds
      induction ds with
      | nil => intro c _ hb hmore; exact hb hmore
      | cons d2 ds ih =>
        intro c hc hb hmore
        have hs := hstep c d2 hc
        apply ih _ hs.1 _ hmore
        intro hm2
        apply hs.2 hm2
        -- the earlier connection was still waiting, else delivery would not have changed it to waiting
        cases hv : c.verdict with
        | more => trivial
        | complete => simp [Sys.deliver, hv] at hm2
        | failed e => simp [Sys.deliver, hv] at hm2
    have hs := hstep c0 d h0
    apply this ds _ hs.1 _ hr
    intro hm2
    exact hs.2 hm2 (by simp [c0])
