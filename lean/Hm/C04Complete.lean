import Hm.C04Whole
import Hm.C05Iff

/-! C04 (whole message, completeness): the converse of `C04_accept_sound`, for every header line limit, every
    header block the header parser accepts, and all three framings -/

/-- the state after the status line and the header block -/
def respAfterHeaders (code : Nat) (reason : Bytes) (hs : List Header) (ph : RespPhase) : RespState :=
  { Response.new with phase := ph, statusCode := code, reasonPhrase := reason, headers := hs }

theorem resp_step1 (hl : Option Nat) {line more reason : Bytes} {code : Nat}
    (hnocrlf : findCrlf line = none) (hutf : validUtf8 line = true)
    (hline : parseStatusLine ⟨true⟩ line = .ok (code, reason)) :
    (respSys hl).step Response.new (line ++ CRLF ++ more)
      = .ok .completePart (respAfterHeaders code reason [] .headers) (line.length + 2) := by
  rw [respSys_step hl]
  have hs1 : respStep hl Response.new (line ++ CRLF ++ more) = rstatusStep Response.new (line ++ CRLF ++ more) := rfl
  rw [hs1]
  unfold rstatusStep
  rw [findCrlf_line_append _ _ hnocrlf]
  have htake : (line ++ CRLF ++ more).take line.length = line := by
    rw [List.append_assoc]; exact List.take_left' rfl
  simp only [htake, hutf, Bool.not_true, Bool.false_eq_true, if_false, hline]
  rfl

theorem resp_step2 (hl : Option Nat) {hb X reason : Bytes} {code : Nat} {hs : List Header}
    (hhdr : Headers.parse hl [] hb = .ok (hs, .complete, hb.length)) :
    (respSys hl).step (respAfterHeaders code reason [] .headers) (hb ++ X)
      = rframing (respAfterHeaders code reason [] .headers) hs hb.length := by
  rw [respSys_step hl]
  have hs2 : respStep hl (respAfterHeaders code reason [] .headers) (hb ++ X)
      = rhdrStep hl (respAfterHeaders code reason [] .headers) (hb ++ X) := rfl
  rw [hs2]
  unfold rhdrStep
  obtain ⟨X', hX'⟩ := strip_block_append hhdr X
  have hparse : Headers.parse hl [] (hb ++ X') = .ok (hs, .complete, hb.length) :=
    (Headers.parse_append_complete hhdr X').1
  simp only [respAfterHeaders, Response.new, hX', hparse]

theorem drop_line (line more : Bytes) : (line ++ CRLF ++ more).drop (line.length + 2) = more := by
  rw [List.append_assoc, List.drop_append, List.drop_of_length_le (by omega)]
  simp [CRLF]

/-- C04 completeness, declared-length framing -/
theorem C04_accept_complete_fixed (hl : Option Nat) {line hb body tail reason v : Bytes} {code : Nat} {hs : List Header}
    (hnocrlf : findCrlf line = none) (hutf : validUtf8 line = true)
    (hline : parseStatusLine ⟨true⟩ line = .ok (code, reason))
    (hhdr : Headers.parse hl [] hb = .ok (hs, .complete, hb.length))
    (hval : headerValue hs kContentLength = some v) (hnum : parseNumber ⟨true⟩ 10 v = some body.length) :
    (respSys hl).parse Response.new (line ++ CRLF ++ hb ++ body ++ tail)
      = .ok .complete { respAfterHeaders code reason hs (.fixedBody body.length) with body := body }
          (line.length + 2 + hb.length + body.length) := by
  have hgroup : line ++ CRLF ++ hb ++ body ++ tail = line ++ CRLF ++ (hb ++ (body ++ tail)) := by simp
  rw [hgroup]
  unfold Sys.parse
  have hμ : (respSys hl).μ Response.new (line ++ CRLF ++ (hb ++ (body ++ tail))).length = 3 := rfl
  rw [hμ]
  have e1 := resp_step1 hl (more := hb ++ (body ++ tail)) hnocrlf hutf hline
  have e2 : (respSys hl).step (respAfterHeaders code reason [] .headers) (hb ++ (body ++ tail))
      = .ok .completePart (respAfterHeaders code reason hs (.fixedBody body.length)) hb.length := by
    rw [resp_step2 hl hhdr]
    unfold rframing
    simp only [hval, hnum]
    rfl
  have e3 : (respSys hl).step (respAfterHeaders code reason hs (.fixedBody body.length)) (body ++ tail)
      = .ok .completeWhole { respAfterHeaders code reason hs (.fixedBody body.length) with body := body } body.length := by
    rw [respSys_step hl]
    unfold respStep respAfterHeaders
    simp only [Response.new]
    unfold rfixedStep
    simp
  rw [show (3 : Nat) = 2 + 1 by rfl, Sys.loop_cp' _ e1, drop_line, show (2 : Nat) = 1 + 1 by rfl, Sys.loop_cp' _ e2, List.drop_left,
    show (1 : Nat) = 0 + 1 by rfl, Sys.loop_cw' _ e3]
  simp only [Option.some.injEq, PRes.ok.injEq, true_and]
  omega

/-- C04 completeness, no framing header: the message ends with the header block -/
theorem C04_accept_complete_none (hl : Option Nat) {line hb tail reason : Bytes} {code : Nat} {hs : List Header}
    (hnocrlf : findCrlf line = none) (hutf : validUtf8 line = true)
    (hline : parseStatusLine ⟨true⟩ line = .ok (code, reason))
    (hhdr : Headers.parse hl [] hb = .ok (hs, .complete, hb.length))
    (hnone : headerValue hs kContentLength = none) (hch : hasHeaderToken hs kTransferEncoding kChunked = false) :
    (respSys hl).parse Response.new (line ++ CRLF ++ hb ++ tail)
      = .ok .complete (respAfterHeaders code reason hs .headers) (line.length + 2 + hb.length) := by
  have hgroup : line ++ CRLF ++ hb ++ tail = line ++ CRLF ++ (hb ++ tail) := by simp
  rw [hgroup]
  unfold Sys.parse
  have hμ : (respSys hl).μ Response.new (line ++ CRLF ++ (hb ++ tail)).length = 3 := rfl
  rw [hμ]
  have e1 := resp_step1 hl (more := hb ++ tail) hnocrlf hutf hline
  have e2 : (respSys hl).step (respAfterHeaders code reason [] .headers) (hb ++ tail)
      = .ok .completeWhole (respAfterHeaders code reason hs .headers) hb.length := by
    rw [resp_step2 hl hhdr]
    unfold rframing
    simp only [hnone, hch, Bool.false_eq_true, if_false]
    rfl
  rw [show (3 : Nat) = 2 + 1 by rfl, Sys.loop_cp' _ e1, drop_line, show (2 : Nat) = 1 + 1 by rfl, Sys.loop_cw' _ e2]
  simp only [Option.some.injEq, PRes.ok.injEq, true_and]
  omega

/-- C04 completeness, chunked framing: any chunked body of the grammar `Sound` (C05) is decoded, the framing
    headers are rewritten (C12), and nothing beyond it is consumed -/
theorem C04_accept_complete_chunked (hl : Option Nat) {line hb pre tail reason : Bytes} {code : Nat} {hs : List Header}
    {cst : ChunkState}
    (hnocrlf : findCrlf line = none) (hutf : validUtf8 line = true)
    (hline : parseStatusLine ⟨true⟩ line = .ok (code, reason))
    (hhdr : Headers.parse hl [] hb = .ok (hs, .complete, hb.length))
    (hnone : headerValue hs kContentLength = none) (hch : hasHeaderToken hs kTransferEncoding kChunked = true)
    (hsound : Sound ChunkState.new pre cst) :
    (respSys hl).parse Response.new (line ++ CRLF ++ hb ++ pre ++ tail)
      = .ok .complete (dechunkRewrite ⟨true⟩ (respAfterHeaders code reason hs (.chunkedBody ChunkState.new)) cst)
          (line.length + 2 + hb.length + pre.length) := by
  have hgroup : line ++ CRLF ++ hb ++ pre ++ tail = line ++ CRLF ++ (hb ++ (pre ++ tail)) := by simp
  rw [hgroup]
  unfold Sys.parse
  have hμ : (respSys hl).μ Response.new (line ++ CRLF ++ (hb ++ (pre ++ tail))).length = 3 := rfl
  rw [hμ]
  have e1 := resp_step1 hl (more := hb ++ (pre ++ tail)) hnocrlf hutf hline
  have e2 : (respSys hl).step (respAfterHeaders code reason [] .headers) (hb ++ (pre ++ tail))
      = .ok .completePart (respAfterHeaders code reason hs (.chunkedBody ChunkState.new)) hb.length := by
    rw [resp_step2 hl hhdr]
    unfold rframing
    simp only [hnone, hch, if_true]
    rfl
  have e3 : (respSys hl).step (respAfterHeaders code reason hs (.chunkedBody ChunkState.new)) (pre ++ tail)
      = .ok .completeWhole (dechunkRewrite ⟨true⟩ (respAfterHeaders code reason hs (.chunkedBody ChunkState.new)) cst) pre.length := by
    rw [respSys_step hl]
    unfold respStep respAfterHeaders
    simp only [Response.new]
    unfold rchunkStep
    rw [C05_sound_complete hsound tail]
  rw [show (3 : Nat) = 2 + 1 by rfl, Sys.loop_cp' _ e1, drop_line, show (2 : Nat) = 1 + 1 by rfl, Sys.loop_cp' _ e2, List.drop_left,
    show (1 : Nat) = 0 + 1 by rfl, Sys.loop_cw' _ e3]
  simp only [Option.some.injEq, PRes.ok.injEq, true_and]
  omega

/-- C04 — **accepted exactly when**: for every header line limit and every byte string `s`, the parser reports a
    complete response after `n` bytes in state `st` iff `s` is `line CRLF hb …` where `line` (no CRLF inside, valid
    UTF-8) is `HTTP/1.1 SP code SP reason` with `code < 1000` (`C04_status_line_sound`: `parseStatusLine` accepts
    exactly that), `hb` is a header block the header parser accepts in full as `hs`, and what follows is the body
    those headers select, in this order of precedence: `Content-Length` bytes (boundary after them); else, if
    `Transfer-Encoding` lists `chunked`, a chunked body of the grammar `Sound` (C05), the state being the
    de-chunked rewrite (C12); else nothing.  (`respSys` is the parser with the boundary normalised: the bytes of
    the completing delivery that follow a declared-length body, which the code stores as trailing data, are
    re-attached by the driver; `C02`/`C09` are stated over the same normalisation.) -/
theorem C04_accept_iff (hl : Option Nat) (s : Bytes) (n : Nat) (st : RespState) :
    (respSys hl).parse Response.new s = .ok .complete st n
    ↔
    (∃ line hb code reason hs, findCrlf line = none ∧ validUtf8 line = true ∧
        parseStatusLine ⟨true⟩ line = .ok (code, reason) ∧
        Headers.parse hl [] hb = .ok (hs, .complete, hb.length) ∧
        ((∃ v body tail, headerValue hs kContentLength = some v ∧ parseNumber ⟨true⟩ 10 v = some body.length ∧
            s = line ++ CRLF ++ hb ++ body ++ tail ∧ n = line.length + 2 + hb.length + body.length ∧
            st = { respAfterHeaders code reason hs (.fixedBody body.length) with body := body }) ∨
         (headerValue hs kContentLength = none ∧ hasHeaderToken hs kTransferEncoding kChunked = true ∧
            ∃ pre cst tail, Sound ChunkState.new pre cst ∧ s = line ++ CRLF ++ hb ++ pre ++ tail ∧
              n = line.length + 2 + hb.length + pre.length ∧
              st = dechunkRewrite ⟨true⟩ (respAfterHeaders code reason hs (.chunkedBody ChunkState.new)) cst) ∨
         (headerValue hs kContentLength = none ∧ hasHeaderToken hs kTransferEncoding kChunked = false ∧
            ∃ tail, s = line ++ CRLF ++ hb ++ tail ∧ n = line.length + 2 + hb.length ∧
              st = respAfterHeaders code reason hs .headers))) := by
  constructor
  · intro h
    obtain ⟨e, c, hs, hf, hv, hline, hhdr, hcase⟩ := C04_accept_sound hl h
    have hsplit := findCrlf_split hf
    obtain ⟨hcut, hc⟩ := Headers.parse_cut hhdr
    have hlenhb : ((s.drop (e + 2)).take c).length = c := by rw [List.length_take]; omega
    have hlenline : (s.take e).length = e := by have := findCrlf_lt hf; simp; omega
    have hrest : s.drop (e + 2) = (s.drop (e + 2)).take c ++ (s.drop (e + 2)).drop c := (List.take_append_drop _ _).symm
    have hs0 : s = s.take e ++ CRLF ++ (s.drop (e + 2)).take c ++ (s.drop (e + 2)).drop c := by
      rw [List.append_assoc, ← hrest]; exact hsplit.1
    refine ⟨s.take e, (s.drop (e + 2)).take c, st.statusCode, st.reasonPhrase, hs, hsplit.2, hv, hline, by rw [hlenhb]; exact hcut, ?_⟩
    rcases hcase with ⟨v, cl, hval, hnum, _, hbody, hblen, hn⟩ | ⟨hnone, hch, cst, k, _, hn, hk, hsound⟩ | ⟨hnone, hch, _, _, hn⟩
    · -- declared length
      have hsplit2 : s = s.take e ++ CRLF ++ (s.drop (e + 2)).take c ++ st.body ++ ((s.drop (e + 2)).drop c).drop cl := by
        rw [hbody, List.append_assoc (s.take e ++ CRLF ++ _), List.take_append_drop]; exact hs0
      have hcomp := C04_accept_complete_fixed hl (line := s.take e) (hb := (s.drop (e + 2)).take c) (body := st.body)
        (tail := ((s.drop (e + 2)).drop c).drop cl) hsplit.2 hv hline (by rw [hlenhb]; exact hcut) hval (by rw [hblen]; exact hnum)
      rw [← hsplit2, h] at hcomp
      simp only [PRes.ok.injEq, true_and] at hcomp
      exact Or.inl ⟨v, st.body, _, hval, by rw [hblen]; exact hnum, hsplit2, hcomp.2, hcomp.1⟩
    · -- chunked
      have hlenpre : (((s.drop (e + 2)).drop c).take k).length = k := by rw [List.length_take]; omega
      have hsplit2 : s = s.take e ++ CRLF ++ (s.drop (e + 2)).take c ++ ((s.drop (e + 2)).drop c).take k ++ ((s.drop (e + 2)).drop c).drop k := by
        rw [List.append_assoc (s.take e ++ CRLF ++ _), List.take_append_drop]; exact hs0
      have hcomp := C04_accept_complete_chunked hl (line := s.take e) (hb := (s.drop (e + 2)).take c)
        (tail := ((s.drop (e + 2)).drop c).drop k) hsplit.2 hv hline (by rw [hlenhb]; exact hcut) hnone hch hsound
      rw [← hsplit2, h] at hcomp
      simp only [PRes.ok.injEq, true_and] at hcomp
      exact Or.inr (Or.inl ⟨hnone, hch, _, cst, _, hsound, hsplit2, hcomp.2, hcomp.1⟩)
    · -- no body
      have hcomp := C04_accept_complete_none hl (line := s.take e) (hb := (s.drop (e + 2)).take c)
        (tail := (s.drop (e + 2)).drop c) hsplit.2 hv hline (by rw [hlenhb]; exact hcut) hnone hch
      rw [← hs0, h] at hcomp
      simp only [PRes.ok.injEq, true_and] at hcomp
      exact Or.inr (Or.inr ⟨hnone, hch, _, hs0, hcomp.2, hcomp.1⟩)
  · rintro ⟨line, hb, code, reason, hs, hnocrlf, hutf, hline, hhdr, hcase⟩
    rcases hcase with ⟨v, body, tail, hval, hnum, rfl, rfl, rfl⟩ | ⟨hnone, hch, pre, cst, tail, hsound, rfl, rfl, rfl⟩ | ⟨hnone, hch, tail, rfl, rfl, rfl⟩
    · exact C04_accept_complete_fixed hl hnocrlf hutf hline hhdr hval hnum
    · exact C04_accept_complete_chunked hl hnocrlf hutf hline hhdr hnone hch hsound
    · exact C04_accept_complete_none hl hnocrlf hutf hline hhdr hnone hch
