/-! primitives shared by the model: bytes, ASCII, Rust integer parsing, usize with traps -/

abbrev Bytes := List UInt8

def CR : UInt8 := 13
def LF : UInt8 := 10
def SP : UInt8 := 32
def HT : UInt8 := 9
def COLON : UInt8 := 58
def SEMI : UInt8 := 59
def COMMA : UInt8 := 44
def PLUS : UInt8 := 43
def CRLF : Bytes := [CR, LF]

def str (s : String) : Bytes := s.toUTF8.toList


/-! byte-string constants as explicit lists: string literals do not reduce in the kernel -/
def kHttp11 : Bytes := [72, 84, 84, 80, 47, 49, 46, 49]
#guard kHttp11 = str "HTTP/1.1"
def kContentLength : Bytes := [67, 111, 110, 116, 101, 110, 116, 45, 76, 101, 110, 103, 116, 104]
#guard kContentLength = str "Content-Length"
def kTransferEncoding : Bytes := [84, 114, 97, 110, 115, 102, 101, 114, 45, 69, 110, 99, 111, 100, 105, 110, 103]
#guard kTransferEncoding = str "Transfer-Encoding"
def kTrailer : Bytes := [84, 114, 97, 105, 108, 101, 114]
#guard kTrailer = str "Trailer"
def kChunked : Bytes := [99, 104, 117, 110, 107, 101, 100]
#guard kChunked = str "chunked"
def kGet : Bytes := [71, 69, 84]
#guard kGet = str "GET"
def kOk : Bytes := [79, 75]
#guard kOk = str "OK"

def asciiLower (b : UInt8) : UInt8 := if 65 ≤ b ∧ b ≤ 90 then b + 32 else b
def lower (bs : Bytes) : Bytes := bs.map asciiLower
def eqIgnoreCase (a b : Bytes) : Bool := lower a == lower b

/-- `std::str::from_utf8(..).is_ok()`; core proves `validateUTF8 = true ↔ ∃ cs, bytes = utf8Encode cs` -/
def validUtf8 (bs : Bytes) : Bool := (ByteArray.mk bs.toArray).validateUTF8

def usizeMax : Nat := 2 ^ 64 - 1
def isizeMax : Nat := 2 ^ 63 - 1

/-- digit value as `char::to_digit(radix)` for radix ≤ 16 -/
def digitVal (radix : Nat) (b : UInt8) : Option Nat :=
  let v : Option Nat :=
    if 48 ≤ b ∧ b ≤ 57 then some (b.toNat - 48)
    else if 97 ≤ b ∧ b ≤ 102 then some (b.toNat - 97 + 10)
    else if 65 ≤ b ∧ b ≤ 70 then some (b.toNat - 65 + 10)
    else none
  match v with
  | some d => if d < radix then some d else none
  | none => none

def accDigits (radix max : Nat) : Nat → Bytes → Option Nat
  | acc, [] => some acc
  | acc, b :: rest =>
    match digitVal radix b with
    | none => none
    | some d => let acc' := acc * radix + d; if acc' > max then none else accDigits radix max acc' rest

/-- `<unsigned>::from_str_radix` of Rust's std: one optional leading `+`, at least one digit,
    no other characters, value ≤ max.  (`none` = any `ParseIntError`.) -/
def rustParseUnsigned (radix max : Nat) (s : Bytes) : Option Nat :=
  match s with
  | [] => none
  | [b] => if b = PLUS ∨ b = 45 then none else accDigits radix max 0 [b]
  | b :: rest => if b = PLUS then accDigits radix max 0 rest else accDigits radix max 0 (b :: rest)

def natToDecAux : Nat → Nat → Bytes → Bytes
  | 0, _, acc => acc
  | fuel + 1, n, acc =>
    let acc' := (48 + (n % 10).toUInt8) :: acc
    if n / 10 = 0 then acc' else natToDecAux fuel (n / 10) acc'
def natToDec (n : Nat) : Bytes := natToDecAux (n + 1) n []

/-- first index of a byte -/
def findByte (b : UInt8) (s : Bytes) : Option Nat := s.idxOf? b

def isWsp (b : UInt8) : Bool := b == SP || b == HT
def trimStartBy (p : UInt8 → Bool) (v : Bytes) : Bytes := v.dropWhile p
def trimEndBy (p : UInt8 → Bool) (v : Bytes) : Bytes := (v.reverse.dropWhile p).reverse
def trimBy (p : UInt8 → Bool) (v : Bytes) : Bytes := trimEndBy p (trimStartBy p v)
/-- ASCII part of Rust's `char::is_whitespace` -/
def isAsciiWs (b : UInt8) : Bool := b == 32 || (9 ≤ b && b ≤ 13)

inductive PanicKind where
  | arithmetic | capacity | index | alloc
deriving DecidableEq, Repr

inductive Outcome (ε α : Type) where
  | ok (a : α)
  | err (e : ε)
  | panic (k : PanicKind)
deriving Repr

namespace Outcome
def bind (x : Outcome ε α) (f : α → Outcome ε β) : Outcome ε β :=
  match x with
  | ok a => f a
  | err e => err e
  | panic k => panic k
instance : Monad (Outcome ε) where
  pure := ok
  bind := bind
end Outcome

/-- `a + b` on `usize`: traps with overflow checks, wraps without -/
def usizeAdd (ov : Bool) (a b : Nat) : Outcome ε Nat :=
  if a + b ≤ usizeMax then .ok (a + b) else if ov then .panic .arithmetic else .ok ((a + b) % 2 ^ 64)

/-- ghost record of one `Vec::reserve(additional)` on a vector of length `len` -/
structure Reserve where
  site : String
  len : Nat
  additional : Nat
deriving Repr

/-- `Vec<u8>::reserve`: capacity overflow panic beyond `isize::MAX` bytes -/
def vecReserve (site : String) (len additional : Nat) : Outcome ε Reserve :=
  if len + additional > isizeMax then .panic .capacity
  else if additional > 2 ^ 30 then .panic .alloc   -- the allocator would be asked for more than 1 GiB
  else .ok ⟨site, len, additional⟩
