import Hm.C08

/-! C08 (acceptance): with a maximum `m` set, a request is accepted only if its size — bytes consumed,
    i.e. request line + header block + declared body — is at most `m` -/

variable {u : UriImpl}

theorem reqStep_acct_cw {cfg : ReqCfg} {m : Nat} (hm : cfg.max = some m) {s s' : ReqState u} {rem : Bytes}
    {k c : Nat} (hI : ReqInv cfg s) (ha : Acct m k s) (h : reqStep u cfg s rem = .ok .completeWhole s' c) :
    k + c = s'.totalBytes ∧ s'.totalBytes ≤ m := by
  unfold reqStep at h
  unfold ReqInv at hI
  unfold Acct declaredLeft at ha
  split at h
  · rename_i n hph
    simp only [hph] at hI ha
    unfold bodyStep at h
    split at h
    · simp at h
    · split at h
      · simp at h; obtain ⟨rfl, rfl⟩ := h
        simp only
        exact ⟨by omega, ha.2⟩
      · split at h <;> simp at h
  · rename_i hph
    simp only [hph] at hI ha
    unfold hdrStep at h
    cases hp : Headers.parse cfg.hl s.headers (stripDanglingCr rem) with
    | error e0 => simp [hp] at h
    | ok r =>
      obtain ⟨hs, st, c0⟩ := r
      simp only [hp] at h
      cases hc : countR cfg.max s.totalBytes c0 with
      | error f => simp [hc] at h
      | ok t =>
        simp only [hc] at h
        rw [hm] at hc
        have ht := countR_some hc
        cases st with
        | incomplete => simp only at h; split at h <;> simp at h
        | complete =>
          simp only at h
          unfold afterHeaders at h
          split at h
          · simp at h; obtain ⟨rfl, rfl⟩ := h
            simp only
            exact ⟨by omega, ht.2⟩
          · split at h
            · simp at h
            · split at h <;> simp at h
  · have := rlStep_completePart h (by simp)
    simp at this

theorem reqLoop_acct_complete {cfg : ReqCfg} {m : Nat} (hm : cfg.max = some m) {f : Nat} {s s' : ReqState u}
    {rem : Bytes} {k acc c : Nat} (hI : ReqInv cfg s) (ha : Acct m k s)
    (h : (requestSys u cfg).loop f s rem acc = some (.ok .complete s' c)) :
    k + (c - acc) = s'.totalBytes ∧ s'.totalBytes ≤ m := by
  induction f generalizing s rem acc k with
  | zero => simp [Sys.loop] at h
  | succ f ih =>
    unfold Sys.loop at h
    cases hs : (requestSys u cfg).step s rem with
    | fail e1 => simp [hs] at h
    | ok i s1 c1 =>
      cases i with
      | incomplete => simp [hs] at h
      | completePart =>
        simp only [hs] at h
        have hst := reqStep_acct hm hI ha hs (by simp)
        have hI1 := (requestSys_lawful cfg).inv hI hs (by simp)
        have hc := Sys.loop_consumed (requestSys_lawful cfg) hI1 h
        have := ih hI1 hst.1 h
        rw [show k + c1 + (c - (acc + c1)) = k + (c - acc) by omega] at this
        exact this
      | completeWhole =>
        simp only [hs, Option.some.injEq, PRes.ok.injEq, true_and] at h
        obtain ⟨rfl, rfl⟩ := h
        have := reqStep_acct_cw hm hI ha hs
        rw [show acc + c1 - acc = c1 by omega]
        exact this

/-- C08 (acceptance): whatever the deliveries, a request reported complete under a maximum `m` has
    consumed — request line, header block and the declared body together — at most `m` bytes -/
theorem C08_accept_within_max (u : UriImpl) (cfg : ReqCfg) (m : Nat) (hm : cfg.max = some m) (ds : List Bytes) :
    let c0 : GConn Fail (ReqState u) := { st := Request.new u, pending := [], total := 0, verdict := .more }
    let r := (requestSys u cfg).run c0 ds
    (match r.verdict with | .complete => True | _ => False) → r.total ≤ m := by
  intro c0
  let P : GConn Fail (ReqState u) → Prop := fun c =>
    ((match c.verdict with | .more => True | _ => False) → ReqInv cfg c.st ∧ Acct m c.total c.st) ∧
    ((match c.verdict with | .complete => True | _ => False) → c.total ≤ m)
  have h0 : P c0 := ⟨fun _ => ⟨reqInv_new cfg, by simp [c0, Acct, declaredLeft, Request.new]⟩, by simp [c0]⟩
  have hstep : ∀ c d, P c → P ((requestSys u cfg).deliver c d) := by
    intro c d hc
    unfold Sys.deliver
    cases hv : c.verdict with
    | complete => simpa [P, hv] using hc
    | failed e => simpa [P, hv] using hc
    | more =>
      obtain ⟨hI, ha⟩ := hc.1 (by simp [hv])
      simp only
      unfold Sys.parse
      cases hl : (requestSys u cfg).loop ((requestSys u cfg).μ c.st (c.pending ++ d).length) c.st (c.pending ++ d) 0 with
      | none => simp [P]
      | some r =>
        cases r with
        | fail e => simp [P]
        | ok st s' n =>
          cases st with
          | complete =>
            have := reqLoop_acct_complete hm hI ha hl
            simp only [Nat.sub_zero] at this
            exact ⟨by simp, fun _ => by simp only; omega⟩
          | incomplete =>
            have hacct := reqLoop_acct hm hI ha hl
            have hcons := Sys.loop_consumed (requestSys_lawful cfg) hI hl
            simp only [Nat.sub_zero] at hacct
            exact ⟨fun _ => ⟨hcons.2.2 rfl, hacct.1⟩, by simp⟩
  have : ∀ c, P c → P ((requestSys u cfg).run c ds) := by
    induction ds with
    | nil => intro c hc; exact hc
    | cons d ds ih => intro c hc; exact ih _ (hstep c d hc)
  exact (this c0 h0).2
