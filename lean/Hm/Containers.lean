import Hm.StoredGzip

/-! The gzip and zlib containers around *any* DEFLATE stream: if the raw stream `D`, read at its place inside the
    container, inflates to `out` and ends inside its last byte, then the container decodes to `out`.  (The
    stored-block theorems are instances; the fixed-Huffman theorems use this.) -/

theorem inpOfBytes_isSome (arr : Array UInt8) (k : Nat) (h : k / 8 < arr.size) : (inpOfBytes arr k).isSome = true := by
  unfold inpOfBytes; rw [dif_pos h]; rfl

/-- the padding bits up to the next byte boundary are skipped -/
theorem alignRead_avail (arr : Array UInt8) (e m : Nat) (he : e ≤ 8 * m) (he2 : 8 * m < e + 8) (hm : m ≤ arr.size) :
    alignRead (inpOfBytes arr) e = .ok ((), 8 * m) := by
  unfold alignRead
  simp only [R.bind, getPos]
  have hn : (8 - e % 8) % 8 = 8 * m - e := by omega
  rw [hn]
  have hs : ∀ i, i < 8 * m - e → (inpOfBytes arr (e + i)).isSome = true := by
    intro i hi
    exact inpOfBytes_isSome arr _ (by omega)
  rw [readBits_eq _ _ _ hs]
  simp only [R.pure, Except.ok.injEq, Prod.mk.injEq, true_and]
  omega

/-- gzip member without optional header fields around the raw stream `D` whose content is `out` -/
def gzipWrap (D : Bytes) (out : Array UInt8) (m0 m1 m2 m3 xfl os : UInt8) : Bytes :=
  gzHdr m0 m1 m2 m3 xfl os ++ D ++ le32 (crc32 out).toNat ++ le32 (out.size % 4294967296)

theorem gunzipR_wrap (D : Bytes) (out : Array UInt8) (e : Nat) (m0 m1 m2 m3 xfl os : UInt8)
    (he : e ≤ 8 * (10 + D.length)) (he2 : 8 * (10 + D.length) < e + 8)
    (hinf : inflateR (8 * (gzipWrap D out m0 m1 m2 m3 xfl os).toArray.size)
              (inpOfBytes (gzipWrap D out m0 m1 m2 m3 xfl os).toArray) (8 * 10) = .ok (out, e)) :
    gunzipR (8 * (gzipWrap D out m0 m1 m2 m3 xfl os).toArray.size) (inpOfBytes (gzipWrap D out m0 m1 m2 m3 xfl os).toArray) 0
      = .ok (out, 8 * (gzipWrap D out m0 m1 m2 m3 xfl os).length) := by
  unfold gzipWrap at hinf ⊢
  generalize hcrc : (crc32 out).toNat = crc at hinf ⊢
  have hcrclt : crc < 4294967296 := by rw [← hcrc]; exact UInt32.toNat_lt _
  generalize hisz : out.size % 4294967296 = isz at hinf ⊢
  have hiszlt : isz < 4294967296 := by rw [← hisz]; omega
  generalize harr : (gzHdr m0 m1 m2 m3 xfl os ++ D ++ le32 crc ++ le32 isz : Bytes).toArray = arr at hinf ⊢
  have hlist : arr.toList = gzHdr m0 m1 m2 m3 xfl os ++ D ++ le32 crc ++ le32 isz := by rw [← harr]
  have hsize : arr.size = 10 + D.length + 8 := by rw [← harr]; simp [gzHdr, le32]; omega
  have hz : gunzipR (8 * arr.size) (inpOfBytes arr) 0 = .ok (out, 8 * (10 + D.length) + 32 + 32) := by
    unfold gunzipR
    have hrb := readBytes_eq arr 10 0 (by omega)
    have hhdr : (arr.toList.drop 0).take 10 = gzHdr m0 m1 m2 m3 xfl os := by
      rw [hlist]; simp [gzHdr]
    rw [hhdr] at hrb
    simp only [Nat.mul_zero, Nat.zero_add] at hrb
    simp only [R.bind, hrb]
    have hmagic : ¬ ((gzHdr m0 m1 m2 m3 xfl os).getD 0 0 ≠ 0x1f ∨ (gzHdr m0 m1 m2 m3 xfl os).getD 1 0 ≠ 0x8b ∨
        (gzHdr m0 m1 m2 m3 xfl os).getD 2 0 ≠ 8) := by simp [gzHdr]
    rw [if_neg hmagic]
    have hflg : ((gzHdr m0 m1 m2 m3 xfl os).getD 3 0).toNat = 0 := by simp [gzHdr]
    simp only [hflg, Nat.zero_and, ne_eq, not_true_eq_false, if_false, R.bind, R.pure, Bool.false_eq_true]
    simp only [hinf, alignRead_avail arr e (10 + D.length) he he2 (by omega)]
    have hr1 := readBits32_eq arr (10 + D.length) (by omega)
    have hr2 := readBits32_eq arr (10 + D.length + 4) (by omega)
    have hd : arr.toList.drop (10 + D.length) = le32 crc ++ le32 isz := by
      rw [hlist, show 10 + D.length = (gzHdr m0 m1 m2 m3 xfl os ++ D).length by simp [gzHdr]; omega,
        List.append_assoc (gzHdr m0 m1 m2 m3 xfl os ++ D), List.drop_left]
    have hpre : ∀ (idx j : Nat) (hj : j < 8) (hidx : idx = 10 + D.length + j) (hb : idx < arr.size),
        arr[idx] = (le32 crc ++ le32 isz)[j]'(by simp [le32]; omega) := by
      intro idx j hj hidx hb
      subst hidx
      exact arr_get_of_drop arr _ j _ hd (by simp [le32]; omega) (by omega)
    have e0 := hpre (10 + D.length) 0 (by omega) (by omega) (by omega)
    have e1 := hpre (10 + D.length + 1) 1 (by omega) (by omega) (by omega)
    have e2 := hpre (10 + D.length + 2) 2 (by omega) (by omega) (by omega)
    have e3 := hpre (10 + D.length + 2 + 1) 3 (by omega) (by omega) (by omega)
    have e4 := hpre (10 + D.length + 4) 4 (by omega) (by omega) (by omega)
    have e5 := hpre (10 + D.length + 4 + 1) 5 (by omega) (by omega) (by omega)
    have e6 := hpre (10 + D.length + 4 + 2) 6 (by omega) (by omega) (by omega)
    have e7 := hpre (10 + D.length + 4 + 2 + 1) 7 (by omega) (by omega) (by omega)
    simp only [le32, List.cons_append, List.nil_append, List.getElem_cons_zero, List.getElem_cons_succ] at e0 e1 e2 e3 e4 e5 e6 e7
    have v1 : arr[10 + D.length].toNat + 256 * arr[10 + D.length + 1].toNat +
        65536 * (arr[10 + D.length + 2].toNat + 256 * arr[10 + D.length + 2 + 1].toNat) = crc := by
      rw [e0, e1, e2, e3]
      simp; omega
    have v2 : arr[10 + D.length + 4].toNat + 256 * arr[10 + D.length + 4 + 1].toNat +
        65536 * (arr[10 + D.length + 4 + 2].toNat + 256 * arr[10 + D.length + 4 + 2 + 1].toNat) = isz := by
      rw [e4, e5, e6, e7]
      simp; omega
    rw [v1] at hr1; rw [v2] at hr2
    rw [show 8 * (10 + D.length + 4) = 8 * (10 + D.length) + 32 by omega] at hr2
    simp only [hr1, hr2, hcrc, hisz, ne_eq, not_true_eq_false, or_self, if_false, R.pure]
  have hlen : (gzHdr m0 m1 m2 m3 xfl os ++ D ++ le32 crc ++ le32 isz).length = 10 + D.length + 8 := by
    simp [gzHdr, le32]; omega
  rw [hz, hlen]
  simp only [Except.ok.injEq, Prod.mk.injEq, true_and]; omega

/-- zlib stream `78 01` around the raw stream `D`, followed by four bytes `ad` spelling Adler-32 of the content -/
theorem zlibR_wrap (D : Bytes) (out : Array UInt8) (e : Nat) (ad : Bytes) (had : ad.length = 4)
    (hsum : ad.foldl (fun acc b => acc * 256 + b.toNat) 0 = adler32 out)
    (he : e ≤ 8 * (2 + D.length)) (he2 : 8 * (2 + D.length) < e + 8)
    (hinf : inflateR (8 * ([0x78, 0x01] ++ D ++ ad : Bytes).toArray.size) (inpOfBytes ([0x78, 0x01] ++ D ++ ad : Bytes).toArray) (8 + 8)
              = .ok (out, e)) :
    zlibR (8 * ([0x78, 0x01] ++ D ++ ad : Bytes).toArray.size) (inpOfBytes ([0x78, 0x01] ++ D ++ ad : Bytes).toArray) 0
      = .ok (out, 8 * ([0x78, 0x01] ++ D ++ ad : Bytes).length) := by
  generalize harr : ([0x78, 0x01] ++ D ++ ad : Bytes).toArray = arr at hinf ⊢
  have hlist : arr.toList = [0x78, 0x01] ++ D ++ ad := by rw [← harr]
  have hsize : arr.size = 2 + D.length + 4 := by rw [← harr]; simp [had]; omega
  have hz : zlibR (8 * arr.size) (inpOfBytes arr) 0 = .ok (out, 8 * (2 + D.length + 4)) := by
    unfold zlibR
    have hb0 := readByte_eq arr 0 (by omega)
    have hb1 := readByte_eq arr 1 (by omega)
    have ha0 : arr[0]'(by omega) = 0x78 := by subst harr; simp
    have ha1 : arr[1]'(by omega) = 0x01 := by subst harr; simp
    simp only [Nat.mul_zero, Nat.mul_one, Nat.zero_add] at hb0 hb1
    simp only [R.bind, hb0, hb1, ha0, ha1]
    have hchk : ¬ ((UInt8.toNat 0x78 * 256 + UInt8.toNat 0x01) % 31 ≠ 0 ∨ UInt8.toNat 0x01 &&& 32 ≠ 0 ∨
        UInt8.toNat 0x78 &&& 15 ≠ 8 ∨ UInt8.toNat 0x78 / 16 > 7) := by decide
    rw [if_neg hchk]
    simp only [R.bind, hinf, alignRead_avail arr e (2 + D.length) he he2 (by omega)]
    have hrb := readBytes_eq arr 4 (2 + D.length) (by omega)
    have hdrop : (arr.toList.drop (2 + D.length)).take 4 = ad := by
      rw [hlist, show 2 + D.length = ([0x78, 0x01] ++ D : Bytes).length by simp; omega,
        List.drop_left, ← had, List.take_length]
    rw [hdrop] at hrb
    simp only [R.bind, hrb, hsum, ne_eq, not_true_eq_false, if_false, R.pure]
  have hlen : ([0x78, 0x01] ++ D ++ ad : Bytes).length = 2 + D.length + 4 := by
    simp [had]; omega
  rw [hz, hlen]
