import Hm.Inflate

/-! Fixed-Huffman blocks (RFC 1951 §3.2.6): every sequence of literal and back-reference symbols written with the
    fixed code is decoded by `inflateCodes fixedLit fixedDist` to its expansion.  Ingredients: readers built from
    `readBit` are position-invariant (`Shiftable`), so a symbol decode at any position equals the decode of the
    same bits at position 0; there the 288 + 30 code words are evaluated by the kernel. -/

/-- the input seen from position `p` -/
def shiftInp (i : Inp) (p : Nat) : Inp := fun k => i (p + k)

def shiftRes (p : Nat) : Except RErr (α × Nat) → Except RErr (α × Nat)
  | .ok (a, q) => .ok (a, p + q)
  | .error e => .error e

/-- `m` does not care where in the stream it starts -/
def Shiftable (m : R α) : Prop := ∀ i p, m i p = shiftRes p (m (shiftInp i p) 0)

theorem shiftInp_shiftInp (i : Inp) (p q : Nat) : shiftInp (shiftInp i p) q = shiftInp i (p + q) := by
  funext k; simp [shiftInp, Nat.add_assoc]

theorem shiftInp_zero (i : Inp) : shiftInp i 0 = i := by funext k; simp [shiftInp]

theorem Shiftable.pure (a : α) : Shiftable (R.pure a) := by
  intro i p; simp [R.pure, shiftRes]

theorem Shiftable.fail (e : RErr) : Shiftable (R.fail e : R α) := by
  intro i p; simp [R.fail, shiftRes]

theorem Shiftable.readBit : Shiftable readBit := by
  intro i p
  unfold _root_.readBit shiftInp
  simp only [Nat.add_zero]
  cases i p with
  | none => rfl
  | some b => simp [shiftRes]

theorem Shiftable.bind {m : R α} {f : α → R β} (hm : Shiftable m) (hf : ∀ a, Shiftable (f a)) :
    Shiftable (R.bind m f) := by
  intro i p
  unfold R.bind
  rw [hm i p]
  cases h : m (shiftInp i p) 0 with
  | error e => simp [shiftRes]
  | ok r =>
    obtain ⟨a, q⟩ := r
    simp only [shiftRes]
    rw [hf a i (p + q), hf a (shiftInp i p) q, shiftInp_shiftInp]
    cases (f a) (shiftInp i (p + q)) 0 with
    | error e => simp [shiftRes]
    | ok r2 => obtain ⟨b, q2⟩ := r2; simp [shiftRes, Nat.add_assoc]

theorem Shiftable.readBits (n : Nat) : Shiftable (readBits n) := by
  induction n with
  | zero => exact Shiftable.pure 0
  | succ n ih => exact Shiftable.bind Shiftable.readBit fun _ => Shiftable.bind ih fun _ => Shiftable.pure _

theorem Shiftable.decodeSymAux (h : Huff) (fuel len code first index : Nat) :
    Shiftable (decodeSymAux h fuel len code first index) := by
  induction fuel generalizing len code first index with
  | zero => exact Shiftable.fail _
  | succ fuel ih =>
    unfold _root_.decodeSymAux
    apply Shiftable.bind Shiftable.readBit
    intro b
    simp only
    split
    · split
      · exact Shiftable.pure _
      · exact Shiftable.fail _
    · exact ih _ _ _ _

theorem Shiftable.decodeSym (h : Huff) : Shiftable (decodeSym h) := Shiftable.decodeSymAux h _ _ _ _ _

/-- the stream carries the bit string `bs` at position `p` -/
def Carries (i : Inp) (p : Nat) (bs : List Bool) : Prop := ∀ k (h : k < bs.length), i (p + k) = some bs[k]

theorem Carries.append_left {i : Inp} {p : Nat} {a b : List Bool} (h : Carries i p (a ++ b)) : Carries i p a := by
  intro k hk
  have := h k (by simp; omega)
  rw [this, List.getElem_append_left hk]

theorem Carries.append_right {i : Inp} {p : Nat} {a b : List Bool} (h : Carries i p (a ++ b)) :
    Carries i (p + a.length) b := by
  intro k hk
  have := h (a.length + k) (by simp; omega)
  rw [← Nat.add_assoc] at this
  rw [this, List.getElem_append_right (by omega)]
  simp

/-- input made of a bit list -/
def inpOfBits (bs : List Bool) : Inp := fun k => bs[k]?

/-- a local, shiftable reader that succeeds on the bare bit string succeeds, with the same value, wherever the
    stream carries that bit string -/
theorem run_of_carries {m : R α} (hl : Local m) (hs : Shiftable m) {bs : List Bool} {a : α}
    (h0 : m (inpOfBits bs) 0 = .ok (a, bs.length)) {i : Inp} {p : Nat} (hc : Carries i p bs) :
    m i p = .ok (a, p + bs.length) := by
  rw [hs i p]
  have : m (shiftInp i p) 0 = .ok (a, bs.length) := by
    apply hl.agree (inpOfBits bs) (shiftInp i p) 0 a bs.length h0
    intro k _ hk
    simp only [inpOfBits, shiftInp]
    rw [hc k hk]
    simp [List.getElem?_eq_getElem hk]
  rw [this]; rfl

/-! ### the fixed code words -/

/-- `n` bits of `v`, most significant first (Huffman codes are packed MSB-first) -/
def bitsMSB : Nat → Nat → List Bool
  | 0, _ => []
  | n + 1, v => (v / 2 ^ n % 2 == 1) :: bitsMSB n v

/-- `n` bits of `v`, least significant first (every other field of DEFLATE) -/
def bitsLSB : Nat → Nat → List Bool
  | 0, _ => []
  | n + 1, v => (v % 2 == 1) :: bitsLSB n (v / 2)

theorem bitsMSB_length (n v : Nat) : (bitsMSB n v).length = n := by
  induction n with
  | zero => rfl
  | succ n ih => simp [bitsMSB, ih]

theorem bitsLSB_length (n v : Nat) : (bitsLSB n v).length = n := by
  induction n generalizing v with
  | zero => rfl
  | succ n ih => simp [bitsLSB, ih]

/-- RFC 1951 §3.2.6: literal/length code words -/
def litCode (s : Nat) : List Bool :=
  if s < 144 then bitsMSB 8 (0x30 + s)
  else if s < 256 then bitsMSB 9 (0x190 + (s - 144))
  else if s < 280 then bitsMSB 7 (s - 256)
  else bitsMSB 8 (0xC0 + (s - 280))

def distCode (d : Nat) : List Bool := bitsMSB 5 d

def okEq (r : Except RErr (Nat × Nat)) (a q : Nat) : Bool :=
  match r with
  | .ok (a', q') => a' == a && q' == q
  | .error _ => false

theorem okEq_eq {r : Except RErr (Nat × Nat)} {a q : Nat} (h : okEq r a q = true) : r = .ok (a, q) := by
  unfold okEq at h
  split at h
  · simp only [Bool.and_eq_true, beq_iff_eq] at h; rw [h.1, h.2]
  · simp at h

theorem litCode_table' : ∀ s, s < 288 → okEq (decodeSym fixedLit (inpOfBits (litCode s)) 0) s (litCode s).length = true := by
  decide +kernel

theorem distCode_table' : ∀ d, d < 30 → okEq (decodeSym fixedDist (inpOfBits (distCode d)) 0) d (distCode d).length = true := by
  decide +kernel

theorem litCode_table (s : Nat) (h : s < 288) : decodeSym fixedLit (inpOfBits (litCode s)) 0 = .ok (s, (litCode s).length) :=
  okEq_eq (litCode_table' s h)

theorem distCode_table (d : Nat) (h : d < 30) : decodeSym fixedDist (inpOfBits (distCode d)) 0 = .ok (d, (distCode d).length) :=
  okEq_eq (distCode_table' d h)

theorem decodeSym_lit {i : Inp} {p s : Nat} (hs : s < 288) (hc : Carries i p (litCode s)) :
    decodeSym fixedLit i p = .ok (s, p + (litCode s).length) :=
  run_of_carries (Local.decodeSym _) (Shiftable.decodeSym _) (litCode_table s hs) hc

theorem decodeSym_dist {i : Inp} {p d : Nat} (hd : d < 30) (hc : Carries i p (distCode d)) :
    decodeSym fixedDist i p = .ok (d, p + (distCode d).length) :=
  run_of_carries (Local.decodeSym _) (Shiftable.decodeSym _) (distCode_table d hd) hc

theorem readBits_carries (n : Nat) : ∀ (v : Nat) (i : Inp) (p : Nat), v < 2 ^ n → Carries i p (bitsLSB n v) →
    readBits n i p = .ok (v, p + n) := by
  induction n with
  | zero =>
    intro v i p hv _
    have : v = 0 := by simpa using hv
    subst this; rfl
  | succ n ih =>
    intro v i p hv hc
    unfold readBits
    have h0 := hc 0 (by simp [bitsLSB])
    simp only [bitsLSB, List.getElem_cons_zero, Nat.add_zero] at h0
    have hrest : Carries i (p + 1) (bitsLSB n (v / 2)) := by
      have := Carries.append_right (a := [v % 2 == 1]) (b := bitsLSB n (v / 2)) (by simpa [bitsLSB] using hc)
      simpa using this
    have hv2 : v / 2 < 2 ^ n := by
      rw [Nat.pow_succ] at hv; omega
    have := ih (v / 2) i (p + 1) hv2 hrest
    simp only [R.bind, readBit, h0, this, R.pure]
    have hb : (v % 2 == 1).toNat + 2 * (v / 2) = v := by
      rcases Nat.mod_two_eq_zero_or_one v with h | h <;> simp [h] <;> omega
    rw [hb]
    simp only [Except.ok.injEq, Prod.mk.injEq, true_and]; omega

/-! ### symbols of a fixed-Huffman block -/

/-- a literal byte, or a back-reference given by its length symbol (`257 + ls`), length extra bits, distance
    symbol and distance extra bits — every combination the format allows -/
inductive Tok where
  | lit (b : UInt8)
  | mat (ls eb ds db : Nat)

def Tok.valid : Tok → Prop
  | .lit _ => True
  | .mat ls eb ds db => ls < 29 ∧ eb < 2 ^ lenExtra.getD ls 0 ∧ ds < 30 ∧ db < 2 ^ distExtra.getD ds 0

def tokBits : Tok → List Bool
  | .lit b => litCode b.toNat
  | .mat ls eb ds db =>
    litCode (257 + ls) ++ (bitsLSB (lenExtra.getD ls 0) eb ++ (distCode ds ++ bitsLSB (distExtra.getD ds 0) db))

/-- what the symbol does to the output: append the byte, or copy `length` bytes from `distance` back -/
def tokApply (out : Array UInt8) : Tok → Array UInt8
  | .lit b => out.push b
  | .mat ls eb ds db => copyBack (lenBase.getD ls 0 + eb) (distBase.getD ds 0 + db) out

theorem inflateCodes_toks : ∀ (toks : List Tok) (fuel : Nat) (out : Array UInt8) (i : Inp) (p : Nat),
    (∀ t ∈ toks, t.valid) → toks.length < fuel →
    Carries i p (toks.flatMap tokBits ++ litCode 256) →
    inflateCodes fixedLit fixedDist fuel out i p
      = .ok (toks.foldl tokApply out, p + (toks.flatMap tokBits ++ litCode 256).length) := by
  intro toks
  induction toks with
  | nil =>
    intro fuel out i p _ hf hc
    cases fuel with
    | zero => simp at hf
    | succ fuel =>
      unfold inflateCodes
      simp only [List.flatMap_nil, List.nil_append] at hc ⊢
      have hd := decodeSym_lit (s := 256) (by omega) hc
      simp only [R.bind, hd]
      simp [R.pure]
  | cons t rest ih =>
    intro fuel out i p hv hf hc
    cases fuel with
    | zero => simp at hf
    | succ fuel =>
      have hvr : ∀ t ∈ rest, t.valid := fun t ht => hv t (by simp [ht])
      have hfr : rest.length < fuel := by simp at hf; omega
      simp only [List.flatMap_cons, List.append_assoc] at hc ⊢
      unfold inflateCodes
      cases t with
      | lit b =>
        simp only [tokBits] at hc ⊢
        have hlt : b.toNat < 288 := by have := b.toNat_lt; omega
        have hd := decodeSym_lit hlt hc.append_left
        have hb256 : b.toNat < 256 := b.toNat_lt
        simp only [R.bind, hd, hb256, if_true]
        have := ih fuel (out.push b.toNat.toUInt8) i (p + (litCode b.toNat).length) hvr hfr hc.append_right
        rw [this]
        simp only [List.foldl_cons, tokApply, UInt8.ofNat_toNat, Nat.toUInt8_eq, List.length_append, Except.ok.injEq, Prod.mk.injEq]
        exact ⟨by simp, by omega⟩
      | mat ls eb ds db =>
        have hvt := hv (.mat ls eb ds db) (by simp)
        obtain ⟨hls, heb, hds, hdb⟩ := hvt
        simp only [tokBits, List.append_assoc] at hc ⊢
        have hd := decodeSym_lit (s := 257 + ls) (by omega) hc.append_left
        have c1 := hc.append_right
        have hr1 := readBits_carries _ eb i _ heb c1.append_left
        have c2 := c1.append_right
        simp only [bitsLSB_length] at c2
        have hd2 := decodeSym_dist hds c2.append_left
        have c3 := c2.append_right
        have hr2 := readBits_carries _ db i _ hdb c3.append_left
        have c4 := c3.append_right
        have hn1 : ¬ (257 + ls < 256) := by omega
        have hn2 : ¬ (257 + ls = 256) := by omega
        have hn3 : ¬ (257 + ls > 285) := by omega
        have hn4 : ¬ (ds > 29) := by omega
        have hsub : 257 + ls - 257 = ls := by omega
        simp only [R.bind, hd, hn1, hn2, hn3, if_false, hsub, hr1, hd2, hn4, hr2]
        simp only [bitsLSB_length] at c4
        have := ih fuel (copyBack (lenBase.getD ls 0 + eb) (distBase.getD ds 0 + db) out) i _ hvr hfr c4
        rw [this]
        simp only [List.foldl_cons, tokApply, List.length_append, bitsLSB_length, Except.ok.injEq, Prod.mk.injEq, true_and]
        omega

/-- literal-only blocks: the expansion is the data -/
theorem foldl_lits (data : Bytes) (out : Array UInt8) :
    (data.map Tok.lit).foldl tokApply out = out ++ data.toArray := by
  induction data generalizing out with
  | nil => simp
  | cons b rest ih =>
    simp only [List.map_cons, List.foldl_cons, tokApply]
    rw [ih]
    apply Array.ext'
    simp

/-! ### blocks -/

/-- BFINAL, BTYPE = 01 (least significant bit first), the symbols, end-of-block -/
def fixedBlockBits (final : Bool) (toks : List Tok) : List Bool :=
  final :: true :: false :: (toks.flatMap tokBits ++ litCode 256)

/-- a stream of fixed-Huffman blocks; the last one carries BFINAL -/
def fixedEnc : List (List Tok) → List Bool
  | [] => []
  | [t] => fixedBlockBits true t
  | t :: t2 :: rest => fixedBlockBits false t ++ fixedEnc (t2 :: rest)

def expand (out : Array UInt8) (blocks : List (List Tok)) : Array UInt8 :=
  blocks.foldl (fun o t => t.foldl tokApply o) out

theorem fixedBlock_step (symFuel fuel : Nat) (final : Bool) (toks : List Tok) (out : Array UInt8) (i : Inp) (p : Nat)
    (hv : ∀ t ∈ toks, t.valid) (hf : toks.length < symFuel) (hc : Carries i p (fixedBlockBits final toks)) :
    inflateBlocks symFuel (fuel + 1) out i p =
      (if final then .ok (toks.foldl tokApply out, p + (fixedBlockBits final toks).length)
       else inflateBlocks symFuel fuel (toks.foldl tokApply out) i (p + (fixedBlockBits final toks).length)) := by
  conv => lhs; unfold inflateBlocks
  have h0 := hc 0 (by simp [fixedBlockBits])
  simp only [fixedBlockBits, List.getElem_cons_zero, Nat.add_zero] at h0
  have hbit : readBit i p = .ok (final, p + 1) := by simp [readBit, h0]
  have c1 : Carries i (p + 1) (true :: false :: (toks.flatMap tokBits ++ litCode 256)) := by
    have := Carries.append_right (a := [final]) (b := true :: false :: (toks.flatMap tokBits ++ litCode 256))
      (by simpa [fixedBlockBits] using hc)
    simpa using this
  have hty : readBits 2 i (p + 1) = .ok (1, p + 1 + 2) := by
    apply readBits_carries 2 1 i (p + 1) (by omega)
    have := Carries.append_left (a := [true, false]) (b := toks.flatMap tokBits ++ litCode 256) (by simpa using c1)
    simpa [bitsLSB] using this
  have c2 : Carries i (p + 1 + 2) (toks.flatMap tokBits ++ litCode 256) := by
    have := Carries.append_right (a := [true, false]) (b := toks.flatMap tokBits ++ litCode 256) (by simpa using c1)
    simpa using this
  have hcodes := inflateCodes_toks toks symFuel out i (p + 1 + 2) hv hf c2
  have h10 : ¬ ((1 : Nat) = 0) := by omega
  simp only [R.bind, hbit, hty, h10, if_false, if_true, hcodes]
  have hlen : p + 1 + 2 + (toks.flatMap tokBits ++ litCode 256).length = p + (fixedBlockBits final toks).length := by
    simp [fixedBlockBits]; omega
  rw [hlen]
  cases final <;> simp [R.pure]

theorem inflateBlocks_fixedEnc (symFuel : Nat) : ∀ (blocks : List (List Tok)) (fuel : Nat) (out : Array UInt8) (i : Inp) (p : Nat),
    blocks ≠ [] → (∀ b ∈ blocks, (∀ t ∈ b, t.valid) ∧ b.length < symFuel) → blocks.length ≤ fuel →
    Carries i p (fixedEnc blocks) →
    inflateBlocks symFuel fuel out i p = .ok (expand out blocks, p + (fixedEnc blocks).length) := by
  intro blocks
  induction blocks with
  | nil => intro fuel out i p hne; exact absurd rfl hne
  | cons b rest ih =>
    intro fuel out i p _ hv hf hc
    cases fuel with
    | zero => simp at hf
    | succ fuel =>
      have hb := hv b (by simp)
      cases rest with
      | nil =>
        simp only [fixedEnc] at hc ⊢
        rw [fixedBlock_step symFuel fuel true b out i p hb.1 hb.2 hc]
        simp [expand]
      | cons b2 rest2 =>
        simp only [fixedEnc] at hc ⊢
        rw [fixedBlock_step symFuel fuel false b out i p hb.1 hb.2 hc.append_left]
        simp only [Bool.false_eq_true, if_false]
        have := ih fuel (b.foldl tokApply out) i (p + (fixedBlockBits false b).length) (by simp)
          (fun x hx => hv x (by simp [hx])) (by simp at hf ⊢; omega) hc.append_right
        rw [this]
        simp only [expand, List.foldl_cons, List.length_append, Except.ok.injEq, Prod.mk.injEq, true_and]
        omega

/-! ### packing bits into bytes -/

def bitAt (bs : List Bool) (k : Nat) : Nat := (bs.getD k false).toNat

def byteVal (bs : List Bool) (j : Nat) : Nat :=
  bitAt bs (8 * j) + 2 * bitAt bs (8 * j + 1) + 4 * bitAt bs (8 * j + 2) + 8 * bitAt bs (8 * j + 3) +
  16 * bitAt bs (8 * j + 4) + 32 * bitAt bs (8 * j + 5) + 64 * bitAt bs (8 * j + 6) + 128 * bitAt bs (8 * j + 7)

/-- least significant bit first, zero padding in the last byte -/
def packBits (bs : List Bool) : Bytes := (List.range ((bs.length + 7) / 8)).map fun j => (byteVal bs j).toUInt8

theorem packBits_length (bs : List Bool) : (packBits bs).length = (bs.length + 7) / 8 := by simp [packBits]

theorem bits8 : ∀ (b0 b1 b2 b3 b4 b5 b6 b7 : Bool) (t : Nat), t < 8 →
    (((b0.toNat + 2 * b1.toNat + 4 * b2.toNat + 8 * b3.toNat + 16 * b4.toNat + 32 * b5.toNat + 64 * b6.toNat + 128 * b7.toNat) >>> t) % 2 == 1)
      = [b0, b1, b2, b3, b4, b5, b6, b7].getD t false := by
  decide

theorem byteVal_lt (bs : List Bool) (j : Nat) : byteVal bs j < 256 := by
  unfold byteVal bitAt
  have h : ∀ b : Bool, b.toNat ≤ 1 := fun b => by cases b <;> simp
  have := h (bs.getD (8 * j) false); have := h (bs.getD (8 * j + 1) false); have := h (bs.getD (8 * j + 2) false)
  have := h (bs.getD (8 * j + 3) false); have := h (bs.getD (8 * j + 4) false); have := h (bs.getD (8 * j + 5) false)
  have := h (bs.getD (8 * j + 6) false); have := h (bs.getD (8 * j + 7) false)
  omega

theorem byteVal_bit (bs : List Bool) (j t : Nat) (ht : t < 8) :
    ((byteVal bs j >>> t) % 2 == 1) = bs.getD (8 * j + t) false := by
  unfold byteVal bitAt
  rw [bits8 _ _ _ _ _ _ _ _ t ht]
  have : t = 0 ∨ t = 1 ∨ t = 2 ∨ t = 3 ∨ t = 4 ∨ t = 5 ∨ t = 6 ∨ t = 7 := by omega
  rcases this with rfl | rfl | rfl | rfl | rfl | rfl | rfl | rfl <;> simp

/-- a byte string that contains the packed bits at byte offset `|A|` carries them at bit `8·|A|` -/
theorem carries_packed (A C : Bytes) (bs : List Bool) :
    Carries (inpOfBytes (A ++ packBits bs ++ C).toArray) (8 * A.length) bs := by
  intro k hk
  unfold inpOfBytes
  have hdiv : (8 * A.length + k) / 8 = A.length + k / 8 := by omega
  have hmod : (8 * A.length + k) % 8 = k % 8 := by omega
  have hj : k / 8 < (packBits bs).length := by rw [packBits_length]; omega
  have hlt : A.length + k / 8 < (A ++ packBits bs ++ C).toArray.size := by simp; omega
  rw [hdiv, hmod, dif_pos hlt]
  have hget : (A ++ packBits bs ++ C).toArray[A.length + k / 8] = (byteVal bs (k / 8)).toUInt8 := by
    simp only [List.getElem_toArray]
    rw [List.getElem_append_left (by simp; omega), List.getElem_append_right (by omega)]
    simp [packBits]
  rw [hget]
  have hv : (byteVal bs (k / 8)).toUInt8.toNat = byteVal bs (k / 8) := by
    simp [Nat.toUInt8, Nat.mod_eq_of_lt (byteVal_lt bs (k / 8))]
  rw [hv, byteVal_bit bs (k / 8) (k % 8) (Nat.mod_lt _ (by omega))]
  have : 8 * (k / 8) + k % 8 = k := by omega
  rw [this]
  simp [List.getD, List.getElem?_eq_getElem hk]
