import Hm.C11Req
import Hm.C04Complete
import Hm.Utf8Cut
import Hm.C10
import Hm.C04Grammar

/-! C11 without the ASCII restriction: parse → generate → parse for every accepted request (any method the parser
    accepts) and for every accepted response with declared-length or no body -/

variable {u : UriImpl}

theorem validUtf8_append {A B : Bytes} (hA : validUtf8 A = true) (hB : validUtf8 B = true) : validUtf8 (A ++ B) = true := by
  unfold validUtf8 at *
  rw [ByteArray.validateUTF8_eq_true_iff] at *
  have := ByteArray.IsValidUTF8.append hA hB
  have e : ByteArray.mk (A ++ B).toArray = ByteArray.mk A.toArray ++ ByteArray.mk B.toArray := by
    apply ByteArray.ext; simp
  rw [e]; exact this

theorem findCrlf_cons_none {x : UInt8} {l : Bytes} (h : findCrlf (x :: l) = none) : findCrlf l = none := by
  cases l with
  | nil => rfl
  | cons y ys =>
    unfold findCrlf at h
    split at h
    · simp at h
    · simpa using h

theorem findCrlf_prefix_none {A B : Bytes} (h : findCrlf (A ++ B) = none) : findCrlf A = none := by
  cases hA : findCrlf A with
  | none => rfl
  | some i => rw [findCrlf_append_of_some hA B] at h; cases h

theorem findCrlf_suffix_none {A B : Bytes} (h : findCrlf (A ++ B) = none) : findCrlf B = none := by
  induction A with
  | nil => simpa using h
  | cons x xs ih => exact ih (findCrlf_cons_none (by simpa using h))

theorem findCrlf_noCR {B : Bytes} (h : ∀ b ∈ B, b ≠ CR) : findCrlf B = none := by
  induction B with
  | nil => rfl
  | cons x xs ih =>
    cases xs with
    | nil => rfl
    | cons y ys =>
      have hx : x ≠ CR := h x (by simp)
      unfold findCrlf
      rw [if_neg (fun hc => hx hc.1)]
      rw [ih (fun b hb => h b (by simp [hb]))]; rfl

/-- a CR-free prefix in front of a CRLF-free string -/
theorem findCrlf_clean_prefix {P R : Bytes} (hP : ∀ b ∈ P, b ≠ CR) (hR : findCrlf R = none) : findCrlf (P ++ R) = none := by
  induction P with
  | nil => simpa using hR
  | cons x xs ih =>
    have hx : x ≠ CR := hP x (by simp)
    have ih' := ih (fun b hb => hP b (by simp [hb]))
    cases hrest : xs ++ R with
    | nil => simp [hrest, findCrlf]
    | cons y ys =>
      simp only [List.cons_append, hrest]
      unfold findCrlf
      rw [if_neg (fun hc => hx hc.1)]
      rw [← hrest, ih']; rfl

/-- a CRLF-free string followed by a CR-free one that does not start with LF -/
theorem findCrlf_clean_suffix {A B : Bytes} (hA : findCrlf A = none) (hB : ∀ b ∈ B, b ≠ CR) (hh : B.head? ≠ some LF) :
    findCrlf (A ++ B) = none := by
  induction A with
  | nil => simpa using findCrlf_noCR hB
  | cons x xs ih =>
    cases xs with
    | nil =>
      cases B with
      | nil => rfl
      | cons y ys =>
        have hy : y ≠ LF := by intro hc; subst hc; simp at hh
        simp only [List.cons_append, List.nil_append]
        unfold findCrlf
        rw [if_neg (fun hc => hy hc.2)]
        rw [findCrlf_noCR hB]; rfl
    | cons y ys =>
      have hnot : ¬ (x = CR ∧ y = LF) := by intro hc; simp [findCrlf, hc] at hA
      have hrest : findCrlf (y :: ys) = none := findCrlf_cons_none hA
      have := ih hrest
      simp only [List.cons_append] at this ⊢
      unfold findCrlf
      rw [if_neg hnot, this]; rfl

/-- C11 (requests, every accepted method): whatever a request parser (any limits) accepted, generating from the
    parsed message and parsing that output — with any limits the regenerated request line and total fit and no
    header line limit — yields the same method, target, header list and body, with the whole output consumed,
    provided the URI implementation prints the parsed target as a non-empty text free of SP, CR and non-ASCII
    bytes that parses back to the same target (the URI law, `Rhymuri.parse_display_path` for the rhymuri model) -/
theorem C11_request_reparse (cfg cfg' : ReqCfg) {s : Bytes} {st : ReqState u} {n : Nat}
    (h : (requestSys u cfg).parse (Request.new u) s = .ok .complete st n)
    (hlaw : u.parse (u.display st.target) = some st.target)
    (hdne : u.display st.target ≠ [])
    (hdc : ∀ b ∈ u.display st.target, b ≠ SP ∧ b ≠ CR ∧ b < 128)
    (hhl : cfg'.hl = none)
    (hrl : overLimit cfg'.rl (st.method ++ [SP] ++ u.display st.target ++ [SP] ++ http11).length = false)
    (hmax : ∀ M, cfg'.max = some M →
      (st.method ++ [SP] ++ u.display st.target ++ [SP] ++ http11).length + 2 + (genBlock st.headers).length + st.body.length ≤ M ∧ M ≤ usizeMax)
    (tail : Bytes) :
    let g := (st.method ++ [SP] ++ u.display st.target ++ [SP] ++ http11) ++ CRLF ++ genBlock st.headers ++ st.body
    ∃ st', (requestSys u cfg').parse (Request.new u) (g ++ tail) = .ok .complete st' g.length ∧
      st'.method = st.method ∧ st'.target = st.target ∧ st'.headers = st.headers ∧ st'.body = st.body := by
  intro g
  obtain ⟨e, c, hf, hv, _, hline, hhdr, hcase⟩ := C03_accept_sound u cfg h
  obtain ⟨tgt, hl, hmne, hmsp, _, _, _⟩ := C03_request_line_sound u hline
  have hnocrlf0 : findCrlf (s.take e) = none := (findCrlf_split hf).2
  -- the method is a CRLF-free, valid UTF-8 prefix of the accepted line
  have hl' : s.take e = st.method ++ (SP :: (tgt ++ [SP] ++ http11)) := by rw [hl]; simp
  have hm_nocrlf : findCrlf st.method = none := by rw [hl'] at hnocrlf0; exact findCrlf_prefix_none hnocrlf0
  have hm_utf8 : validUtf8 st.method = true := by
    rw [hl'] at hv; exact validUtf8_cut_left _ SP _ (by decide) hv
  -- the regenerated line
  have hrest_clean : ∀ b ∈ [SP] ++ u.display st.target ++ [SP] ++ http11, b ≠ CR ∧ b < 128 := by
    have hh : ∀ x ∈ http11, x ≠ CR ∧ x < 128 := by decide
    intro b hb
    simp only [List.mem_append, List.mem_singleton] at hb
    rcases hb with ((rfl | hb) | rfl) | hb
    · decide
    · exact ⟨(hdc b hb).2.1, (hdc b hb).2.2⟩
    · decide
    · exact hh b hb
  have hline_eq : st.method ++ [SP] ++ u.display st.target ++ [SP] ++ http11
      = st.method ++ ([SP] ++ u.display st.target ++ [SP] ++ http11) := by simp
  have hnocrlf : findCrlf (st.method ++ [SP] ++ u.display st.target ++ [SP] ++ http11) = none := by
    rw [hline_eq]
    exact findCrlf_clean_suffix hm_nocrlf (fun b hb => (hrest_clean b hb).1) (by simp [SP, LF])
  have hutf : validUtf8 (st.method ++ [SP] ++ u.display st.target ++ [SP] ++ http11) = true := by
    rw [hline_eq]
    exact validUtf8_append hm_utf8 (validUtf8_of_ascii _ (fun b hb => (hrest_clean b hb).2))
  have hparse : parseRequestLine u (st.method ++ [SP] ++ u.display st.target ++ [SP] ++ http11) = .ok (st.method, st.target) :=
    C03_request_line_complete u hmne hmsp hdne (fun hc => (hdc SP hc).1 rfl) hlaw
  have hhdr' : Headers.parse cfg'.hl [] (genBlock st.headers) = .ok (st.headers, .complete, (genBlock st.headers).length) := by
    rw [hhl]
    have := C11_headers_reparse (Headers.parse_complete_unstrip hhdr) []
    simpa using this
  have hframing : (∃ val, headerValue st.headers kContentLength = some val ∧ parseNumber ⟨true⟩ 10 val = some st.body.length) ∨
      (headerValue st.headers kContentLength = none ∧ st.body = []) := by
    rcases hcase with ⟨hnone, hb, _⟩ | ⟨val, cl, hval, hnum, _, hlen, _⟩
    · exact Or.inr ⟨hnone, hb⟩
    · exact Or.inl ⟨val, hval, by rw [hlen]; exact hnum⟩
  obtain ⟨st', hp', h1, h2, h3, h4⟩ := C03_accept_complete u cfg' (tail := tail) hnocrlf hutf hparse hhdr' hframing hrl hmax
  refine ⟨st', ?_, h1, h2, h3, h4⟩
  have hlen : g.length = (st.method ++ [SP] ++ u.display st.target ++ [SP] ++ http11).length + 2 + (genBlock st.headers).length + st.body.length := by
    simp [g, CRLF]; omega
  rw [hlen]; exact hp'

/-! ### responses -/

def statusLine' (code : Nat) (reason : Bytes) : Bytes := http11 ++ [SP] ++ natToDec code ++ [SP] ++ reason

theorem parseStatusLine_statusLine' (code : Nat) (reason : Bytes) (hc : code < 1000) :
    parseStatusLine ⟨true⟩ (statusLine' code reason) = .ok (code, reason) := by
  unfold parseStatusLine
  have h1 : findByte SP (statusLine' code reason) = some http11.length := by
    unfold statusLine'
    rw [List.append_assoc, List.append_assoc, List.append_assoc]
    exact findByte_append_notin SP http11 _ (by decide)
  have htake : (statusLine' code reason).take http11.length = http11 := by
    unfold statusLine'
    rw [List.append_assoc, List.append_assoc, List.append_assoc]; exact List.take_left' rfl
  have hdrop : (statusLine' code reason).drop (http11.length + 1) = natToDec code ++ SP :: reason := by
    unfold statusLine'
    rw [List.append_assoc, List.append_assoc, List.append_assoc, List.drop_append]
    simp
  rw [h1]
  simp only [htake, ne_eq, not_true_eq_false, if_false, hdrop]
  have h2 : findByte SP (natToDec code ++ SP :: reason) = some (natToDec code).length :=
    findByte_append_notin SP _ _ (fun hc => (isDig_props ((natToDec_digits code).1 SP hc)).2 rfl)
  rw [h2]
  have h3 : (natToDec code ++ SP :: reason).take (natToDec code).length = natToDec code := List.take_left' rfl
  have h4 : (natToDec code ++ SP :: reason).drop ((natToDec code).length + 1) = reason := by
    rw [List.drop_append]; simp
  simp only [h3, h4, parseNumber_natToDec _ _ (show code ≤ usizeMax by unfold usizeMax; omega)]
  simp [hc]

theorem isDig_lt {b : UInt8} (h : isDig b = true) : b < 128 := by
  unfold isDig at h
  simp only [Bool.and_eq_true, decide_eq_true_eq] at h
  have h2 := UInt8.le_iff_toNat_le.mp h.2
  apply UInt8.lt_iff_toNat_lt.mpr
  simp at h2 ⊢; omega

/-- the regenerated status line of an accepted one is CRLF-free, valid UTF-8 and in the grammar -/
theorem statusLine'_ok {line reason : Bytes} {code : Nat}
    (hno : findCrlf line = none) (hutf : validUtf8 line = true)
    (hline : parseStatusLine ⟨true⟩ line = .ok (code, reason)) :
    findCrlf (statusLine' code reason) = none ∧ validUtf8 (statusLine' code reason) = true ∧
      parseStatusLine ⟨true⟩ (statusLine' code reason) = .ok (code, reason) := by
  obtain ⟨codeText, hl, hdig, _, _, hc⟩ := C04_status_line_sound hline
  have hpre_ascii : ∀ b ∈ http11 ++ [SP] ++ codeText ++ [SP], b < 128 := by
    have hh : ∀ x ∈ http11, x < 128 := by decide
    intro b hb
    simp only [List.mem_append, List.mem_singleton] at hb
    rcases hb with ((hb | rfl) | hb) | rfl
    · exact hh b hb
    · decide
    · unfold allDigits at hdig
      simp only [Bool.and_eq_true, List.all_eq_true] at hdig
      have := hdig.2 b hb
      unfold isDigit at this
      simp only [Bool.and_eq_true, decide_eq_true_eq] at this
      have h2 := UInt8.le_iff_toNat_le.mp this.2
      apply UInt8.lt_iff_toNat_lt.mpr
      simp at h2 ⊢; omega
    · decide
  have hsplit : line = (http11 ++ [SP] ++ codeText ++ [SP]) ++ reason := by rw [hl]
  have hreason_no : findCrlf reason = none := by rw [hsplit] at hno; exact findCrlf_suffix_none hno
  have hreason_utf : validUtf8 reason = true := by
    rw [hsplit, validUtf8_ascii_append _ _ hpre_ascii] at hutf; exact hutf
  have hpre' : ∀ b ∈ http11 ++ [SP] ++ natToDec code ++ [SP], b ≠ CR ∧ b < 128 := by
    have hh : ∀ x ∈ http11, x ≠ CR ∧ x < 128 := by decide
    intro b hb
    simp only [List.mem_append, List.mem_singleton] at hb
    rcases hb with ((hb | rfl) | hb) | rfl
    · exact hh b hb
    · decide
    · have hd := (natToDec_digits code).1 b hb
      exact ⟨(isDig_props hd).1, isDig_lt hd⟩
    · decide
  refine ⟨?_, ?_, parseStatusLine_statusLine' code reason hc⟩
  · unfold statusLine'
    exact findCrlf_clean_prefix (fun b hb => (hpre' b hb).1) hreason_no
  · unfold statusLine'
    rw [validUtf8_ascii_append _ _ (fun b hb => (hpre' b hb).2)]; exact hreason_utf

/-- C11 (responses with a declared-length body or none — the final state of a de-chunked response is the one with
    `phase = .statusLine`, see `C11_response_reparse_dechunked`): whatever a response parser (any header line limit)
    accepted under Content-Length framing or without a body, generating from the parsed message and parsing that
    output yields the same status code, reason phrase, header list and body, with the whole output consumed -/
theorem C11_response_reparse_plain (hl : Option Nat) {s : Bytes} {st : RespState} {n : Nat}
    (h : (respSys hl).parse Response.new s = .ok .complete st n)
    (hph : st.phase ≠ .statusLine) (tail : Bytes) :
    let g := statusLine' st.statusCode st.reasonPhrase ++ CRLF ++ genBlock st.headers ++ st.body
    ∃ st', (respSys none).parse Response.new (g ++ tail) = .ok .complete st' g.length ∧
      st'.statusCode = st.statusCode ∧ st'.reasonPhrase = st.reasonPhrase ∧ st'.headers = st.headers ∧ st'.body = st.body := by
  intro g
  obtain ⟨line, hb, code, reason, hs, hno, hutf, hline, hhdr, hcase⟩ := (C04_accept_iff hl s n st).mp h
  obtain ⟨hno', hutf', hline'⟩ := statusLine'_ok hno hutf hline
  have hhdr' : Headers.parse none [] (genBlock hs) = .ok (hs, .complete, (genBlock hs).length) := by
    have := C11_headers_reparse hhdr []
    simpa using this
  rcases hcase with ⟨v, body, tl, hval, hnum, _, _, rfl⟩ | ⟨_, _, pre, cst, tl, _, _, _, rfl⟩ | ⟨hnone, hch, tl, _, _, rfl⟩
  · have := C04_accept_complete_fixed none (tail := tail) hno' hutf' hline' hhdr' hval hnum
    refine ⟨_, ?_, rfl, rfl, rfl, rfl⟩
    have hlen : g.length = (statusLine' code reason).length + 2 + (genBlock hs).length + body.length := by
      simp [g, respAfterHeaders, CRLF]; omega
    rw [hlen]
    simpa [g, respAfterHeaders] using this
  · exfalso
    simp [dechunkRewrite] at hph
  · have := C04_accept_complete_none none (tail := tail) hno' hutf' hline' hhdr' hnone hch
    refine ⟨_, ?_, rfl, rfl, rfl, rfl⟩
    have hlen : g.length = (statusLine' code reason).length + 2 + (genBlock hs).length := by
      simp [g, respAfterHeaders, Response.new, CRLF]; omega
    rw [hlen]
    simpa [g, respAfterHeaders, Response.new] using this
