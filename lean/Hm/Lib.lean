import Hm.Prim
/-- src/lib.rs:72-83 -/
def findCrlf : Bytes → Option Nat
  | [] => none
  | [_] => none
  | a :: b :: rest =>
    if a = CR ∧ b = LF then some 0
    else (findCrlf (b :: rest)).map (· + 1)
