import Hm.Prim
/-- src/lib.rs:72-83 -/
def findCrlf : Bytes → Option Nat
  | [] => none
  | [_] => none
  | a :: b :: rest =>
    if a = CR ∧ b = LF then some 0
    else (findCrlf (b :: rest)).map (· + 1)

/-! ### `str::trim` (Unicode white space), used by rhymessage's `header_tokens` and by coding.rs -/

/-- UTF-8 encodings of the code points with the Unicode `White_Space` property (what `str::trim` strips) -/
def wsSeqs : List Bytes :=
  [[9], [10], [11], [12], [13], [32], [0xC2, 0x85], [0xC2, 0xA0], [0xE1, 0x9A, 0x80],
   [0xE2, 0x80, 0x80], [0xE2, 0x80, 0x81], [0xE2, 0x80, 0x82], [0xE2, 0x80, 0x83], [0xE2, 0x80, 0x84],
   [0xE2, 0x80, 0x85], [0xE2, 0x80, 0x86], [0xE2, 0x80, 0x87], [0xE2, 0x80, 0x88], [0xE2, 0x80, 0x89],
   [0xE2, 0x80, 0x8A], [0xE2, 0x80, 0xA8], [0xE2, 0x80, 0xA9], [0xE2, 0x80, 0xAF], [0xE2, 0x81, 0x9F],
   [0xE3, 0x80, 0x80]]

def stripWsPrefix (s : Bytes) : Option Bytes :=
  (wsSeqs.find? fun w => w.isPrefixOf s).map fun w => s.drop w.length

def rustTrimStart : Nat → Bytes → Bytes
  | 0, s => s
  | fuel + 1, s => match stripWsPrefix s with | some r => rustTrimStart fuel r | none => s

def stripWsSuffix (s : Bytes) : Option Bytes :=
  (wsSeqs.find? fun w => w.reverse.isPrefixOf s.reverse).map fun w => s.take (s.length - w.length)

def rustTrimEnd : Nat → Bytes → Bytes
  | 0, s => s
  | fuel + 1, s => match stripWsSuffix s with | some r => rustTrimEnd fuel r | none => s

/-- `str::trim` on valid UTF-8 -/
def rustTrim (s : Bytes) : Bytes := rustTrimEnd s.length (rustTrimStart s.length s)

