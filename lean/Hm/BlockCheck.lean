import Hm.C13Full

/-! An executable check of `Block.Ok` (used for the kernel-evaluated example and available to the driver) -/

def clOkB (clLens : List Nat) : ClSym → Bool
  | .len v => decide (v < 16) && decide (1 ≤ clLens.getD v 0)
  | .rep r => decide (r < 4) && decide (1 ≤ clLens.getD 16 0)
  | .z3 r => decide (r < 8) && decide (1 ≤ clLens.getD 17 0)
  | .z11 r => decide (r < 128) && decide (1 ≤ clLens.getD 18 0)

theorem clOkB_sound (clLens : List Nat) (c : ClSym) (h : clOkB clLens c = true) : c.ok ∧ 1 ≤ clLens.getD c.sym 0 := by
  cases c <;> simpa [clOkB, ClSym.ok, ClSym.sym] using h

def describesB (h : DynHdr) (lens : List Nat) : Bool :=
  decide (h.hlit ≤ 29) && decide (h.hdist ≤ 29) && decide (h.hclen ≤ 15) && decide (h.clv.length = h.hclen + 4) &&
  h.clv.all (fun v => decide (v < 8)) && validTable true (placeCl h.clv) && h.cls.all (clOkB (placeCl h.clv)) &&
  (clRun [] h.cls == some lens) && decide (lens.length = h.hlit + 257 + h.hdist + 1) &&
  validTable false (lens.take (h.hlit + 257)) && validTable false (lens.drop (h.hlit + 257))

theorem describesB_sound (h : DynHdr) (lens : List Nat) (hb : describesB h lens = true) : h.Describes lens := by
  simp only [describesB, Bool.and_eq_true, decide_eq_true_eq, List.all_eq_true, beq_iff_eq] at hb
  obtain ⟨⟨⟨⟨⟨⟨⟨⟨⟨⟨h1, h2⟩, h3⟩, h4⟩, h5⟩, h6⟩, h7⟩, h8⟩, h9⟩, h10⟩, h11⟩ := hb
  exact { hlit_le := h1, hdist_le := h2, hclen_le := h3, clv_len := h4, clv_lt := h5, cl_valid := h6,
          cls_ok := fun c hc => clOkB_sound _ c (h7 c hc), run := h8, total := h9, lit_valid := h10, dist_valid := h11 }

def symOkB (lens : List Nat) (s : Nat) : Bool :=
  decide (s < lens.length) && decide (1 ≤ lens.getD s 0) && decide (lens.getD s 0 ≤ 15)

def tokOkB (ll dl : List Nat) : Tok → Bool
  | .lit b => symOkB ll b.toNat
  | .mat ls eb ds db => decide (ls < 29) && decide (eb < 2 ^ lenExtra.getD ls 0) && decide (ds < 30) &&
      decide (db < 2 ^ distExtra.getD ds 0) && symOkB ll (257 + ls) && symOkB dl ds

def tokFixedOkB : Tok → Bool
  | .lit _ => true
  | .mat ls eb ds db => decide (ls < 29) && decide (eb < 2 ^ lenExtra.getD ls 0) && decide (ds < 30) && decide (db < 2 ^ distExtra.getD ds 0)

def blockOkB : Block → Bool
  | .stored d => decide (d.length ≤ 65535)
  | .fixed toks => toks.all tokFixedOkB
  | .dyn h lens toks => describesB h lens && symOkB (lens.take (h.hlit + 257)) 256 &&
      toks.all (tokOkB (lens.take (h.hlit + 257)) (lens.drop (h.hlit + 257)))

theorem blockOkB_sound (b : Block) (hb : blockOkB b = true) : b.Ok := by
  cases b with
  | stored d => simpa [blockOkB, Block.Ok] using hb
  | fixed toks =>
    simp only [blockOkB, List.all_eq_true] at hb
    intro t ht
    have := hb t ht
    cases t with
    | lit b => show b.toNat < 288; have := b.toNat_lt; omega
    | mat ls eb ds db =>
      simp only [tokFixedOkB, Bool.and_eq_true, decide_eq_true_eq] at this
      obtain ⟨⟨⟨a1, a2⟩, a3⟩, a4⟩ := this
      exact ⟨a1, a2, a3, a4, by show 257 + ls < 288; omega, a3⟩
  | dyn h lens toks =>
    simp only [blockOkB, Bool.and_eq_true, List.all_eq_true] at hb
    obtain ⟨⟨hd, heob⟩, htoks⟩ := hb
    refine ⟨describesB_sound h lens hd, ?_, ?_⟩
    · simpa [symOkB, dynBook, and_assoc] using heob
    · intro t ht
      have := htoks t ht
      cases t with
      | lit b => simpa [tokOkB, symOkB, Tok.okIn, dynBook, and_assoc] using this
      | mat ls eb ds db => simpa [tokOkB, symOkB, Tok.okIn, dynBook, and_assoc] using this
