import Hm.Response
import Hm.Inflate

/-! kernel-checked refutations on the model of the *pinned* tree (`Tree.repaired = false`): each defect
    of DESIGN.md §7 replayed inside the model.  These are what the proof side says before the repairs. -/

def pinnedTree : Tree := ⟨false⟩
def slash : UriImpl := { U := Bytes, parse := fun t => if t = [47] then some t else none, display := id, default := [] }

/-- C17 / D4: Rust's integer parser accepts a leading plus sign, so the pinned tree does too -/
theorem C17_pinned_plus_accepted : parseNumber pinnedTree 10 [43, 53] = some 5 := by decide
theorem C17_pinned_chunk_plus : parseChunkSize pinnedTree [43, 53] = some 5 := by decide
/-- C05 / C17 / D4: a bare CR ends the chunk-size text, so `5<CR>junk` is read as 5 -/
theorem C05_pinned_bare_cr : parseChunkSize pinnedTree [53, 13, 106, 117, 110, 107] = some 5 := by decide

def bPost : Bytes := [80, 79, 83, 84, 32, 47, 32, 72, 84, 84, 80, 47, 49, 46, 49, 13, 10]   -- "POST / HTTP/1.1\r\n"
def bClMax : Bytes := [67, 111, 110, 116, 101, 110, 116, 45, 76, 101, 110, 103, 116, 104, 58, 32,
  49, 56, 52, 52, 54, 55, 52, 52, 48, 55, 51, 55, 48, 57, 53, 53, 49, 54, 49, 53, 13, 10, 13, 10]  -- "Content-Length: 18446744073709551615\r\n\r\n"
#guard bPost = str "POST / HTTP/1.1\r\n"
#guard bClMax = str "Content-Length: 18446744073709551615\r\n\r\n"

def isPanic : Out α → Bool | .panic _ => true | _ => false

/-- C06 / C08 / D5: a declared length of 2^64-1 traps the pinned request parser — arithmetic overflow with
    overflow checks, capacity overflow (after the counter has wrapped past the limit) without -/
theorem C06_pinned_request_traps_checked :
    isPanic (Request.parse slash (defaultCfg true pinnedTree) (Request.new slash) (bPost ++ bClMax)) = true := by
  decide
theorem C06_pinned_request_traps_unchecked :
    isPanic (Request.parse slash (defaultCfg false pinnedTree) (Request.new slash) (bPost ++ bClMax)) = true := by
  decide

def bStatus : Bytes := [72, 84, 84, 80, 47, 49, 46, 49, 32, 50, 48, 48, 32, 79, 75, 13, 10]   -- "HTTP/1.1 200 OK\r\n"
#guard bStatus = str "HTTP/1.1 200 OK\r\n"

/-- C06 / C07 / D5: the pinned response parser reserves the declared length outright -/
theorem C06_pinned_response_traps :
    isPanic (Response.parse ⟨none, true, pinnedTree⟩ Response.new (bStatus ++ bClMax)) = true := by
  decide

/-- C12 / D6: the pinned rewrite joins the remaining transfer codings with a blank, so two codings
    come out as one token -/
theorem C12_pinned_join_blank :
    (dechunkRewrite pinnedTree
      { Response.new with headers := [⟨kTransferEncoding, [102, 111, 111, 44, 32, 98, 97, 114, 44, 32, 99, 104, 117, 110, 107, 101, 100]⟩] }
      { ChunkState.new with buffer := [104, 105] }).headers
    = [⟨kTransferEncoding, [102, 111, 111, 32, 98, 97, 114]⟩, ⟨kContentLength, [50]⟩] := by
  decide

/-- C12 / C11 / D6: a `Content-Length` field in the trailer ends up next to the real one -/
theorem C12_pinned_trailer_content_length :
    headerMultiValue
      (dechunkRewrite pinnedTree
        { Response.new with headers := [⟨kTransferEncoding, kChunked⟩] }
        { ChunkState.new with buffer := [104, 105], trailer := [⟨kContentLength, [57, 57]⟩] }).headers
      kContentLength
    = [[57, 57], [50]] := by
  decide

/-- C13 / D7: the two-byte zlib header `78 9C` is not the start of a bare deflate stream the pinned
    `deflate` decoder could read: read as RFC 1951 it announces a stored block and then runs dry -/
theorem C13_pinned_zlib_header_rejected : inflateRaw [0x78, 0x9C] = none := by decide
