import Hm.C03Category
import Hm.Response

/-! C04: each rejection category of the status-line splitter means what its name says -/

/-- C04 (categories of the status line): no SP at all; text before the first SP is not `HTTP/1.1`;
    no second SP; the text between the two SPs is not a number the (repaired) integer parser accepts;
    the number is ≥ 1000.  The five conditions exclude each other. -/
theorem C04_status_line_category {line : Bytes} {c : Cat} (h : parseStatusLine ⟨true⟩ line = .error c) :
    (c = .StatusLineNoProtocolDelimiter ∧ SP ∉ line) ∨
    (c = .StatusLineProtocol ∧ ∃ p rest, line = p ++ SP :: rest ∧ SP ∉ p ∧ p ≠ http11) ∨
    (c = .StatusLineNoStatusCodeDelimiter ∧ ∃ rest, line = http11 ++ SP :: rest ∧ SP ∉ rest) ∨
    (c = .InvalidStatusCode ∧ ∃ code reason, line = http11 ++ SP :: (code ++ SP :: reason) ∧ SP ∉ code ∧
        parseNumber ⟨true⟩ 10 code = none) ∨
    (c = .StatusCodeOutOfRange ∧ ∃ code reason n, line = http11 ++ SP :: (code ++ SP :: reason) ∧ SP ∉ code ∧
        parseNumber ⟨true⟩ 10 code = some n ∧ 1000 ≤ n) := by
  unfold parseStatusLine at h
  cases hpd : findByte SP line with
  | none =>
    simp only [hpd, Except.error.injEq] at h
    exact Or.inl ⟨h.symm, findByte_none hpd⟩
  | some pd =>
    simp only [hpd] at h
    obtain ⟨e1, n1⟩ := findByte_some hpd
    by_cases hp : line.take pd = http11
    · simp only [hp, ne_eq, not_true_eq_false, if_false] at h
      rw [hp] at e1
      cases hcd : findByte SP (line.drop (pd + 1)) with
      | none =>
        simp only [hcd, Except.error.injEq] at h
        exact Or.inr (Or.inr (Or.inl ⟨h.symm, _, e1, findByte_none hcd⟩))
      | some cd =>
        simp only [hcd] at h
        obtain ⟨e2, n2⟩ := findByte_some hcd
        have hshape : line = http11 ++ SP :: ((line.drop (pd + 1)).take cd ++ SP :: (line.drop (pd + 1)).drop (cd + 1)) := by
          conv => lhs; rw [e1]
          congr 2
        cases hn : parseNumber ⟨true⟩ 10 ((line.drop (pd + 1)).take cd) with
        | none =>
          simp only [hn, Except.error.injEq] at h
          exact Or.inr (Or.inr (Or.inr (Or.inl ⟨h.symm, _, _, hshape, n2, hn⟩)))
        | some code =>
          simp only [hn] at h
          by_cases hlt : code < 1000
          · rw [if_pos hlt] at h; simp at h
          · rw [if_neg hlt] at h
            simp only [Except.error.injEq] at h
            exact Or.inr (Or.inr (Or.inr (Or.inr ⟨h.symm, _, _, code, hshape, n2, hn, by omega⟩)))
    · simp only [ne_eq, hp, not_false_eq_true, if_true, Except.error.injEq] at h
      exact Or.inr (Or.inl ⟨h.symm, _, _, e1, n1, hp⟩)
