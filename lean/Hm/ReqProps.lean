import Hm.ReqLaws5

/-! further property theorems for the repaired request parser, on top of the `Sys` instance -/

variable {u : UriImpl}

/-! ### C06 (request parsing): no trap is reachable -/

theorem countR_error_is_err {max : Option Nat} {t b : Nat} {f : Fail} (h : countR max t b = .error f) :
    f = .err .MessageTooLong := by
  unfold countR at h
  split at h
  · split at h <;> simp at h; exact h.symm
  · split at h <;> simp at h; exact h.symm

theorem reqStep_no_panic {cfg : ReqCfg} {s : ReqState u} {rem : Bytes} {e : Fail}
    (hI : ReqInv cfg s) (h : reqStep u cfg s rem = .fail e) : ∃ c, e = .err c := by
  unfold reqStep at h
  unfold ReqInv at hI
  split at h
  · rename_i n hph
    simp only [hph] at hI
    unfold bodyStep at h
    split at h
    · omega
    · split at h
      · simp at h
      · split at h
        · simp at h; exact ⟨_, h.symm⟩
        · simp at h
  · unfold hdrStep at h
    cases hp : Headers.parse cfg.hl s.headers (stripDanglingCr rem) with
    | error e0 => simp [hp] at h; exact ⟨_, h.symm⟩
    | ok r =>
      obtain ⟨hs, st, c0⟩ := r
      simp only [hp] at h
      cases hc : countR cfg.max s.totalBytes c0 with
      | error f => simp [hc] at h; subst h; exact ⟨_, countR_error_is_err hc⟩
      | ok t =>
        simp only [hc] at h
        cases st with
        | incomplete => simp only at h; split at h <;> simp at h; exact ⟨_, h.symm⟩
        | complete =>
          simp only at h
          unfold afterHeaders at h
          split at h
          · simp at h
          · split at h
            · simp at h; exact ⟨_, h.symm⟩
            · rename_i cl _
              cases hc2 : countR cfg.max t cl with
              | error f => simp [hc2] at h; subst h; exact ⟨_, countR_error_is_err hc2⟩
              | ok t2 => simp [hc2] at h
  · unfold rlStep at h
    cases hf : findCrlf rem with
    | none =>
      simp only [hf] at h
      split at h
      · simp at h; exact ⟨_, h.symm⟩
      · split at h <;> simp at h; exact ⟨_, h.symm⟩
    | some i =>
      simp only [hf] at h
      split at h
      · simp at h; exact ⟨_, h.symm⟩
      · split at h
        · simp at h; exact ⟨_, h.symm⟩
        · cases hc : countR cfg.max s.totalBytes (i + 2) with
          | error f => simp [hc] at h; subst h; exact ⟨_, countR_error_is_err hc⟩
          | ok t =>
            simp only [hc] at h
            split at h
            · simp at h; exact ⟨_, h.symm⟩
            · simp at h

/-- the loop never fails with a trap or by running out of fuel -/
theorem reqLoop_no_panic {cfg : ReqCfg} {f : Nat} {s : ReqState u} {rem : Bytes} {acc : Nat} {e : Fail}
    (hI : ReqInv cfg s) (h : (requestSys u cfg).loop f s rem acc = some (.fail e)) : ∃ c, e = .err c := by
  induction f generalizing s rem acc with
  | zero => simp [Sys.loop] at h
  | succ f ih =>
    unfold Sys.loop at h
    cases hs : (requestSys u cfg).step s rem with
    | fail e1 =>
      simp only [hs, Option.some.injEq, PRes.fail.injEq] at h; subst h
      exact reqStep_no_panic hI hs
    | ok i s1 c1 =>
      cases i with
      | completePart => simp only [hs] at h; exact ih ((requestSys_lawful cfg).inv hI hs (by simp)) h
      | completeWhole => simp [hs] at h
      | incomplete => simp [hs] at h

theorem reqParse_no_panic {cfg : ReqCfg} {s : ReqState u} {raw : Bytes} {e : Fail}
    (hI : ReqInv cfg s) (h : (requestSys u cfg).parse s raw = .fail e) : ∃ c, e = .err c := by
  unfold Sys.parse at h
  cases hl : (requestSys u cfg).loop ((requestSys u cfg).μ s raw.length) s raw 0 with
  | none =>
    have := Sys.loop_isSome (requestSys_lawful cfg) hI (Nat.le_refl _) (acc := 0) (rem := raw)
    simp [hl] at this
  | some r =>
    simp only [hl] at h; subst h
    exact reqLoop_no_panic hI hl

/-- invariant of a connection driven by the protocol -/
def ConnOk (cfg : ReqCfg) (c : GConn Fail (ReqState u)) : Prop :=
  ((match c.verdict with | .more => True | _ => False) → ReqInv cfg c.st) ∧
  ∀ e, c.verdict = .failed e → ∃ cat, e = .err cat

theorem deliver_ok {cfg : ReqCfg} {c : GConn Fail (ReqState u)} (h : ConnOk cfg c) (d : Bytes) :
    ConnOk cfg ((requestSys u cfg).deliver c d) := by
  unfold Sys.deliver
  cases hv : c.verdict with
  | complete => simpa [hv] using h
  | failed e => simpa [hv] using h
  | more =>
    simp only
    have hI : ReqInv cfg c.st := h.1 (by simp [hv])
    cases hp : (requestSys u cfg).parse c.st (c.pending ++ d) with
    | fail e =>
      refine ⟨by simp, ?_⟩
      intro e' he'
      simp at he'; subst he'
      exact reqParse_no_panic hI hp
    | ok st s' n =>
      have := (Sys.parse_inv (requestSys_lawful cfg) hI hp).1
      cases st with
      | complete => exact ⟨by simp, by simp⟩
      | incomplete => exact ⟨fun _ => this rfl, by simp⟩

/-- C06 for request parsing on the repaired tree: whatever is delivered, in whatever pieces, under
    whatever limits, the parser answers with a status or an error value, never with a trap -/
theorem C06_request_no_crash (u : UriImpl) (cfg : ReqCfg) (ds : List Bytes) :
    let c0 : GConn Fail (ReqState u) := { st := Request.new u, pending := [], total := 0, verdict := .more }
    ∀ e, ((requestSys u cfg).run c0 ds).verdict = .failed e → ∃ cat, e = .err cat := by
  intro c0
  have h0 : ConnOk cfg c0 := ⟨fun _ => reqInv_new cfg, by simp [c0]⟩
  suffices ∀ c, ConnOk cfg c → ConnOk cfg ((requestSys u cfg).run c ds) from (this c0 h0).2
  induction ds with
  | nil => intro c hc; exact hc
  | cons d ds ih => intro c hc; exact ih _ (deliver_ok hc d)
