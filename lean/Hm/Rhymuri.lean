import Hm.Rhymessage

/-! model of rhymuri 1.3.1: `Uri::parse` and `Display`, on bytes (the caller has checked UTF-8; every
    non-ASCII byte leads to an error in every context, as every non-ASCII `char` does in the crate) -/

structure Authority where
  userinfo : Option Bytes
  host : Bytes
  port : Option Nat
deriving DecidableEq, Repr

structure Uri where
  scheme : Option Bytes
  authority : Option Authority
  path : List Bytes
  query : Option Bytes
  fragment : Option Bytes
deriving DecidableEq, Repr

def Uri.default : Uri := ⟨none, none, [], none, none⟩

namespace Rhymuri

def isAlpha (b : UInt8) : Bool := (97 ≤ b && b ≤ 122) || (65 ≤ b && b ≤ 90)
def isDigitB (b : UInt8) : Bool := 48 ≤ b && b ≤ 57
def isHexB (b : UInt8) : Bool := isDigitB b || (65 ≤ b && b ≤ 70) || (97 ≤ b && b ≤ 102)
def inSet (s : String) (b : UInt8) : Bool := s.toUTF8.toList.contains b
def isUnreserved (b : UInt8) : Bool := isAlpha b || isDigitB b || b == 45 || b == 46 || b == 95 || b == 126
def isSubDelim (b : UInt8) : Bool := b == 33 || b == 36 || b == 38 || b == 39 || b == 40 || b == 41 || b == 42 || b == 43 || b == 44 || b == 59 || b == 61
def isSchemeNotFirst (b : UInt8) : Bool := isAlpha b || isDigitB b || b == 43 || b == 45 || b == 46
def isPchar (b : UInt8) : Bool := isUnreserved b || isSubDelim b || b == 58 || b == 64
def isQueryOrFragment (b : UInt8) : Bool := isPchar b || b == 47 || b == 63
/-- query characters printed raw: as `isQueryOrFragment` but without `+` -/
def isQueryNoPlus (b : UInt8) : Bool := isQueryOrFragment b && b != 43
def isUserInfo (b : UInt8) : Bool := isUnreserved b || isSubDelim b || b == 58
def isRegName (b : UInt8) : Bool := isUnreserved b || isSubDelim b
def isIpvFutureLast (b : UInt8) : Bool := isUnreserved b || isSubDelim b || b == 58

def hexValB (b : UInt8) : Option Nat :=
  if isDigitB b then some (b.toNat - 48) else if 97 ≤ b && b ≤ 102 then some (b.toNat - 87)
  else if 65 ≤ b && b ≤ 70 then some (b.toNat - 55) else none

/-- `codec::decode_element`; a percent sign with fewer than two digits before the end is dropped silently -/
def decodeGo (allowed : UInt8 → Bool) : Bytes → Option (Nat × Nat) → Bytes → Option Bytes
  | [], _, out => some out.reverse
  | c :: rest, none, out =>
    if c = 37 then decodeGo allowed rest (some (2, 0)) out
    else if allowed c then decodeGo allowed rest none (c :: out) else none
  | c :: rest, some (k, acc), out =>
    match hexValB c with
    | none => none
    | some d =>
      if k = 1 then decodeGo allowed rest none (((acc * 16 + d) % 256).toUInt8 :: out)
      else decodeGo allowed rest (some (1, acc * 16 + d)) out

def decodeElement (allowed : UInt8 → Bool) (s : Bytes) : Option Bytes := decodeGo allowed s none []

def hexUpper (n : Nat) : UInt8 := if n < 10 then (48 + n).toUInt8 else (55 + n).toUInt8

/-- `codec::encode_element` -/
def encodeElement (allowed : UInt8 → Bool) (s : Bytes) : Bytes :=
  s.flatMap fun b => if b < 128 && allowed b then [b] else [37, hexUpper (b.toNat / 16), hexUpper (b.toNat % 16)]

/-! IPv4 / IPv6 validators -/

def parseU8 (s : Bytes) : Bool := (rustParseUnsigned 10 255 s).isSome

/-- validate_ipv4_address: state = (numGroups, octetBuffer, inOctet) -/
def ipv4Go : Bytes → Nat → Bytes → Bool → Bool
  | [], groups, buf, inOctet =>
    if !inOctet then false else
    let groups := if buf.isEmpty then groups else groups + 1
    if !buf.isEmpty && !parseU8 buf then false else groups == 4
  | c :: rest, groups, buf, inOctet =>
    if !inOctet then (if isDigitB c then ipv4Go rest groups (buf ++ [c]) true else false)
    else if c = 46 then
      (if groups + 1 > 4 then false else if !parseU8 buf then false else ipv4Go rest (groups + 1) [] false)
    else if isDigitB c then ipv4Go rest groups (buf ++ [c]) true else false

def validIpv4 (s : Bytes) : Bool := ipv4Go s 0 [] false

inductive V6 where
  | noGroupsYet | colonButNoGroupsYet | afterDoubleColon | inGroupNotIpv4 | inGroupCouldBeIpv4 | colonAfterGroup
deriving DecidableEq

structure V6S where
  groups : Nat
  digits : Nat
  dc : Bool
  v4start : Nat

def v6Final (addr : Bytes) (st : V6) (s : V6S) (ipv4Trailer : Bool) : Bool :=
  let s := if ipv4Trailer then s else
    match st with | .inGroupNotIpv4 | .inGroupCouldBeIpv4 => { s with groups := s.groups + 1 } | _ => s
  if ipv4Trailer then
    if !validIpv4 (addr.drop s.v4start) then false else
    let g := s.groups + 2
    if s.dc then g ≤ 7 else g == 8
  else
    match st with
    | .colonButNoGroupsYet | .colonAfterGroup => false
    | _ => if s.dc then s.groups ≤ 7 else s.groups == 8

/-- validate_ipv6_address as a fold over (index, byte) -/
def v6Go (addr : Bytes) : Bytes → Nat → V6 → V6S → Bool
  | [], _, st, s => v6Final addr st s false
  | c :: rest, i, st, s =>
    match st with
    | .noGroupsYet =>
      if c = 58 then v6Go addr rest (i + 1) .colonButNoGroupsYet s
      else if isDigitB c then v6Go addr rest (i + 1) .inGroupCouldBeIpv4 { s with v4start := i, digits := 1 }
      else if isHexB c then v6Go addr rest (i + 1) .inGroupNotIpv4 { s with digits := 1 }
      else false
    | .colonButNoGroupsYet =>
      if c = 58 then v6Go addr rest (i + 1) .afterDoubleColon { s with dc := true } else false
    | .afterDoubleColon =>
      let s := { s with digits := s.digits + 1 }
      if s.digits > 4 then false
      else if isDigitB c then v6Go addr rest (i + 1) .inGroupCouldBeIpv4 { s with v4start := i }
      else if isHexB c then v6Go addr rest (i + 1) .inGroupNotIpv4 s
      else false
    | .inGroupNotIpv4 =>
      if c = 58 then v6Go addr rest (i + 1) .colonAfterGroup { s with digits := 0, groups := s.groups + 1 }
      else if isHexB c then
        let s := { s with digits := s.digits + 1 }
        if s.digits > 4 then false else v6Go addr rest (i + 1) .inGroupNotIpv4 s
      else false
    | .inGroupCouldBeIpv4 =>
      if c = 58 then v6Go addr rest (i + 1) .colonAfterGroup { s with digits := 0, groups := s.groups + 1 }
      else if c = 46 then v6Final addr st s true
      else
        let s := { s with digits := s.digits + 1 }
        if s.digits > 4 then false
        else if isDigitB c then v6Go addr rest (i + 1) .inGroupCouldBeIpv4 s
        else if isHexB c then v6Go addr rest (i + 1) .inGroupNotIpv4 s
        else false
    | .colonAfterGroup =>
      if c = 58 then (if s.dc then false else v6Go addr rest (i + 1) .afterDoubleColon { s with dc := true })
      else if isDigitB c then v6Go addr rest (i + 1) .inGroupCouldBeIpv4 { s with v4start := i, digits := s.digits + 1 }
      else if isHexB c then v6Go addr rest (i + 1) .inGroupNotIpv4 { s with digits := s.digits + 1 }
      else false

def validIpv6 (s : Bytes) : Bool := v6Go s s 0 .noGroupsYet ⟨0, 0, false, 0⟩

/-! host and port (parse_host_port.rs) -/

def finishHostPort (host : Bytes) (isRegName : Bool) (port : Bytes) : Option (Bytes × Option Nat) :=
  let host := if isRegName then lower host else host
  if port.isEmpty then some (host, none)
  else match rustParseUnsigned 10 65535 port with
    | some p => some (host, some p)
    | none => none

def hpPort (host : Bytes) (isReg : Bool) (s : Bytes) : Option (Bytes × Option Nat) := finishHostPort host isReg s

def hpGarbage (host : Bytes) : Bytes → Option (Bytes × Option Nat)
  | [] => finishHostPort host false []
  | c :: rest => if c = 58 then hpPort host false rest else none

def hpRegName : Bytes → Bytes → Option (Nat × Nat) → Option (Bytes × Option Nat)
  | [], host, none => finishHostPort host true []
  | [], _, some _ => none
  | c :: rest, host, none =>
    if c = 37 then hpRegName rest host (some (2, 0))
    else if c = 58 then hpPort host true rest
    else if isRegName c then hpRegName rest (host ++ [c]) none else none
  | c :: rest, host, some (k, acc) =>
    match hexValB c with
    | none => none
    | some d =>
      if k = 1 then hpRegName rest (host ++ [((acc * 16 + d) % 256).toUInt8]) none
      else hpRegName rest host (some (1, acc * 16 + d))

def hpIpv6 : Bytes → Bytes → Option (Bytes × Option Nat)
  | [], _ => none
  | c :: rest, acc => if c = 93 then (if validIpv6 acc then hpGarbage acc rest else none) else hpIpv6 rest (acc ++ [c])

def hpFutureBody : Bytes → Bytes → Option (Bytes × Option Nat)
  | [], _ => none
  | c :: rest, host =>
    if c = 93 then hpGarbage host rest
    else if isIpvFutureLast c then hpFutureBody rest (host ++ [c]) else none

def hpFutureNumber : Bytes → Bytes → Option (Bytes × Option Nat)
  | [], _ => none
  | c :: rest, host =>
    if c = 46 then hpFutureBody rest (host ++ [46])
    else if c = 93 then none
    else if isHexB c then hpFutureNumber rest (host ++ [c]) else none

def parseHostPort (s : Bytes) : Option (Bytes × Option Nat) :=
  match s with
  | 91 :: 118 :: rest => hpFutureNumber rest [118]
  | 91 :: rest => hpIpv6 rest []
  | _ => hpRegName s [] none

def parseAuthority (s : Bytes) : Option Authority :=
  match findByte 64 s with
  | some d =>
    match decodeElement isUserInfo (s.take d), parseHostPort (s.drop (d + 1)) with
    | some ui, some (h, p) => some ⟨some ui, h, p⟩
    | _, _ => none
  | none =>
    match parseHostPort s with
    | some (h, p) => some ⟨none, h, p⟩
    | none => none

def splitSlash : Bytes → List Bytes
  | [] => [[]]
  | b :: rest =>
    if b = 47 then [] :: splitSlash rest
    else match splitSlash rest with
      | [] => [[b]]
      | p :: ps => (b :: p) :: ps

def parsePath (s : Bytes) : Option (List Bytes) :=
  if s = [47] then some [[]] else if s = [] then some []
  else (splitSlash s).mapM (decodeElement isPchar)

def parseSchemePart (s : Bytes) : Option (Option Bytes × Bytes) :=
  let slash := (findByte 47 s).getD s.length
  match findByte 58 (s.take slash) with
  | none => some (none, s)
  | some e =>
    let sch := s.take e
    match sch with
    | [] => none
    | c :: cs => if isAlpha c && cs.all isSchemeNotFirst then some (some (lower sch), s.drop (e + 1)) else none

def parse (s : Bytes) : Option Uri :=
  match parseSchemePart s with
  | none => none
  | some (scheme, rest) =>
    let pathEnd := (rest.findIdx? fun b => b == 63 || b == 35).getD rest.length
    let ap := rest.take pathEnd
    let qf := rest.drop pathEnd
    let authPath : Option (Option Authority × List Bytes) :=
      match ap with
      | 47 :: 47 :: after =>
        let aEnd := (findByte 47 after).getD after.length
        match parseAuthority (after.take aEnd) with
        | none => none
        | some a =>
          let ps := after.drop aEnd
          if ps.isEmpty then some (some a, [[]])
          else (parsePath ps).map fun p => (some a, p)
      | _ => (parsePath ap).map fun p => (none, p)
    match authPath with
    | none => none
    | some (authority, path) =>
      let fragQ : Option (Option Bytes × Bytes) :=
        match findByte 35 qf with
        | some d => (decodeElement isQueryOrFragment (qf.drop (d + 1))).map fun f => (some f, qf.take d)
        | none => some (none, qf)
      match fragQ with
      | none => none
      | some (fragment, pq) =>
        if pq.isEmpty then some ⟨scheme, authority, path, none, fragment⟩
        else match decodeElement isQueryOrFragment (pq.drop 1) with
          | none => none
          | some q => some ⟨scheme, authority, path, some q, fragment⟩

def displayAuthority (a : Authority) : Bytes :=
  (match a.userinfo with | some ui => encodeElement isUserInfo ui ++ [64] | none => []) ++
  (if validUtf8 a.host && validIpv6 a.host then [91] ++ lower a.host ++ [93] else encodeElement isRegName a.host) ++
  (match a.port with | some p => [58] ++ natToDec p | none => [])

def display (u : Uri) : Bytes :=
  (match u.scheme with | some s => s ++ [58] | none => []) ++
  (match u.authority with | some a => [47, 47] ++ displayAuthority a | none => []) ++
  (if u.path = [[]] then [47] else []) ++
  joinWith [47] (u.path.map (encodeElement isPchar)) ++
  (match u.query with | some q => [63] ++ encodeElement isQueryNoPlus q | none => []) ++
  (match u.fragment with | some f => [35] ++ encodeElement isQueryOrFragment f | none => [])

end Rhymuri
