import Hm.Text

/-! C16 on the model of `decode_body_as_text` -/

/-- text is returned only for a Content-Type whose type (before the first `/`, itself before the first
    `;`) is `text` up to ASCII case -/
theorem C16_some_only_if_text {hs : List Header} {body t : Bytes}
    (h : decodeBodyAsText hs body = .some t) :
    ∃ ct ty rest, headerValue hs kContentType = some ct ∧
      splitAtByte 47 (match findByte SEMI ct with | some d => ct.take d | none => ct) = some (ty, rest) ∧
      eqIgnoreCase ty kText = true := by
  unfold decodeBodyAsText at h
  cases hct : headerValue hs kContentType with
  | none => simp [hct] at h
  | some ct =>
    simp only [hct] at h
    cases hsemi : findByte SEMI ct with
    | none =>
      simp only [hsemi] at h
      cases hsp : splitAtByte 47 ct with
      | none => simp [hsp] at h
      | some p =>
        obtain ⟨ty, rest⟩ := p
        simp only [hsp] at h
        by_cases hty : eqIgnoreCase ty kText = true
        · exact ⟨ct, ty, rest, rfl, by rw [hsemi]; exact hsp, hty⟩
        · simp [hty] at h
    | some d =>
      simp only [hsemi] at h
      cases hsp : splitAtByte 47 (ct.take d) with
      | none => simp [hsp] at h
      | some p =>
        obtain ⟨ty, rest⟩ := p
        simp only [hsp] at h
        by_cases hty : eqIgnoreCase ty kText = true
        · exact ⟨ct, ty, rest, rfl, by rw [hsemi]; exact hsp, hty⟩
        · simp [hty] at h

/-- UTF-8: text exactly when the body is valid UTF-8 (in the declarative sense of Lean core: the
    encoding of some list of Unicode scalar values), and then the text's bytes are the body -/
theorem C16_utf8_exact (body t : Bytes) :
    decodeWith "UTF-8" body = .some t ↔ (∃ cs : List Char, (ByteArray.mk body.toArray) = cs.utf8Encode) ∧ t = body := by
  unfold decodeWith
  simp only [if_true]
  have hv : validUtf8 body = true ↔ ∃ cs : List Char, (ByteArray.mk body.toArray) = cs.utf8Encode := by
    unfold validUtf8
    rw [ByteArray.validateUTF8_eq_true_iff]
    constructor
    · intro ⟨m, hm⟩; exact ⟨m, hm⟩
    · intro ⟨m, hm⟩; exact ⟨m, hm⟩
  constructor
  · intro h
    split at h
    · rename_i hval; simp at h; exact ⟨hv.mp hval, h.symm⟩
    · simp at h
  · intro ⟨hval, ht⟩
    rw [if_pos (hv.mpr hval), ht]

/-- the default charset (label `iso-8859-1`, i.e. windows-1252): every body decodes, one character per
    byte, and ASCII bytes map to themselves -/
theorem C16_latin1_total (body : Bytes) :
    decodeWith "windows-1252" body = .some (body.flatMap fun b => utf8OfCodePoint (w1252CodePoint b)) := by
  unfold decodeWith
  have h1 : ("windows-1252" = "UTF-8") = False := by decide
  simp [h1]

theorem C16_latin1_ascii (b : UInt8) (hb : b < 0x80) : utf8OfCodePoint (w1252CodePoint b) = [b] := by
  unfold w1252CodePoint utf8OfCodePoint
  have : b.toNat < 128 := by
    have := UInt8.lt_iff_toNat_lt.mp hb; simpa using this
  simp [hb, this]

/-- no code point of the windows-1252 table is U+FFFD: nothing is papered over -/
theorem C16_latin1_no_replacement : ∀ n < 256, w1252CodePoint n.toUInt8 ≠ 0xFFFD := by decide +kernel
