import Hm.C07Retained
import Hm.C12
import Hm.RustTrim

/-! C07, first sentence, on completion of a chunked response: the header list the library writes itself
    (trailer fields appended, Transfer-Encoding re-joined without `chunked`, Content-Length added, Trailer removed)
    is at most three times the header and trailer text received, plus the 31 bytes of the two field names and the
    digits of the body length.  With it the allowance in `C07_response_retained_bounded` gets a number. -/

theorem sum_map_sublist {α : Type} {l1 l2 : List α} (h : l1.Sublist l2) (f : α → Nat) :
    (l1.map f).sum ≤ (l2.map f).sum := by
  induction h with
  | slnil => simp
  | cons a _ ih => simp; omega
  | cons_cons a _ ih => simp; omega

theorem splitOn_sum (sep : UInt8) (s : Bytes) : ((splitOn sep s).map (fun p => p.length + 1)).sum = s.length + 1 := by
  induction s with
  | nil => simp [splitOn]
  | cons b rest ih =>
    unfold splitOn
    split
    · simp [ih]; omega
    · cases hs : splitOn sep rest with
      | nil => simp [hs] at ih
      | cons p ps => simp [hs] at ih ⊢; omega

theorem sum_ge_length (l : List Bytes) : l.length ≤ (l.map (fun p => p.length + 1)).sum := by
  induction l with
  | nil => simp
  | cons a t ih => simp; omega

/-- weight of a token list: every token with the two bytes of a `", "` separator -/
def tokW (l : List Bytes) : Nat := (l.map (fun p => p.length + 2)).sum

theorem tokW_eq (l : List Bytes) : tokW l = (l.map (fun p => p.length + 1)).sum + l.length := by
  induction l with
  | nil => simp [tokW]
  | cons a t ih => simp [tokW] at ih ⊢; omega

theorem tokW_splitOn (sep : UInt8) (s : Bytes) : tokW (splitOn sep s) ≤ 2 * s.length + 2 := by
  rw [tokW_eq, splitOn_sum]
  have := sum_ge_length (splitOn sep s)
  rw [splitOn_sum] at this
  omega

theorem tokW_sublist {l1 l2 : List Bytes} (h : l1.Sublist l2) : tokW l1 ≤ tokW l2 := sum_map_sublist h _

theorem tokW_map_le (f : Bytes → Bytes) (hf : ∀ t, (f t).length ≤ t.length) (l : List Bytes) : tokW (l.map f) ≤ tokW l := by
  induction l with
  | nil => simp [tokW]
  | cons a t ih => have := hf a; simp [tokW] at ih ⊢; omega

theorem splitTerminator_sublist (sep : UInt8) (s : Bytes) : (splitTerminator sep s).Sublist (splitOn sep s) := by
  unfold splitTerminator
  simp only
  split
  · exact List.dropLast_sublist _
  · exact List.Sublist.refl _

theorem lower_length (t : Bytes) : (lower t).length = t.length := by simp [lower]

theorem tokW_tokens_of_value (v : Bytes) :
    tokW ((splitTerminator COMMA v).map fun t => lower (rustTrim t)) ≤ 2 * v.length + 2 := by
  have h1 := tokW_map_le (fun t => lower (rustTrim t))
    (by intro t; simp only [lower_length]; exact rustTrim_length_le _) (splitTerminator COMMA v)
  have h2 := tokW_sublist (splitTerminator_sublist COMMA v)
  have h3 := tokW_splitOn COMMA v
  omega

theorem tokW_append (a b : List Bytes) : tokW (a ++ b) = tokW a + tokW b := by simp [tokW]

theorem tokW_headerTokens (hs : List Header) (name : Bytes) (hn : 1 ≤ name.length) :
    tokW (headerTokens hs name) ≤ 2 * hdrSize hs := by
  unfold headerTokens headerMultiValue
  induction hs with
  | nil => simp [tokW, hdrSize]
  | cons h t ih =>
    simp only [List.filter_cons]
    by_cases hq : nameEq h.name name = true
    · simp only [hq, if_true, List.map_cons, List.flatMap_cons, tokW_append]
      have hlen : h.name.length = name.length := by
        unfold nameEq eqIgnoreCase at hq
        have := congrArg List.length (of_decide_eq_true (by simpa using hq) : lower h.name = lower name)
        simpa [lower_length] using this
      have hv := tokW_tokens_of_value h.value
      have hsz : hdrSize (h :: t) = h.name.length + h.value.length + hdrSize t := by simp [hdrSize]
      rw [hsz]; omega
    · simp only [hq, Bool.false_eq_true, if_false]
      have hsz : hdrSize (h :: t) = h.name.length + h.value.length + hdrSize t := by simp [hdrSize]
      rw [hsz]; omega

theorem joinWith_length_le (sep : Bytes) (l : List Bytes) :
    (joinWith sep l).length ≤ (l.map (fun t => t.length + sep.length)).sum := by
  induction l with
  | nil => simp [joinWith]
  | cons x xs ih =>
    cases xs with
    | nil => simp [joinWith]
    | cons y ys => simp [joinWith] at ih ⊢; omega

theorem setHeaderAux_size (name value : Bytes) (seen : Bool) (hs : List Header) :
    hdrSize (setHeaderAux name value seen hs) ≤ hdrSize hs + (if seen then 0 else value.length) := by
  induction hs generalizing seen with
  | nil => simp [setHeaderAux, hdrSize]
  | cons h t ih =>
    have hsz : hdrSize (h :: t) = h.name.length + h.value.length + hdrSize t := by simp [hdrSize]
    unfold setHeaderAux
    split
    · split
      · have := ih true; simp at this; rw [hsz]; simp_all; omega
      · have := ih true
        have hs2 : hdrSize ({ h with value := value } :: setHeaderAux name value true t)
            = h.name.length + value.length + hdrSize (setHeaderAux name value true t) := by simp [hdrSize]
        rw [hs2, hsz]; simp_all; omega
    · have := ih seen
      have hs2 : hdrSize (h :: setHeaderAux name value seen t) = h.name.length + h.value.length + hdrSize (setHeaderAux name value seen t) := by
        simp [hdrSize]
      rw [hs2, hsz]; omega

theorem setHeader_size (hs : List Header) (name value : Bytes) :
    hdrSize (setHeader hs name value) ≤ hdrSize hs + name.length + value.length := by
  unfold setHeader
  split
  · have := setHeaderAux_size name value false hs; simp at this; omega
  · rw [hdrSize_append]; simp [hdrSize]; omega

theorem removeHeader_size (hs : List Header) (name : Bytes) : hdrSize (removeHeader hs name) ≤ hdrSize hs :=
  hdrSize_filter_le _ _

/-- the header list after de-chunking -/
theorem dechunkRewrite_hdr_size (s : RespState) (c : ChunkState) :
    hdrSize (dechunkRewrite ⟨true⟩ s c).headers ≤
      3 * (hdrSize s.headers + hdrSize c.trailer) + 31 + (natToDec c.buffer.length).length := by
  unfold dechunkRewrite
  simp only [if_true, foldl_addHeader]
  generalize htr : (c.trailer.filter fun h => !(nameEq h.name kContentLength || nameEq h.name kTransferEncoding || nameEq h.name kTrailer)) = tr
  have htr_le : hdrSize tr ≤ hdrSize c.trailer := by rw [← htr]; exact hdrSize_filter_le _ _
  have h1 : hdrSize (s.headers ++ tr) ≤ hdrSize s.headers + hdrSize c.trailer := by rw [hdrSize_append]; omega
  generalize hte : ((headerTokens (s.headers ++ tr) kTransferEncoding).dropLast.filter fun c => !c.isEmpty) = te
  have hteW : tokW te ≤ 2 * hdrSize (s.headers ++ tr) := by
    have a := tokW_headerTokens (s.headers ++ tr) kTransferEncoding (by simp [kTransferEncoding])
    have b := tokW_sublist (List.dropLast_sublist (headerTokens (s.headers ++ tr) kTransferEncoding))
    have c' := tokW_sublist (List.filter_sublist (l := (headerTokens (s.headers ++ tr) kTransferEncoding).dropLast) (p := fun c => !c.isEmpty))
    rw [hte] at c'
    omega
  have hjoin : (joinWith [COMMA, SP] te).length ≤ tokW te := by
    have := joinWith_length_le [COMMA, SP] te
    simpa [tokW] using this
  have h2 : hdrSize (if te.isEmpty = true then removeHeader (s.headers ++ tr) kTransferEncoding
      else setHeader (s.headers ++ tr) kTransferEncoding (joinWith [COMMA, SP] te))
      ≤ 3 * hdrSize (s.headers ++ tr) + 17 := by
    split
    · have := removeHeader_size (s.headers ++ tr) kTransferEncoding; omega
    · have := setHeader_size (s.headers ++ tr) kTransferEncoding (joinWith [COMMA, SP] te)
      have hk : kTransferEncoding.length = 17 := by simp [kTransferEncoding]
      omega
  refine Nat.le_trans (removeHeader_size _ kTrailer) ?_
  unfold addHeader
  rw [hdrSize_append]
  have hcl : hdrSize [⟨kContentLength, natToDec c.buffer.length⟩] = 14 + (natToDec c.buffer.length).length := by
    simp [hdrSize, kContentLength]
  rw [hcl]
  omega

/-! ### the response bound with no open allowance -/

/-- weighted measure of a chunk decoder state: buffer + 3 × trailer text -/
def chunkM (c : ChunkState) : Nat := c.buffer.length + 3 * hdrSize c.trailer

theorem chunkStep_growsK : chunkSys.GrowsK 3 chunkM chunkM (fun _ => 0) := by
  intro c b i c' n h
  have key : chunkM c' ≤ chunkM c + 3 * n := by
    change chunkStep c b = _ at h
    unfold chunkStep at h
    split at h
    · unfold cdataStep at h
      simp only at h
      split at h
      · simp at h; obtain ⟨_, rfl, rfl⟩ := h; simp [chunkM]; omega
      · simp at h; obtain ⟨_, rfl, rfl⟩ := h; simp [chunkM]; omega
    · unfold csizeStep at h
      split at h
      · simp at h; obtain ⟨_, rfl, rfl⟩ := h; omega
      · split at h
        · simp at h
        · split at h
          · simp at h
          · simp at h; obtain ⟨_, rfl, rfl⟩ := h; simp [chunkM]
    · unfold ctermStep at h
      split at h
      · simp at h; obtain ⟨_, rfl, rfl⟩ := h; omega
      · split at h
        · simp at h; obtain ⟨_, rfl, rfl⟩ := h; omega
        · simp at h
      · split at h
        · simp at h; obtain ⟨_, rfl, rfl⟩ := h; simp [chunkM]
        · simp at h
    · unfold ctrailerStep at h
      split at h
      · simp at h
      · rename_i hs n0 hp
        have := Headers.parse_size hp
        simp at h; obtain ⟨_, rfl, rfl⟩ := h; simp [chunkM]; omega
      · rename_i hs n0 hp
        have := Headers.parse_size hp
        simp at h; obtain ⟨_, rfl, rfl⟩ := h; simp [chunkM]; omega
  exact ⟨fun _ => key, fun _ => by simpa using key⟩

theorem chunkParse_M {c c' : ChunkState} {raw : Bytes} {st : Status} {n : Nat}
    (h : chunkSys.parse c raw = .ok st c' n) : chunkM c' ≤ chunkM c + 3 * n := by
  have := Sys.parse_sizeK chunkStep_growsK h
  cases st with
  | complete => have := this.2 rfl; omega
  | incomplete => exact this.1 rfl

/-- in-progress measure of a response parser state: header and trailer text weighted three times (what the
    de-chunking rewrite can make of it) -/
def respM (s : RespState) : Nat :=
  s.reasonPhrase.length + 3 * hdrSize s.headers + s.body.length +
    (match s.phase with | .chunkedBody cs => chunkM cs | _ => 0)

theorem respStep_growsK (hl : Option Nat) :
    (respSys hl).GrowsK 3 respM respRetained (fun s' => 31 + (natToDec s'.body.length).length) := by
  intro s b i s' c h
  change respStep hl s b = _ at h
  unfold respStep at h
  split at h
  · -- chunked body
    rename_i cs hph
    unfold rchunkStep at h
    split at h
    · simp at h
    · rename_i cs' n hp
      have hm := chunkParse_M hp
      simp at h; obtain ⟨rfl, rfl, rfl⟩ := h
      refine ⟨by simp, fun _ => ?_⟩
      have hb := dechunkRewrite_body ⟨true⟩ s cs'
      have hh := dechunkRewrite_hdr_size s cs'
      simp only [respRetained, respM, hph, hb.1, hb.2.1, hb.2.2, chunkM] at hm ⊢
      omega
    · rename_i cs' n hp
      have hm := chunkParse_M hp
      simp at h; obtain ⟨rfl, rfl, rfl⟩ := h
      refine ⟨fun _ => ?_, by simp⟩
      simp only [respM, hph] at hm ⊢
      omega
  · -- fixed body
    rename_i n hph
    unfold rfixedStep at h
    split at h
    · simp at h
    · split at h
      · simp at h; obtain ⟨rfl, rfl, rfl⟩ := h
        refine ⟨by simp, fun _ => ?_⟩
        simp [respRetained, respM, hph]; omega
      · simp at h; obtain ⟨rfl, rfl, rfl⟩ := h
        refine ⟨fun _ => ?_, by simp⟩
        simp [respM, hph]; omega
  · -- headers
    rename_i hph
    unfold rhdrStep at h
    split at h
    · simp at h
    · rename_i hs c0 hp
      have := Headers.parse_size hp
      simp at h; obtain ⟨rfl, rfl, rfl⟩ := h
      refine ⟨fun _ => ?_, by simp⟩
      simp [respM, hph]; omega
    · rename_i hs c0 hp
      have := Headers.parse_size hp
      unfold rframing at h
      split at h
      · split at h
        · simp at h
        · simp at h; obtain ⟨rfl, rfl, rfl⟩ := h
          refine ⟨fun _ => ?_, by simp⟩
          simp [respM, hph]; omega
      · split at h
        · simp at h; obtain ⟨rfl, rfl, rfl⟩ := h
          refine ⟨fun _ => ?_, by simp⟩
          have hz : hdrSize ([] : List Header) = 0 := rfl
          simp [respM, hph, chunkM, ChunkState.new, hz]; omega
        · simp at h; obtain ⟨rfl, rfl, rfl⟩ := h
          refine ⟨by simp, fun _ => ?_⟩
          simp [respRetained, respM, hph]; omega
  · -- status line
    rename_i hph
    unfold rstatusStep at h
    split at h
    · simp at h; obtain ⟨rfl, rfl, rfl⟩ := h; simp
    · rename_i e hf
      split at h
      · simp at h
      · split at h
        · simp at h
        · rename_i code reason hps
          have := parseStatusLine_reason_le hps
          have hl := findCrlf_lt hf
          simp at h; obtain ⟨rfl, rfl, rfl⟩ := h
          refine ⟨fun _ => ?_, by simp⟩
          simp [respM, hph] at this ⊢
          omega

/-- **C07 (first sentence), responses, with every allowance numbered.**  For every header line limit and every list of
    deliveries to a fresh parser: while the parser still waits for input, what it holds (`respRetained`: reason
    phrase, header names and values, body, de-chunking buffer, trailer fields) is at most 2 + 3 × the bytes consumed;
    once the response is complete, at most that plus the 31 bytes of the names `Transfer-Encoding` and
    `Content-Length` and the digits of the body length, which the library writes itself.  The factor 3 is what the
    de-chunking rewrite can make of header text (tokens re-joined with `", "`); for the payload alone the factor is 1
    (`C07_response_payload_bounded`).  No announced length occurs. -/
theorem C07_response_retained_total (hl : Option Nat) (ds : List Bytes) :
    respRetained ((respSys hl).run respFresh ds).st ≤
      2 + 3 * ((respSys hl).run respFresh ds).total + 31 + (natToDec ((respSys hl).run respFresh ds).st.body.length).length := by
  have G := respStep_growsK hl
  have hrun := Sys.run_sizeK G respFresh rfl ds
  have h0 : respM Response.new = 2 := by simp [respM, Response.new, hdrSize, kOk]
  have h1 : respFresh.total = 0 := rfl
  have h2 : respFresh.st = Response.new := rfl
  rw [h1, h2, h0] at hrun
  generalize (respSys hl).run respFresh ds = r at hrun ⊢
  have hle : respRetained r.st ≤ respM r.st := by
    unfold respRetained respM
    cases hp : r.st.phase <;> simp [chunkRetained, chunkM] <;> omega
  cases hv : r.verdict with
  | more => have := hrun.1 (by simp [hv]); omega
  | complete => have := hrun.2 hv; omega
  | failed e => have := hrun.1 (by simp [hv]); omega
