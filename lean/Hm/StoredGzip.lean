import Hm.StoredZlib

/-! C13: the gzip member around stored blocks (level 0), no optional header fields -/

theorem bitsVal16 (arr : Array UInt8) (k : Nat) (h : k + 2 ≤ arr.size) :
    bitsVal (inpOfBytes arr) (8 * k) 16 = arr[k].toNat + 256 * arr[k + 1].toNat := by
  rw [show (16 : Nat) = 8 + 8 by rfl, bitsVal_add, bitsVal_byte arr k (by omega)]
  rw [show 8 * k + 8 = 8 * (k + 1) by omega, bitsVal_byte arr (k + 1) (by omega)]

theorem readBits32_eq (arr : Array UInt8) (k : Nat) (h : k + 4 ≤ arr.size) :
    readBits 32 (inpOfBytes arr) (8 * k) =
      .ok (arr[k].toNat + 256 * arr[k + 1].toNat + 65536 * (arr[k + 2].toNat + 256 * arr[k + 2 + 1].toNat), 8 * k + 32) := by
  have hs : ∀ i, i < 32 → (inpOfBytes arr (8 * k + i)).isSome = true := by
    intro i hi
    have : inpOfBytes arr (8 * k + i) = inpOfBytes arr (8 * (k + i / 8) + i % 8) := by congr 1; omega
    rw [this, inpOfBytes_bit arr (k + i / 8) (i % 8) (by omega) (by omega)]; rfl
  rw [readBits_eq _ 32 (8 * k) hs, show (32 : Nat) = 16 + 16 by rfl, bitsVal_add, bitsVal16 arr k (by omega)]
  rw [show 8 * k + 16 = 8 * (k + 2) by omega, bitsVal16 arr (k + 2) (by omega)]

def le32 (n : Nat) : Bytes :=
  [(n % 256).toUInt8, (n / 256 % 256).toUInt8, (n / 65536 % 256).toUInt8, (n / 16777216 % 256).toUInt8]

def gzHdr (m0 m1 m2 m3 xfl os : UInt8) : Bytes := [0x1f, 0x8b, 8, 0, m0, m1, m2, m3, xfl, os]

/-- the gzip member made of stored blocks -/
def gzipStored (ds : List Bytes) (m0 m1 m2 m3 xfl os : UInt8) : Bytes :=
  gzHdr m0 m1 m2 m3 xfl os ++ storedEnc ds ++ le32 (crc32 ds.flatten.toArray).toNat ++ le32 (ds.flatten.length % 4294967296)

/-- reader-level form: the member is decoded to the body and consumed to its last bit -/
theorem gunzipR_gzipStored (ds : List Bytes) (hne : ds ≠ []) (hl : ∀ d ∈ ds, d.length ≤ 65535)
    (m0 m1 m2 m3 xfl os : UInt8) :
    gunzipR (8 * (gzipStored ds m0 m1 m2 m3 xfl os).toArray.size) (inpOfBytes (gzipStored ds m0 m1 m2 m3 xfl os).toArray) 0
      = .ok (ds.flatten.toArray, 8 * (gzipStored ds m0 m1 m2 m3 xfl os).length) := by
  unfold gzipStored
  generalize hcrc : (crc32 ds.flatten.toArray).toNat = crc
  have hcrclt : crc < 4294967296 := by rw [← hcrc]; exact UInt32.toNat_lt _
  generalize hisz : ds.flatten.length % 4294967296 = isz
  have hiszlt : isz < 4294967296 := by rw [← hisz]; omega
  generalize harr : (gzHdr m0 m1 m2 m3 xfl os ++ storedEnc ds ++ le32 crc ++ le32 isz : Bytes).toArray = arr
  have hlist : arr.toList = gzHdr m0 m1 m2 m3 xfl os ++ storedEnc ds ++ le32 crc ++ le32 isz := by rw [← harr]
  have hsize : arr.size = 10 + (storedEnc ds).length + 8 := by rw [← harr]; simp [gzHdr, le32]; omega
  have hz : gunzipR (8 * arr.size) (inpOfBytes arr) 0 = .ok (ds.flatten.toArray, 8 * (10 + (storedEnc ds).length) + 32 + 32) := by
    unfold gunzipR
    have hrb := readBytes_eq arr 10 0 (by omega)
    have hhdr : (arr.toList.drop 0).take 10 = gzHdr m0 m1 m2 m3 xfl os := by
      rw [hlist]; simp [gzHdr]
    rw [hhdr] at hrb
    simp only [Nat.mul_zero, Nat.zero_add] at hrb
    simp only [R.bind, hrb]
    have hmagic : ¬ ((gzHdr m0 m1 m2 m3 xfl os).getD 0 0 ≠ 0x1f ∨ (gzHdr m0 m1 m2 m3 xfl os).getD 1 0 ≠ 0x8b ∨
        (gzHdr m0 m1 m2 m3 xfl os).getD 2 0 ≠ 8) := by simp [gzHdr]
    rw [if_neg hmagic]
    have hflg : ((gzHdr m0 m1 m2 m3 xfl os).getD 3 0).toNat = 0 := by simp [gzHdr]
    simp only [hflg, Nat.zero_and, ne_eq, not_true_eq_false, if_false, R.bind, R.pure, Bool.false_eq_true]
    have hinf : inflateR (8 * arr.size) (inpOfBytes arr) (8 * 10) = .ok (ds.flatten.toArray, 8 * (10 + (storedEnc ds).length)) := by
      have := inflateBlocks_storedEnc arr (8 * arr.size + 1) ds hne hl 10 (le32 crc ++ le32 isz) (8 * arr.size + 1) #[]
        (by have := storedEnc_length_ge ds; omega) (by rw [hlist]; simp [gzHdr])
      simpa [inflateR] using this
    simp only [hinf, alignRead_aligned]
    have hr1 := readBits32_eq arr (10 + (storedEnc ds).length) (by omega)
    have hr2 := readBits32_eq arr (10 + (storedEnc ds).length + 4) (by omega)
    have hd : arr.toList.drop (10 + (storedEnc ds).length) = le32 crc ++ le32 isz := by
      rw [hlist, show 10 + (storedEnc ds).length = (gzHdr m0 m1 m2 m3 xfl os ++ storedEnc ds).length by simp [gzHdr]; omega,
        List.append_assoc (gzHdr m0 m1 m2 m3 xfl os ++ storedEnc ds), List.drop_left]
    have hpre : ∀ (idx j : Nat) (hj : j < 8) (hidx : idx = 10 + (storedEnc ds).length + j) (hb : idx < arr.size),
        arr[idx] = (le32 crc ++ le32 isz)[j]'(by simp [le32]; omega) := by
      intro idx j hj hidx hb
      subst hidx
      exact arr_get_of_drop arr _ j _ hd (by simp [le32]; omega) (by omega)
    have e0 := hpre (10 + (storedEnc ds).length) 0 (by omega) (by omega) (by omega)
    have e1 := hpre (10 + (storedEnc ds).length + 1) 1 (by omega) (by omega) (by omega)
    have e2 := hpre (10 + (storedEnc ds).length + 2) 2 (by omega) (by omega) (by omega)
    have e3 := hpre (10 + (storedEnc ds).length + 2 + 1) 3 (by omega) (by omega) (by omega)
    have e4 := hpre (10 + (storedEnc ds).length + 4) 4 (by omega) (by omega) (by omega)
    have e5 := hpre (10 + (storedEnc ds).length + 4 + 1) 5 (by omega) (by omega) (by omega)
    have e6 := hpre (10 + (storedEnc ds).length + 4 + 2) 6 (by omega) (by omega) (by omega)
    have e7 := hpre (10 + (storedEnc ds).length + 4 + 2 + 1) 7 (by omega) (by omega) (by omega)
    simp only [le32, List.cons_append, List.nil_append, List.getElem_cons_zero, List.getElem_cons_succ] at e0 e1 e2 e3 e4 e5 e6 e7
    have v1 : arr[10 + (storedEnc ds).length].toNat + 256 * arr[10 + (storedEnc ds).length + 1].toNat +
        65536 * (arr[10 + (storedEnc ds).length + 2].toNat + 256 * arr[10 + (storedEnc ds).length + 2 + 1].toNat) = crc := by
      rw [e0, e1, e2, e3]
      simp; omega
    have v2 : arr[10 + (storedEnc ds).length + 4].toNat + 256 * arr[10 + (storedEnc ds).length + 4 + 1].toNat +
        65536 * (arr[10 + (storedEnc ds).length + 4 + 2].toNat + 256 * arr[10 + (storedEnc ds).length + 4 + 2 + 1].toNat) = isz := by
      rw [e4, e5, e6, e7]
      simp; omega
    rw [v1] at hr1; rw [v2] at hr2
    rw [show 8 * (10 + (storedEnc ds).length + 4) = 8 * (10 + (storedEnc ds).length) + 32 by omega] at hr2
    simp only [hr1, hr2, hcrc, List.size_toArray, hisz, ne_eq, not_true_eq_false, or_self, if_false, R.pure]
  have hlen : (gzHdr m0 m1 m2 m3 xfl os ++ storedEnc ds ++ le32 crc ++ le32 isz).length = 10 + (storedEnc ds).length + 8 := by
    simp [gzHdr, le32]; omega
  rw [hz, hlen]
  simp only [Except.ok.injEq, Prod.mk.injEq, true_and]; omega

/-- C13 (gzip, stored blocks, bodies of any size; any MTIME, XFL, OS bytes): header, one stored block
    per piece, CRC-32 and ISIZE of the body — `gunzip` returns the body -/
theorem C13_gzip_stored_blocks (ds : List Bytes) (hne : ds ≠ []) (hl : ∀ d ∈ ds, d.length ≤ 65535)
    (m0 m1 m2 m3 xfl os : UInt8) :
    gunzip (gzHdr m0 m1 m2 m3 xfl os ++ storedEnc ds ++ le32 (crc32 ds.flatten.toArray).toNat
        ++ le32 (ds.flatten.length % 4294967296)) = some ds.flatten := by
  have h := gunzipR_gzipStored ds hne hl m0 m1 m2 m3 xfl os
  unfold gzipStored at h
  unfold gunzip runR
  simp only []
  rw [h]
