import Hm.HeaderAlgebra
import Hm.EncodingLabelsB

/-! src/coding.rs::decode_body_as_text, with encoding_rs's label resolution (table generated from the
    crate) and its decoders for UTF-8 and windows-1252; other encodings are not modelled -/

def kContentType : Bytes := [67, 111, 110, 116, 101, 110, 116, 45, 84, 121, 112, 101]
#guard kContentType = str "Content-Type"
def kText : Bytes := [116, 101, 120, 116]
def kCharset : Bytes := [99, 104, 97, 114, 115, 101, 116]
def kLatin1 : Bytes := [105, 115, 111, 45, 56, 56, 53, 57, 45, 49]
#guard kText = str "text" ∧ kCharset = str "charset" ∧ kLatin1 = str "iso-8859-1"

def splitAtByte (d : UInt8) (s : Bytes) : Option (Bytes × Bytes) :=
  (findByte d s).map fun i => (s.take i, s.drop (i + 1))

def isLabelWs (b : UInt8) : Bool := b == 9 || b == 10 || b == 12 || b == 13 || b == 32

/-- `Encoding::for_label`: normalisation of the label, then table look-up -/
def normLabel (label : Bytes) : Option Bytes :=
  let s := label.dropWhile isLabelWs
  let core := s.takeWhile fun b => !isLabelWs b
  let rest := s.dropWhile fun b => !isLabelWs b
  if core.isEmpty then none
  else if !rest.all isLabelWs then none
  else if !core.all (fun b => (65 ≤ b && b ≤ 90) || (97 ≤ b && b ≤ 122) || (48 ≤ b && b ≤ 57) || b == 45 || b == 95 || b == 58 || b == 46) then none
  else if core.length > 19 then none
  else some (lower core)

def forLabel (label : Bytes) : Option String :=
  match normLabel label with
  | none => none
  | some l => (encodingLabelsB.find? fun e => e.1 == l).map (·.2)

def utf8OfCodePoint (c : Nat) : Bytes :=
  if c < 0x80 then [c.toUInt8]
  else if c < 0x800 then [(0xC0 + c / 64).toUInt8, (0x80 + c % 64).toUInt8]
  else [(0xE0 + c / 4096).toUInt8, (0x80 + c / 64 % 64).toUInt8, (0x80 + c % 64).toUInt8]

/-- windows-1252 (WHATWG index): 0x80-0x9F -/
def w1252High : List Nat :=
  [0x20AC, 0x81, 0x201A, 0x192, 0x201E, 0x2026, 0x2020, 0x2021, 0x2C6, 0x2030, 0x160, 0x2039, 0x152, 0x8D, 0x17D, 0x8F,
   0x90, 0x2018, 0x2019, 0x201C, 0x201D, 0x2022, 0x2013, 0x2014, 0x2DC, 0x2122, 0x161, 0x203A, 0x153, 0x9D, 0x17E, 0x178]

def w1252CodePoint (b : UInt8) : Nat :=
  if b < 0x80 || b ≥ 0xA0 then b.toNat else w1252High.getD (b.toNat - 0x80) 0

inductive TextResult where
  | none | some (utf8 : Bytes) | unmodelled (encoding : String)
deriving Repr

def decodeWith (enc : String) (body : Bytes) : TextResult :=
  if enc = "UTF-8" then (if validUtf8 body then .some body else .none)
  else if enc = "windows-1252" then .some (body.flatMap fun b => utf8OfCodePoint (w1252CodePoint b))
  else if enc = "replacement" then (if body.isEmpty then .some [] else .none)
  else .unmodelled enc

def charsetOf (params : Bytes) : Bytes :=
  let ps := (splitOn SEMI params).map rustTrim
  match (ps.filterMap (splitAtByte 61)).find? fun nv => eqIgnoreCase nv.1 kCharset with
  | some nv => nv.2
  | none => kLatin1

def decodeBodyAsText (hs : List Header) (body : Bytes) : TextResult :=
  match headerValue hs kContentType with
  | none => .none
  | some ct =>
    let (ts, params) := match findByte SEMI ct with
      | some d => (ct.take d, ct.drop (d + 1))
      | none => (ct, [])
    match splitAtByte 47 ts with
    | none => .none
    | some (ty, _) =>
      if !eqIgnoreCase ty kText then .none else
      match forLabel (charsetOf params) with
      | none => .none
      | some enc => decodeWith enc body
