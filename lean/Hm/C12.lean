import Hm.RespSys
import Hm.HeaderAlgebra

/-! C12: after de-chunking the headers describe the decoded body (repaired tree) -/

def isFraming (n : Bytes) : Bool :=
  nameEq n kContentLength || nameEq n kTransferEncoding || nameEq n kTrailer

theorem foldl_addHeader (hs ts : List Header) : ts.foldl addHeader hs = hs ++ ts := by
  induction ts generalizing hs with
  | nil => simp
  | cons t ts ih => simp [List.foldl_cons, addHeader, ih]

theorem multi_append (a b : List Header) (n : Bytes) :
    headerMultiValue (a ++ b) n = headerMultiValue a n ++ headerMultiValue b n := by
  simp [headerMultiValue, List.filter_append]

theorem multi_filter_notFraming_eq_nil (trs : List Header) {n : Bytes} (hn : isFraming n = true) :
    headerMultiValue (trs.filter fun h => !isFraming h.name) n = [] := by
  unfold headerMultiValue
  rw [List.filter_filter]
  have : ∀ x : Header, (nameEq x.name n && !isFraming x.name) = false := by
    intro x
    cases hx : nameEq x.name n with
    | false => simp
    | true =>
      have : isFraming x.name = true := by
        unfold isFraming at hn ⊢
        simp only [Bool.or_eq_true] at hn ⊢
        rcases hn with (h | h) | h
        · exact Or.inl (Or.inl (nameEq_trans hx h))
        · exact Or.inl (Or.inr (nameEq_trans hx h))
        · exact Or.inr (nameEq_trans hx h)
      simp [this]
  simp [this]

theorem kTE_ne_kCL : nameEq kTransferEncoding kContentLength = false := by decide
theorem kCL_ne_kTE : nameEq kContentLength kTransferEncoding = false := by decide
theorem kTr_ne_kCL : nameEq kTrailer kContentLength = false := by decide
theorem kCL_ne_kTr : nameEq kContentLength kTrailer = false := by decide
theorem kTE_ne_kTr : nameEq kTransferEncoding kTrailer = false := by decide
theorem kTr_ne_kTE : nameEq kTrailer kTransferEncoding = false := by decide

/-- the header list after `dechunkRewrite`, spelled out -/
def rewritten (hs trs : List Header) (bodyLen : Nat) : List Header :=
  let hs1 := hs ++ trs.filter fun h => !isFraming h.name
  let te := ((headerTokens hs1 kTransferEncoding).dropLast).filter (fun c => !c.isEmpty)
  let hs2 := if te.isEmpty then removeHeader hs1 kTransferEncoding
             else setHeader hs1 kTransferEncoding (joinWith [COMMA, SP] te)
  removeHeader (addHeader hs2 ⟨kContentLength, natToDec bodyLen⟩) kTrailer

theorem dechunkRewrite_headers (s : RespState) (c : ChunkState) :
    (dechunkRewrite ⟨true⟩ s c).headers = rewritten s.headers c.trailer c.buffer.length ∧
    (dechunkRewrite ⟨true⟩ s c).body = c.buffer := by
  unfold dechunkRewrite rewritten
  simp only [foldl_addHeader, Bool.true_and]
  constructor
  · congr
  · trivial

/-- other headers through the TE step -/
theorem te_step_others (hs1 : List Header) (te : List Bytes) (p : Header → Bool)
    (hp : ∀ h, p h = true → nameEq h.name kTransferEncoding = false) :
    (if te.isEmpty then removeHeader hs1 kTransferEncoding
     else setHeader hs1 kTransferEncoding (joinWith [COMMA, SP] te)).filter p = hs1.filter p := by
  split
  · exact removeHeader_others _ _ p hp
  · exact setHeader_others _ _ _ p hp

/-- C12: Content-Length has the single value "length of the body", whatever the trailer carried -/
theorem C12_content_length (hs trs : List Header) (n : Nat)
    (hcl : headerMultiValue hs kContentLength = []) :
    headerMultiValue (rewritten hs trs n) kContentLength = [natToDec n] := by
  unfold rewritten
  simp only
  rw [multi_of_others kCL_ne_kTr (fun p hp => removeHeader_others _ _ p hp)]
  unfold addHeader
  rw [multi_append]
  rw [multi_of_others kCL_ne_kTE (fun p hp => te_step_others _ _ p hp)]
  rw [multi_append, hcl, multi_filter_notFraming_eq_nil trs (by decide)]
  simp [headerMultiValue, nameEq_refl]

/-- C12: the Trailer header is gone -/
theorem C12_no_trailer (hs trs : List Header) (n : Nat) :
    hasHeader (rewritten hs trs n) kTrailer = false := by
  unfold rewritten; exact removeHeader_not_has _ _

/-- C12: Transfer-Encoding lists the original codings minus the final one — empty list elements, which carry no
    coding, are dropped — (one header, joined with ", "), or is gone when nothing remains; trailer fields named Transfer-Encoding have no influence -/
theorem C12_transfer_encoding (hs trs : List Header) (n : Nat) :
    let ts := ((headerTokens hs kTransferEncoding).dropLast).filter (fun c => !c.isEmpty)
    (ts = [] → hasHeader (rewritten hs trs n) kTransferEncoding = false) ∧
    (ts ≠ [] → headerMultiValue (rewritten hs trs n) kTransferEncoding = [joinWith [COMMA, SP] ts]) := by
  intro ts
  have htok : headerTokens (hs ++ trs.filter fun h => !isFraming h.name) kTransferEncoding
      = headerTokens hs kTransferEncoding := by
    unfold headerTokens
    rw [multi_append, multi_filter_notFraming_eq_nil trs (by decide)]; simp
  unfold rewritten
  simp only [htok]
  have hmove : ∀ X : List Header,
      headerMultiValue (removeHeader (addHeader X ⟨kContentLength, natToDec n⟩) kTrailer) kTransferEncoding
        = headerMultiValue X kTransferEncoding := by
    intro X
    rw [multi_of_others kTE_ne_kTr (fun p hp => removeHeader_others _ _ p hp)]
    unfold addHeader
    rw [multi_append]
    simp [headerMultiValue, kCL_ne_kTE]
  constructor
  · intro hts
    have : ts.isEmpty = true := by simp [hts]
    simp only [ts] at this
    simp only [this, if_true]
    cases hh : hasHeader (removeHeader (addHeader (removeHeader (hs ++ trs.filter fun h => !isFraming h.name) kTransferEncoding)
        ⟨kContentLength, natToDec n⟩) kTrailer) kTransferEncoding with
    | false => rfl
    | true =>
      have h2 := hasHeader_iff_multi.mp hh
      rw [hmove, removeHeader_multi_self] at h2
      exact absurd rfl h2
  · intro hts
    have : ts.isEmpty = false := by
      cases h : ts with
      | nil => exact absurd h hts
      | cons a as => rfl
    simp only [ts] at this
    simp only [this]
    rw [hmove]
    exact setHeader_multi_self _ _ _

/-- C12: every non-framing header of the original list, then every non-framing trailer field, in order -/
theorem C12_others (hs trs : List Header) (n : Nat) :
    (rewritten hs trs n).filter (fun h => !isFraming h.name)
      = hs.filter (fun h => !isFraming h.name) ++ trs.filter (fun h => !isFraming h.name) := by
  have hp : ∀ (k : Bytes) (hk : isFraming k = true) (h : Header),
      (!isFraming h.name) = true → nameEq h.name k = false := by
    intro k hk h hh
    cases hx : nameEq h.name k with
    | false => rfl
    | true =>
      exfalso
      have : isFraming h.name = true := by
        unfold isFraming at hk ⊢
        simp only [Bool.or_eq_true] at hk ⊢
        rcases hk with (g | g) | g
        · exact Or.inl (Or.inl (nameEq_trans hx g))
        · exact Or.inl (Or.inr (nameEq_trans hx g))
        · exact Or.inr (nameEq_trans hx g)
      simp [this] at hh
  unfold rewritten
  simp only
  rw [removeHeader_others _ _ _ (hp kTrailer (by decide))]
  unfold addHeader
  rw [List.filter_append]
  rw [te_step_others _ _ _ (hp kTransferEncoding (by decide))]
  rw [List.filter_append, List.filter_filter]
  have : isFraming kContentLength = true := by decide
  simp [this]
