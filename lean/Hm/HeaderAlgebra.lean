import Hm.Rhymessage

/-! DESIGN.md §5.2: equational theory of the header list -/

theorem nameEq_iff {a b : Bytes} : nameEq a b = true ↔ lower a = lower b := by
  simp [nameEq, eqIgnoreCase]

theorem nameEq_refl (a : Bytes) : nameEq a a = true := nameEq_iff.mpr rfl
theorem nameEq_symm {a b : Bytes} (h : nameEq a b = true) : nameEq b a = true :=
  nameEq_iff.mpr (nameEq_iff.mp h).symm
theorem nameEq_trans {a b c : Bytes} (h1 : nameEq a b = true) (h2 : nameEq b c = true) : nameEq a c = true :=
  nameEq_iff.mpr ((nameEq_iff.mp h1).trans (nameEq_iff.mp h2))

/-- looking a name up only depends on its case-folded spelling -/
theorem nameEq_congr_right {a b c : Bytes} (h : nameEq b c = true) : nameEq a b = nameEq a c := by
  cases hab : nameEq a b with
  | true => exact (nameEq_trans hab h).symm
  | false =>
    cases hac : nameEq a c with
    | false => rfl
    | true => rw [nameEq_trans hac (nameEq_symm h)] at hab; exact hab.symm

/-- C18 at the level of look-ups: every look-up gives the same answer for names equal up to ASCII case -/
theorem headerMultiValue_congr (hs : List Header) {n n' : Bytes} (h : nameEq n n' = true) :
    headerMultiValue hs n = headerMultiValue hs n' := by
  unfold headerMultiValue
  congr 1
  apply List.filter_congr
  intro x _
  exact nameEq_congr_right h

theorem headerValue_congr (hs : List Header) {n n' : Bytes} (h : nameEq n n' = true) :
    headerValue hs n = headerValue hs n' := by
  unfold headerValue; rw [headerMultiValue_congr hs h]

theorem headerTokens_congr (hs : List Header) {n n' : Bytes} (h : nameEq n n' = true) :
    headerTokens hs n = headerTokens hs n' := by
  unfold headerTokens; rw [headerMultiValue_congr hs h]

theorem hasHeader_congr (hs : List Header) {n n' : Bytes} (h : nameEq n n' = true) :
    hasHeader hs n = hasHeader hs n' := by
  unfold hasHeader
  induction hs with
  | nil => rfl
  | cons x xs ih => simp only [List.any_cons, ih, nameEq_congr_right h]

theorem hasHeader_iff_multi {hs : List Header} {n : Bytes} :
    hasHeader hs n = true ↔ headerMultiValue hs n ≠ [] := by
  unfold hasHeader headerMultiValue
  induction hs with
  | nil => simp
  | cons x xs ih =>
    by_cases hx : nameEq x.name n = true
    · simp [hx]
    · simp [hx, ih]

/-! ### `remove_header` -/

theorem removeHeader_multi_self (hs : List Header) (n : Bytes) : headerMultiValue (removeHeader hs n) n = [] := by
  unfold headerMultiValue removeHeader
  rw [List.filter_filter]
  simp

theorem removeHeader_not_has (hs : List Header) (n : Bytes) : hasHeader (removeHeader hs n) n = false := by
  have := removeHeader_multi_self hs n
  cases h : hasHeader (removeHeader hs n) n with
  | false => rfl
  | true => exact absurd this (hasHeader_iff_multi.mp h)

/-- headers of other names are untouched and keep their order -/
theorem removeHeader_others (hs : List Header) (n : Bytes) (p : Header → Bool)
    (hp : ∀ h, p h = true → nameEq h.name n = false) :
    (removeHeader hs n).filter p = hs.filter p := by
  unfold removeHeader
  rw [List.filter_filter]
  apply List.filter_congr
  intro x _
  cases hpx : p x with
  | false => simp
  | true => simp [hp x hpx]

/-! ### `set_header` -/

theorem setHeaderAux_others (n v : Bytes) (seen : Bool) (hs : List Header) (p : Header → Bool)
    (hp : ∀ h, p h = true → nameEq h.name n = false) :
    (setHeaderAux n v seen hs).filter p = hs.filter p := by
  induction hs generalizing seen with
  | nil => simp [setHeaderAux]
  | cons x xs ih =>
    unfold setHeaderAux
    by_cases hx : nameEq x.name n = true
    · have hpx : p x = false := by
        cases hpx : p x with
        | false => rfl
        | true => rw [hp x hpx] at hx; simp at hx
      cases seen with
      | true => simp [hx, hpx, ih]
      | false =>
        have hpx' : p { x with value := v } = false := by
          cases hq : p { x with value := v } with
          | false => rfl
          | true => have := hp _ hq; simp at this; rw [this] at hx; simp at hx
        simp [hx, hpx, hpx', ih]
    · have hx' : nameEq x.name n = false := by simpa using hx
      simp [hx', List.filter_cons, ih]

theorem setHeaderAux_multi (n v : Bytes) (hs : List Header) :
    headerMultiValue (setHeaderAux n v true hs) n = [] ∧
    (hasHeader hs n = true → headerMultiValue (setHeaderAux n v false hs) n = [v]) := by
  induction hs with
  | nil => simp [setHeaderAux, headerMultiValue, hasHeader]
  | cons x xs ih =>
    by_cases hx : nameEq x.name n = true
    · constructor
      · unfold setHeaderAux; simp only [hx, if_true]; exact ih.1
      · intro _
        unfold setHeaderAux; simp only [hx, if_true]
        have := ih.1
        unfold headerMultiValue at this ⊢
        simp [hx, this]
    · constructor
      · unfold setHeaderAux; simp only [hx]
        have := ih.1
        unfold headerMultiValue at this ⊢
        simp [hx, this]
      · intro hh
        unfold setHeaderAux; simp only [hx]
        have hh' : hasHeader xs n = true := by
          unfold hasHeader at hh ⊢; simpa [hx] using hh
        have := ih.2 hh'
        unfold headerMultiValue at this ⊢
        simp [hx, this]

/-- after `set_header(n, v)` the name `n` has the single value `v` -/
theorem setHeader_multi_self (hs : List Header) (n v : Bytes) : headerMultiValue (setHeader hs n v) n = [v] := by
  unfold setHeader
  by_cases hh : hasHeader hs n = true
  · rw [if_pos hh]; exact (setHeaderAux_multi n v hs).2 hh
  · rw [if_neg hh]
    have : headerMultiValue hs n = [] := by
      cases hm : headerMultiValue hs n with
      | nil => rfl
      | cons a as => exact absurd (hasHeader_iff_multi.mpr (by simp [hm])) hh
    unfold headerMultiValue at this ⊢
    simp [this, nameEq_refl]

/-- and every header of another name is untouched, in order -/
theorem setHeader_others (hs : List Header) (n v : Bytes) (p : Header → Bool)
    (hp : ∀ h, p h = true → nameEq h.name n = false) :
    (setHeader hs n v).filter p = hs.filter p := by
  unfold setHeader
  split
  · exact setHeaderAux_others n v false hs p hp
  · have : p ⟨n, v⟩ = false := by
      cases hq : p ⟨n, v⟩ with
      | false => rfl
      | true => have := hp _ hq; simp [nameEq_refl] at this
    simp [this]

theorem multi_of_others {hs hs' : List Header} {n n' : Bytes} (hne : nameEq n' n = false)
    (h : ∀ p : Header → Bool, (∀ h, p h = true → nameEq h.name n = false) → hs'.filter p = hs.filter p) :
    headerMultiValue hs' n' = headerMultiValue hs n' := by
  unfold headerMultiValue
  rw [h (fun x => nameEq x.name n')]
  intro x hx
  cases hxn : nameEq x.name n with
  | false => rfl
  | true => rw [nameEq_trans (nameEq_symm hx) hxn] at hne; simp at hne
