import Hm.ReqLaws2
import Hm.HeaderLaws3

variable {u : UriImpl}

/-! ### what `stripDanglingCr` does to an extended buffer -/

theorem strip_snoc_CR (Y : Bytes) : stripDanglingCr (Y ++ [CR]) = Y := by
  unfold stripDanglingCr; simp

theorem exists_snoc_of_last {b : Bytes} (h : b.getLast? = some CR) : b = b.dropLast ++ [CR] := by
  cases hb : b.reverse with
  | nil => simp at hb; subst hb; simp at h
  | cons x xs =>
    have : b = xs.reverse ++ [x] := by
      have := congrArg List.reverse hb; simpa using this
    subst this
    simp at h; subst h; simp

/-- the bytes the header parser sees beyond `stripDanglingCr b` once `d` has been appended to `b` -/
def tailOf (b d : Bytes) : Bytes :=
  if d = [] then [] else (if b.getLast? = some CR then [CR] else []) ++ stripDanglingCr d

theorem strip_append_ne {b d : Bytes} (hd : d ≠ []) : stripDanglingCr (b ++ d) = b ++ stripDanglingCr d := by
  unfold stripDanglingCr
  have : (b ++ d).getLast? = d.getLast? := by simp [List.getLast?_append, hd]
    <;> cases h : d.getLast? <;> simp_all
  rw [this]
  split
  · rw [List.dropLast_append_of_ne_nil hd]
  · rfl

theorem strip_append (b d : Bytes) : stripDanglingCr (b ++ d) = stripDanglingCr b ++ tailOf b d := by
  unfold tailOf
  by_cases hd : d = []
  · simp [hd]
  · rw [if_neg hd, strip_append_ne hd]
    by_cases hb : b.getLast? = some CR
    · rw [if_pos hb]
      have := exists_snoc_of_last hb
      conv => lhs; rw [this]
      rw [this, strip_snoc_CR]; simp
    · rw [if_neg hb, strip_of_last_ne hb]; simp

theorem strip_drop {b : Bytes} {c : Nat} (hc : c ≤ (stripDanglingCr b).length) :
    stripDanglingCr (b.drop c) = (stripDanglingCr b).drop c ∧
    ((b.drop c).getLast? = some CR ↔ b.getLast? = some CR) := by
  by_cases hb : b.getLast? = some CR
  · have hx := exists_snoc_of_last hb
    have hl := strip_length_of_last hb
    have hs : stripDanglingCr b = b.dropLast := by rw [hx, strip_snoc_CR]; simp
    have hdrop : b.drop c = (b.dropLast).drop c ++ [CR] := by
      conv => lhs; rw [hx]
      rw [List.drop_append_of_le_length (by rw [← hs]; exact hc)]
    constructor
    · rw [hdrop, strip_snoc_CR, hs]
    · rw [hdrop]; simp [hb]
  · have hs : stripDanglingCr b = b := strip_of_last_ne hb
    have hne : (b.drop c).getLast? ≠ some CR := getLast?_drop_ne_CR hb
    constructor
    · rw [strip_of_last_ne hne, hs]
    · simp [hb, hne]

theorem strip_drop_append {b d : Bytes} {c : Nat} (hc : c ≤ (stripDanglingCr b).length) :
    stripDanglingCr (b.drop c ++ d) = (stripDanglingCr b).drop c ++ tailOf b d := by
  have ⟨h1, h2⟩ := strip_drop hc
  rw [strip_append, h1]
  congr 1
  unfold tailOf
  by_cases hd : d = []
  · simp [hd]
  · rw [if_neg hd, if_neg hd]
    by_cases hb : b.getLast? = some CR
    · rw [if_pos hb, if_pos (h2.mpr hb)]
    · rw [if_neg hb, if_neg (fun h => hb (h2.mp h))]

theorem strip_tail_nostraddle (b d : Bytes) :
    (stripDanglingCr b).getLast? ≠ some CR ∨ (tailOf b d).head? ≠ some LF := by
  by_cases hb : b.getLast? = some CR
  · right
    unfold tailOf
    by_cases hd : d = []
    · simp [hd]
    · rw [if_neg hd, if_pos hb]; simp [CR, LF]
  · left; rw [strip_of_last_ne hb]; exact hb

/-! ### counting -/

theorem countR_assoc {max : Option Nat} {total a t : Nat} (h : countR max total a = .ok t) (b : Nat) :
    countR max total (a + b) = countR max t b := by
  unfold countR at h
  split at h
  · rename_i hle
    split at h
    · simp at h
    · rename_i hov
      simp at h; subst h
      unfold countR
      simp only [Nat.add_assoc]
  · rename_i hbig
    split at h
    · simp at h
    · rename_i hs
      simp at h; subst h
      have hnone : max = none := by cases max <;> simp_all
      subst hnone
      unfold countR
      have h1 : ¬ total + (a + b) ≤ usizeMax := by omega
      simp only [h1, if_false, Option.isSome_none, Bool.false_eq_true]
      by_cases hb : b = 0
      · subst hb; simp [overLimit]
      · have : ¬ usizeMax + b ≤ usizeMax := by omega
        simp [this]

theorem countR_ok_ge {max : Option Nat} {total a t : Nat} (h : countR max total a = .ok t)
    (hm : max.isSome = true) : t = total + a ∧ overLimit max t = false := by
  unfold countR at h
  split at h
  · split at h
    · simp at h
    · rename_i hov; simp at h; subst h; exact ⟨rfl, by simpa using hov⟩
  · simp [hm] at h

theorem countR_ok_not_early {max : Option Nat} {total a t : Nat} (h : countR max total a = .ok t) :
    early max t 0 = false := by
  unfold early
  cases hm : max with
  | none => simp [overLimit]
  | some m =>
    have := countR_ok_ge h (by simp [hm])
    simpa [hm] using this.2

/-! ### header phase -/

theorem afterHeaders_indep {cfg : ReqCfg} {s s' : ReqState u} {hs : List Header} {t c k : Nat}
    (h : ∀ hs' t', ({ s with headers := hs', totalBytes := t' } : ReqState u) = { s' with headers := hs', totalBytes := t' }) :
    afterHeaders cfg s hs t (k + c) = (afterHeaders cfg s' hs t c).shift k := by
  unfold afterHeaders
  cases headerValue hs kContentLength with
  | none => simp [Res.shift, h]
  | some v =>
    simp only
    cases parseNumber ⟨true⟩ 10 v with
    | none => simp [Res.shift]
    | some cl =>
      simp only
      cases countR cfg.max t cl with
      | error f => simp [Res.shift]
      | ok t2 =>
        simp only [Res.shift, Res.ok.injEq, true_and, and_true]
        have := h hs t2
        simp only [ReqState.mk.injEq] at this ⊢
        obtain ⟨h1, _, h3, h4, _, h6⟩ := this
        exact ⟨trivial, trivial, h3, h4, trivial, h6⟩

theorem hdrStep_le {cfg : ReqCfg} {s s' : ReqState u} {rem : Bytes} {c : Nat} {i : Internal}
    (h : hdrStep cfg s rem = .ok i s' c) : c ≤ rem.length := by
  unfold hdrStep at h
  cases hp : Headers.parse cfg.hl s.headers (stripDanglingCr rem) with
  | error e => simp [hp] at h
  | ok r =>
    obtain ⟨hs, st, c0⟩ := r
    have hc := parseLoop_consumed (by unfold Headers.parse at hp; exact hp)
    have hl := strip_length_le rem
    simp only [hp] at h
    cases hcount : countR cfg.max s.totalBytes c0 with
    | error f => simp [hcount] at h
    | ok t =>
      simp only [hcount] at h
      cases st with
      | incomplete =>
        simp only at h
        split at h
        · simp at h
        · simp at h; omega
      | complete =>
        simp only at h
        unfold afterHeaders at h
        split at h
        · simp at h; omega
        · split at h
          · simp at h
          · split at h
            · simp at h
            · simp at h; omega
