import Hm.C18Stream
import Hm.C04Verdict
import Hm.C12

/-! C18 at byte-stream level, responses: two response byte strings that share the status line and everything after
    the header block, and whose header blocks are equal up to ASCII letter case (names, `chunked` and any other
    token or value), get the same answer: same verdict, same error, same boundary, same status code and reason,
    same framing decision and chunk decoding, same body, header lists equal up to case — including the header
    list as rewritten after de-chunking. -/

theorem removeHeader_lowerH (hs : List Header) (n : Bytes) :
    (removeHeader hs n).map lowerH = removeHeader (hs.map lowerH) n := by
  unfold removeHeader
  induction hs with
  | nil => rfl
  | cons h rest ih =>
    simp only [List.map_cons, List.filter_cons]
    have : nameEq (lowerH h).name n = nameEq h.name n := nameEq_lower_left h.name n
    rw [this]
    split
    · simp only [List.map_cons]; rw [ih]
    · exact ih

theorem hasHeader_lowerH (hs : List Header) (n : Bytes) : hasHeader (hs.map lowerH) n = hasHeader hs n := by
  unfold hasHeader
  induction hs with
  | nil => rfl
  | cons h rest ih =>
    simp only [List.map_cons, List.any_cons]
    have : nameEq (lowerH h).name n = nameEq h.name n := nameEq_lower_left h.name n
    rw [this, ih]

theorem setHeaderAux_lowerH (n v : Bytes) : ∀ (seen : Bool) (hs : List Header),
    (setHeaderAux n v seen hs).map lowerH = setHeaderAux n (lower v) seen (hs.map lowerH) := by
  intro seen hs
  induction hs generalizing seen with
  | nil => rfl
  | cons h rest ih =>
    simp only [List.map_cons]
    unfold setHeaderAux
    have : nameEq (lowerH h).name n = nameEq h.name n := nameEq_lower_left h.name n
    rw [this]
    by_cases hn : nameEq h.name n = true
    · rw [if_pos hn, if_pos hn]
      cases seen with
      | true => simp only [if_true]; exact ih true
      | false =>
        simp only [Bool.false_eq_true, if_false, List.map_cons]
        rw [ih true]; rfl
    · rw [if_neg hn, if_neg hn]
      simp only [List.map_cons]; rw [ih seen]

theorem setHeader_lowerH (hs : List Header) (n v : Bytes) :
    (setHeader hs n v).map lowerH =
      (if hasHeader (hs.map lowerH) n then setHeaderAux n (lower v) false (hs.map lowerH)
       else hs.map lowerH ++ [⟨lower n, lower v⟩]) := by
  unfold setHeader
  rw [hasHeader_lowerH]
  split
  · exact setHeaderAux_lowerH n v false hs
  · simp [lowerH]

/-- the header list that `dechunkRewrite` writes, from header lists equal up to case: equal up to case -/
theorem dechunkRewrite_case (s s' : RespState) (cst : ChunkState) (h : s.headers.map lowerH = s'.headers.map lowerH) :
    (dechunkRewrite ⟨true⟩ s cst).headers.map lowerH = (dechunkRewrite ⟨true⟩ s' cst).headers.map lowerH := by
  unfold dechunkRewrite
  simp only [if_true, foldl_addHeader]
  generalize htr : (cst.trailer.filter fun h => !(nameEq h.name kContentLength || nameEq h.name kTransferEncoding || nameEq h.name kTrailer)) = tr
  have hA : (s.headers ++ tr).map lowerH = (s'.headers ++ tr).map lowerH := by simp [h]
  have hte := C18_header_tokens_case (hdrEquivCI_of_lowerH hA) kTransferEncoding
  rw [hte]
  generalize ((headerTokens (s'.headers ++ tr) kTransferEncoding).dropLast.filter fun c => !c.isEmpty) = te
  simp only [addHeader, removeHeader_lowerH, List.map_append]
  congr 2
  split
  · rw [removeHeader_lowerH, removeHeader_lowerH, hA]
  · rw [setHeader_lowerH, setHeader_lowerH, hA]

/-- how two answers of the response parser are related when the inputs differ only in the letter case of the
    header block -/
def RespCaseRel : PRes Fail RespState → PRes Fail RespState → Prop
  | .fail e, .fail e' => e = e'
  | .ok st a n, .ok st' a' n' =>
    st = st' ∧ n = n' ∧ a.statusCode = a'.statusCode ∧ a.reasonPhrase = a'.reasonPhrase ∧ a.phase = a'.phase ∧
    a.body = a'.body ∧ a.trailer = a'.trailer ∧ a.headers.map lowerH = a'.headers.map lowerH
  | _, _ => False

/-- C18 (responses, byte-stream level): `first` is the status line with its CRLF; `hb` and `hb'` are equal up to
    ASCII letter case and lie inside the header block (`hin`: whenever the header block is complete it extends
    at least to the end of `hb`); `tail` is shared. -/
theorem C18_response_stream_case (hl : Option Nat) (first hb hb' tail : Bytes) (e : Nat)
    (hf : findCrlf first = some e) (hlen : first.length = e + 2) (hcase : lower hb = lower hb')
    (hin : ∀ hs c, Headers.parse hl [] (stripDanglingCr (hb ++ tail)) = .ok (hs, .complete, c) → hb.length ≤ c) :
    RespCaseRel ((respSys hl).parse Response.new (first ++ (hb ++ tail)))
                ((respSys hl).parse Response.new (first ++ (hb' ++ tail))) := by
  rw [C04_verdict, C04_verdict]
  unfold responseVerdict
  rw [findCrlf_append_of_some hf, findCrlf_append_of_some hf]
  simp only
  have htake : ∀ x : Bytes, (first ++ x).take e = first.take e := by
    intro x; exact List.take_append_of_le_length (by omega)
  have hdrop : ∀ x : Bytes, (first ++ x).drop (e + 2) = x := by
    intro x; exact List.drop_left' hlen
  rw [htake, htake, hdrop, hdrop]
  have hX : lower (hb ++ tail) = lower (hb' ++ tail) := by rw [lower_append, lower_append, hcase]
  have hhb : hb.length = hb'.length := by rw [← lower_length hb, hcase, lower_length]
  by_cases hv : (!validUtf8 (first.take e)) = true
  · rw [if_pos hv, if_pos hv]; rfl
  · rw [if_neg hv, if_neg hv]
    cases parseStatusLine ⟨true⟩ (first.take e) with
    | error c => rfl
    | ok cr =>
      obtain ⟨code, reason⟩ := cr
      simp only
      have hP := Headers.parse_case hl (raw := stripDanglingCr (hb ++ tail)) (raw' := stripDanglingCr (hb' ++ tail))
        (by rw [← stripDanglingCr_lower, ← stripDanglingCr_lower, hX])
      cases hp1 : Headers.parse hl [] (stripDanglingCr (hb ++ tail)) with
      | error he =>
        cases hp2 : Headers.parse hl [] (stripDanglingCr (hb' ++ tail)) with
        | error he' => rw [hp1, hp2] at hP; simp only [lowerRes, Except.error.injEq] at hP; simp [RespCaseRel, hP]
        | ok r' => rw [hp1, hp2] at hP; obtain ⟨a, b, c⟩ := r'; simp [lowerRes] at hP
      | ok r =>
        obtain ⟨hs, st, c⟩ := r
        cases hp2 : Headers.parse hl [] (stripDanglingCr (hb' ++ tail)) with
        | error he' => rw [hp1, hp2] at hP; simp [lowerRes] at hP
        | ok r' =>
          obtain ⟨hs', st', c'⟩ := r'
          rw [hp1, hp2] at hP
          simp only [lowerRes, Except.ok.injEq, Prod.mk.injEq] at hP
          obtain ⟨hh, hst, hc⟩ := hP
          subst hst; subst hc
          cases st with
          | incomplete => exact ⟨rfl, rfl, rfl, rfl, rfl, rfl, rfl, hh⟩
          | complete =>
            simp only
            have hk : hb.length ≤ c := hin hs c hp1
            have hk' : hb'.length ≤ c := hhb ▸ hk
            have hav : (hb ++ tail).drop c = (hb' ++ tail).drop c := by
              rw [List.drop_append, List.drop_append (l₁ := hb'),
                List.drop_of_length_le hk, List.drop_of_length_le hk', hhb]
            rw [hav]
            have hcl := contentLength_case ⟨true⟩ hh
            have hch := C18_has_chunked_case (hdrEquivCI_of_lowerH hh)
            cases h1 : headerValue hs kContentLength with
            | some v =>
              cases h2 : headerValue hs' kContentLength with
              | none => rw [h1, h2] at hcl; simp at hcl
              | some v' =>
                rw [h1, h2] at hcl
                simp only [Option.bind_some, Option.some.injEq] at hcl
                simp only
                rw [← hcl]
                cases parseNumber ⟨true⟩ 10 v with
                | none => rfl
                | some cl =>
                  simp only
                  split
                  · exact ⟨rfl, rfl, rfl, rfl, rfl, rfl, rfl, hh⟩
                  · exact ⟨rfl, rfl, rfl, rfl, rfl, rfl, rfl, hh⟩
            | none =>
              cases h2 : headerValue hs' kContentLength with
              | some v' => rw [h1, h2] at hcl; simp at hcl
              | none =>
                simp only
                rw [← hch]
                split
                · cases chunkSys.parse ChunkState.new ((hb' ++ tail).drop c) with
                  | fail f => rfl
                  | ok cstat cst k =>
                    cases cstat with
                    | complete =>
                      refine ⟨rfl, rfl, rfl, rfl, rfl, rfl, rfl, ?_⟩
                      exact dechunkRewrite_case _ _ cst hh
                    | incomplete => exact ⟨rfl, rfl, rfl, rfl, rfl, rfl, rfl, hh⟩
                · exact ⟨rfl, rfl, rfl, rfl, rfl, rfl, rfl, hh⟩

/-- the natural instance: `hb` is exactly a complete header block -/
theorem C18_response_stream_case_block (hl : Option Nat) (first hb hb' tail : Bytes) (e : Nat) (hs0 : List Header)
    (hf : findCrlf first = some e) (hlen : first.length = e + 2) (hcase : lower hb = lower hb')
    (hblock : Headers.parse hl [] hb = .ok (hs0, .complete, hb.length)) :
    RespCaseRel ((respSys hl).parse Response.new (first ++ (hb ++ tail)))
                ((respSys hl).parse Response.new (first ++ (hb' ++ tail))) := by
  apply C18_response_stream_case hl first hb hb' tail e hf hlen hcase
  intro hs c hp
  have h1 := Headers.parse_complete_unstrip hp
  have h2 := (Headers.parse_append_complete hblock tail).1
  rw [h1] at h2
  cases h2
  exact Nat.le_refl _

theorem parse_strip_block {hl : Option Nat} {hb : Bytes} {hs0 : List Header} (tail : Bytes)
    (hblock : Headers.parse hl [] hb = .ok (hs0, .complete, hb.length)) :
    Headers.parse hl [] (stripDanglingCr (hb ++ tail)) = .ok (hs0, .complete, hb.length) := by
  by_cases ht : tail = []
  · subst ht
    have hl' := Headers.parse_complete_last hblock
    unfold stripDanglingCr
    rw [List.append_nil, hl']
    simp only [Option.some.injEq, LF, CR]
    rw [if_neg (by decide)]
    exact hblock
  · unfold stripDanglingCr
    split
    · rw [List.dropLast_append_of_ne_nil ht]
      exact (Headers.parse_append_complete hblock _).1
    · exact (Headers.parse_append_complete hblock _).1

theorem request_block_body_offset (u : UriImpl) (cfg : ReqCfg) (first hb tail : Bytes) (e : Nat) (hs0 : List Header)
    (hf : findCrlf first = some e) (hlen : first.length = e + 2)
    (hblock : Headers.parse cfg.hl [] hb = .ok (hs0, .complete, hb.length)) :
    match (requestSys u cfg).parse (Request.new u) (first ++ (hb ++ tail)) with
    | .ok _ a n => first.length + hb.length + a.body.length ≤ n
    | .fail _ => True := by
  rw [C03_verdict]
  unfold requestVerdict
  rw [findCrlf_append_of_some hf]
  simp only
  have htake : ∀ x : Bytes, (first ++ x).take e = first.take e := by
    intro x; exact List.take_append_of_le_length (by omega)
  have hdrop : ∀ x : Bytes, (first ++ x).drop (e + 2) = x := by
    intro x; exact List.drop_left' hlen
  rw [htake, hdrop, parse_strip_block tail hblock]
  by_cases hrl : overLimit cfg.rl e = true
  · rw [if_pos hrl]; trivial
  · rw [if_neg hrl]
    by_cases hv : (!validUtf8 (first.take e)) = true
    · rw [if_pos hv]; trivial
    · rw [if_neg hv]
      cases countR cfg.max 0 (e + 2) with
      | error f => trivial
      | ok t1 =>
        simp only
        cases parseRequestLine u (first.take e) with
        | error c => trivial
        | ok mt =>
          obtain ⟨m, tg⟩ := mt
          simp only
          cases countR cfg.max t1 hb.length with
          | error f => trivial
          | ok t2 =>
            simp only
            unfold bodyVerdict
            cases headerValue hs0 kContentLength with
            | none => simp [Request.new, hlen]
            | some v =>
              simp only
              cases parseNumber ⟨true⟩ 10 v with
              | none => trivial
              | some cl =>
                simp only
                cases countR cfg.max t2 cl with
                | error f => trivial
                | ok t3 =>
                  simp only
                  by_cases hge : ((hb ++ tail).drop hb.length).length ≥ cl
                  · rw [if_pos hge]
                    simp only [List.length_take, hlen]
                    omega
                  · rw [if_neg hge]
                    by_cases he : early cfg.max t3 0 = true
                    · rw [if_pos he]; trivial
                    · rw [if_neg he]; simp only [hlen]; omega

/-- requests: with `hb` exactly a complete header block the bodies are identical -/
theorem C18_request_stream_case_block (u : UriImpl) (cfg : ReqCfg) (first hb hb' tail : Bytes) (e : Nat) (hs0 : List Header)
    (hf : findCrlf first = some e) (hlen : first.length = e + 2) (hcase : lower hb = lower hb')
    (hblock : Headers.parse cfg.hl [] hb = .ok (hs0, .complete, hb.length)) :
    match (requestSys u cfg).parse (Request.new u) (first ++ (hb ++ tail)),
          (requestSys u cfg).parse (Request.new u) (first ++ (hb' ++ tail)) with
    | .fail e, .fail e' => e = e'
    | .ok st a n, .ok st' a' n' => st = st' ∧ n = n' ∧ a.method = a'.method ∧ a.target = a'.target ∧
        a.phase = a'.phase ∧ a.totalBytes = a'.totalBytes ∧ a.headers.map lowerH = a'.headers.map lowerH ∧ a.body = a'.body
    | _, _ => False := by
  have hrel := C18_request_stream_case u cfg first hb hb' tail e hf hlen hcase
  have hoff := request_block_body_offset u cfg first hb tail e hs0 hf hlen hblock
  cases h1 : (requestSys u cfg).parse (Request.new u) (first ++ (hb ++ tail)) with
  | fail f =>
    cases h2 : (requestSys u cfg).parse (Request.new u) (first ++ (hb' ++ tail)) with
    | fail f' => rw [h1, h2] at hrel; exact hrel
    | ok st' a' n' => rw [h1, h2] at hrel; exact hrel
  | ok st a n =>
    cases h2 : (requestSys u cfg).parse (Request.new u) (first ++ (hb' ++ tail)) with
    | fail f' => rw [h1, h2] at hrel; exact hrel
    | ok st' a' n' =>
      rw [h1, h2] at hrel
      rw [h1] at hoff
      obtain ⟨r1, r2, r3, r4, r5, r6, r7, _, r9⟩ := hrel
      exact ⟨r1, r2, r3, r4, r5, r6, r7, r9 hoff⟩

/-- the bridge to content decoding: header lists equal up to case (as the stream-level theorems deliver them) give
    the same decoded body -/
theorem C18_decode_after_parse {gz fl : Bytes → Option Bytes} {hs hs' : List Header}
    (h : hs.map lowerH = hs'.map lowerH) (body : Bytes) :
    (decodeBody gz fl hs body).2 = (decodeBody gz fl hs' body).2 :=
  C18_decode_case (hdrEquivCI_of_lowerH h) body

/-- the hypotheses are satisfiable: `GET / HTTP/1.1`, `Host: a` against `HOST: A` -/
example : findCrlf ([71, 69, 84, 32, 47, 32, 72, 84, 84, 80, 47, 49, 46, 49, 13, 10] : Bytes) = some 14 ∧
    lower ([72, 111, 115, 116, 58, 32, 97, 13, 10, 13, 10] : Bytes) = lower [72, 79, 83, 84, 58, 32, 65, 13, 10, 13, 10] := by
  decide
