import Hm.Response
import Hm.ReqSys
import Hm.HeaderLaws3

/-! the chunked-body decoder of the repaired tree as a `Sys` (reservations erased) -/

def csizeStep (c : ChunkState) (rem : Bytes) : Res Fail ChunkState :=
  match findCrlf rem with
  | none => .ok .incomplete c 0
  | some e =>
    if !validUtf8 (rem.take e) then .fail (.err .ChunkSizeLineNotValidText) else
    match parseChunkSize ⟨true⟩ (rem.take e) with
    | none => .fail (.err .InvalidChunkSize)
    | some n => .ok .completePart { c with needed := n, phase := if n = 0 then .trailer else .chunkData } (e + 2)

def cdataStep (c : ChunkState) (rem : Bytes) : Res Fail ChunkState :=
  let k := min rem.length c.needed
  if c.needed - k = 0 then
    .ok .completePart { c with needed := 0, buffer := c.buffer ++ rem.take k, phase := .chunkTerminator } k
  else .ok .incomplete { c with needed := c.needed - k, buffer := c.buffer ++ rem.take k } k

def ctermStep (c : ChunkState) (rem : Bytes) : Res Fail ChunkState :=
  match rem with
  | [] => .ok .incomplete c 0
  | [b] => if b = CR then .ok .incomplete c 0 else .fail (.err .InvalidChunkTerminator)
  | a :: b :: _ =>
    if a = CR ∧ b = LF then .ok .completePart { c with phase := .chunkSize } 2
    else .fail (.err .InvalidChunkTerminator)

def ctrailerStep (c : ChunkState) (rem : Bytes) : Res Fail ChunkState :=
  match Headers.parse none c.trailer rem with
  | .error e => .fail (.err (.Trailer e))
  | .ok (hs, .complete, n) => .ok .completeWhole { c with trailer := hs } n
  | .ok (hs, .incomplete, n) => .ok .incomplete { c with trailer := hs } n

def chunkStep (c : ChunkState) (rem : Bytes) : Res Fail ChunkState :=
  match c.phase with
  | .chunkData => cdataStep c rem
  | .chunkSize => csizeStep c rem
  | .chunkTerminator => ctermStep c rem
  | .trailer => ctrailerStep c rem

def chunkRank : ChunkPhase → Nat
  | .chunkData => 2 | .chunkTerminator => 1 | .chunkSize => 0 | .trailer => 0

def chunkSys : Sys Fail ChunkState :=
  { step := chunkStep, μ := fun c n => 3 * n + chunkRank c.phase + 1, oof := .oof }

/-! ### laws, phase by phase (they hold in every state) -/

theorem csizeStep_p1 {c c' : ChunkState} {rem : Bytes} {n : Nat} {i : Internal}
    (h : csizeStep c rem = .ok i c' n) (hi : i ≠ .incomplete) (d : Bytes) :
    csizeStep c (rem ++ d) = .ok i c' n := by
  unfold csizeStep at h ⊢
  cases hf : findCrlf rem with
  | none => simp [hf] at h; exact absurd h.1.symm hi
  | some e =>
    simp only [hf] at h
    simp only [findCrlf_append_of_some hf d, take_append_of_findCrlf hf d]
    exact h

theorem csizeStep_incomplete {c c' : ChunkState} {rem : Bytes} {n : Nat}
    (h : csizeStep c rem = .ok .incomplete c' n) : c' = c ∧ n = 0 := by
  unfold csizeStep at h
  cases hf : findCrlf rem with
  | none => simp [hf] at h; exact ⟨h.1.symm, h.2.symm⟩
  | some e =>
    simp only [hf] at h
    split at h
    · simp at h
    · split at h <;> simp at h

theorem csizeStep_p3 {c : ChunkState} {rem : Bytes} {e : Fail}
    (h : csizeStep c rem = .fail e) (d : Bytes) : csizeStep c (rem ++ d) = .fail e := by
  unfold csizeStep at h ⊢
  cases hf : findCrlf rem with
  | none => simp [hf] at h
  | some i =>
    simp only [hf] at h
    simp only [findCrlf_append_of_some hf d, take_append_of_findCrlf hf d]
    exact h

theorem csizeStep_ok {c c' : ChunkState} {rem : Bytes} {n : Nat} {i : Internal}
    (h : csizeStep c rem = .ok i c' n) :
    n ≤ rem.length ∧ (i = .completePart → 2 ≤ n) ∧ i ≠ .completeWhole := by
  unfold csizeStep at h
  cases hf : findCrlf rem with
  | none => simp [hf] at h; obtain ⟨rfl, _, rfl⟩ := h; simp
  | some e =>
    have := findCrlf_lt hf
    simp only [hf] at h
    split at h
    · simp at h
    · split at h
      · simp at h
      · simp at h; obtain ⟨rfl, _, rfl⟩ := h; simp; omega

theorem cdataStep_ok {c c' : ChunkState} {rem : Bytes} {n : Nat} {i : Internal}
    (h : cdataStep c rem = .ok i c' n) :
    n ≤ rem.length ∧ i ≠ .completeWhole ∧ (i = .completePart → c'.phase = .chunkTerminator) ∧
    (i = .incomplete → c'.phase = c.phase) := by
  unfold cdataStep at h
  simp only at h
  split at h
  · simp at h; obtain ⟨rfl, rfl, rfl⟩ := h; simp; omega
  · simp at h; obtain ⟨rfl, rfl, rfl⟩ := h; simp; omega

theorem cdataStep_p1 {c c' : ChunkState} {rem : Bytes} {n : Nat} {i : Internal}
    (h : cdataStep c rem = .ok i c' n) (hi : i ≠ .incomplete) (d : Bytes) :
    cdataStep c (rem ++ d) = .ok i c' n := by
  unfold cdataStep at h ⊢
  simp only at h ⊢
  split at h
  · rename_i hz
    have hk : min rem.length c.needed = c.needed := by omega
    have hk' : min (rem ++ d).length c.needed = c.needed := by simp; omega
    rw [hk] at h
    rw [hk']
    simp only [Nat.sub_self, if_true]
    rw [List.take_append_of_le_length (by omega)]
    simpa using h
  · simp at h; exact absurd h.1.symm hi

theorem cdataStep_p2 {c c' : ChunkState} {rem : Bytes} {n : Nat}
    (h : cdataStep c rem = .ok .incomplete c' n) (d : Bytes) :
    cdataStep c (rem ++ d) = (cdataStep c' (rem.drop n ++ d)).shift n := by
  unfold cdataStep at h
  simp only at h
  split at h
  · simp at h
  · rename_i hnz
    simp only [Res.ok.injEq, true_and] at h
    obtain ⟨rfl, rfl⟩ := h
    have hlt : rem.length < c.needed := by omega
    have hk : min rem.length c.needed = rem.length := by omega
    simp only [hk, List.drop_length, List.nil_append, List.take_length]
    unfold cdataStep
    simp only
    by_cases hd : (rem ++ d).length ≥ c.needed
    · have h1 : min (rem ++ d).length c.needed = c.needed := by omega
      have h2 : min d.length (c.needed - rem.length) = c.needed - rem.length := by simp at hd; omega
      rw [h1, h2]
      simp only [Nat.sub_self, if_true, Res.shift]
      have ht : (rem ++ d).take c.needed = rem ++ d.take (c.needed - rem.length) := by
        rw [List.take_append, List.take_of_length_le (by omega)]
      rw [ht]
      simp only [Res.ok.injEq, true_and, List.append_assoc]
      omega
    · have h1 : min (rem ++ d).length c.needed = (rem ++ d).length := by omega
      have h2 : min d.length (c.needed - rem.length) = d.length := by simp at hd; omega
      rw [h1, h2]
      have hn1 : ¬ c.needed - (rem ++ d).length = 0 := by omega
      have hn2 : ¬ c.needed - rem.length - d.length = 0 := by simp at hd; omega
      simp only [hn1, hn2, if_false, Res.shift, List.take_length]
      simp only [Res.ok.injEq, true_and, List.append_assoc, List.length_append]
      refine ⟨?_, trivial⟩
      congr 1; omega

theorem ctermStep_ok {c c' : ChunkState} {rem : Bytes} {n : Nat} {i : Internal}
    (h : ctermStep c rem = .ok i c' n) :
    n ≤ rem.length ∧ i ≠ .completeWhole ∧ (i = .completePart → n = 2 ∧ c'.phase = .chunkSize) ∧
    (i = .incomplete → c' = c ∧ n = 0) := by
  unfold ctermStep at h
  split at h
  · simp at h; obtain ⟨rfl, rfl, rfl⟩ := h; simp
  · split at h
    · simp at h; obtain ⟨rfl, rfl, rfl⟩ := h; simp
    · simp at h
  · split at h
    · simp at h; obtain ⟨rfl, rfl, rfl⟩ := h; simp
    · simp at h

theorem ctermStep_p1 {c c' : ChunkState} {rem : Bytes} {n : Nat} {i : Internal}
    (h : ctermStep c rem = .ok i c' n) (hi : i ≠ .incomplete) (d : Bytes) :
    ctermStep c (rem ++ d) = .ok i c' n := by
  unfold ctermStep at h
  split at h
  · simp at h; exact absurd h.1.symm hi
  · split at h
    · simp at h; exact absurd h.1.symm hi
    · simp at h
  · rename_i a b rest
    simp only [List.cons_append]
    unfold ctermStep
    exact h

theorem ctermStep_p3 {c : ChunkState} {rem : Bytes} {e : Fail}
    (h : ctermStep c rem = .fail e) (d : Bytes) : ∃ e', ctermStep c (rem ++ d) = .fail e' := by
  unfold ctermStep at h
  split at h
  · simp at h
  · rename_i b
    split at h
    · simp at h
    · rename_i hb
      cases d with
      | nil => simp [ctermStep, hb]
      | cons x d => simp [ctermStep, hb]
  · rename_i a b rest
    split at h
    · simp at h
    · rename_i hab
      simp only [List.cons_append]
      unfold ctermStep
      simp [hab]

theorem ctrailerStep_ok {c c' : ChunkState} {rem : Bytes} {n : Nat} {i : Internal}
    (h : ctrailerStep c rem = .ok i c' n) :
    n ≤ rem.length ∧ i ≠ .completePart ∧ c'.phase = c.phase := by
  unfold ctrailerStep at h
  cases hp : Headers.parse none c.trailer rem with
  | error e => simp [hp] at h
  | ok r =>
    obtain ⟨hs, st, m⟩ := r
    have hc := parseLoop_consumed (by unfold Headers.parse at hp; exact hp)
    cases st <;> (simp [hp] at h; obtain ⟨rfl, rfl, rfl⟩ := h; simp; omega)

theorem ctrailerStep_p1 {c c' : ChunkState} {rem : Bytes} {n : Nat} {i : Internal}
    (h : ctrailerStep c rem = .ok i c' n) (hi : i ≠ .incomplete) (d : Bytes) :
    ctrailerStep c (rem ++ d) = .ok i c' n := by
  unfold ctrailerStep at h ⊢
  cases hp : Headers.parse none c.trailer rem with
  | error e => simp [hp] at h
  | ok r =>
    obtain ⟨hs, st, m⟩ := r
    cases st with
    | incomplete => simp [hp] at h; exact absurd h.1.symm hi
    | complete =>
      rw [(Headers.parse_append_complete hp d).1]
      simpa [hp] using h

theorem ctrailerStep_p2 {c c' : ChunkState} {rem : Bytes} {n : Nat}
    (h : ctrailerStep c rem = .ok .incomplete c' n) (d : Bytes) :
    ctrailerStep c (rem ++ d) = (ctrailerStep c' (rem.drop n ++ d)).shift n := by
  unfold ctrailerStep at h
  cases hp : Headers.parse none c.trailer rem with
  | error e => simp [hp] at h
  | ok r =>
    obtain ⟨hs, st, m⟩ := r
    cases st with
    | complete => simp [hp] at h
    | incomplete =>
      simp only [hp, Res.ok.injEq, true_and] at h
      obtain ⟨rfl, rfl⟩ := h
      obtain ⟨_, hfuse⟩ := Headers.parse_append_incomplete hp d
      unfold ctrailerStep
      rw [hfuse]
      simp only
      cases Headers.parse none hs (rem.drop m ++ d) with
      | error e => simp [shiftConsumed, Res.shift]
      | ok r2 =>
        obtain ⟨hs2, st2, m2⟩ := r2
        cases st2 <;> simp [shiftConsumed, Res.shift]

theorem ctrailerStep_p3 {c : ChunkState} {rem : Bytes} {e : Fail}
    (h : ctrailerStep c rem = .fail e) (d : Bytes) : ∃ e', ctrailerStep c (rem ++ d) = .fail e' := by
  unfold ctrailerStep at h ⊢
  cases hp : Headers.parse none c.trailer rem with
  | error e0 =>
    obtain ⟨e1, he1⟩ := Headers.parse_append_error hp d (Or.inl rfl)
    rw [he1]; exact ⟨_, rfl⟩
  | ok r =>
    obtain ⟨hs, st, m⟩ := r
    cases st <;> simp [hp] at h

theorem chunkSys_lawful : chunkSys.Lawful (fun _ => True) where
  pos := by intro s n; simp [chunkSys]
  mono := by intro s n m h; simp only [chunkSys]; omega
  inv := by intros; trivial
  le := by
    intro s b i s' c _ h
    simp only [chunkSys, chunkStep] at h
    split at h
    · exact (cdataStep_ok h).1
    · exact (csizeStep_ok h).1
    · exact (ctermStep_ok h).1
    · exact (ctrailerStep_ok h).1
  p1 := by
    intro s b i s' c _ h hi d
    simp only [chunkSys, chunkStep] at h ⊢
    split at h
    · exact cdataStep_p1 h hi d
    · exact csizeStep_p1 h hi d
    · exact ctermStep_p1 h hi d
    · exact ctrailerStep_p1 h hi d
  p2 := by
    intro s b s' c _ h d
    simp only [chunkSys, chunkStep] at h ⊢
    split at h
    · rename_i hph
      have := (cdataStep_ok h).2.2.2 rfl
      rw [this, hph]; simp only
      exact cdataStep_p2 h d
    · rename_i hph
      obtain ⟨rfl, rfl⟩ := csizeStep_incomplete h
      simp only [hph, List.drop_zero]
      cases csizeStep s' (b ++ d) <;> simp [Res.shift]
    · rename_i hph
      obtain ⟨rfl, rfl⟩ := (ctermStep_ok h).2.2.2 rfl
      simp only [hph, List.drop_zero]
      cases ctermStep s' (b ++ d) <;> simp [Res.shift]
    · rename_i hph
      have := (ctrailerStep_ok h).2.2
      rw [this, hph]; simp only
      exact ctrailerStep_p2 h d
  p3 := by
    intro s b e _ h d
    simp only [chunkSys, chunkStep] at h ⊢
    split at h
    · unfold cdataStep at h; simp only at h; split at h <;> simp at h
    · exact ⟨e, csizeStep_p3 h d⟩
    · exact ctermStep_p3 h d
    · exact ctrailerStep_p3 h d
  dec := by
    intro s b s' c _ h
    simp only [chunkSys, chunkStep] at h
    simp only [chunkSys]
    split at h
    · rename_i hph
      have := cdataStep_ok h
      have h3 := this.2.2.1 rfl
      rw [hph, h3]; simp [chunkRank]; omega
    · rename_i hph
      have := csizeStep_ok h
      have h2 := this.2.1 rfl
      rw [hph]
      have hr : chunkRank s'.phase ≤ 2 := by cases s'.phase <;> simp [chunkRank]
      generalize chunkRank s'.phase = r at hr ⊢
      simp [chunkRank]; omega
    · rename_i hph
      have := ctermStep_ok h
      obtain ⟨h2, h3⟩ := this.2.2.1 rfl
      rw [hph, h3]; simp [chunkRank]; omega
    · have := (ctrailerStep_ok h).2.1; simp at this
