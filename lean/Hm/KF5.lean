import Hm.Inflate

/-! Known finding KF5 (C13, C15): a gzip body is a series of members (RFC 1952 §2.2) and its content the
    concatenation of theirs; `flate2::bufread::GzDecoder`, which `decode_body` uses, reads the first member and ignores
    whatever follows.  The model of the decoder (`gunzip`) describes the crate, so the statements are about the model and
    are replayed on the crate by the checks (families `gzip-multi-member` of C13 and C15): two members holding `a` and
    `b` decode to `a`, and so does the same stream with its last three bytes cut off — a strict truncation that is not
    noticed. -/

def kf5TwoMembers : Bytes :=
  [31, 139, 8, 0, 0, 0, 0, 0, 0, 255, 1, 1, 0, 254, 255, 97, 67, 190, 183, 232, 1, 0, 0, 0,
   31, 139, 8, 0, 0, 0, 0, 0, 0, 255, 1, 1, 0, 254, 255, 98, 249, 239, 190, 113, 1, 0, 0, 0]

theorem KF5_gunzip_first_member_only :
    gunzip kf5TwoMembers = some [97] ∧ gunzip (kf5TwoMembers.take 45) = some [97] ∧
    gunzip (kf5TwoMembers.take 24) = some [97] ∧ gunzip (kf5TwoMembers.drop 24) = some [98] := by
  refine ⟨?_, ?_, ?_, ?_⟩ <;> decide +kernel
