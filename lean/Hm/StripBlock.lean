import Hm.HeaderRoundTrip
import Hm.Common

/-! a generated header block ends in CRLF CRLF, so holding back a dangling CR never touches it -/

theorem strip_append_crlf_block (hs : List Header) (X : Bytes) :
    ∃ X', stripDanglingCr (genBlock hs ++ X) = genBlock hs ++ X' := by
  by_cases hX : X = []
  · subst hX
    refine ⟨[], ?_⟩
    unfold stripDanglingCr
    have : (genBlock hs ++ []).getLast? = some LF := by simp [genBlock, CRLF]
    rw [this]; simp [LF, CR]
  · refine ⟨stripDanglingCr X, ?_⟩
    unfold stripDanglingCr
    have : (genBlock hs ++ X).getLast? = X.getLast? := by
      rw [List.getLast?_append]; cases h : X.getLast? with
      | none => simp [List.getLast?_eq_none_iff] at h; exact absurd h hX
      | some y => simp
    rw [this]
    split
    · rw [List.dropLast_append_of_ne_nil hX]
    · rfl

