import Hm.FramingOnly
import Hm.Coding
import Hm.Text

/-! Decoding looks at its own fields only.  The decoded content depends on the `Content-Encoding` fields of the
    header list and on nothing else in it (C13, C15: not on Content-Type, Content-Range, ETag, Connection, …); the decoded
    text on the `Content-Type` fields and on nothing else (C16: not on a Content-Encoding left in place). -/

def isContentEncodingField (h : Header) : Bool := nameEq h.name kContentEncoding
def isContentTypeField (h : Header) : Bool := nameEq h.name kContentType

/-- C13 / C15: same Content-Encoding fields (in order) ⇒ same decoded content, or failure alike -/
theorem C13_decode_only_content_encoding (gz fl : Bytes → Option Bytes) (hs : List Header) (body : Bytes) :
    (decodeBody gz fl hs body).2 = (decodeBody gz fl (hs.filter isContentEncodingField) body).2 := by
  unfold decodeBody
  rw [headerTokens_filter hs isContentEncodingField kContentEncoding (fun h hn => by simp [isContentEncodingField, hn])]
  cases decodeRev gz fl (headerTokens hs kContentEncoding).reverse body with
  | none => rfl
  | some r => rfl

theorem C13_decode_other_fields (gz fl : Bytes → Option Bytes) {hs hs' : List Header} (body : Bytes)
    (h : hs.filter isContentEncodingField = hs'.filter isContentEncodingField) :
    (decodeBody gz fl hs body).2 = (decodeBody gz fl hs' body).2 := by
  rw [C13_decode_only_content_encoding gz fl hs, C13_decode_only_content_encoding gz fl hs', h]

/-- a field of any other name, with any value, anywhere in the list, does not change what is decoded — in particular
    not whether a damaged body is refused (C15) -/
theorem C15_decode_insert_other (gz fl : Bytes → Option Bytes) (hs₁ hs₂ : List Header) (x : Header) (body : Bytes)
    (hx : isContentEncodingField x = false) :
    (decodeBody gz fl (hs₁ ++ x :: hs₂) body).2 = (decodeBody gz fl (hs₁ ++ hs₂) body).2 := by
  apply C13_decode_other_fields
  simp [List.filter_append, hx]

/-- C16: same Content-Type fields ⇒ same text -/
theorem C16_text_only_content_type (hs : List Header) (body : Bytes) :
    decodeBodyAsText hs body = decodeBodyAsText (hs.filter isContentTypeField) body := by
  unfold decodeBodyAsText
  rw [headerValue_filter hs isContentTypeField kContentType (fun h hn => by simp [isContentTypeField, hn])]

theorem C16_text_insert_other (hs₁ hs₂ : List Header) (x : Header) (body : Bytes)
    (hx : isContentTypeField x = false) :
    decodeBodyAsText (hs₁ ++ x :: hs₂) body = decodeBodyAsText (hs₁ ++ hs₂) body := by
  rw [C16_text_only_content_type (hs₁ ++ x :: hs₂), C16_text_only_content_type (hs₁ ++ hs₂)]
  simp [List.filter_append, hx]

#guard isContentTypeField ⟨str "Content-Encoding", str "br"⟩ = false
#guard isContentEncodingField ⟨str "Content-Range", str "bytes 0-9/100"⟩ = false
#guard isContentEncodingField ⟨str "content-ENCODING", str "gzip"⟩ = true
