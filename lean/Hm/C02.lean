import Hm.RespLaws

/-- C02 for the repaired tree (normalised boundary), for every header line limit `hl` the caller may have set: every way of cutting a response stream into
    deliveries ends like the one-piece delivery — same verdict class, same state, same boundary -/
theorem C02_response_delivery_independent (hl : Option Nat) (d : Bytes) (ds : List Bytes) :
    let c0 : GConn Fail RespState := { st := Response.new, pending := [], total := 0, verdict := .more }
    Sys.Equiv ((respSys hl).run c0 (d :: ds)) ((respSys hl).run c0 [d ++ ds.flatten]) :=
  Sys.run_flatten (respSys_lawful hl) _ respInv_new d ds

/-- the same for the chunked-body decoder on its own (C05, delivery part) -/
theorem C05_chunk_delivery_independent (d : Bytes) (ds : List Bytes) :
    let c0 : GConn Fail ChunkState := { st := ChunkState.new, pending := [], total := 0, verdict := .more }
    Sys.Equiv (chunkSys.run c0 (d :: ds)) (chunkSys.run c0 [d ++ ds.flatten]) :=
  Sys.run_flatten chunkSys_lawful _ trivial d ds

/-- C09 (first half), requests and responses: bytes after a complete message change nothing -/
theorem C09_response_suffix_irrelevant (hl : Option Nat) {s' : RespState} {raw : Bytes} {c : Nat}
    (h : (respSys hl).parse Response.new raw = .ok .complete s' c) (t : Bytes) :
    (respSys hl).parse Response.new (raw ++ t) = .ok .complete s' c :=
  Sys.parse_append_complete (respSys_lawful hl) respInv_new h t
