import Hm.ReqLaws4

variable {u : UriImpl}

/-- where an incomplete run of the header loop stops, the next step is undecided -/
theorem parseLoop_incomplete_more {limit : Option Nat} {f : Nat} {hs hs' : List Header} {rest : Bytes}
    {off c : Nat} (h : parseLoop limit f hs rest off = .ok (hs', .incomplete, c)) (hf : rest.length + 1 ≤ f) :
    headerStep limit (rest.drop (c - off)) = .ok .more := by
  induction f generalizing hs rest off with
  | zero => omega
  | succ f ih =>
    unfold parseLoop at h
    cases hst : headerStep limit rest with
    | error e => simp [hst] at h
    | ok st =>
      cases st with
      | more => simp [hst] at h; obtain ⟨_, rfl⟩ := h; simpa using hst
      | done => simp [hst] at h
      | field hh n =>
        simp only [hst] at h
        have hb := headerStep_field_bounds hst
        have hc := parseLoop_consumed h
        have := ih h (by simp; omega)
        rw [List.drop_drop] at this
        rw [show c - off = n + (c - (off + n)) by omega]
        exact this

theorem early_true_isSome {max : Option Nat} {t p : Nat} (h : early max t p = true) : max.isSome = true := by
  unfold early overLimit at h; cases max <;> simp_all

theorem hdrStep_p3 {cfg : ReqCfg} {s : ReqState u} {rem : Bytes} {e : Fail}
    (h : hdrStep cfg s rem = .fail e) (d : Bytes) : ∃ e', hdrStep cfg s (rem ++ d) = .fail e' := by
  have hns := strip_tail_nostraddle rem d
  unfold hdrStep at h
  cases hp : Headers.parse cfg.hl s.headers (stripDanglingCr rem) with
  | error e0 =>
    obtain ⟨e1, he1⟩ := Headers.parse_append_error hp (tailOf rem d) (Or.inr hns)
    unfold hdrStep
    rw [strip_append, he1]; exact ⟨_, rfl⟩
  | ok r =>
    obtain ⟨hs, st, c0⟩ := r
    simp only [hp] at h
    cases st with
    | complete =>
      -- completion is stable, so the same failure recurs
      unfold hdrStep
      rw [strip_append, (Headers.parse_append_complete hp (tailOf rem d)).1]
      exact ⟨e, h⟩
    | incomplete =>
      obtain ⟨hc0, hfuse⟩ := Headers.parse_append_incomplete hp (tailOf rem d)
      unfold hdrStep
      rw [strip_append, hfuse]
      cases hr : Headers.parse cfg.hl hs ((stripDanglingCr rem).drop c0 ++ tailOf rem d) with
      | error e1 => exact ⟨_, rfl⟩
      | ok r2 =>
        obtain ⟨hs2, st2, c2⟩ := r2
        simp only [shiftConsumed]
        cases hcount : countR cfg.max s.totalBytes c0 with
        | error f =>
          obtain ⟨f', hf'⟩ := countR_error_mono hcount (show c0 ≤ c0 + c2 by omega)
          rw [hf']; exact ⟨_, rfl⟩
        | ok t =>
          simp only [hcount] at h
          have hearly : early cfg.max t (rem.length - c0) = true := by
            apply Decidable.byContradiction; intro hc; simp [hc] at h
          have hsome := early_true_isSome hearly
          have ht := countR_ok_ge hcount hsome
          rw [countR_assoc hcount c2]
          cases hcount2 : countR cfg.max t c2 with
          | error f => exact ⟨_, rfl⟩
          | ok t2 =>
            have ht2 := countR_ok_ge hcount2 hsome
            have hcons := parseLoop_consumed (by unfold Headers.parse at hr; exact hr)
            simp only [List.length_append, List.length_drop, Nat.zero_add] at hcons
            have hlen : (stripDanglingCr rem).length + (tailOf rem d).length = (stripDanglingCr (rem ++ d)).length := by
              rw [strip_append]; simp
            have hle2 := strip_length_le (rem ++ d)
            have hge := strip_length_ge rem
            simp only
            cases st2 with
            | incomplete =>
              simp only
              have : early cfg.max t2 (rem.length + d.length - (c0 + c2)) = true := by
                unfold early at hearly ⊢
                apply overLimit_mono hearly
                simp at hle2; omega
              simp [this]
            | complete =>
              -- completion inside the undecided bytes is impossible, so the count is over the maximum
              exfalso
              have hm := parseLoop_incomplete_more (by unfold Headers.parse at hp; exact hp) (Nat.le_refl _)
              simp only [Nat.sub_zero] at hm
              have hgt := parseLoop_complete_gt hm (by unfold Headers.parse at hr; exact hr)
                (by
                  rcases hns with g | g
                  · exact Or.inr (Or.inl (getLast?_drop_ne_CR g))
                  · exact Or.inr (Or.inr g))
              simp only [Nat.zero_add, List.length_drop] at hgt
              have : overLimit cfg.max t2 = true := by
                unfold early at hearly
                apply overLimit_mono hearly
                omega
              rw [ht2.2] at this; simp at this

/-! ### the instance -/

theorem reqInv_new (cfg : ReqCfg) : ReqInv cfg (Request.new u) := by simp [ReqInv, Request.new]

theorem requestSys_lawful (cfg : ReqCfg) : (requestSys u cfg).Lawful (ReqInv cfg) where
  pos := by intro s n; simp only [requestSys, reqμ]; split <;> omega
  mono := by intro s n m _; simp [requestSys, reqμ]
  le := by
    intro s b i s' c hI h
    simp only [requestSys, reqStep] at h
    split at h
    · exact bodyStep_le h
    · exact hdrStep_le h
    · exact rlStep_le h
  inv := by
    intro s b i s' c hI h _
    simp only [requestSys, reqStep] at h
    unfold ReqInv at hI ⊢
    split at h
    · rename_i n hph
      simp only [hph] at hI
      have hp := bodyStep_phase h
      rw [hp.1, hph]; simp only
      unfold bodyStep at h
      split at h
      · simp at h
      · split at h
        · simp at h; obtain ⟨_, rfl, _⟩ := h; simp; exact ⟨by omega, hI.2⟩
        · split at h
          · simp at h
          · simp at h; obtain ⟨_, rfl, _⟩ := h; simp; exact ⟨by omega, hI.2⟩
    · rename_i hph
      simp only [hph] at hI
      cases i with
      | completePart =>
        obtain ⟨cl, h1, h2, h3⟩ := hdrStep_complete_phase h
        rw [h1]; simp only; rw [h2, hI]; exact ⟨by simp, h3⟩
      | completeWhole =>
        have := hdrStep_other_phase h (by simp)
        rw [this.1, hph]; simp only; rw [this.2, hI]
      | incomplete =>
        have := hdrStep_other_phase h (by simp)
        rw [this.1, hph]; simp only; rw [this.2, hI]
    · rename_i hph
      simp only [hph] at hI
      cases i with
      | incomplete =>
        have := rlStep_incomplete h
        rw [this.1, hph]; simpa using hI
      | completePart =>
        have := rlStep_completePart h (by simp)
        rw [this.2.1]; simp only; rw [this.2.2, hI]
      | completeWhole =>
        have := rlStep_completePart h (by simp)
        simp at this
  p1 := by
    intro s b i s' c hI h hi d
    simp only [requestSys, reqStep] at h ⊢
    split at h
    · exact bodyStep_p1 h hi d
    · exact hdrStep_p1 h hi d
    · exact rlStep_p1 h hi d
  p2 := by
    intro s b s' c hI h d
    simp only [requestSys, reqStep] at h ⊢
    unfold ReqInv at hI
    split at h
    · rename_i n hph
      simp only [hph] at hI
      have hp := bodyStep_phase h
      rw [hp.1, hph]; simp only
      exact bodyStep_p2 hI.1 h d
    · rename_i hph
      have hp := hdrStep_other_phase h (by simp)
      rw [hp.1, hph]; simp only
      exact hdrStep_p2 h d
    · rename_i hph
      have := rlStep_incomplete h
      obtain ⟨rfl, rfl⟩ := this
      simp only [hph, List.drop_zero]
      cases rlStep u cfg s' (b ++ d) <;> simp [Res.shift]
  p3 := by
    intro s b e hI h d
    simp only [requestSys, reqStep] at h ⊢
    unfold ReqInv at hI
    split at h
    · rename_i n hph; simp only [hph] at hI; exact bodyStep_p3 hI h d
    · exact hdrStep_p3 h d
    · exact rlStep_p3 h d
  dec := by
    intro s b s' c hI h
    simp only [requestSys, reqStep] at h
    simp only [requestSys, reqμ]
    split at h
    · rename_i n hph
      unfold bodyStep at h
      split at h
      · simp at h
      · split at h
        · simp at h
        · split at h <;> simp at h
    · rename_i hph
      obtain ⟨cl, h1, _⟩ := hdrStep_complete_phase h
      simp [hph, h1]
    · rename_i hph
      have := rlStep_completePart h (by simp)
      simp [hph, this.2.1]

/-- C01 for the repaired tree: every way of cutting a stream into deliveries ends like the one-piece
    delivery — same verdict class, and the same state and consumed count unless the stream is rejected -/
theorem C01_request_delivery_independent (u : UriImpl) (cfg : ReqCfg) (d : Bytes) (ds : List Bytes) :
    let c0 : GConn Fail (ReqState u) := { st := Request.new u, pending := [], total := 0, verdict := .more }
    Sys.Equiv ((requestSys u cfg).run c0 (d :: ds)) ((requestSys u cfg).run c0 [d ++ ds.flatten]) :=
  Sys.run_flatten (requestSys_lawful cfg) _ (reqInv_new cfg) d ds
