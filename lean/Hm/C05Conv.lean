import Hm.C05
import Hm.ReqLaws5

/-! C05 (converse): whatever byte string the decoder reports complete on has, up to the point where it
    stopped, exactly the structure of a chunked body; the body is exactly the chunk-data ranges -/

theorem findCrlf_split {b : Bytes} {i : Nat} (h : findCrlf b = some i) :
    b = b.take i ++ CRLF ++ b.drop (i + 2) ∧ findCrlf (b.take i) = none := by
  fun_induction findCrlf b generalizing i with
  | case1 => simp at h
  | case2 => simp at h
  | case3 a b rest hc =>
    simp at h; subst h
    obtain ⟨rfl, rfl⟩ := hc
    simp [CRLF, findCrlf]
  | case4 a b rest hc ih =>
    simp only [Option.map_eq_some_iff] at h
    obtain ⟨j, hj, rfl⟩ := h
    obtain ⟨h1, h2⟩ := ih hj
    constructor
    · rw [List.take_succ_cons, show j + 1 + 2 = (j + 2) + 1 by omega, List.drop_succ_cons]
      simp only [List.cons_append]
      congr 1
    · rw [List.take_succ_cons]
      cases j with
      | zero => simp [findCrlf]
      | succ j =>
        rw [List.take_succ_cons] at h2 ⊢
        unfold findCrlf
        rw [if_neg hc, h2]; rfl

theorem headerStep_done_crlf {limit : Option Nat} {rest : Bytes} (h : headerStep limit rest = .ok .done) :
    rest.take 2 = CRLF := by
  unfold headerStep at h
  by_cases hr : rest = []
  · simp [hr] at h
  · rw [if_neg hr] at h
    cases hf : findCrlf rest with
    | none => simp only [hf] at h; split at h <;> simp at h
    | some i =>
      simp only [hf] at h
      split at h
      · simp at h
      · split at h
        · rename_i hi; subst hi
          have := (findCrlf_split hf).1
          rw [this]; simp [CRLF]
        · split at h
          · simp at h
          · rename_i name v0 _
            cases hu : unfold (rest.length + 1) (rest.drop (i + 2)) v0 0 with
            | error e => simp [hu, finishField] at h
            | ok o => cases o with
              | none => simp [hu, finishField] at h
              | some p => obtain ⟨v, n⟩ := p; simp [hu, finishField] at h

/-- a header block that the parser reports complete ends — at the point where the parser stopped — in CRLF -/
theorem parseLoop_complete_crlf {limit : Option Nat} {f : Nat} {hs hs' : List Header} {rest : Bytes} {off c : Nat}
    (h : parseLoop limit f hs rest off = .ok (hs', .complete, c)) :
    off + 2 ≤ c ∧ (rest.drop (c - off - 2)).take 2 = CRLF := by
  induction f generalizing hs rest off with
  | zero => simp [parseLoop] at h
  | succ f ih =>
    unfold parseLoop at h
    cases hstep : headerStep limit rest with
    | error e => simp [hstep] at h
    | ok st =>
      cases st with
      | more => simp [hstep] at h
      | done =>
        simp only [hstep, Except.ok.injEq, Prod.mk.injEq, true_and] at h
        obtain ⟨_, rfl⟩ := h
        refine ⟨by omega, ?_⟩
        rw [show off + 2 - off - 2 = 0 by omega]
        simpa using headerStep_done_crlf hstep
      | field hd n =>
        simp only [hstep] at h
        obtain ⟨h1, h2⟩ := ih h
        have hb := headerStep_field_bounds hstep
        refine ⟨by omega, ?_⟩
        rw [List.drop_drop] at h2
        rw [show c - off - 2 = n + (c - (off + n) - 2) by omega]
        exact h2

theorem Headers.parse_complete_last {limit : Option Nat} {hs hs' : List Header} {raw : Bytes}
    (h : Headers.parse limit hs raw = .ok (hs', .complete, raw.length)) : raw.getLast? = some LF := by
  unfold Headers.parse at h
  obtain ⟨h1, h2⟩ := parseLoop_complete_crlf h
  simp only [Nat.sub_zero] at h2
  have hsplit : raw = raw.take (raw.length - 2) ++ raw.drop (raw.length - 2) := (List.take_append_drop _ _).symm
  have hlen : (raw.drop (raw.length - 2)).length = 2 := by simp; omega
  have : raw.drop (raw.length - 2) = CRLF := by
    rw [← h2, List.take_of_length_le (by omega)]
  rw [hsplit, this]
  simp [CRLF]

/-- a complete header block is recognised from its own bytes: cutting the input where the parser
    stopped does not change the answer (any line limit) -/
theorem Headers.parse_cut {limit : Option Nat} {hs hs' : List Header} {rem : Bytes} {k : Nat}
    (h : Headers.parse limit hs rem = .ok (hs', .complete, k)) :
    Headers.parse limit hs (rem.take k) = .ok (hs', .complete, k) ∧ k ≤ rem.length := by
  have hk : k ≤ rem.length := by
    have := parseLoop_consumed (by unfold Headers.parse at h; exact h); omega
  refine ⟨?_, hk⟩
  have hsplit : rem = rem.take k ++ rem.drop k := (List.take_append_drop k rem).symm
  -- the block ends in CRLF, so nothing straddles the cut
  have hlastLF : (rem.take k).getLast? = some LF := by
    obtain ⟨h1, h2⟩ := parseLoop_complete_crlf (by unfold Headers.parse at h; exact h)
    simp only [Nat.sub_zero] at h2
    have e1 : rem.take k = rem.take (k - 2) ++ (rem.drop (k - 2)).take 2 := by
      rw [show k = (k - 2) + 2 by omega, List.take_add]; simp
    rw [e1, h2]; simp [CRLF]
  have hnoCR : (rem.take k).getLast? ≠ some CR := by rw [hlastLF]; simp [LF, CR]
  cases hp : Headers.parse limit hs (rem.take k) with
  | error e =>
    obtain ⟨e', he'⟩ := Headers.parse_append_error hp (rem.drop k) (Or.inr (Or.inl hnoCR))
    rw [← hsplit, h] at he'; cases he'
  | ok r =>
    obtain ⟨hs1, st, c⟩ := r
    cases st with
    | complete =>
      have := (Headers.parse_append_complete hp (rem.drop k)).1
      rw [← hsplit, h] at this
      cases this; rfl
    | incomplete =>
      exfalso
      obtain ⟨hc, happ⟩ := Headers.parse_append_incomplete hp (rem.drop k)
      rw [← hsplit, h] at happ
      have hsuf : ((rem.take k).drop c).getLast? ≠ some CR := by
        rw [List.getLast?_drop]; split
        · simp
        · exact hnoCR
      cases hr : Headers.parse limit hs1 ((rem.take k).drop c ++ rem.drop k) with
      | error e => rw [hr] at happ; simp [shiftConsumed] at happ
      | ok r2 =>
        obtain ⟨hs2, st2, n⟩ := r2
        rw [hr] at happ
        simp only [shiftConsumed, Except.ok.injEq, Prod.mk.injEq] at happ
        obtain ⟨rfl, rfl, rfl⟩ := happ
        have hm := parseLoop_incomplete_more (by unfold Headers.parse at hp; exact hp) (Nat.le_refl _)
        simp only [Nat.sub_zero] at hm
        have hgt := parseLoop_complete_gt hm (by unfold Headers.parse at hr; exact hr) (Or.inr (Or.inl hsuf))
        simp only [Nat.zero_add, List.length_drop, List.length_take] at hgt hc
        omega

/-- the grammar the decoder enforces, indexed by the decoder's own state: `Sound c pre st` says that
    from state `c` the bytes `pre` are exactly what is left of a chunked body, and that a decoder which
    has read them is in state `st` -/
inductive Sound : ChunkState → Bytes → ChunkState → Prop
  | size (c : ChunkState) (line rest : Bytes) (n : Nat) (st : ChunkState) :
      c.phase = .chunkSize → findCrlf line = none → validUtf8 line = true →
      parseChunkSize ⟨true⟩ line = some n →
      Sound { c with needed := n, phase := if n = 0 then .trailer else .chunkData } rest st →
      Sound c (line ++ CRLF ++ rest) st
  | data (c : ChunkState) (d rest : Bytes) (st : ChunkState) :
      c.phase = .chunkData → d.length = c.needed →
      Sound { c with needed := 0, buffer := c.buffer ++ d, phase := .chunkTerminator } rest st →
      Sound c (d ++ rest) st
  | term (c : ChunkState) (rest : Bytes) (st : ChunkState) :
      c.phase = .chunkTerminator → Sound { c with phase := .chunkSize } rest st →
      Sound c (CRLF ++ rest) st
  | trailer (c : ChunkState) (blk : Bytes) (hs : List Header) :
      c.phase = .trailer → Headers.parse none c.trailer blk = .ok (hs, .complete, blk.length) →
      Sound c blk { c with trailer := hs }

theorem chunkLoop_sound (f : Nat) : ∀ (c : ChunkState) (rem : Bytes) (acc : Nat) (st : ChunkState) (n : Nat),
    chunkSys.loop f c rem acc = some (.ok .complete st n) →
    acc ≤ n ∧ n - acc ≤ rem.length ∧ Sound c (rem.take (n - acc)) st := by
  induction f with
  | zero => intro c rem acc st n h; simp [Sys.loop] at h
  | succ f ih =>
    intro c rem acc st n h
    unfold Sys.loop at h
    rw [chunkSys_step] at h
    -- a `completePart` step: split the prefix at the step's consumption
    have hpart : ∀ (c' : ChunkState) (k : Nat), k ≤ rem.length →
        chunkSys.loop f c' (rem.drop k) (acc + k) = some (.ok .complete st n) →
        (∀ rest, Sound c' rest st → Sound c (rem.take k ++ rest) st) →
        acc ≤ n ∧ n - acc ≤ rem.length ∧ Sound c (rem.take (n - acc)) st := by
      intro c' k hk hl hs
      obtain ⟨h1, h2, h3⟩ := ih _ _ _ _ _ hl
      simp only [List.length_drop] at h2
      refine ⟨by omega, by omega, ?_⟩
      have : rem.take (n - acc) = rem.take k ++ (rem.drop k).take (n - (acc + k)) := by
        rw [show n - acc = k + (n - (acc + k)) by omega, List.take_add]
      rw [this]; exact hs _ h3
    cases hph : c.phase with
    | chunkSize =>
      unfold chunkStep at h; simp only [hph] at h
      unfold csizeStep at h
      cases hf : findCrlf rem with
      | none => simp [hf] at h
      | some e =>
        simp only [hf] at h
        by_cases hv : validUtf8 (rem.take e) = true
        · simp only [hv, Bool.not_true, Bool.false_eq_true, if_false] at h
          cases hn : parseChunkSize ⟨true⟩ (rem.take e) with
          | none => simp [hn] at h
          | some m =>
            simp only [hn] at h
            obtain ⟨hsp, hnone⟩ := findCrlf_split hf
            have hlt := findCrlf_lt hf
            refine hpart _ (e + 2) hlt h ?_
            intro rest hs
            have : rem.take (e + 2) = rem.take e ++ CRLF := by
              conv => lhs; rw [hsp]
              rw [List.take_append_of_le_length (by simp [CRLF]; omega)]
              rw [List.take_of_length_le (by simp [CRLF]; omega)]
            rw [this]
            exact Sound.size c _ rest m st hph hnone hv hn hs
        · simp [hv] at h
    | chunkData =>
      unfold chunkStep at h; simp only [hph] at h
      unfold cdataStep at h
      simp only at h
      by_cases hz : c.needed - min rem.length c.needed = 0
      · rw [if_pos hz] at h
        have hk : min rem.length c.needed = c.needed := by omega
        rw [hk] at h
        refine hpart _ c.needed (by omega) h ?_
        intro rest hs
        exact Sound.data c _ rest st hph (by simp; omega) hs
      · rw [if_neg hz] at h; simp at h
    | chunkTerminator =>
      unfold chunkStep at h; simp only [hph] at h
      unfold ctermStep at h
      cases rem with
      | nil => simp at h
      | cons a tl =>
        cases tl with
        | nil =>
          simp only at h
          by_cases ha : a = CR
          · rw [if_pos ha] at h; simp at h
          · rw [if_neg ha] at h; simp at h
        | cons b tl =>
          simp only at h
          by_cases hab : a = CR ∧ b = LF
          · rw [if_pos hab] at h
            obtain ⟨rfl, rfl⟩ := hab
            refine hpart _ 2 (by simp) h ?_
            intro rest hs
            exact Sound.term c rest st hph hs
          · rw [if_neg hab] at h; simp at h
    | trailer =>
      unfold chunkStep at h; simp only [hph] at h
      unfold ctrailerStep at h
      cases hp : Headers.parse none c.trailer rem with
      | error e => simp [hp] at h
      | ok r =>
        obtain ⟨hs, stt, k⟩ := r
        cases stt with
        | incomplete => simp [hp] at h
        | complete =>
          simp only [hp] at h
          simp only [Option.some.injEq, PRes.ok.injEq, true_and] at h
          obtain ⟨rfl, rfl⟩ := h
          obtain ⟨hcut, hk⟩ := Headers.parse_cut hp
          refine ⟨by omega, by omega, ?_⟩
          rw [show acc + k - acc = k by omega]
          have hl : (rem.take k).length = k := by simp; omega
          have := Sound.trailer c (rem.take k) hs hph (by rw [hl]; exact hcut)
          exact this

/-- what `Sound` means in terms of the data: the body is the buffer the decoder started with followed by
    exactly the chunk-data ranges, in order -/
inductive Payload : ChunkState → Bytes → Bytes → Prop
  | nil (c : ChunkState) (blk : Bytes) : c.phase = .trailer → Payload c blk []
  | skip (c c' : ChunkState) (x rest p : Bytes) : c.phase ≠ .chunkData → Payload c' rest p → Payload c (x ++ rest) p
  | data (c c' : ChunkState) (d rest p : Bytes) : c.phase = .chunkData → d.length = c.needed →
      Payload c' rest p → Payload c (d ++ rest) (d ++ p)

theorem Sound.buffer {c st : ChunkState} {pre : Bytes} (h : Sound c pre st) :
    ∃ p, st.buffer = c.buffer ++ p ∧ Payload c pre p := by
  induction h with
  | size c line rest n st hph _ _ _ _ ih =>
    obtain ⟨p, hp, hpay⟩ := ih
    exact ⟨p, hp, Payload.skip c _ (line ++ CRLF) rest p (by simp [hph]) hpay⟩
  | data c d rest st hph hlen _ ih =>
    obtain ⟨p, hp, hpay⟩ := ih
    exact ⟨d ++ p, by simp [hp], Payload.data c _ d rest p hph hlen hpay⟩
  | term c rest st hph _ ih =>
    obtain ⟨p, hp, hpay⟩ := ih
    exact ⟨p, hp, Payload.skip c _ _ _ p (by simp [hph]) hpay⟩
  | trailer c blk hs hph _ => exact ⟨[], by simp, Payload.nil c blk hph⟩

/-- C05 (converse): if the decoder — started fresh on any byte string — reports completion after `n`
    bytes, then those `n` bytes are a well-formed chunked body in the sense of `Sound` (size lines
    that `parseChunkSize` accepts — `1*HEXDIG [;ext]` by C17 — each followed by exactly that many data
    bytes and CRLF, a zero-size line, a header block the header parser accepts in full), and the
    decoded body consists of exactly the chunk-data ranges -/
theorem C05_complete_only_if_wellformed (s : Bytes) (st : ChunkState) (n : Nat)
    (h : chunkSys.parse ChunkState.new s = .ok .complete st n) :
    n ≤ s.length ∧ Sound ChunkState.new (s.take n) st ∧ ∃ p, st.buffer = p ∧ Payload ChunkState.new (s.take n) p := by
  unfold Sys.parse at h
  cases hl : chunkSys.loop (chunkSys.μ ChunkState.new s.length) ChunkState.new s 0 with
  | none => simp [hl] at h
  | some r =>
    simp only [hl] at h; subst h
    obtain ⟨_, h2, h3⟩ := chunkLoop_sound _ _ _ _ _ _ hl
    simp only [Nat.sub_zero] at h2 h3
    obtain ⟨p, hp, hpay⟩ := h3.buffer
    exact ⟨h2, h3, p, by simpa [ChunkState.new] using hp, hpay⟩
