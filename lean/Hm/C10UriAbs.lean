import Hm.C10Uri
import Hm.UriLaws3

/-! C10 / C11 instantiated with the rhymuri model for absolute-form targets (proxy requests) with a registered-name host -/

namespace Rhymuri

theorem authByte_ok {b : UInt8} (h : authByte b = true) : b ≠ SP ∧ b ≠ CR ∧ b < 128 := by
  simp only [authByte, Bool.and_eq_true, bne_iff_ne, ne_eq, decide_eq_true_eq] at h
  exact ⟨h.1.1.2, h.1.2, h.2⟩

theorem displayAuthority_regname (ui : Option Bytes) (host : Bytes) (port : Option Nat)
    (hv6 : (validUtf8 host && validIpv6 host) = false) :
    displayAuthority ⟨ui, host, port⟩ = authStr ui host port := by
  unfold displayAuthority authStr
  simp only [hv6, Bool.false_eq_true, if_false]
  cases ui <;> cases port <;> simp [userPart, portPart]

/-- what `display` prints for an absolute-form target is a non-empty text free of SP, CR and non-ASCII bytes -/
theorem display_absolute_ok (sch : Bytes) (ui : Option Bytes) (host : Bytes) (port : Option Nat)
    (r : List Bytes) (q f : Option Bytes)
    (hsch : ∃ c cs, sch = c :: cs ∧ isAlpha c = true ∧ cs.all isSchemeNotFirst = true ∧ lower sch = sch)
    (hv6 : (validUtf8 host && validIpv6 host) = false) :
    display ⟨some sch, some ⟨ui, host, port⟩, [] :: r, q, f⟩ ≠ [] ∧
    ∀ b ∈ display ⟨some sch, some ⟨ui, host, port⟩, [] :: r, q, f⟩, b ≠ SP ∧ b ≠ CR ∧ b < 128 := by
  obtain ⟨c, cs, hsc, hc, hcs, _⟩ := hsch
  have hsplit : display ⟨some sch, some ⟨ui, host, port⟩, [] :: r, q, f⟩ =
      sch ++ ([58, 47, 47] ++ (authStr ui host port ++ display ⟨none, none, [] :: r, q, f⟩)) := by
    unfold display
    simp only [displayAuthority_regname ui host port hv6]
    simp
  rw [hsplit]
  constructor
  · rw [hsc]; simp
  · intro b hb
    rw [List.mem_append, List.mem_append, List.mem_append] at hb
    rcases hb with hb | hb | hb | hb
    · exact authByte_ok (scheme_clean c cs hc hcs b (hsc ▸ hb)).1
    · simp at hb; rcases hb with rfl | rfl <;> decide
    · exact authByte_ok (authStr_authByte ui host port b hb)
    · exact (display_origin_ok r q f).2 b hb

end Rhymuri

/-- C10 (requests, rhymuri model, any limits): every absolute-form target
    `scheme://[userinfo@]host[:port]/seg/…?query#fragment` with a lower-case scheme, a lower-case registered-name
    host (arbitrary bytes, printed percent-encoded; not an IPv6 literal), a port ≤ 65535, arbitrary segment, query
    and fragment bytes, round-trips through `generate` and `parse` -/
theorem C10_request_roundtrip_absolute (cfg : ReqCfg) (m sch : Bytes) (ui : Option Bytes) (host : Bytes) (port : Option Nat)
    (r : List Bytes) (q f : Option Bytes) (hs : List Header) (body tail : Bytes)
    (hm_ne : m ≠ []) (hm_sp : SP ∉ m) (hm_crlf : findCrlf m = none) (hm_utf : validUtf8 m = true)
    (hsch : ∃ c cs, sch = c :: cs ∧ Rhymuri.isAlpha c = true ∧ cs.all Rhymuri.isSchemeNotFirst = true ∧ lower sch = sch)
    (hl : lower host = host) (hv6 : (validUtf8 host && Rhymuri.validIpv6 host) = false)
    (hp : ∀ p, port = some p → p ≤ 65535)
    (hr : r = [] ∨ ∃ x xs, r = x :: xs ∧ x ≠ [])
    (hw : ∀ h ∈ hs, WfHeader h) (hfit : FitsLimit cfg.hl hs)
    (hframe : (∃ val, headerValue hs kContentLength = some val ∧ parseNumber ⟨true⟩ 10 val = some body.length) ∨
              (headerValue hs kContentLength = none ∧ body = [])) :
    let v : ReqValue rhymuriImpl := ⟨m, ⟨some sch, some ⟨ui, host, port⟩, [] :: r, q, f⟩, hs, body⟩
    overLimit cfg.rl (requestLineOf v).length = false →
    (∀ M, cfg.max = some M → (reqBytes v).length ≤ M ∧ M ≤ usizeMax) →
    ∃ st, (requestSys rhymuriImpl cfg).parse (Request.new rhymuriImpl) (reqBytes v ++ tail) = .ok .complete st (reqBytes v).length ∧
      st.method = m ∧ st.target = ⟨some sch, some ⟨ui, host, port⟩, [] :: r, q, f⟩ ∧ st.headers = hs ∧ st.body = body := by
  intro v hrl hmax
  have hok := Rhymuri.display_absolute_ok sch ui host port r q f hsch hv6
  exact (C10_request_roundtrip_limits cfg v hm_ne hm_sp hm_crlf hm_utf hok.1 hok.2
    (Rhymuri.parse_display_absolute sch ui host port r q f hsch hl hv6 hp hr) hw hfit hframe hrl hmax tail).2

/-- C11 (requests, rhymuri model): whatever was accepted with such an absolute-form target re-serialises to a
    request that parses back to the same message -/
theorem C11_request_reparse_absolute (cfg cfg' : ReqCfg) {s : Bytes} {st : ReqState rhymuriImpl} {n : Nat}
    (h : (requestSys rhymuriImpl cfg).parse (Request.new rhymuriImpl) s = .ok .complete st n)
    (sch : Bytes) (ui : Option Bytes) (host : Bytes) (port : Option Nat) (r : List Bytes) (q f : Option Bytes)
    (hsch : ∃ c cs, sch = c :: cs ∧ Rhymuri.isAlpha c = true ∧ cs.all Rhymuri.isSchemeNotFirst = true ∧ lower sch = sch)
    (hl : lower host = host) (hv6 : (validUtf8 host && Rhymuri.validIpv6 host) = false)
    (hp : ∀ p, port = some p → p ≤ 65535)
    (hr : r = [] ∨ ∃ x xs, r = x :: xs ∧ x ≠ [])
    (ht : st.target = (⟨some sch, some ⟨ui, host, port⟩, [] :: r, q, f⟩ : Uri))
    (hhl : cfg'.hl = none)
    (hrl : overLimit cfg'.rl (st.method ++ [SP] ++ Rhymuri.display st.target ++ [SP] ++ http11).length = false)
    (hmax : ∀ M, cfg'.max = some M →
      (st.method ++ [SP] ++ Rhymuri.display st.target ++ [SP] ++ http11).length + 2 + (genBlock st.headers).length + st.body.length ≤ M ∧ M ≤ usizeMax)
    (tail : Bytes) :
    let g := (st.method ++ [SP] ++ Rhymuri.display st.target ++ [SP] ++ http11) ++ CRLF ++ genBlock st.headers ++ st.body
    ∃ st', (requestSys rhymuriImpl cfg').parse (Request.new rhymuriImpl) (g ++ tail) = .ok .complete st' g.length ∧
      st'.method = st.method ∧ st'.target = st.target ∧ st'.headers = st.headers ∧ st'.body = st.body := by
  have hok := Rhymuri.display_absolute_ok sch ui host port r q f hsch hv6
  refine C11_request_reparse cfg cfg' h ?_ ?_ ?_ hhl hrl hmax tail
  · show Rhymuri.parse (Rhymuri.display st.target) = some st.target
    rw [ht]; exact Rhymuri.parse_display_absolute sch ui host port r q f hsch hl hv6 hp hr
  · show Rhymuri.display st.target ≠ []
    rw [ht]; exact hok.1
  · show ∀ b ∈ Rhymuri.display st.target, b ≠ SP ∧ b ≠ CR ∧ b < 128
    rw [ht]; exact hok.2

/-- the hypotheses are satisfiable: `http://example.com:8080/a` -/
example : (∃ c cs, ([104, 116, 116, 112] : Bytes) = c :: cs ∧ Rhymuri.isAlpha c = true ∧ cs.all Rhymuri.isSchemeNotFirst = true ∧
      lower [104, 116, 116, 112] = [104, 116, 116, 112]) ∧
    lower ([101, 120, 97, 109, 112, 108, 101, 46, 99, 111, 109] : Bytes) = [101, 120, 97, 109, 112, 108, 101, 46, 99, 111, 109] ∧
    Rhymuri.validIpv6 [101, 120, 97, 109, 112, 108, 101, 46, 99, 111, 109] = false :=
  ⟨⟨104, [116, 116, 112], rfl, by decide, by decide, by decide⟩, by decide, by decide +kernel⟩
