import Hm.Inflate

/-! C15 on the container models: truncation always fails; a success always satisfies the stored checks -/

/-! ### the containers are local -/

theorem Local.ite {c : Prop} [Decidable c] {a b : R α} (ha : Local a) (hb : Local b) : Local (if c then a else b) := by
  split <;> assumption

theorem Local.gunzipR (N : Nat) : Local (gunzipR N) := by
  unfold _root_.gunzipR
  apply Local.bind (Local.readBytes 10); intro hdr
  apply Local.ite (Local.fail _)
  simp only
  apply Local.ite (Local.fail _)
  apply Local.bind
  · apply Local.ite
    · exact Local.bind (Local.readBits 16) fun _ => Local.bind (Local.readBytes _) fun _ => Local.pure _
    · exact Local.pure _
  intro extra
  apply Local.bind
  · apply Local.ite
    · exact Local.bind (Local.readCString _) fun _ => Local.pure _
    · exact Local.pure _
  intro name
  apply Local.bind
  · apply Local.ite
    · exact Local.bind (Local.readCString _) fun _ => Local.pure _
    · exact Local.pure _
  intro comment
  apply Local.bind
  · apply Local.ite
    · exact Local.bind (Local.readBits 16) fun _ => Local.pure _
    · exact Local.pure _
  intro hcrc
  apply Local.ite (Local.fail _)
  apply Local.bind (Local.inflateR N); intro out
  apply Local.bind Local.alignRead; intro _
  apply Local.bind (Local.readBits 32); intro crc
  apply Local.bind (Local.readBits 32); intro isize
  exact Local.ite (Local.fail _) (Local.pure _)

theorem Local.zlibR (N : Nat) : Local (zlibR N) := by
  unfold _root_.zlibR
  apply Local.bind Local.readByte; intro cmf
  apply Local.bind Local.readByte; intro flg
  apply Local.ite (Local.fail _)
  apply Local.bind (Local.inflateR N); intro out
  apply Local.bind Local.alignRead; intro _
  apply Local.bind (Local.readBytes 4); intro ad
  simp only
  exact Local.ite (Local.fail _) (Local.pure _)

/-! ### truncating the byte array truncates the bit input -/

theorem inpOfBytes_take_lt (arr : Array UInt8) (k q : Nat) (hq : q < 8 * k) (hk : k ≤ arr.size) :
    inpOfBytes (arr.extract 0 k) q = inpOfBytes arr q := by
  unfold inpOfBytes
  have h1 : q / 8 < k := by omega
  have h2 : q / 8 < arr.size := by omega
  have h3 : q / 8 < (arr.extract 0 k).size := by simp; omega
  simp only [h2, h3, dite_true]
  simp

theorem inpOfBytes_take_ge (arr : Array UInt8) (k q : Nat) (hq : 8 * k ≤ q) (hk : k ≤ arr.size) :
    inpOfBytes (arr.extract 0 k) q = none := by
  unfold inpOfBytes
  have h3 : ¬ q / 8 < (arr.extract 0 k).size := by simp; omega
  simp only [h3, dite_false]

/-- C15 (truncation), any local decoder with a fixed fuel parameter: if it decodes `arr` consuming it
    exactly, it fails with "unexpected end" on every strict prefix of `arr` -/
theorem truncation_fails {m : R (Array UInt8)} (hm : Local m) (arr : Array UInt8) {out : Array UInt8} {p' : Nat}
    (h : m (inpOfBytes arr) 0 = .ok (out, p')) (hall : 8 * arr.size ≤ p' + 7) (k : Nat) (hk : k < arr.size) :
    m (inpOfBytes (arr.extract 0 k)) 0 = .error .eof := by
  apply hm.cut (inpOfBytes arr) _ 0 out p' (8 * k) h (Nat.zero_le _) (by omega)
  · intro q _ hq; exact (inpOfBytes_take_lt arr k q hq (by omega)).symm
  · intro q hq; exact inpOfBytes_take_ge arr k q hq (by omega)

theorem C15_gzip_truncation (N : Nat) (arr : Array UInt8) {out : Array UInt8} {p' : Nat}
    (h : gunzipR N (inpOfBytes arr) 0 = .ok (out, p')) (hall : 8 * arr.size ≤ p' + 7) (k : Nat) (hk : k < arr.size) :
    gunzipR N (inpOfBytes (arr.extract 0 k)) 0 = .error .eof :=
  truncation_fails (Local.gunzipR N) arr h hall k hk

theorem C15_zlib_truncation (N : Nat) (arr : Array UInt8) {out : Array UInt8} {p' : Nat}
    (h : zlibR N (inpOfBytes arr) 0 = .ok (out, p')) (hall : 8 * arr.size ≤ p' + 7) (k : Nat) (hk : k < arr.size) :
    zlibR N (inpOfBytes (arr.extract 0 k)) 0 = .error .eof :=
  truncation_fails (Local.zlibR N) arr h hall k hk

theorem C15_deflate_truncation (N : Nat) (arr : Array UInt8) {out : Array UInt8} {p' : Nat}
    (h : inflateR N (inpOfBytes arr) 0 = .ok (out, p')) (hall : 8 * arr.size ≤ p' + 7) (k : Nat) (hk : k < arr.size) :
    inflateR N (inpOfBytes (arr.extract 0 k)) 0 = .error .eof :=
  truncation_fails (Local.inflateR N) arr h hall k hk

/-! ### a success satisfies the stored checks -/

theorem bind_ok {m : R α} {f : α → R β} {i : Inp} {p : Nat} {b : β} {q : Nat}
    (h : R.bind m f i p = .ok (b, q)) : ∃ a p1, m i p = .ok (a, p1) ∧ f a i p1 = .ok (b, q) := by
  unfold R.bind at h
  split at h
  · rename_i a p1 hm; exact ⟨a, p1, hm, h⟩
  · simp at h

theorem ite_fail_ok {c : Prop} [Decidable c] {e : RErr} {m : R α} {i : Inp} {p : Nat} {r : α × Nat}
    (h : (if c then R.fail e else m) i p = .ok r) : ¬ c ∧ m i p = .ok r := by
  split at h
  · simp [R.fail] at h
  · rename_i hc; exact ⟨hc, h⟩

/-- C15 (checks are applied), zlib: whatever bytes are decoded, a success means the four bytes
    after the (byte-aligned) end of the deflate data are the Adler-32 of the returned content -/
theorem C15_zlib_check (N : Nat) (i : Inp) {out : Array UInt8} {p' : Nat}
    (h : zlibR N i 0 = .ok (out, p')) :
    ∃ q ad, readBytes 4 i q = .ok (ad, p') ∧ ad.foldl (fun acc b => acc * 256 + b.toNat) 0 = adler32 out := by
  unfold zlibR at h
  obtain ⟨cmf, p1, _, h⟩ := bind_ok h
  obtain ⟨flg, p2, _, h⟩ := bind_ok h
  obtain ⟨_, h⟩ := ite_fail_ok h
  obtain ⟨out1, p3, _, h⟩ := bind_ok h
  obtain ⟨_, p4, _, h⟩ := bind_ok h
  obtain ⟨ad, p5, had, h⟩ := bind_ok h
  simp only at h
  obtain ⟨hne, h⟩ := ite_fail_ok h
  simp [R.pure] at h
  obtain ⟨rfl, rfl⟩ := h
  exact ⟨p4, ad, had, by simpa using hne⟩
