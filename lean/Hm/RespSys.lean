import Hm.ChunkSys
import Hm.ReqLaws3

/-! the response parser of the repaired tree as a `Sys`, in *normalised* form: the declared-length body
    phase consumes exactly the declared bytes (the real code also swallows the rest of the delivery
    into `trailer`; that is re-attached by `Response.attachTrailing` below).  The header-line limit `hl` is
    whatever the caller has set on `response.headers` (`None` as `Response::new()` leaves it); a dangling CR
    is held back from the header parser (response.rs, as in request.rs). -/

def rstatusStep (s : RespState) (rem : Bytes) : Res Fail RespState :=
  match findCrlf rem with
  | none => .ok .incomplete s 0
  | some e =>
    if !validUtf8 (rem.take e) then .fail (.err .StatusLineNotValidText) else
    match parseStatusLine ⟨true⟩ (rem.take e) with
    | .error c => .fail (.err c)
    | .ok (code, reason) =>
      .ok .completePart { s with phase := .headers, statusCode := code, reasonPhrase := reason } (e + 2)

/-- framing selection (response.rs:476-519): Content-Length, then `chunked`, then no body -/
def rframing (s : RespState) (hs : List Header) (c : Nat) : Res Fail RespState :=
  match headerValue hs kContentLength with
  | some v =>
    match parseNumber ⟨true⟩ 10 v with
    | none => .fail (.err .InvalidContentLength)
    | some cl => .ok .completePart { s with headers := hs, phase := .fixedBody cl } c
  | none =>
    if hasHeaderToken hs kTransferEncoding kChunked then
      .ok .completePart { s with headers := hs, phase := .chunkedBody ChunkState.new } c
    else .ok .completeWhole { s with headers := hs } c

def rhdrStep (hl : Option Nat) (s : RespState) (rem : Bytes) : Res Fail RespState :=
  match Headers.parse hl s.headers (stripDanglingCr rem) with
  | .error e => .fail (.err (.Headers e))
  | .ok (hs, .incomplete, c) => .ok .incomplete { s with headers := hs } c
  | .ok (hs, .complete, c) => rframing s hs c

def rfixedStep (s : RespState) (rem : Bytes) (n : Nat) : Res Fail RespState :=
  if s.body.length > n then .fail (.panic .arithmetic) else
  if rem.length ≥ n - s.body.length then
    .ok .completeWhole { s with body := s.body ++ rem.take (n - s.body.length) } (n - s.body.length)
  else .ok .incomplete { s with body := s.body ++ rem } rem.length

def rchunkStep (s : RespState) (cs : ChunkState) (rem : Bytes) : Res Fail RespState :=
  match chunkSys.parse cs rem with
  | .fail e => .fail e
  | .ok .complete cs' n => .ok .completeWhole (dechunkRewrite ⟨true⟩ s cs') n
  | .ok .incomplete cs' n => .ok .incomplete { s with phase := .chunkedBody cs' } n

def respStep (hl : Option Nat) (s : RespState) (rem : Bytes) : Res Fail RespState :=
  match s.phase with
  | .chunkedBody cs => rchunkStep s cs rem
  | .fixedBody n => rfixedStep s rem n
  | .headers => rhdrStep hl s rem
  | .statusLine => rstatusStep s rem

def respRank : RespPhase → Nat
  | .statusLine => 3 | .headers => 2 | .fixedBody _ => 1 | .chunkedBody _ => 1

def respSys (hl : Option Nat) : Sys Fail RespState := { step := respStep hl, μ := fun s _ => respRank s.phase, oof := .oof }

def RespInv (s : RespState) : Prop :=
  match s.phase with
  | .fixedBody n => s.body.length ≤ n
  | .chunkedBody _ => True
  | _ => s.body = []

/-! ### status line -/

theorem rstatusStep_p1 {s s' : RespState} {rem : Bytes} {n : Nat} {i : Internal}
    (h : rstatusStep s rem = .ok i s' n) (hi : i ≠ .incomplete) (d : Bytes) :
    rstatusStep s (rem ++ d) = .ok i s' n := by
  unfold rstatusStep at h ⊢
  cases hf : findCrlf rem with
  | none => simp [hf] at h; exact absurd h.1.symm hi
  | some e =>
    simp only [hf] at h
    simp only [findCrlf_append_of_some hf d, take_append_of_findCrlf hf d]
    exact h

theorem rstatusStep_ok {s s' : RespState} {rem : Bytes} {n : Nat} {i : Internal}
    (h : rstatusStep s rem = .ok i s' n) :
    n ≤ rem.length ∧ i ≠ .completeWhole ∧ (i = .incomplete → s' = s ∧ n = 0) ∧
    (i = .completePart → s'.phase = .headers ∧ s'.body = s.body) := by
  unfold rstatusStep at h
  cases hf : findCrlf rem with
  | none => simp [hf] at h; obtain ⟨rfl, rfl, rfl⟩ := h; simp
  | some e =>
    have := findCrlf_lt hf
    simp only [hf] at h
    split at h
    · simp at h
    · split at h
      · simp at h
      · simp at h; obtain ⟨rfl, rfl, rfl⟩ := h; simp; omega

theorem rstatusStep_p3 {s : RespState} {rem : Bytes} {e : Fail}
    (h : rstatusStep s rem = .fail e) (d : Bytes) : rstatusStep s (rem ++ d) = .fail e := by
  unfold rstatusStep at h ⊢
  cases hf : findCrlf rem with
  | none => simp [hf] at h
  | some i =>
    simp only [hf] at h
    simp only [findCrlf_append_of_some hf d, take_append_of_findCrlf hf d]
    exact h

/-! ### headers -/

theorem rframing_ok {s s' : RespState} {hs : List Header} {c n : Nat} {i : Internal}
    (h : rframing s hs c = .ok i s' n) :
    n = c ∧ i ≠ .incomplete ∧ s'.body = s.body ∧
    (i = .completeWhole → s'.phase = s.phase) ∧
    (i = .completePart → (∃ cl, s'.phase = .fixedBody cl) ∨ (∃ cs, s'.phase = .chunkedBody cs)) := by
  unfold rframing at h
  split at h
  · split at h
    · simp at h
    · simp at h; obtain ⟨rfl, rfl, rfl⟩ := h; simp
  · split at h
    · simp at h; obtain ⟨rfl, rfl, rfl⟩ := h; simp
    · simp at h; obtain ⟨rfl, rfl, rfl⟩ := h; simp

theorem rframing_shift {s s1 : RespState} {hs : List Header} {c k : Nat}
    (h : ∀ hs', ({ s with headers := hs' } : RespState) = { s1 with headers := hs' }) :
    rframing s hs (k + c) = (rframing s1 hs c).shift k := by
  have hph : s.phase = s1.phase := by have := h []; simp only [RespState.mk.injEq] at this; exact this.1
  unfold rframing
  cases headerValue hs kContentLength with
  | some v =>
    simp only
    cases parseNumber ⟨true⟩ 10 v with
    | none => simp [Res.shift]
    | some cl =>
      have := h hs
      simp only [RespState.mk.injEq] at this
      simp [Res.shift, this]
  | none =>
    simp only
    have := h hs
    simp only [RespState.mk.injEq] at this
    split <;> simp [Res.shift, this, hph]

theorem rhdrStep_le {hl : Option Nat} {s s' : RespState} {rem : Bytes} {n : Nat} {i : Internal}
    (h : rhdrStep hl s rem = .ok i s' n) : n ≤ rem.length := by
  unfold rhdrStep at h
  have hsl := strip_length_le rem
  cases hp : Headers.parse hl s.headers (stripDanglingCr rem) with
  | error e => simp [hp] at h
  | ok r =>
    obtain ⟨hs, st, c⟩ := r
    have hc := parseLoop_consumed (by unfold Headers.parse at hp; exact hp)
    cases st with
    | incomplete => simp [hp] at h; omega
    | complete => simp only [hp] at h; have := (rframing_ok h).1; omega

theorem rhdrStep_p1 {hl : Option Nat} {s s' : RespState} {rem : Bytes} {n : Nat} {i : Internal}
    (h : rhdrStep hl s rem = .ok i s' n) (hi : i ≠ .incomplete) (d : Bytes) :
    rhdrStep hl s (rem ++ d) = .ok i s' n := by
  unfold rhdrStep at h ⊢
  cases hp : Headers.parse hl s.headers (stripDanglingCr rem) with
  | error e => simp [hp] at h
  | ok r =>
    obtain ⟨hs, st, c⟩ := r
    cases st with
    | incomplete => simp [hp] at h; exact absurd h.1.symm hi
    | complete =>
      rw [strip_append, (Headers.parse_append_complete hp (tailOf rem d)).1]; simpa [hp] using h

theorem rhdrStep_incomplete {hl : Option Nat} {s s' : RespState} {rem : Bytes} {n : Nat}
    (h : rhdrStep hl s rem = .ok .incomplete s' n) :
    ∃ hs, Headers.parse hl s.headers (stripDanglingCr rem) = .ok (hs, .incomplete, n) ∧ s' = { s with headers := hs } := by
  unfold rhdrStep at h
  cases hp : Headers.parse hl s.headers (stripDanglingCr rem) with
  | error e => simp [hp] at h
  | ok r =>
    obtain ⟨hs, st, c⟩ := r
    cases st with
    | incomplete => simp [hp] at h; obtain ⟨rfl, rfl⟩ := h; exact ⟨hs, rfl, rfl⟩
    | complete => simp only [hp] at h; have := (rframing_ok h).2.1; simp at this

theorem rhdrStep_p2 {hl : Option Nat} {s s' : RespState} {rem : Bytes} {n : Nat}
    (h : rhdrStep hl s rem = .ok .incomplete s' n) (d : Bytes) :
    rhdrStep hl s (rem ++ d) = (rhdrStep hl s' (rem.drop n ++ d)).shift n := by
  obtain ⟨hs, hp, rfl⟩ := rhdrStep_incomplete h
  obtain ⟨hc0, hfuse⟩ := Headers.parse_append_incomplete hp (tailOf rem d)
  unfold rhdrStep
  rw [strip_append, hfuse, strip_drop_append hc0]
  simp only
  cases Headers.parse hl hs ((stripDanglingCr rem).drop n ++ tailOf rem d) with
  | error e => simp [shiftConsumed, Res.shift]
  | ok r2 =>
    obtain ⟨hs2, st2, m2⟩ := r2
    cases st2 with
    | incomplete => simp [shiftConsumed, Res.shift]
    | complete =>
      simp only [shiftConsumed]
      exact rframing_shift (by intro hs'; rfl)

theorem rhdrStep_p3 {hl : Option Nat} {s : RespState} {rem : Bytes} {e : Fail}
    (h : rhdrStep hl s rem = .fail e) (d : Bytes) : ∃ e', rhdrStep hl s (rem ++ d) = .fail e' := by
  have hns := strip_tail_nostraddle rem d
  unfold rhdrStep at h ⊢
  cases hp : Headers.parse hl s.headers (stripDanglingCr rem) with
  | error e0 =>
    obtain ⟨e1, he1⟩ := Headers.parse_append_error hp (tailOf rem d) (Or.inr hns)
    rw [strip_append, he1]; exact ⟨_, rfl⟩
  | ok r =>
    obtain ⟨hs, st, c⟩ := r
    cases st with
    | incomplete => simp [hp] at h
    | complete =>
      rw [strip_append, (Headers.parse_append_complete hp (tailOf rem d)).1]
      simp only [hp] at h ⊢
      exact ⟨e, h⟩
