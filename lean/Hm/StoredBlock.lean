import Hm.BitLemmas

/-! C13, first inflate inversion theorem: a final stored block is inflated to its data -/

theorem readBytes_eq (arr : Array UInt8) (n k : Nat) (h : k + n ≤ arr.size) :
    readBytes n (inpOfBytes arr) (8 * k) = .ok ((arr.toList.drop k).take n, 8 * (k + n)) := by
  induction n generalizing k with
  | zero => simp [readBytes, R.pure]
  | succ n ih =>
    have hk : k < arr.size := by omega
    unfold readBytes
    simp only [R.bind, readByte_eq arr k hk]
    rw [show 8 * k + 8 = 8 * (k + 1) by omega, ih (k + 1) (by omega)]
    simp only [R.pure, Except.ok.injEq, Prod.mk.injEq]
    constructor
    · conv => rhs; rw [List.drop_eq_getElem_cons (show k < arr.toList.length by simpa using hk)]
      simp
    · omega

theorem readBits16_eq (arr : Array UInt8) (k : Nat) (h : k + 2 ≤ arr.size) :
    readBits 16 (inpOfBytes arr) (8 * k) = .ok (arr[k].toNat + 256 * arr[k + 1].toNat, 8 * k + 16) := by
  have hs : ∀ i, i < 16 → (inpOfBytes arr (8 * k + i)).isSome = true := by
    intro i hi
    have : inpOfBytes arr (8 * k + i) = inpOfBytes arr (8 * (k + i / 8) + i % 8) := by congr 1; omega
    rw [this, inpOfBytes_bit arr (k + i / 8) (i % 8) (by omega) (by omega)]; rfl
  rw [readBits_eq _ 16 (8 * k) hs, show (16 : Nat) = 8 + 8 by rfl, bitsVal_add, bitsVal_byte arr k (by omega)]
  rw [show 8 * k + 8 = 8 * (k + 1) by omega, bitsVal_byte arr (k + 1) (by omega)]

/-- one final stored block: header byte 0x01, LEN, NLEN (little-endian), then the data -/
def storedFinal (data : Bytes) : Bytes :=
  let len := data.length
  let nlen := 65535 - len
  [1, (len % 256).toUInt8, (len / 256).toUInt8, (nlen % 256).toUInt8, (nlen / 256).toUInt8] ++ data

theorem bit_of_one (i : Nat) (hi : i < 8) : ((1 >>> i) % 2 == 1) = decide (i = 0) := by
  have : ∀ i, i < 8 → ((1 >>> i) % 2 == 1) = decide (i = 0) := by decide
  exact this i hi

/-- C13 (stored block): `inflate` returns exactly the data of a final stored block, consuming it exactly -/
theorem C13_inflate_stored (data : Bytes) (hlen : data.length ≤ 65535) (N : Nat) :
    inflateR N (inpOfBytes (storedFinal data).toArray) 0 = .ok (data.toArray, 8 * (storedFinal data).length) := by
  let arr := (storedFinal data).toArray
  have hsize : arr.size = 5 + data.length := by simp [arr, storedFinal]; omega
  have ha0 : arr[0]'(by omega) = 1 := by simp [arr, storedFinal]
  have ha1 : (arr[1]'(by omega)).toNat = data.length % 256 := by simp [arr, storedFinal]
  have ha2 : (arr[2]'(by omega)).toNat = data.length / 256 := by
    simp [arr, storedFinal]; omega
  have ha3 : (arr[3]'(by omega)).toNat = (65535 - data.length) % 256 := by simp [arr, storedFinal]
  have ha4 : (arr[4]'(by omega)).toNat = (65535 - data.length) / 256 := by
    simp [arr, storedFinal]; omega
  -- the first three bits: BFINAL = 1, BTYPE = 00; then five padding bits
  have hbit : ∀ i, i < 8 → inpOfBytes arr i = some (decide (i = 0)) := by
    intro i hi
    have := inpOfBytes_bit arr 0 i (by omega) hi
    simp only [Nat.mul_zero, Nat.zero_add, ha0] at this
    rw [this]; simp [bit_of_one i hi]
  show inflateBlocks (N + 1) (N + 1) #[] (inpOfBytes arr) 0 = _
  unfold inflateBlocks
  simp only [R.bind, readBit, hbit 0 (by omega), decide_true]
  have hb2 : readBits 2 (inpOfBytes arr) 1 = .ok (0, 3) := by
    rw [readBits_eq _ 2 1 (fun i hi => by rw [hbit (1 + i) (by omega)]; rfl)]
    simp [bitsVal, hbit 1 (by omega), hbit 2 (by omega)]
  simp only [Nat.zero_add, hb2, if_true]
  -- stored block
  have hstored : storedBlock #[] (inpOfBytes arr) 3 = .ok (data.toArray, 8 * (5 + data.length)) := by
    unfold storedBlock alignRead
    simp only [R.bind, getPos]
    have hpad : readBits ((8 - 3 % 8) % 8) (inpOfBytes arr) 3 = .ok (0, 8) := by
      rw [show (8 - 3 % 8) % 8 = 5 by rfl, readBits_eq _ 5 3 (fun i hi => by rw [hbit (3 + i) (by omega)]; rfl)]
      simp [bitsVal, hbit 3 (by omega), hbit 4 (by omega), hbit 5 (by omega), hbit 6 (by omega), hbit 7 (by omega)]
    simp only [hpad, R.pure]
    have h16a : readBits 16 (inpOfBytes arr) 8 = .ok (data.length % 256 + 256 * (data.length / 256), 24) := by
      have := readBits16_eq arr 1 (by omega)
      simpa [ha1, ha2] using this
    have h16b : readBits 16 (inpOfBytes arr) 24 = .ok ((65535 - data.length) % 256 + 256 * ((65535 - data.length) / 256), 40) := by
      have := readBits16_eq arr 3 (by omega)
      simpa [ha3, ha4] using this
    simp only [h16a, h16b]
    have hsum : data.length % 256 + 256 * (data.length / 256) + ((65535 - data.length) % 256 + 256 * ((65535 - data.length) / 256)) = 65535 := by
      omega
    simp only [hsum, ne_eq, not_true_eq_false, if_false]
    have hl : data.length % 256 + 256 * (data.length / 256) = data.length := by omega
    have hrb : readBytes data.length (inpOfBytes arr) 40 = .ok (data, 8 * (5 + data.length)) := by
      have := readBytes_eq arr data.length 5 (by omega)
      have hd : (arr.toList.drop 5).take data.length = data := by simp [arr, storedFinal]
      rw [hd] at this
      simpa using this
    simp only [hl, R.bind, hrb, R.pure]
    simp
  simp only [hstored, R.pure]
  simp [storedFinal]; omega
