import Hm.C03Grammar

/-! C03: each rejection category of the request-line splitter means what its name says -/

theorem take_ne_nil_of_findByte {b : UInt8} {l : Bytes} {i : Nat} (h : findByte b l = some i) (hi : i ≠ 0) :
    l.take i ≠ [] := by
  obtain ⟨e1, _⟩ := findByte_some h
  intro hc
  have hlt : i < l.length := by
    have := congrArg List.length e1; simp at this; omega
  have hl : (l.take i).length = i := by rw [List.length_take]; omega
  rw [hc] at hl; simp at hl; omega

/-- C03 (categories of the request line): a rejection carries the category of the *first* defect in
    left-to-right order — no SP at all; SP first; method but no second SP; two SPs in a row; target
    refused by the URI parser; anything but `HTTP/1.1` after the target.  The six conditions exclude
    each other, so each is also necessary for its category. -/
theorem C03_request_line_category (u : UriImpl) {line : Bytes} {c : Cat} (h : parseRequestLine u line = .error c) :
    (c = .RequestLineNoMethodDelimiter ∧ SP ∉ line) ∨
    (c = .RequestLineNoMethodOrExtraWhitespace ∧ line.head? = some SP) ∨
    (c = .RequestLineNoTargetDelimiter ∧ ∃ m rest, line = m ++ SP :: rest ∧ m ≠ [] ∧ SP ∉ m ∧ SP ∉ rest) ∨
    (c = .RequestLineNoTargetOrExtraWhitespace ∧ ∃ m rest, line = m ++ SP :: SP :: rest ∧ m ≠ [] ∧ SP ∉ m) ∨
    (c = .RequestTargetUriInvalid ∧ ∃ m tgt rest, line = m ++ SP :: (tgt ++ SP :: rest) ∧ m ≠ [] ∧ SP ∉ m ∧
        tgt ≠ [] ∧ SP ∉ tgt ∧ u.parse tgt = none) ∨
    (c = .RequestLineProtocol ∧ ∃ m tgt rest, line = m ++ SP :: (tgt ++ SP :: rest) ∧ m ≠ [] ∧ SP ∉ m ∧
        tgt ≠ [] ∧ SP ∉ tgt ∧ (u.parse tgt).isSome = true ∧ rest ≠ http11) := by
  unfold parseRequestLine at h
  cases hmd : findByte SP line with
  | none =>
    simp only [hmd, Except.error.injEq] at h
    exact Or.inl ⟨h.symm, findByte_none hmd⟩
  | some md =>
    simp only [hmd] at h
    obtain ⟨e1, n1⟩ := findByte_some hmd
    by_cases h0 : md = 0
    · rw [if_pos h0] at h
      simp only [Except.error.injEq] at h
      refine Or.inr (Or.inl ⟨h.symm, ?_⟩)
      rw [e1, h0]; simp
    · rw [if_neg h0] at h
      have hmne := take_ne_nil_of_findByte hmd h0
      cases htd : findByte SP (line.drop (md + 1)) with
      | none =>
        simp only [htd, Except.error.injEq] at h
        exact Or.inr (Or.inr (Or.inl ⟨h.symm, line.take md, line.drop (md + 1), e1, hmne, n1, findByte_none htd⟩))
      | some td =>
        simp only [htd] at h
        obtain ⟨e2, n2⟩ := findByte_some htd
        by_cases h1 : td = 0
        · rw [if_pos h1] at h
          simp only [Except.error.injEq] at h
          refine Or.inr (Or.inr (Or.inr (Or.inl ⟨h.symm, line.take md, (line.drop (md + 1)).drop 1, ?_, hmne, n1⟩)))
          conv => lhs; rw [e1]
          congr 2
          conv => lhs; rw [e2, h1]
          simp
        · rw [if_neg h1] at h
          have htne := take_ne_nil_of_findByte htd h1
          have hshape : line = line.take md ++ SP :: ((line.drop (md + 1)).take td ++ SP :: (line.drop (md + 1)).drop (td + 1)) := by
            conv => lhs; rw [e1]
            congr 2
          cases hu : u.parse ((line.drop (md + 1)).take td) with
          | none =>
            simp only [hu, Except.error.injEq] at h
            exact Or.inr (Or.inr (Or.inr (Or.inr (Or.inl ⟨h.symm, _, _, _, hshape, hmne, n1, htne, n2, hu⟩))))
          | some t' =>
            simp only [hu] at h
            by_cases hp : (line.drop (md + 1)).drop (td + 1) = http11
            · rw [if_pos hp] at h; simp at h
            · rw [if_neg hp] at h
              simp only [Except.error.injEq] at h
              exact Or.inr (Or.inr (Or.inr (Or.inr (Or.inr ⟨h.symm, _, _, _, hshape, hmne, n1, htne, n2, by rw [hu]; rfl, hp⟩))))
