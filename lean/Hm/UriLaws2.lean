import Hm.UriLaws
import Hm.HeaderRoundTrip

/-! the URI law for origin-form targets with query and fragment -/

namespace Rhymuri

/-- what the path part of an origin-form target looks like in print -/
theorem origin_facts (x : Bytes) (xs : List Bytes) (hx : x ≠ []) :
    ∃ j0 J', joinWith [47] ((x :: xs).map (encodeElement isPchar)) = j0 :: J' ∧ j0 ≠ 47 ∧
      (∀ b ∈ j0 :: J', b ≠ 63 ∧ b ≠ 35) ∧ parsePath (47 :: j0 :: J') = some ([] :: x :: xs) := by
  let J := joinWith [47] ((x :: xs).map (encodeElement isPchar))
  have hJclean : ∀ b ∈ J, b ≠ 63 ∧ b ≠ 35 := by
    intro b hb
    rcases joinWith_mem [47] _ b hb with h | ⟨s, hs, hbs⟩
    · simp at h; subst h; decide
    · simp only [List.mem_map] at hs
      obtain ⟨s0, _, rfl⟩ := hs
      exact (encode_pchar_clean s0 b hbs).2
  have hex : encodeElement isPchar x ≠ [] := by
    cases x with
    | nil => exact absurd rfl hx
    | cons b bs => unfold encodeElement; simp only [List.flatMap_cons]; split <;> simp
  obtain ⟨j0, J', hJ⟩ : ∃ j0 J', J = j0 :: J' := by
    cases hJ0 : J with
    | nil =>
      exfalso
      simp only [J, List.map_cons] at hJ0
      cases xs with
      | nil => simp [joinWith] at hJ0; exact hex hJ0
      | cons y ys => simp [joinWith] at hJ0
    | cons a as => exact ⟨a, as, rfl⟩
  have hj0 : j0 ≠ 47 := by
    have hmem : j0 ∈ encodeElement isPchar x := by
      have : J.head? = (encodeElement isPchar x).head? := by
        simp only [J, List.map_cons]
        cases xs with
        | nil => simp [joinWith]
        | cons y ys =>
          simp only [joinWith, List.map_cons, List.append_assoc]
          cases hh : encodeElement isPchar x with
          | nil => exact absurd hh hex
          | cons a as => simp
      rw [hJ] at this
      cases hh : encodeElement isPchar x with
      | nil => exact absurd hh hex
      | cons a as => rw [hh] at this; simp at this; subst this; simp
    exact (encode_pchar_clean x j0 hmem).1
  refine ⟨j0, J', hJ, hj0, by rw [← hJ]; exact hJclean, ?_⟩
  unfold parsePath
  have h1 : (47 :: j0 :: J') ≠ [47] := by simp
  have h2 : (47 :: j0 :: J') ≠ [] := by simp
  simp only [h1, h2, if_false]
  have hsplit : splitSlash (47 :: j0 :: J') = [] :: (x :: xs).map (encodeElement isPchar) := by
    conv => lhs; unfold splitSlash
    simp only [if_true]
    rw [← hJ]
    rw [splitSlash_join _ (by simp)]
    intro s hs
    simp only [List.mem_map] at hs
    obtain ⟨s0, _, rfl⟩ := hs
    intro hc; exact (encode_pchar_clean s0 47 hc).1 rfl
  rw [hsplit]
  simp only [List.mapM_cons]
  have hd : decodeElement isPchar [] = some [] := rfl
  rw [hd, mapM_decode_encode]
  rfl

theorem isQF_facts : isQueryNoPlus 37 = false ∧ isQueryNoPlus 35 = false ∧ isQueryOrFragment 37 = false ∧
    isQueryOrFragment 35 = false := by decide

theorem isQueryNoPlus_sub (b : UInt8) (h : isQueryNoPlus b = true) : isQueryOrFragment b = true := by
  unfold isQueryNoPlus at h; simp only [Bool.and_eq_true] at h; exact h.1

/-- no byte of an encoded query is `#` -/
theorem encode_query_clean (q : Bytes) : ∀ b ∈ encodeElement isQueryNoPlus q, b ≠ 35 := by
  intro b hb
  rcases encode_bytes isQueryNoPlus q b hb with h | rfl | h | h
  · intro hc; subst hc; simp [isQF_facts] at h
  · decide
  · have h1 := UInt8.le_iff_toNat_le.mp h.1; simp at h1; intro hc; subst hc; simp at h1
  · have h1 := UInt8.le_iff_toNat_le.mp h.1; simp at h1; intro hc; subst hc; simp at h1

def queryPart : Option Bytes → Bytes
  | some q => [63] ++ encodeElement isQueryNoPlus q
  | none => []
def fragmentPart : Option Bytes → Bytes
  | some f => [35] ++ encodeElement isQueryOrFragment f
  | none => []

theorem findByte35_queryPart (q : Option Bytes) (rest : Bytes) :
    findByte 35 (queryPart q ++ 35 :: rest) = some (queryPart q).length := by
  apply findByte_append_notin
  cases q with
  | none => simp [queryPart]
  | some q =>
    simp only [queryPart, List.singleton_append, List.mem_cons]
    intro hc
    rcases hc with hc | hc
    · exact absurd hc (by decide)
    · exact encode_query_clean q 35 hc rfl

theorem findByte35_queryPart_none (q : Option Bytes) : findByte 35 (queryPart q) = none := by
  unfold findByte
  rw [List.idxOf?_eq_none_iff]
  cases q with
  | none => simp [queryPart]
  | some q =>
    simp only [queryPart, List.singleton_append, List.mem_cons]
    intro hc
    rcases hc with hc | hc
    · exact absurd hc (by decide)
    · exact encode_query_clean q 35 hc rfl

theorem findIdx_path_then (P : Bytes) (hP : ∀ b ∈ P, b ≠ 63 ∧ b ≠ 35) (c : UInt8) (hc : c = 63 ∨ c = 35) (rest : Bytes) :
    (P ++ c :: rest).findIdx? (fun b => b == 63 || b == 35) = some P.length := by
  induction P with
  | nil => rcases hc with rfl | rfl <;> simp [List.findIdx?_cons]
  | cons x xs ih =>
    have hx := hP x (by simp)
    have := ih (fun b hb => hP b (by simp [hb]))
    simp only [List.cons_append, List.findIdx?_cons, this]
    simp [hx.1, hx.2]

theorem findIdx_path_none (P : Bytes) (hP : ∀ b ∈ P, b ≠ 63 ∧ b ≠ 35) :
    P.findIdx? (fun b => b == 63 || b == 35) = none := by
  rw [List.findIdx?_eq_none_iff]
  intro b hb
  have := hP b hb; simp [this.1, this.2]

/-- the query/fragment half of the parser, on what `display` prints after the path -/
theorem parse_tail (scheme : Option Bytes) (authority : Option Authority) (path : List Bytes)
    (q f : Option Bytes) :
    (match (match findByte 35 (queryPart q ++ fragmentPart f) with
            | some d => (decodeElement isQueryOrFragment ((queryPart q ++ fragmentPart f).drop (d + 1))).map
                          fun fr => (some fr, (queryPart q ++ fragmentPart f).take d)
            | none => some (none, queryPart q ++ fragmentPart f)) with
      | none => none
      | some (fragment, pq) =>
        if pq.isEmpty then some (⟨scheme, authority, path, none, fragment⟩ : Uri)
        else match decodeElement isQueryOrFragment (pq.drop 1) with
          | none => none
          | some q' => some ⟨scheme, authority, path, some q', fragment⟩)
    = some ⟨scheme, authority, path, q, f⟩ := by
  have hdecq : ∀ q0, decodeElement isQueryOrFragment (encodeElement isQueryNoPlus q0) = some q0 :=
    fun q0 => decode_encode isQueryNoPlus isQueryOrFragment isQueryNoPlus_sub isQF_facts.1 q0
  have hdecf : ∀ f0, decodeElement isQueryOrFragment (encodeElement isQueryOrFragment f0) = some f0 :=
    fun f0 => decode_encode isQueryOrFragment isQueryOrFragment (fun _ h => h) isQF_facts.2.2.1 f0
  cases f with
  | none =>
    simp only [fragmentPart, List.append_nil, findByte35_queryPart_none]
    cases q with
    | none => simp [queryPart]
    | some q0 => simp [queryPart, hdecq]
  | some f0 =>
    have hfp : fragmentPart (some f0) = 35 :: encodeElement isQueryOrFragment f0 := by simp [fragmentPart]
    rw [hfp, findByte35_queryPart]
    have hdrop : (queryPart q ++ 35 :: encodeElement isQueryOrFragment f0).drop ((queryPart q).length + 1)
        = encodeElement isQueryOrFragment f0 := by
      rw [List.drop_append]; simp
    have htake : (queryPart q ++ 35 :: encodeElement isQueryOrFragment f0).take (queryPart q).length = queryPart q :=
      List.take_left' rfl
    simp only [hdrop, htake, hdecf, Option.map_some]
    cases q with
    | none => simp [queryPart]
    | some q0 => simp [queryPart, hdecq]

/-- the URI law for origin-form targets: an absolute path (`/`, or `/seg/…` with a non-empty first segment, any
    segment bytes), optionally followed by a query and by a fragment of arbitrary bytes, is printed and parsed
    back to itself -/
theorem parse_display_origin (r : List Bytes) (hr : ∃ x xs, r = x :: xs ∧ x ≠ []) (q f : Option Bytes) :
    parse (display ⟨none, none, [] :: r, q, f⟩) = some ⟨none, none, [] :: r, q, f⟩ := by
  obtain ⟨x, xs, rfl, hx⟩ := hr
  obtain ⟨j0, J', hJ, hj0, hclean, hpath⟩ := origin_facts x xs hx
  have hdisp : display ⟨none, none, [] :: x :: xs, q, f⟩ = (47 :: j0 :: J') ++ (queryPart q ++ fragmentPart f) := by
    have : joinWith [47] (([] :: x :: xs).map (encodeElement isPchar)) = 47 :: j0 :: J' := by
      simp only [List.map_cons, joinWith]
      rw [show encodeElement isPchar [] = [] from rfl]
      simp only [List.nil_append, List.singleton_append]
      rw [← hJ]; simp
    simp only [display]
    rw [this]
    cases q <;> cases f <;> simp [queryPart, fragmentPart]
  rw [hdisp]
  have hP : ∀ b ∈ (47 :: j0 :: J' : Bytes), b ≠ 63 ∧ b ≠ 35 := by
    intro b hb
    simp only [List.mem_cons] at hb
    rcases hb with rfl | hb
    · decide
    · exact hclean b (by simpa using hb)
  unfold parse parseSchemePart
  have hs0 : findByte 47 ((47 :: j0 :: J') ++ (queryPart q ++ fragmentPart f)) = some 0 := by
    simp [findByte, List.idxOf?, List.findIdx?_cons]
  simp only [hs0, Option.getD_some, List.take_zero]
  have hc0 : findByte 58 ([] : Bytes) = none := rfl
  simp only [hc0]
  -- where the path ends
  have hend : (((47 :: j0 :: J') ++ (queryPart q ++ fragmentPart f)).findIdx? fun b => b == 63 || b == 35).getD
      ((47 :: j0 :: J') ++ (queryPart q ++ fragmentPart f)).length = (47 :: j0 :: J' : Bytes).length := by
    cases hqf : queryPart q ++ fragmentPart f with
    | nil => simp only [List.append_nil]; rw [findIdx_path_none _ hP]; simp
    | cons c rest =>
      have hc : c = 63 ∨ c = 35 := by
        cases q with
        | some q0 => simp [queryPart] at hqf; exact Or.inl hqf.1.symm
        | none =>
          cases f with
          | some f0 => simp [queryPart, fragmentPart] at hqf; exact Or.inr hqf.1.symm
          | none => simp [queryPart, fragmentPart] at hqf
      rw [findIdx_path_then _ hP c hc rest]; simp
  rw [hend]
  have htake : ((47 :: j0 :: J') ++ (queryPart q ++ fragmentPart f)).take (47 :: j0 :: J' : Bytes).length = 47 :: j0 :: J' :=
    List.take_left' rfl
  have hdrop : ((47 :: j0 :: J') ++ (queryPart q ++ fragmentPart f)).drop (47 :: j0 :: J' : Bytes).length
      = queryPart q ++ fragmentPart f := List.drop_left' rfl
  rw [htake, hdrop]
  have hne47 : ¬ (j0 = 47) := hj0
  split
  · rename_i heq
    split at heq
    · rename_i after heq2
      simp only [List.cons.injEq, true_and] at heq2
      exact absurd heq2.1 hne47
    · rw [hpath] at heq; simp at heq
  · rename_i authority path heq
    split at heq
    · rename_i after heq2
      simp only [List.cons.injEq, true_and] at heq2
      exact absurd heq2.1 hne47
    · rw [hpath] at heq
      simp only [Option.map_some, Option.some.injEq, Prod.mk.injEq] at heq
      obtain ⟨rfl, rfl⟩ := heq
      exact parse_tail none none ([] :: x :: xs) q f

end Rhymuri
