import Hm.C13Full

/-! C13 stated directly on byte strings: a byte string whose bits (least significant first) are a block sequence's
    encoding followed by fewer than eight padding bits **of any value** inflates to the expansion — bare, in gzip,
    in zlib.  (The `packBits` forms are the special case of zero padding.) -/

theorem bitsLSB_get (n v t : Nat) (ht : t < n) : (bitsLSB n v)[t]? = some (v / 2 ^ t % 2 == 1) := by
  induction n generalizing v t with
  | zero => omega
  | succ n ih =>
    unfold bitsLSB
    cases t with
    | zero => simp
    | succ t =>
      rw [List.getElem?_cons_succ, ih (v / 2) t (by omega)]
      rw [Nat.div_div_eq_div_mul, Nat.pow_succ, Nat.mul_comm]

theorem byteBits_get : ∀ (d : Bytes) (k : Nat) (hk : k / 8 < d.length),
    (byteBits d)[k]? = some ((d[k / 8].toNat >>> (k % 8)) % 2 == 1)
  | [], k, hk => by simp at hk
  | b :: rest, k, hk => by
    simp only [byteBits, List.flatMap_cons]
    by_cases h8 : k < 8
    · have hdiv : k / 8 = 0 := by omega
      have hmod : k % 8 = k := by omega
      rw [List.getElem?_append_left (by simp [bitsLSB_length]; omega), bitsLSB_get 8 b.toNat k h8]
      simp only [hdiv, hmod, List.getElem_cons_zero, Nat.shiftRight_eq_div_pow]
    · have hk' : (k - 8) / 8 < rest.length := by simp only [List.length_cons] at hk; omega
      rw [List.getElem?_append_right (by simp [bitsLSB_length]; omega)]
      simp only [bitsLSB_length]
      have ih := byteBits_get rest (k - 8) hk'
      simp only [byteBits] at ih
      rw [ih]
      have h1 : k / 8 = (k - 8) / 8 + 1 := by omega
      have h2 : k % 8 = (k - 8) % 8 := by omega
      simp only [h1, h2, List.getElem_cons_succ]

/-- a byte string that contains, at byte offset `|A|`, bytes whose bits start with `bits` carries them at bit `8·|A|` -/
theorem carries_bytes (A C d : Bytes) (bits pad : List Bool) (h : byteBits d = bits ++ pad) :
    Carries (inpOfBytes (A ++ d ++ C).toArray) (8 * A.length) bits := by
  intro k hk
  have hlen : bits.length + pad.length = 8 * d.length := by
    have := congrArg List.length h
    rw [byteBits_length, List.length_append] at this; omega
  have hkd : k / 8 < d.length := by omega
  unfold inpOfBytes
  have hdiv : (8 * A.length + k) / 8 = A.length + k / 8 := by omega
  have hmod : (8 * A.length + k) % 8 = k % 8 := by omega
  have hlt : A.length + k / 8 < (A ++ d ++ C).toArray.size := by simp; omega
  rw [hdiv, hmod, dif_pos hlt]
  have hget : (A ++ d ++ C).toArray[A.length + k / 8] = d[k / 8] := by
    simp only [List.getElem_toArray]
    rw [List.getElem_append_left (by simp; omega), List.getElem_append_right (by omega)]
    simp
  rw [hget]
  have hb := byteBits_get d k hkd
  rw [h, List.getElem?_append_left hk, List.getElem?_eq_getElem hk] at hb
  simp only [Option.some.injEq] at hb
  rw [hb]

theorem inflateR_blocks_bytes (A C d : Bytes) (blocks : List Block) (pad : List Bool) (hne : blocks ≠ [])
    (hok : ∀ b ∈ blocks, b.Ok) (h : byteBits d = blocksBits 0 blocks ++ pad) :
    inflateR (8 * (A ++ d ++ C).toArray.size) (inpOfBytes (A ++ d ++ C).toArray) (8 * A.length)
      = .ok (expandBlocks #[] blocks, 8 * A.length + (blocksBits 0 blocks).length) := by
  unfold inflateR
  have hb := blocksBits_bounds blocks 0 hok
  have hlen : (blocksBits 0 blocks).length + pad.length = 8 * d.length := by
    have := congrArg List.length h
    rw [byteBits_length, List.length_append] at this; omega
  have hsz : (blocksBits 0 blocks).length ≤ 8 * (A ++ d ++ C).toArray.size := by simp; omega
  have hmod : blocksBits (8 * A.length) blocks = blocksBits 0 blocks := by
    have := blocksBits_mod A.length blocks 0
    simpa using this
  have := inflateBlocks_blocks (8 * (A ++ d ++ C).toArray.size + 1) blocks (8 * (A ++ d ++ C).toArray.size + 1) #[]
    (inpOfBytes (A ++ d ++ C).toArray) (8 * A.length) hne
    (fun b hbm => ⟨hok b hbm, by have := hb.2 b hbm; omega⟩) (by omega)
    (by rw [hmod]; exact carries_bytes A C d _ pad h)
  rw [hmod] at this
  exact this

/-- C13 (bare stream, byte form): any padding bits -/
theorem C13_inflateRaw_bytes (d : Bytes) (blocks : List Block) (pad : List Bool) (hne : blocks ≠ [])
    (hok : ∀ b ∈ blocks, b.Ok) (h : byteBits d = blocksBits 0 blocks ++ pad) :
    inflateRaw d = some (expandBlocks #[] blocks).toList := by
  have hi := inflateR_blocks_bytes [] [] d blocks pad hne hok h
  simp only [List.nil_append, List.append_nil, List.length_nil, Nat.mul_zero, Nat.zero_add] at hi
  unfold inflateRaw runR
  simp only []
  rw [hi]

/-- C13 (gzip member, byte form) -/
theorem C13_gzip_bytes (d : Bytes) (blocks : List Block) (pad : List Bool) (hne : blocks ≠ [])
    (hok : ∀ b ∈ blocks, b.Ok) (h : byteBits d = blocksBits 0 blocks ++ pad) (hpad : pad.length < 8)
    (m0 m1 m2 m3 xfl os : UInt8) :
    gunzip (gzipWrap d (expandBlocks #[] blocks) m0 m1 m2 m3 xfl os) = some (expandBlocks #[] blocks).toList := by
  have hlen : (blocksBits 0 blocks).length + pad.length = 8 * d.length := by
    have := congrArg List.length h
    rw [byteBits_length, List.length_append] at this; omega
  have hinf := inflateR_blocks_bytes (gzHdr m0 m1 m2 m3 xfl os)
    (le32 (crc32 (expandBlocks #[] blocks)).toNat ++ le32 ((expandBlocks #[] blocks).size % 4294967296)) d blocks pad hne hok h
  have hA : (gzHdr m0 m1 m2 m3 xfl os).length = 10 := by simp [gzHdr]
  rw [hA] at hinf
  have hw : gzipWrap d (expandBlocks #[] blocks) m0 m1 m2 m3 xfl os
      = gzHdr m0 m1 m2 m3 xfl os ++ d ++
        (le32 (crc32 (expandBlocks #[] blocks)).toNat ++ le32 ((expandBlocks #[] blocks).size % 4294967296)) := by
    simp [gzipWrap]
  rw [← hw] at hinf
  have hg := gunzipR_wrap d (expandBlocks #[] blocks) (8 * 10 + (blocksBits 0 blocks).length) m0 m1 m2 m3 xfl os
    (by omega) (by omega) hinf
  unfold gunzip runR
  simp only []
  rw [hg]

/-- C13 (zlib stream, byte form) -/
theorem C13_zlib_bytes (d : Bytes) (blocks : List Block) (pad : List Bool) (hne : blocks ≠ [])
    (hok : ∀ b ∈ blocks, b.Ok) (h : byteBits d = blocksBits 0 blocks ++ pad) (hpad : pad.length < 8)
    (ad : Bytes) (had : ad.length = 4)
    (hsum : ad.foldl (fun acc b => acc * 256 + b.toNat) 0 = adler32 (expandBlocks #[] blocks)) :
    zlibDecode ([0x78, 0x01] ++ d ++ ad) = some (expandBlocks #[] blocks).toList := by
  have hlen : (blocksBits 0 blocks).length + pad.length = 8 * d.length := by
    have := congrArg List.length h
    rw [byteBits_length, List.length_append] at this; omega
  have hinf := inflateR_blocks_bytes [0x78, 0x01] ad d blocks pad hne hok h
  have hA : ([0x78, 0x01] : Bytes).length = 2 := rfl
  rw [hA] at hinf
  have hz := zlibR_wrap d (expandBlocks #[] blocks) (8 * 2 + (blocksBits 0 blocks).length) ad had hsum
    (by omega) (by omega) (by simpa using hinf)
  unfold zlibDecode runR
  simp only []
  rw [hz]
