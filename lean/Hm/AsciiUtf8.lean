import Hm.Prim

/-! ASCII byte strings are valid UTF-8 (needed wherever a theorem *constructs* an accepted input) -/

theorem byteArray_snoc (init : List UInt8) (x : UInt8) :
    ByteArray.mk (init ++ [x]).toArray = (ByteArray.mk init.toArray).push x := by
  apply ByteArray.ext
  simp [ByteArray.push]

theorem isValidUTF8_of_ascii_rev (rs : List UInt8) (h : ∀ b ∈ rs, b < 128) :
    (ByteArray.mk rs.reverse.toArray).IsValidUTF8 := by
  induction rs with
  | nil => exact ByteArray.isValidUTF8_empty
  | cons x rs ih =>
    have hx : x < 128 := h x (by simp)
    have ih' := ih (fun b hb => h b (by simp [hb]))
    rw [List.reverse_cons, byteArray_snoc]
    have hlt : x.toNat < 128 := by have := UInt8.lt_iff_toNat_lt.mp hx; simpa using this
    let c : Char := Char.ofNat x.toNat
    have hcval : c.val.toNat = x.toNat := by
      simp only [c, Char.ofNat]
      have : x.toNat.isValidChar := by left; omega
      simp [this, Char.ofNatAux]
    have hc1 : c.utf8Size = 1 := by
      simp only [Char.utf8Size]
      have : c.val ≤ 127 := by
        apply UInt32.le_iff_toNat_le.mpr; rw [hcval]; simp; omega
      simp [this]
    have hcu : c.toUInt8 = x := by
      show c.val.toUInt8 = x
      apply UInt8.toNat_inj.mp
      rw [UInt32.toNat_toUInt8, hcval]
      omega
    have := ih'.push hc1
    rwa [hcu] at this

theorem validUtf8_of_ascii (bs : Bytes) (h : ∀ b ∈ bs, b < 128) : validUtf8 bs = true := by
  unfold validUtf8
  rw [ByteArray.validateUTF8_eq_true_iff]
  have := isValidUTF8_of_ascii_rev bs.reverse (fun b hb => h b (by simpa using hb))
  simpa using this

/-- the character of an ASCII byte -/
theorem ascii_char (x : UInt8) (hx : x < 128) :
    ∃ c : Char, c.utf8Size = 1 ∧ c.toUInt8 = x := by
  have hlt : x.toNat < 128 := by have := UInt8.lt_iff_toNat_lt.mp hx; simpa using this
  let c : Char := Char.ofNat x.toNat
  have hcval : c.val.toNat = x.toNat := by
    simp only [c, Char.ofNat]
    have : x.toNat.isValidChar := by left; omega
    simp [this, Char.ofNatAux]
  refine ⟨c, ?_, ?_⟩
  · simp only [Char.utf8Size]
    have : c.val ≤ 127 := by
      apply UInt32.le_iff_toNat_le.mpr; rw [hcval]; simp; omega
    simp [this]
  · show c.val.toUInt8 = x
    apply UInt8.toNat_inj.mp
    rw [UInt32.toNat_toUInt8, hcval]
    omega

/-- an ASCII byte in front neither makes nor breaks validity -/
theorem isValidUTF8_ascii_cons_iff (x : UInt8) (hx : x < 128) (rest : List UInt8) :
    (ByteArray.mk (x :: rest).toArray).IsValidUTF8 ↔ (ByteArray.mk rest.toArray).IsValidUTF8 := by
  obtain ⟨c, hc1, hcu⟩ := ascii_char x hx
  have henc : [c].utf8Encode = ByteArray.mk #[x] := by
    rw [List.utf8Encode_singleton, String.utf8EncodeChar_eq_singleton hc1]
    have : c.val.toUInt8 = x := hcu
    rw [this]
    rfl
  have hcons : ByteArray.mk (x :: rest).toArray = [c].utf8Encode ++ ByteArray.mk rest.toArray := by
    rw [henc]
    apply ByteArray.ext
    simp
  rw [hcons]
  exact ByteArray.isValidUTF8_utf8Encode_singleton_append_iff

/-- an ASCII prefix neither makes nor breaks UTF-8 validity of what follows -/
theorem validUtf8_ascii_append (A B : Bytes) (hA : ∀ b ∈ A, b < 128) : validUtf8 (A ++ B) = validUtf8 B := by
  induction A with
  | nil => rfl
  | cons x xs ih =>
    have hx : x < 128 := hA x (by simp)
    have ih' := ih (fun b hb => hA b (by simp [hb]))
    rw [← ih']
    unfold validUtf8
    have := isValidUTF8_ascii_cons_iff x hx (xs ++ B)
    rw [← ByteArray.validateUTF8_eq_true_iff, ← ByteArray.validateUTF8_eq_true_iff] at this
    simp only [List.cons_append]
    cases h1 : (ByteArray.mk (x :: (xs ++ B)).toArray).validateUTF8 <;>
      cases h2 : (ByteArray.mk (xs ++ B).toArray).validateUTF8 <;> simp_all
