import Hm.Prim

/-! ASCII byte strings are valid UTF-8 (needed wherever a theorem *constructs* an accepted input) -/

theorem byteArray_snoc (init : List UInt8) (x : UInt8) :
    ByteArray.mk (init ++ [x]).toArray = (ByteArray.mk init.toArray).push x := by
  apply ByteArray.ext
  simp [ByteArray.push]

theorem isValidUTF8_of_ascii_rev (rs : List UInt8) (h : ∀ b ∈ rs, b < 128) :
    (ByteArray.mk rs.reverse.toArray).IsValidUTF8 := by
  induction rs with
  | nil => exact ByteArray.isValidUTF8_empty
  | cons x rs ih =>
    have hx : x < 128 := h x (by simp)
    have ih' := ih (fun b hb => h b (by simp [hb]))
    rw [List.reverse_cons, byteArray_snoc]
    have hlt : x.toNat < 128 := by have := UInt8.lt_iff_toNat_lt.mp hx; simpa using this
    let c : Char := Char.ofNat x.toNat
    have hcval : c.val.toNat = x.toNat := by
      simp only [c, Char.ofNat]
      have : x.toNat.isValidChar := by left; omega
      simp [this, Char.ofNatAux]
    have hc1 : c.utf8Size = 1 := by
      simp only [Char.utf8Size]
      have : c.val ≤ 127 := by
        apply UInt32.le_iff_toNat_le.mpr; rw [hcval]; simp; omega
      simp [this]
    have hcu : c.toUInt8 = x := by
      show c.val.toUInt8 = x
      apply UInt8.toNat_inj.mp
      rw [UInt32.toNat_toUInt8, hcval]
      omega
    have := ih'.push hc1
    rwa [hcu] at this

theorem validUtf8_of_ascii (bs : Bytes) (h : ∀ b ∈ bs, b < 128) : validUtf8 bs = true := by
  unfold validUtf8
  rw [ByteArray.validateUTF8_eq_true_iff]
  have := isValidUTF8_of_ascii_rev bs.reverse (fun b hb => h b (by simpa using hb))
  simpa using this
