import Hm.Lib
/-! model of rhymessage 1.3.1 as far as rhymuweb uses it -/

structure Header where
  name : Bytes
  value : Bytes
deriving DecidableEq, Repr

inductive HErr where
  | HeaderLineTooLong | HeaderLineInvalidText | HeaderLineMissingColon
  | HeaderNameContainsIllegalCharacter | HeaderValueContainsIllegalCharacter
  | HeaderLineCouldNotBeFolded
deriving DecidableEq, Repr

inductive HStatus where | complete | incomplete
deriving DecidableEq, Repr

def isGraphic (b : UInt8) : Bool := 33 ≤ b && b ≤ 126
def validName (n : Bytes) : Bool := n.all isGraphic
def validValue (v : Bytes) : Bool := v.all fun b => isWsp b || isGraphic b
def trimWsp (v : Bytes) : Bytes := trimBy isWsp v

/-- `unfold_header` (lib.rs:129-172): `none` = ran out of complete lines -/
def unfold : Nat → Bytes → Bytes → Nat → Except HErr (Option (Bytes × Nat))
  | 0, _, _, _ => .ok none
  | fuel + 1, raw, value, consumed =>
    match findCrlf raw with
    | none => .ok none
    | some i =>
      let line := raw.take i
      if !validUtf8 line then .error .HeaderLineInvalidText
      else if i > 0 && (line.head?.map isWsp).getD false then
        if !validValue line then .error .HeaderValueContainsIllegalCharacter
        else unfold fuel (raw.drop (i + 2)) (value ++ [SP] ++ trimWsp line) (consumed + i + 2)
      else .ok (some (value, consumed))

inductive Step where
  | more | done | field (h : Header) (n : Nat)
deriving DecidableEq, Repr

def overLimit (limit : Option Nat) (n : Nat) : Bool :=
  match limit with | some lim => decide (n > lim) | none => false

/-- `separate_header_name_and_value` + first-segment validation, on one complete first line -/
def parseFirstLine (line : Bytes) : Except HErr (Bytes × Bytes) :=
  if !validUtf8 line then .error .HeaderLineInvalidText else
  match findByte COLON line with
  | none => .error .HeaderLineMissingColon
  | some c =>
    if !validName (line.take c) then .error .HeaderNameContainsIllegalCharacter
    else if !validValue (line.drop (c + 1)) then .error .HeaderValueContainsIllegalCharacter
    else .ok (line.take c, line.drop (c + 1))

def finishField (i : Nat) (name : Bytes) : Except HErr (Option (Bytes × Nat)) → Except HErr Step
  | .error e => .error e
  | .ok none => .ok .more
  | .ok (some (v, n)) => .ok (.field ⟨name, trimWsp v⟩ (i + 2 + n))

/-- one iteration of the `while offset < raw_message.len()` loop of `MessageHeaders::parse` -/
def headerStep (limit : Option Nat) (rest : Bytes) : Except HErr Step :=
  if rest = [] then .ok .more else
  match findCrlf rest with
  | none => if overLimit limit (rest.length + 2) then .error .HeaderLineTooLong else .ok .more
  | some i =>
    if overLimit limit (i + 2) then .error .HeaderLineTooLong
    else if i = 0 then .ok .done
    else match parseFirstLine (rest.take i) with
      | .error e => .error e
      | .ok (name, v0) => finishField i name (unfold (rest.length + 1) (rest.drop (i + 2)) v0 0)

def parseLoop (limit : Option Nat) : Nat → List Header → Bytes → Nat →
    Except HErr (List Header × HStatus × Nat)
  | 0, hs, _, off => .ok (hs, .incomplete, off)
  | fuel + 1, hs, rest, off =>
    match headerStep limit rest with
    | .error e => .error e
    | .ok .more => .ok (hs, .incomplete, off)
    | .ok .done => .ok (hs, .complete, off + 2)
    | .ok (.field h n) => parseLoop limit fuel (hs ++ [h]) (rest.drop n) (off + n)

/-- `MessageHeaders::parse`: headers so far, raw input → headers, status, consumed -/
def Headers.parse (limit : Option Nat) (hs : List Header) (raw : Bytes) :=
  parseLoop limit (raw.length + 1) hs raw 0

def nameEq (a b : Bytes) : Bool := eqIgnoreCase a b

def headerMultiValue (hs : List Header) (name : Bytes) : List Bytes :=
  (hs.filter fun h => nameEq h.name name).map (·.value)

def joinWith (sep : Bytes) : List Bytes → Bytes
  | [] => []
  | [x] => x
  | x :: xs => x ++ sep ++ joinWith sep xs

def headerValue (hs : List Header) (name : Bytes) : Option Bytes :=
  match headerMultiValue hs name with
  | [] => none
  | vs => some (joinWith [COMMA] vs)

def hasHeader (hs : List Header) (name : Bytes) : Bool := hs.any fun h => nameEq h.name name

/-- `str::split(',')` -/
def splitOn (sep : UInt8) : Bytes → List Bytes
  | [] => [[]]
  | b :: rest =>
    if b = sep then [] :: splitOn sep rest
    else match splitOn sep rest with
      | [] => [[b]]
      | p :: ps => (b :: p) :: ps

/-- `str::split_terminator(',')`: like split, minus one trailing empty piece -/
def splitTerminator (sep : UInt8) (s : Bytes) : List Bytes :=
  let ps := splitOn sep s
  match ps.getLast? with
  | some [] => ps.dropLast
  | _ => ps

def headerTokens (hs : List Header) (name : Bytes) : List Bytes :=
  (headerMultiValue hs name).flatMap fun v =>
    (splitTerminator COMMA v).map fun t => lower (rustTrim t)   -- `.map(str::trim).map(str::to_ascii_lowercase)`

def hasHeaderToken (hs : List Header) (name token : Bytes) : Bool :=
  (headerTokens hs name).any (· == lower token)

def addHeader (hs : List Header) (h : Header) : List Header := hs ++ [h]
def removeHeader (hs : List Header) (name : Bytes) : List Header := hs.filter fun h => !nameEq h.name name

def setHeaderAux (name value : Bytes) : Bool → List Header → List Header
  | _, [] => []
  | seen, h :: rest =>
    if nameEq h.name name then
      if seen then setHeaderAux name value true rest
      else { h with value := value } :: setHeaderAux name value true rest
    else h :: setHeaderAux name value seen rest

def setHeader (hs : List Header) (name value : Bytes) : List Header :=
  if hasHeader hs name then setHeaderAux name value false hs else hs ++ [⟨name, value⟩]

/-- `generate` without folding (lines must fit; `none` = needs folding, not modelled here) -/
def Headers.generate (limit : Option Nat) (hs : List Header) : Option Bytes :=
  let lines := hs.map fun h => h.name ++ [COLON, SP] ++ h.value
  if lines.any fun l => overLimit limit (l.length + 2) then none
  else some ((lines.flatMap fun l => l ++ CRLF) ++ CRLF)
