import Hm.HeaderRoundTrip

/-! the header round trip under a line limit: generated lines that fit the limit parse back -/

/-- every generated line — `name: value CRLF` — and the empty line fit the limit -/
def FitsLimit (limit : Option Nat) (hs : List Header) : Prop :=
  (∀ h ∈ hs, overLimit limit ((headerLine h).length + 2) = false) ∧ overLimit limit 2 = false

theorem headerStep_generated_lim {limit : Option Nat} {h : Header} (w : WfHeader h) {more : Bytes} (hm : GoodNext more)
    (hfit : overLimit limit ((headerLine h).length + 2) = false) :
    headerStep limit (headerLine h ++ CRLF ++ more) = .ok (.field h ((headerLine h).length + 2)) := by
  have hb := headerLine_bytes w
  have hne : headerLine h ++ CRLF ++ more ≠ [] := by simp [headerLine_ne_nil h]
  unfold headerStep
  rw [if_neg hne, findCrlf_clean_append _ _ hb.2]
  have hlen : (headerLine h).length ≠ 0 := by
    intro hc; exact headerLine_ne_nil h (List.length_eq_zero_iff.mp hc)
  have htake : (headerLine h ++ CRLF ++ more).take (headerLine h).length = headerLine h := by
    rw [List.append_assoc]; exact List.take_left' rfl
  have hdrop : (headerLine h ++ CRLF ++ more).drop ((headerLine h).length + 2) = more := by
    rw [List.append_assoc, List.drop_append, List.drop_of_length_le (by omega)]
    simp [CRLF]
  simp only [hfit, Bool.false_eq_true, if_false, hlen, htake, parseFirstLine_headerLine w, hdrop]
  rw [unfold_goodNext hm]
  simp only [finishField, Nat.add_zero]
  rw [trimWsp_sp_cons w.value_trimmed]

theorem headerStep_blank_lim {limit : Option Nat} (hfit : overLimit limit 2 = false) (tail : Bytes) :
    headerStep limit (CRLF ++ tail) = .ok .done := by
  unfold headerStep
  have hf : findCrlf (CRLF ++ tail) = some 0 := by simp [CRLF, findCrlf, CR, LF]
  have hne : CRLF ++ tail ≠ [] := by simp [CRLF]
  rw [if_neg hne, hf]
  simp [hfit]

theorem parseLoop_genBlock_lim {limit : Option Nat} (hs : List Header) (hw : ∀ h ∈ hs, WfHeader h)
    (hfit : FitsLimit limit hs) (hs0 : List Header) (tail : Bytes)
    (off f : Nat) (hf : hs.length + 1 ≤ f) :
    parseLoop limit f hs0 (genBlock hs ++ tail) off = .ok (hs0 ++ hs, .complete, off + (genBlock hs).length) := by
  induction hs generalizing hs0 off f with
  | nil =>
    cases f with
    | zero => omega
    | succ f =>
      unfold parseLoop
      have : genBlock [] ++ tail = CRLF ++ tail := by simp [genBlock]
      rw [this, headerStep_blank_lim hfit.2]
      simp [genBlock, CRLF]
  | cons h rest ih =>
    cases f with
    | zero => omega
    | succ f =>
      have w := hw h (by simp)
      have hw' : ∀ x ∈ rest, WfHeader x := fun x hx => hw x (by simp [hx])
      have hfit' : FitsLimit limit rest := ⟨fun x hx => hfit.1 x (by simp [hx]), hfit.2⟩
      unfold parseLoop
      have hsplit : genBlock (h :: rest) ++ tail = headerLine h ++ CRLF ++ (genBlock rest ++ tail) := by
        simp [genBlock]
      rw [hsplit, headerStep_generated_lim w (goodNext_genBlock rest hw' tail) (hfit.1 h (by simp))]
      simp only
      have hdrop : (headerLine h ++ CRLF ++ (genBlock rest ++ tail)).drop ((headerLine h).length + 2)
          = genBlock rest ++ tail := by
        rw [List.append_assoc, List.drop_append, List.drop_of_length_le (by omega)]
        simp [CRLF]
      rw [hdrop, ih hw' hfit' _ _ _ (by simp at hf; omega)]
      simp only [List.append_assoc, List.singleton_append, Except.ok.injEq, Prod.mk.injEq, true_and]
      simp [genBlock, CRLF]; omega

/-- `generate` then `parse` under the same line limit is the identity on well-formed header lists whose lines fit -/
theorem Headers.parse_generate_lim {limit : Option Nat} (hs : List Header) (hw : ∀ h ∈ hs, WfHeader h)
    (hfit : FitsLimit limit hs) (tail : Bytes) :
    Headers.parse limit [] (genBlock hs ++ tail) = .ok (hs, .complete, (genBlock hs).length) := by
  unfold Headers.parse
  have hlen : hs.length + 1 ≤ (genBlock hs ++ tail).length + 1 := by
    have : hs.length ≤ (genBlock hs).length := by
      unfold genBlock
      clear hfit
      induction hs with
      | nil => simp
      | cons h rest ih =>
        have := ih (fun x hx => hw x (by simp [hx]))
        have h2 : CRLF.length = 2 := rfl
        simp only [List.flatMap_cons, List.append_assoc, List.length_append, List.length_cons, h2] at this ⊢
        omega
    simp; omega
  have := parseLoop_genBlock_lim hs hw hfit [] tail 0 _ hlen
  simpa using this

/-- and `generate` under that limit produces exactly the unfolded block -/
theorem Headers.generate_eq_lim {limit : Option Nat} (hs : List Header) (hfit : FitsLimit limit hs) :
    Headers.generate limit hs = some (genBlock hs) := by
  unfold Headers.generate
  have hany : (hs.map fun h => h.name ++ [COLON, SP] ++ h.value).any (fun l => overLimit limit (l.length + 2)) = false := by
    rw [List.any_eq_false]
    intro l hl
    rw [List.mem_map] at hl
    obtain ⟨h, hh, rfl⟩ := hl
    have := hfit.1 h hh
    unfold headerLine at this
    rw [this]; simp
  simp only [hany, Bool.false_eq_true, if_false, Option.some.injEq]
  unfold genBlock headerLine
  simp only [List.append_cancel_right_eq]
  clear hany hfit
  induction hs with
  | nil => rfl
  | cons h rest ih => simp at ih; simp [ih]
