import Hm.C04Complete

/-! C04 (categories): the response parser's answer to a whole byte string as one decision list in the order in which
    the elements are examined — status line (text, grammar), header block, framing (Content-Length first, then
    `chunked`, then none), body — proved equal to the parser; each rejection category is a corollary -/

def responseVerdict (hl : Option Nat) (s : Bytes) : PRes Fail RespState :=
  match findCrlf s with
  | none => .ok .incomplete Response.new 0
  | some e =>
    if !validUtf8 (s.take e) then .fail (.err .StatusLineNotValidText) else
    match parseStatusLine ⟨true⟩ (s.take e) with
    | .error c => .fail (.err c)
    | .ok (code, reason) =>
      let rest := s.drop (e + 2)
      match Headers.parse hl [] (stripDanglingCr rest) with
      | .error he => .fail (.err (.Headers he))
      | .ok (hs, .incomplete, c) => .ok .incomplete (respAfterHeaders code reason hs .headers) (e + 2 + c)
      | .ok (hs, .complete, c) =>
        let avail := rest.drop c
        match headerValue hs kContentLength with
        | some v =>
          match parseNumber ⟨true⟩ 10 v with
          | none => .fail (.err .InvalidContentLength)
          | some cl =>
            if avail.length ≥ cl then
              .ok .complete { respAfterHeaders code reason hs (.fixedBody cl) with body := avail.take cl } (e + 2 + c + cl)
            else .ok .incomplete { respAfterHeaders code reason hs (.fixedBody cl) with body := avail } (e + 2 + c + avail.length)
        | none =>
          if hasHeaderToken hs kTransferEncoding kChunked then
            match chunkSys.parse ChunkState.new avail with
            | .fail f => .fail f
            | .ok .complete cst k =>
              .ok .complete (dechunkRewrite ⟨true⟩ (respAfterHeaders code reason hs (.chunkedBody ChunkState.new)) cst) (e + 2 + c + k)
            | .ok .incomplete cst k => .ok .incomplete (respAfterHeaders code reason hs (.chunkedBody cst)) (e + 2 + c + k)
          else .ok .complete (respAfterHeaders code reason hs .headers) (e + 2 + c)

/-- C04 (decision list): the parser's answer to a byte string given in one piece is `responseVerdict` -/
theorem C04_verdict (hl : Option Nat) (s : Bytes) :
    (respSys hl).parse Response.new s = responseVerdict hl s := by
  unfold Sys.parse responseVerdict
  have hμ : (respSys hl).μ Response.new s.length = 3 := rfl
  rw [hμ]
  unfold Sys.loop
  rw [respSys_step hl]
  have h1 : respStep hl Response.new s = rstatusStep Response.new s := rfl
  rw [h1]
  unfold rstatusStep
  cases hf : findCrlf s with
  | none => simp
  | some e =>
    simp only
    by_cases hv : validUtf8 (s.take e) = true
    · simp only [hv, Bool.not_true, Bool.false_eq_true, if_false]
      cases hp : parseStatusLine ⟨true⟩ (s.take e) with
      | error c => simp
      | ok cr =>
        obtain ⟨code, reason⟩ := cr
        simp only
        unfold Sys.loop
        rw [respSys_step hl]
        have h2 : ∀ x, respStep hl { Response.new with phase := .headers, statusCode := code, reasonPhrase := reason } x
            = rhdrStep hl (respAfterHeaders code reason [] .headers) x := fun _ => rfl
        rw [h2]
        unfold rhdrStep
        have hh0 : (respAfterHeaders code reason [] .headers).headers = [] := rfl
        rw [hh0]
        cases hh : Headers.parse hl [] (stripDanglingCr (s.drop (e + 2))) with
        | error he => simp
        | ok r =>
          obtain ⟨hs, st, c⟩ := r
          cases st with
          | incomplete =>
            simp only [Option.some.injEq, PRes.ok.injEq, true_and]
            exact ⟨rfl, by omega⟩
          | complete =>
            simp only
            unfold rframing
            cases hcl : headerValue hs kContentLength with
            | some v =>
              simp only
              cases hn : parseNumber ⟨true⟩ 10 v with
              | none => simp
              | some cl =>
                simp only
                unfold Sys.loop
                rw [respSys_step hl]
                have h3 : ∀ x, respStep hl { respAfterHeaders code reason [] .headers with headers := hs, phase := .fixedBody cl } x
                    = rfixedStep (respAfterHeaders code reason hs (.fixedBody cl)) x cl := fun _ => rfl
                rw [h3]
                unfold rfixedStep
                have hb0 : (respAfterHeaders code reason hs (.fixedBody cl)).body = [] := rfl
                simp only [hb0, List.length_nil, Nat.sub_zero, List.nil_append, gt_iff_lt, Nat.not_lt_zero, if_false, List.drop_drop]
                by_cases hlen : (s.drop (e + 2 + c)).length ≥ cl
                · rw [if_pos hlen, if_pos hlen]
                  simp only [Option.some.injEq, PRes.ok.injEq, true_and]
                  first | omega | exact ⟨rfl, by omega⟩
                · rw [if_neg hlen, if_neg hlen]
                  simp only [Option.some.injEq, PRes.ok.injEq, true_and]
                  first | omega | exact ⟨rfl, by omega⟩
            | none =>
              simp only
              by_cases hch : hasHeaderToken hs kTransferEncoding kChunked = true
              · rw [if_pos hch, if_pos hch]
                simp only
                unfold Sys.loop
                rw [respSys_step hl]
                have h3 : ∀ x, respStep hl { respAfterHeaders code reason [] .headers with headers := hs, phase := .chunkedBody ChunkState.new } x
                    = rchunkStep (respAfterHeaders code reason hs (.chunkedBody ChunkState.new)) ChunkState.new x := fun _ => rfl
                rw [h3]
                unfold rchunkStep
                simp only [List.drop_drop]
                cases hcp : chunkSys.parse ChunkState.new (s.drop (e + 2 + c)) with
                | fail f => simp
                | ok cstat cst k =>
                  cases cstat with
                  | complete =>
                    simp only [Option.some.injEq, PRes.ok.injEq, true_and]
                    first | omega | exact ⟨rfl, by omega⟩
                  | incomplete =>
                    simp only [Option.some.injEq, PRes.ok.injEq, true_and]
                    first | omega | exact ⟨rfl, by omega⟩
              · rw [if_neg hch, if_neg hch]
                simp only [Option.some.injEq, PRes.ok.injEq, true_and]
                first | omega | exact ⟨rfl, by omega⟩
    · simp [hv]

/-! ### categories, each as a corollary -/

theorem C04_cat_not_text (hl : Option Nat) {s : Bytes} {e : Nat}
    (hf : findCrlf s = some e) (h : validUtf8 (s.take e) = false) :
    (respSys hl).parse Response.new s = .fail (.err .StatusLineNotValidText) := by
  rw [C04_verdict]; simp [responseVerdict, hf, h]

/-- a status line that is text but outside the grammar: the category `parseStatusLine` names — no protocol
    delimiter, wrong protocol, no status-code delimiter, bad status code, status code out of range — each
    characterised declaratively by `C04_status_line_category` -/
theorem C04_cat_status_line (hl : Option Nat) {s : Bytes} {e : Nat} {c : Cat}
    (hf : findCrlf s = some e) (hv : validUtf8 (s.take e) = true) (h : parseStatusLine ⟨true⟩ (s.take e) = .error c) :
    (respSys hl).parse Response.new s = .fail (.err c) := by
  rw [C04_verdict]; simp [responseVerdict, hf, hv, h]

theorem C04_cat_header (hl : Option Nat) {s reason : Bytes} {e code : Nat} {he : HErr}
    (hf : findCrlf s = some e) (hv : validUtf8 (s.take e) = true)
    (hp : parseStatusLine ⟨true⟩ (s.take e) = .ok (code, reason))
    (h : Headers.parse hl [] (stripDanglingCr (s.drop (e + 2))) = .error he) :
    (respSys hl).parse Response.new s = .fail (.err (.Headers he)) := by
  rw [C04_verdict]; simp [responseVerdict, hf, hv, hp, h]

theorem C04_cat_content_length (hl : Option Nat) {s reason v : Bytes} {e code c : Nat} {hs : List Header}
    (hf : findCrlf s = some e) (hv : validUtf8 (s.take e) = true)
    (hp : parseStatusLine ⟨true⟩ (s.take e) = .ok (code, reason))
    (hh : Headers.parse hl [] (stripDanglingCr (s.drop (e + 2))) = .ok (hs, .complete, c))
    (hval : headerValue hs kContentLength = some v) (h : parseNumber ⟨true⟩ 10 v = none) :
    (respSys hl).parse Response.new s = .fail (.err .InvalidContentLength) := by
  rw [C04_verdict]; simp [responseVerdict, hf, hv, hp, hh, hval, h]

/-- with chunked framing selected, a rejection is exactly the chunk decoder's rejection of what follows the
    header block (its categories: `C05_cat_*` below) -/
theorem C04_cat_chunked (hl : Option Nat) {s reason : Bytes} {e code c : Nat} {hs : List Header} {f : Fail}
    (hf : findCrlf s = some e) (hv : validUtf8 (s.take e) = true)
    (hp : parseStatusLine ⟨true⟩ (s.take e) = .ok (code, reason))
    (hh : Headers.parse hl [] (stripDanglingCr (s.drop (e + 2))) = .ok (hs, .complete, c))
    (hnone : headerValue hs kContentLength = none) (hch : hasHeaderToken hs kTransferEncoding kChunked = true)
    (h : chunkSys.parse ChunkState.new ((s.drop (e + 2)).drop c) = .fail f) :
    (respSys hl).parse Response.new s = .fail f := by
  rw [List.drop_drop] at h
  rw [C04_verdict]; simp [responseVerdict, hf, hv, hp, hh, hnone, hch, h]

/-! ### the chunk decoder's categories, element by element (from any state of the decoder) -/

theorem chunkSys_step_eq : chunkSys.step = chunkStep := rfl

/-- a complete chunk-size line that is not text -/
theorem C05_cat_size_not_text {c : ChunkState} {rem : Bytes} {e : Nat} (hph : c.phase = .chunkSize)
    (hf : findCrlf rem = some e) (h : validUtf8 (rem.take e) = false) (acc f : Nat) :
    chunkSys.loop (f + 1) c rem acc = some (.fail (.err .ChunkSizeLineNotValidText)) := by
  unfold Sys.loop; rw [chunkSys_step_eq]; unfold chunkStep; rw [hph]; simp [csizeStep, hf, h]

/-- a complete chunk-size line whose size field is not `1*HEXDIG` within range (C17_chunk_size) -/
theorem C05_cat_size_invalid {c : ChunkState} {rem : Bytes} {e : Nat} (hph : c.phase = .chunkSize)
    (hf : findCrlf rem = some e) (hv : validUtf8 (rem.take e) = true)
    (h : parseChunkSize ⟨true⟩ (rem.take e) = none) (acc f : Nat) :
    chunkSys.loop (f + 1) c rem acc = some (.fail (.err .InvalidChunkSize)) := by
  unfold Sys.loop; rw [chunkSys_step_eq]; unfold chunkStep; rw [hph]; simp [csizeStep, hf, hv, h]

/-- chunk data followed by two bytes that are not CRLF -/
theorem C05_cat_terminator {c : ChunkState} {a b : UInt8} {rest : Bytes} (hph : c.phase = .chunkTerminator)
    (h : ¬ (a = CR ∧ b = LF)) (acc f : Nat) :
    chunkSys.loop (f + 1) c (a :: b :: rest) acc = some (.fail (.err .InvalidChunkTerminator)) := by
  unfold Sys.loop; rw [chunkSys_step_eq]; unfold chunkStep; rw [hph]; simp [ctermStep, h]

/-- a trailer block the header parser rejects -/
theorem C05_cat_trailer {c : ChunkState} {rem : Bytes} {he : HErr} (hph : c.phase = .trailer)
    (h : Headers.parse none c.trailer rem = .error he) (acc f : Nat) :
    chunkSys.loop (f + 1) c rem acc = some (.fail (.err (.Trailer he))) := by
  unfold Sys.loop; rw [chunkSys_step_eq]; unfold chunkStep; rw [hph]; simp [ctrailerStep, h]
