import Hm.C15

/-! C15 (checks are applied), gzip -/

/-- whatever bytes are decoded, a gzip success means: the two 32-bit little-endian words after the
    (byte-aligned) end of the deflate data are the CRC-32 of the returned content and its length
    mod 2^32.  So a stream whose deflate part still decodes — to the same or to different content —
    but whose stored CRC-32 or ISIZE does not match that content is rejected. -/
theorem C15_gzip_check (N : Nat) (i : Inp) {out : Array UInt8} {p' : Nat}
    (h : gunzipR N i 0 = .ok (out, p')) :
    ∃ (q q' crc isize : Nat), readBits 32 i q = .ok (crc, q') ∧ readBits 32 i q' = .ok (isize, p') ∧
      crc = (crc32 out).toNat ∧ isize = out.size % 4294967296 := by
  unfold gunzipR at h
  obtain ⟨hdr, p1, _, h⟩ := bind_ok h
  obtain ⟨_, h⟩ := ite_fail_ok h
  obtain ⟨_, h⟩ := ite_fail_ok h
  obtain ⟨extra, p2, _, h⟩ := bind_ok h
  obtain ⟨name, p3, _, h⟩ := bind_ok h
  obtain ⟨comment, p4, _, h⟩ := bind_ok h
  obtain ⟨hcrc, p5, _, h⟩ := bind_ok h
  simp only at h
  obtain ⟨_, h⟩ := ite_fail_ok h
  obtain ⟨out1, p6, _, h⟩ := bind_ok h
  obtain ⟨_, p7, _, h⟩ := bind_ok h
  obtain ⟨crc, p8, hcrc', h⟩ := bind_ok h
  obtain ⟨isize, p9, hisz, h⟩ := bind_ok h
  obtain ⟨hne, h⟩ := ite_fail_ok h
  simp [R.pure] at h
  obtain ⟨rfl, rfl⟩ := h
  refine ⟨p7, p8, crc, isize, hcrc', hisz, ?_, ?_⟩
  · apply Decidable.byContradiction; intro hc; exact hne (Or.inl hc)
  · apply Decidable.byContradiction; intro hc; exact hne (Or.inr hc)
