import Hm.FoldChars

/-! Every valid UTF-8 text satisfies the side condition of `foldHeaderChars_eq` (no continuation byte directly behind
    SP / HT): by core's characterisation `validateUTF8 = true ↔ the bytes are the encoding of a list of characters`,
    and the shape of an encoded character (one byte below 0x80, or a lead byte ≥ 0xC0 followed by continuation
    bytes).  Hence for every Rust `String` the byte-index search of `foldHeader` is `fold_header`'s search over
    `char_indices`. -/

theorem tbl_lead2 : ∀ n, n < 256 → isCont (n.toUInt8 &&& 0x1f ||| 0xc0) = false ∧ isWsp (n.toUInt8 &&& 0x1f ||| 0xc0) = false := by decide +kernel
theorem tbl_lead3 : ∀ n, n < 256 → isCont (n.toUInt8 &&& 0x0f ||| 0xe0) = false ∧ isWsp (n.toUInt8 &&& 0x0f ||| 0xe0) = false := by decide +kernel
theorem tbl_lead4 : ∀ n, n < 256 → isCont (n.toUInt8 &&& 0x07 ||| 0xf0) = false ∧ isWsp (n.toUInt8 &&& 0x07 ||| 0xf0) = false := by decide +kernel
theorem tbl_cont : ∀ n, n < 256 → isWsp (n.toUInt8 &&& 0x3f ||| 0x80) = false := by decide +kernel
theorem tbl_ascii : ∀ n, n < 128 → isCont n.toUInt8 = false := by decide +kernel

theorem u8_of (P : UInt8 → Prop) (h : ∀ n, n < 256 → P n.toUInt8) (x : UInt8) : P x := by
  have e : x.toNat.toUInt8 = x := by simp
  rw [← e]; exact h _ x.toNat_lt

theorem lead2 (x : UInt8) : isCont (x &&& 0x1f ||| 0xc0) = false ∧ isWsp (x &&& 0x1f ||| 0xc0) = false :=
  u8_of (fun y => isCont (y &&& 0x1f ||| 0xc0) = false ∧ isWsp (y &&& 0x1f ||| 0xc0) = false) tbl_lead2 x
theorem lead3 (x : UInt8) : isCont (x &&& 0x0f ||| 0xe0) = false ∧ isWsp (x &&& 0x0f ||| 0xe0) = false :=
  u8_of (fun y => isCont (y &&& 0x0f ||| 0xe0) = false ∧ isWsp (y &&& 0x0f ||| 0xe0) = false) tbl_lead3 x
theorem lead4 (x : UInt8) : isCont (x &&& 0x07 ||| 0xf0) = false ∧ isWsp (x &&& 0x07 ||| 0xf0) = false :=
  u8_of (fun y => isCont (y &&& 0x07 ||| 0xf0) = false ∧ isWsp (y &&& 0x07 ||| 0xf0) = false) tbl_lead4 x
theorem contNoWsp (x : UInt8) : isWsp (x &&& 0x3f ||| 0x80) = false :=
  u8_of (fun y => isWsp (y &&& 0x3f ||| 0x80) = false) tbl_cont x

/-- shape of one encoded character, as far as folding cares -/
def CharShape (E : Bytes) : Prop :=
  ∃ h tl, E = h :: tl ∧ isCont h = false ∧ (tl = [] ∨ (isWsp h = false ∧ ∀ x ∈ tl, isWsp x = false))

theorem charShape_encode (c : Char) : CharShape (String.utf8EncodeChar c) := by
  rcases c.utf8Size_eq with h | h | h | h
  · rw [String.utf8EncodeChar_eq_singleton h]
    refine ⟨_, [], rfl, ?_, Or.inl rfl⟩
    have hv : c.val ≤ 127 := Char.utf8Size_eq_one_iff.1 h
    have hlt : c.val.toNat < 128 := by
      have := UInt32.le_iff_toNat_le.1 hv
      have e127 : (127 : UInt32).toNat = 127 := rfl
      rw [e127] at this; omega
    have e : c.val.toUInt8 = c.val.toNat.toUInt8 := by
      apply UInt8.toNat_inj.1
      rw [UInt32.toNat_toUInt8]; rfl
    rw [e]; exact tbl_ascii _ hlt
  · rw [String.utf8EncodeChar_eq_cons_cons h]
    refine ⟨_, _, rfl, (lead2 _).1, Or.inr ⟨(lead2 _).2, ?_⟩⟩
    intro x hx; simp at hx; subst hx; exact contNoWsp _
  · rw [String.utf8EncodeChar_eq_cons_cons_cons h]
    refine ⟨_, _, rfl, (lead3 _).1, Or.inr ⟨(lead3 _).2, ?_⟩⟩
    intro x hx; simp at hx; rcases hx with hx | hx <;> subst hx <;> exact contNoWsp _
  · rw [String.utf8EncodeChar_eq_cons_cons_cons_cons h]
    refine ⟨_, _, rfl, (lead4 _).1, Or.inr ⟨(lead4 _).2, ?_⟩⟩
    intro x hx; simp at hx; rcases hx with hx | hx | hx <;> subst hx <;> exact contNoWsp _

theorem wspThenStart_append_nowsp : ∀ (X rest : Bytes), (∀ x ∈ X, isWsp x = false) →
    wspThenStart (X ++ rest) = wspThenStart rest
  | [], rest, _ => rfl
  | [x], rest, h => by
    have hx := h x (by simp)
    cases rest with
    | nil => rfl
    | cons y t => simp [wspThenStart, hx]
  | x :: x' :: X, rest, h => by
    have hx := h x (by simp)
    have ih := wspThenStart_append_nowsp (x' :: X) rest (fun y hy => h y (by simp [hy]))
    simp only [List.cons_append] at ih ⊢
    simp only [wspThenStart, hx, Bool.false_and, Bool.not_false, Bool.true_and]
    exact ih

/-- the invariant carried along the list of characters -/
def StartOk (bs : Bytes) : Prop := wspThenStart bs = true ∧ ∀ b ∈ bs.head?, isCont b = false

theorem startOk_flatMap (l : List Char) : StartOk (l.flatMap String.utf8EncodeChar) := by
  induction l with
  | nil => exact ⟨rfl, by simp⟩
  | cons c l ih =>
    rw [List.flatMap_cons]
    obtain ⟨h, tl, hE, hc, hshape⟩ := charShape_encode c
    rw [hE]
    refine ⟨?_, by simp [hc]⟩
    rcases hshape with rfl | ⟨hw, htl⟩
    · -- a one-byte character: the next byte starts a character
      simp only [List.cons_append, List.nil_append]
      cases hr : l.flatMap String.utf8EncodeChar with
      | nil => rfl
      | cons y t =>
        have hy : isCont y = false := ih.2 y (by rw [hr]; simp)
        have := ih.1
        rw [hr] at this
        simp [wspThenStart, hy, this]
    · rw [wspThenStart_append_nowsp (h :: tl) _ (by
        intro x hx; simp at hx; rcases hx with hx | hx
        · subst hx; exact hw
        · exact htl x hx)]
      exact ih.1

theorem wspThenStart_of_validUtf8 (line : Bytes) (h : validUtf8 line = true) : wspThenStart line = true := by
  unfold validUtf8 at h
  obtain ⟨l, hl⟩ := ByteArray.validateUTF8_eq_true_iff.1 h
  have : line = l.flatMap String.utf8EncodeChar := by
    have h2 := congrArg (fun b => b.data.toList) hl
    simp only [List.utf8Encode, List.data_toByteArray] at h2
    simpa using h2
  rw [this]
  exact (startOk_flatMap l).1

/-- **`fold_header` over `char_indices` = the model's search over bytes, for every valid UTF-8 line** -/
theorem foldHeaderChars_eq_of_validUtf8 (line : Bytes) (limit skip : Nat) (h : validUtf8 line = true) :
    foldHeaderChars line limit skip = foldHeader line limit skip :=
  foldHeaderChars_eq line limit skip (wspThenStart_of_validUtf8 line h)

/-! a line with a two-byte and a three-byte character around the fold: both forms agree (and answer) -/
#guard foldHeaderChars (str "X: café ☃ snow") 9 3 = some (str "X: café", str " ☃ snow")
#guard foldHeader (str "X: café ☃ snow") 9 3 = some (str "X: café", str " ☃ snow")
#guard wspThenStart (str "X: café ☃ snow") = true
#guard wspThenStart [SP, 0x80] = false
