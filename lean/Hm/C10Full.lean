import Hm.C11Full
import Hm.HeaderRoundTripLim

/-! C10 with limits configured: generate → parse for requests and responses whose lines fit the configured
    limits (the header line limit applies to `generate` and to `parse` alike) -/

variable {u : UriImpl}

/-- C10 (requests, any limits): a request value with a non-empty method free of SP and CRLF (valid UTF-8; every
    RFC token qualifies), a target whose printed form is non-empty, free of SP / CR / non-ASCII bytes and parses
    back to the target (the URI law), well-formed header fields whose generated lines fit the header line limit, a
    body that matches Content-Length (or is empty without it), a request line within the request line limit and a
    total within the maximum message size: `generate` produces `reqBytes v`, and the parser — under the same
    limits, whatever follows — accepts exactly those bytes as one complete request equal to the value in every
    public field -/
theorem C10_request_roundtrip_limits (cfg : ReqCfg) (v : ReqValue u)
    (hm_ne : v.method ≠ []) (hm_sp : SP ∉ v.method) (hm_crlf : findCrlf v.method = none)
    (hm_utf : validUtf8 v.method = true)
    (hdne : u.display v.target ≠ []) (hdc : ∀ b ∈ u.display v.target, b ≠ SP ∧ b ≠ CR ∧ b < 128)
    (hlaw : u.parse (u.display v.target) = some v.target)
    (hw : ∀ h ∈ v.headers, WfHeader h) (hfit : FitsLimit cfg.hl v.headers)
    (hframe : (∃ val, headerValue v.headers kContentLength = some val ∧ parseNumber ⟨true⟩ 10 val = some v.body.length) ∨
              (headerValue v.headers kContentLength = none ∧ v.body = []))
    (hrl : overLimit cfg.rl (requestLineOf v).length = false)
    (hmax : ∀ M, cfg.max = some M → (reqBytes v).length ≤ M ∧ M ≤ usizeMax)
    (tail : Bytes) :
    Request.generate u cfg { Request.new u with method := v.method, target := v.target, headers := v.headers, body := v.body }
      = some (reqBytes v) ∧
    ∃ st, (requestSys u cfg).parse (Request.new u) (reqBytes v ++ tail) = .ok .complete st (reqBytes v).length ∧
      st.method = v.method ∧ st.target = v.target ∧ st.headers = v.headers ∧ st.body = v.body := by
  constructor
  · unfold Request.generate
    simp only [Headers.generate_eq_lim v.headers hfit, Option.map_some]
    simp [reqBytes, requestLineOf]
  · have hrest_clean : ∀ b ∈ [SP] ++ u.display v.target ++ [SP] ++ http11, b ≠ CR ∧ b < 128 := by
      have hh : ∀ x ∈ http11, x ≠ CR ∧ x < 128 := by decide
      intro b hb
      simp only [List.mem_append, List.mem_singleton] at hb
      rcases hb with ((rfl | hb) | rfl) | hb
      · decide
      · exact ⟨(hdc b hb).2.1, (hdc b hb).2.2⟩
      · decide
      · exact hh b hb
    have hline_eq : requestLineOf v = v.method ++ ([SP] ++ u.display v.target ++ [SP] ++ http11) := by
      simp [requestLineOf]
    have hnocrlf : findCrlf (requestLineOf v) = none := by
      rw [hline_eq]
      exact findCrlf_clean_suffix hm_crlf (fun b hb => (hrest_clean b hb).1) (by simp [SP, LF])
    have hutf : validUtf8 (requestLineOf v) = true := by
      rw [hline_eq]
      exact validUtf8_append hm_utf (validUtf8_of_ascii _ (fun b hb => (hrest_clean b hb).2))
    have hparse : parseRequestLine u (requestLineOf v) = .ok (v.method, v.target) :=
      C03_request_line_complete u hm_ne hm_sp hdne (fun hc => (hdc SP hc).1 rfl) hlaw
    have hhdr : Headers.parse cfg.hl [] (genBlock v.headers) = .ok (v.headers, .complete, (genBlock v.headers).length) := by
      have := Headers.parse_generate_lim v.headers hw hfit []
      simpa using this
    have hlen : (reqBytes v).length = (requestLineOf v).length + 2 + (genBlock v.headers).length + v.body.length := by
      simp [reqBytes, CRLF]; omega
    obtain ⟨st, hp, h1, h2, h3, h4⟩ := C03_accept_complete u cfg (tail := tail) hnocrlf hutf hparse hhdr hframe hrl
      (by intro M hM; have := hmax M hM; rw [hlen] at this; exact this)
    refine ⟨st, ?_, h1, h2, h3, h4⟩
    rw [hlen]
    have : reqBytes v ++ tail = requestLineOf v ++ CRLF ++ genBlock v.headers ++ v.body ++ tail := by simp [reqBytes]
    rw [this]; exact hp

/-- C10 (responses, any header line limit): a response value with a status code below 1000, a reason phrase free
    of CRLF (valid UTF-8), well-formed header fields whose generated lines fit the limit and a body matching
    Content-Length: `generate` produces the bytes and the parser accepts exactly them as the same value -/
theorem C10_response_roundtrip_limits (hl : Option Nat) (code : Nat) (reason : Bytes) (hs : List Header) (body : Bytes)
    (hc : code < 1000) (hr_crlf : findCrlf reason = none) (hr_utf : validUtf8 reason = true)
    (hw : ∀ h ∈ hs, WfHeader h) (hfit : FitsLimit hl hs)
    {val : Bytes} (hval : headerValue hs kContentLength = some val) (hnum : parseNumber ⟨true⟩ 10 val = some body.length)
    (tail : Bytes) :
    let g := statusLine' code reason ++ CRLF ++ genBlock hs ++ body
    Response.generate { hl := hl, ov := true, tree := ⟨true⟩ }
        { Response.new with statusCode := code, reasonPhrase := reason, headers := hs, body := body } = some g ∧
    (respSys hl).parse Response.new (g ++ tail)
      = .ok .complete { respAfterHeaders code reason hs (.fixedBody body.length) with body := body } g.length := by
  intro g
  constructor
  · unfold Response.generate
    simp only [Headers.generate_eq_lim hs hfit, Option.map_some]
    simp [g, statusLine']
  · have hpre' : ∀ b ∈ http11 ++ [SP] ++ natToDec code ++ [SP], b ≠ CR ∧ b < 128 := by
      have hh : ∀ x ∈ http11, x ≠ CR ∧ x < 128 := by decide
      intro b hb
      simp only [List.mem_append, List.mem_singleton] at hb
      rcases hb with ((hb | rfl) | hb) | rfl
      · exact hh b hb
      · decide
      · have hd := (natToDec_digits code).1 b hb
        exact ⟨(isDig_props hd).1, isDig_lt hd⟩
      · decide
    have hno : findCrlf (statusLine' code reason) = none := by
      unfold statusLine'; exact findCrlf_clean_prefix (fun b hb => (hpre' b hb).1) hr_crlf
    have hutf : validUtf8 (statusLine' code reason) = true := by
      unfold statusLine'; rw [validUtf8_ascii_append _ _ (fun b hb => (hpre' b hb).2)]; exact hr_utf
    have hhdr : Headers.parse hl [] (genBlock hs) = .ok (hs, .complete, (genBlock hs).length) := by
      have := Headers.parse_generate_lim hs hw hfit []
      simpa using this
    have := C04_accept_complete_fixed hl (tail := tail) hno hutf (parseStatusLine_statusLine' code reason hc) hhdr hval hnum
    have hlen : g.length = (statusLine' code reason).length + 2 + (genBlock hs).length + body.length := by
      simp [g, CRLF]; omega
    rw [hlen]; exact this

/-- generating again from the parsed value reproduces the same bytes: `generate` depends on the public fields only -/
theorem C10_request_regenerate (cfg : ReqCfg) (st st' : ReqState u)
    (h1 : st'.method = st.method) (h2 : st'.target = st.target) (h3 : st'.headers = st.headers) (h4 : st'.body = st.body) :
    Request.generate u cfg st' = Request.generate u cfg st := by
  unfold Request.generate; rw [h1, h2, h3, h4]

theorem C10_response_regenerate (cfg : RespCfg) (st st' : RespState)
    (h1 : st'.statusCode = st.statusCode) (h2 : st'.reasonPhrase = st.reasonPhrase) (h3 : st'.headers = st.headers)
    (h4 : st'.body = st.body) : Response.generate cfg st' = Response.generate cfg st := by
  unfold Response.generate; rw [h1, h2, h3, h4]
