import Hm.Lib

/-! Facts about the model of `str::trim` (`rustTrim`, Unicode white space): it only removes bytes, it is the ASCII trim
    on ASCII text (so on every header value a parser can produce), and it commutes with ASCII lower-casing. -/

/-! ### it only removes bytes -/

theorem stripWsPrefix_drop {s r : Bytes} (h : stripWsPrefix s = some r) : ∃ k, r = s.drop k := by
  unfold stripWsPrefix at h
  cases hf : wsSeqs.find? (fun w => w.isPrefixOf s) with
  | none => simp [hf] at h
  | some w => simp [hf] at h; exact ⟨w.length, h.symm⟩

theorem stripWsSuffix_take {s r : Bytes} (h : stripWsSuffix s = some r) : ∃ k, r = s.take k := by
  unfold stripWsSuffix at h
  cases hf : wsSeqs.find? (fun w => w.reverse.isPrefixOf s.reverse) with
  | none => simp [hf] at h
  | some w => simp [hf] at h; exact ⟨s.length - w.length, h.symm⟩

theorem rustTrimStart_drop (fuel : Nat) (s : Bytes) : ∃ k, rustTrimStart fuel s = s.drop k := by
  induction fuel generalizing s with
  | zero => exact ⟨0, by simp [rustTrimStart]⟩
  | succ fuel ih =>
    unfold rustTrimStart
    cases hs : stripWsPrefix s with
    | none => exact ⟨0, by simp⟩
    | some r =>
      obtain ⟨k, rfl⟩ := stripWsPrefix_drop hs
      obtain ⟨k2, h2⟩ := ih (s.drop k)
      exact ⟨k + k2, by simp only [h2, List.drop_drop]⟩

theorem rustTrimEnd_take (fuel : Nat) (s : Bytes) : ∃ k, rustTrimEnd fuel s = s.take k := by
  induction fuel generalizing s with
  | zero => exact ⟨s.length, by simp [rustTrimEnd]⟩
  | succ fuel ih =>
    unfold rustTrimEnd
    cases hs : stripWsSuffix s with
    | none => exact ⟨s.length, by simp⟩
    | some r =>
      obtain ⟨k, rfl⟩ := stripWsSuffix_take hs
      obtain ⟨k2, h2⟩ := ih (s.take k)
      exact ⟨min k2 k, by simp only [h2, List.take_take]⟩

theorem rustTrim_sub (v : Bytes) : ∀ b ∈ rustTrim v, b ∈ v := by
  intro b hb
  unfold rustTrim at hb
  obtain ⟨k1, h1⟩ := rustTrimStart_drop v.length v
  obtain ⟨k2, h2⟩ := rustTrimEnd_take v.length (rustTrimStart v.length v)
  rw [h2, h1] at hb
  exact List.mem_of_mem_drop (List.mem_of_mem_take hb)

theorem rustTrim_length_le (v : Bytes) : (rustTrim v).length ≤ v.length := by
  unfold rustTrim
  obtain ⟨k1, h1⟩ := rustTrimStart_drop v.length v
  obtain ⟨k2, h2⟩ := rustTrimEnd_take v.length (rustTrimStart v.length v)
  rw [h2, h1]
  simp; omega

/-! ### on ASCII text it is the ASCII trim -/

/-- what the 25 white-space sequences look like from an ASCII byte: only the six one-byte ones can start with it -/
theorem ascii_ws_facts : ∀ n, n < 128 →
    ((0xC2 : UInt8) == n.toUInt8) = false ∧ ((0xE1 : UInt8) == n.toUInt8) = false ∧ ((0xE2 : UInt8) == n.toUInt8) = false ∧
    ((0xE3 : UInt8) == n.toUInt8) = false ∧ ((0x85 : UInt8) == n.toUInt8) = false ∧ ((0xA0 : UInt8) == n.toUInt8) = false ∧
    ((0x80 : UInt8) == n.toUInt8) = false ∧ ((0x81 : UInt8) == n.toUInt8) = false ∧ ((0x82 : UInt8) == n.toUInt8) = false ∧
    ((0x83 : UInt8) == n.toUInt8) = false ∧ ((0x84 : UInt8) == n.toUInt8) = false ∧ ((0x86 : UInt8) == n.toUInt8) = false ∧
    ((0x87 : UInt8) == n.toUInt8) = false ∧ ((0x88 : UInt8) == n.toUInt8) = false ∧ ((0x89 : UInt8) == n.toUInt8) = false ∧
    ((0x8A : UInt8) == n.toUInt8) = false ∧ ((0xA8 : UInt8) == n.toUInt8) = false ∧ ((0xA9 : UInt8) == n.toUInt8) = false ∧
    ((0xAF : UInt8) == n.toUInt8) = false ∧ ((0x9F : UInt8) == n.toUInt8) = false ∧
    (isAsciiWs n.toUInt8 = (((9 : UInt8) == n.toUInt8) || ((10 : UInt8) == n.toUInt8) || ((11 : UInt8) == n.toUInt8) ||
      ((12 : UInt8) == n.toUInt8) || ((13 : UInt8) == n.toUInt8) || ((32 : UInt8) == n.toUInt8))) := by
  decide +kernel

theorem stripWsPrefix_ascii (b : UInt8) (hb : b < 128) (rest : Bytes) :
    stripWsPrefix (b :: rest) = if isAsciiWs b then some rest else none := by
  have hn : b.toNat < 128 := by simpa using UInt8.lt_iff_toNat_lt.mp hb
  have f := ascii_ws_facts b.toNat hn
  have e : b.toNat.toUInt8 = b := by simp
  rw [e] at f
  obtain ⟨f1, f2, f3, f4, _, _, _, _, _, _, _, _, _, _, _, _, _, _, _, _, fws⟩ := f
  rw [fws]
  simp only [stripWsPrefix, wsSeqs, List.find?, List.isPrefixOf, f1, f2, f3, f4, Bool.false_and, Bool.and_true]
  by_cases h9 : ((9 : UInt8) == b) = true
  · simp [h9]
  · simp only [h9]
    by_cases h10 : ((10 : UInt8) == b) = true
    · simp [h10]
    · simp only [h10]
      by_cases h11 : ((11 : UInt8) == b) = true
      · simp [h11]
      · simp only [h11]
        by_cases h12 : ((12 : UInt8) == b) = true
        · simp [h12]
        · simp only [h12]
          by_cases h13 : ((13 : UInt8) == b) = true
          · simp [h13]
          · simp only [h13]
            by_cases h32 : ((32 : UInt8) == b) = true
            · simp [h32]
            · simp [h32]

theorem stripWsPrefix_nil : stripWsPrefix [] = none := by
  simp [stripWsPrefix, wsSeqs, List.find?, List.isPrefixOf]

theorem rustTrimStart_ascii (fuel : Nat) (s : Bytes) (hs : ∀ b ∈ s, b < 128) (hf : s.length ≤ fuel) :
    rustTrimStart fuel s = s.dropWhile isAsciiWs := by
  induction fuel generalizing s with
  | zero =>
    have : s = [] := by cases s with | nil => rfl | cons a t => simp at hf
    subst this; simp [rustTrimStart]
  | succ fuel ih =>
    unfold rustTrimStart
    cases s with
    | nil => simp [stripWsPrefix_nil]
    | cons b rest =>
      rw [stripWsPrefix_ascii b (hs b (by simp)) rest]
      by_cases hw : isAsciiWs b = true
      · simp only [hw, if_true, List.dropWhile_cons]
        exact ih rest (fun x hx => hs x (by simp [hx])) (by simp at hf; omega)
      · simp [hw]

/-- the same facts for the last byte of a sequence (suffix test) -/
theorem stripWsSuffix_ascii (s : Bytes) (b : UInt8) (hb : b < 128) :
    stripWsSuffix (s ++ [b]) = if isAsciiWs b then some s else none := by
  have hn : b.toNat < 128 := by simpa using UInt8.lt_iff_toNat_lt.mp hb
  have f := ascii_ws_facts b.toNat hn
  have e : b.toNat.toUInt8 = b := by simp
  rw [e] at f
  obtain ⟨_, _, _, _, g1, g2, g3, g4, g5, g6, g7, g8, g9, g10, g11, g12, g13, g14, g15, g16, fws⟩ := f
  rw [fws]
  simp only [stripWsSuffix, wsSeqs, List.find?, List.reverse_append, List.reverse_cons, List.reverse_nil, List.nil_append,
    List.singleton_append, List.cons_append, List.isPrefixOf, g1, g2, g3, g4, g5, g6, g7, g8, g9, g10, g11, g12, g13, g14, g15, g16,
    Bool.false_and, Bool.and_true, List.length_append, List.length_cons, List.length_nil]
  have ht : List.take (s.length + (0 + 1) - (0 + 1)) (s ++ [b]) = s := by simp
  by_cases h9 : ((9 : UInt8) == b) = true
  · simp [h9]
  · simp only [h9]
    by_cases h10 : ((10 : UInt8) == b) = true
    · simp [h10]
    · simp only [h10]
      by_cases h11 : ((11 : UInt8) == b) = true
      · simp [h11]
      · simp only [h11]
        by_cases h12 : ((12 : UInt8) == b) = true
        · simp [h12]
        · simp only [h12]
          by_cases h13 : ((13 : UInt8) == b) = true
          · simp [h13]
          · simp only [h13]
            by_cases h32 : ((32 : UInt8) == b) = true
            · simp [h32]
            · simp [h32]

theorem stripWsSuffix_nil : stripWsSuffix [] = none := by
  simp [stripWsSuffix, wsSeqs, List.find?, List.isPrefixOf]

theorem rustTrimEnd_ascii (fuel : Nat) (s : Bytes) (hs : ∀ b ∈ s, b < 128) (hf : s.length ≤ fuel) :
    rustTrimEnd fuel s = (s.reverse.dropWhile isAsciiWs).reverse := by
  induction fuel generalizing s with
  | zero =>
    have : s = [] := by cases s with | nil => rfl | cons a t => simp at hf
    subst this; simp [rustTrimEnd]
  | succ fuel ih =>
    unfold rustTrimEnd
    rcases List.eq_nil_or_concat s with rfl | ⟨init, b, rfl⟩
    · simp [stripWsSuffix_nil]
    · rw [List.concat_eq_append] at hs hf ⊢
      rw [stripWsSuffix_ascii init b (hs b (by simp))]
      by_cases hw : isAsciiWs b = true
      · simp only [hw, if_true, List.reverse_append, List.reverse_cons, List.reverse_nil, List.nil_append, List.singleton_append,
          List.dropWhile_cons]
        exact ih init (fun x hx => hs x (by simp [hx])) (by simp at hf; omega)
      · simp [hw]

/-- on ASCII text `str::trim` is the ASCII trim -/
theorem rustTrim_ascii (p : Bytes) (hp : ∀ b ∈ p, b < 128) : rustTrim p = trimBy isAsciiWs p := by
  unfold rustTrim trimBy trimEndBy trimStartBy
  rw [rustTrimStart_ascii p.length p hp (Nat.le_refl _)]
  have hsub : ∀ b ∈ p.dropWhile isAsciiWs, b < 128 := fun b hb => hp b ((List.dropWhile_suffix _).subset hb)
  have hlen : (p.dropWhile isAsciiWs).length ≤ p.length := (List.dropWhile_suffix _).length_le
  exact rustTrimEnd_ascii p.length _ hsub hlen

/-! ### it commutes with ASCII lower-casing -/

theorem isPrefixOf_map_fix (f : UInt8 → UInt8) (w : Bytes) (hw : ∀ x ∈ w, ∀ b, (x == f b) = (x == b)) (s : Bytes) :
    w.isPrefixOf (s.map f) = w.isPrefixOf s := by
  induction w generalizing s with
  | nil => simp [List.isPrefixOf]
  | cons x xs ih =>
    cases s with
    | nil => simp [List.isPrefixOf]
    | cons b rest =>
      simp only [List.map_cons, List.isPrefixOf]
      rw [hw x (by simp) b, ih (fun y hy => hw y (by simp [hy])) rest]

/-- lower-casing never produces and never destroys a white-space byte -/
theorem ws_byte_lower : ∀ x ∈ ([9, 10, 11, 12, 13, 32, 0xC2, 0x85, 0xA0, 0xE1, 0x9A, 0x80, 0xE2, 0x81, 0x82, 0x83, 0x84, 0x86, 0x87, 0x88,
      0x89, 0x8A, 0xA8, 0xA9, 0xAF, 0x9F, 0xE3] : List UInt8),
    ∀ n, n < 256 → (x == asciiLower n.toUInt8) = (x == n.toUInt8) := by
  decide +kernel

theorem wsSeqs_bytes : ∀ w ∈ wsSeqs, ∀ x ∈ w, x ∈ ([9, 10, 11, 12, 13, 32, 0xC2, 0x85, 0xA0, 0xE1, 0x9A, 0x80, 0xE2, 0x81, 0x82, 0x83, 0x84, 0x86,
    0x87, 0x88, 0x89, 0x8A, 0xA8, 0xA9, 0xAF, 0x9F, 0xE3] : List UInt8) := by
  decide +kernel

theorem ws_fix (w : Bytes) (hw : w ∈ wsSeqs) : ∀ x ∈ w, ∀ b : UInt8, (x == asciiLower b) = (x == b) := by
  intro x hx b
  have := ws_byte_lower x (wsSeqs_bytes w hw x hx) b.toNat b.toNat_lt
  simpa using this

theorem find_congr {α : Type} (l : List α) (p q : α → Bool) (h : ∀ a ∈ l, p a = q a) : l.find? p = l.find? q := by
  induction l with
  | nil => rfl
  | cons a t ih =>
    simp only [List.find?_cons, h a (by simp)]
    split
    · rfl
    · exact ih (fun x hx => h x (by simp [hx]))

theorem stripWsPrefix_lower (s : Bytes) : stripWsPrefix (lower s) = (stripWsPrefix s).map lower := by
  unfold stripWsPrefix
  have : wsSeqs.find? (fun w => w.isPrefixOf (lower s)) = wsSeqs.find? (fun w => w.isPrefixOf s) :=
    find_congr _ _ _ (fun w hw => isPrefixOf_map_fix asciiLower w (ws_fix w hw) s)
  rw [this]
  cases wsSeqs.find? (fun w => w.isPrefixOf s) with
  | none => rfl
  | some w => simp [lower, List.map_drop]

theorem rustTrimStart_lower (fuel : Nat) (s : Bytes) : rustTrimStart fuel (lower s) = lower (rustTrimStart fuel s) := by
  induction fuel generalizing s with
  | zero => simp [rustTrimStart]
  | succ fuel ih =>
    unfold rustTrimStart
    rw [stripWsPrefix_lower]
    cases stripWsPrefix s with
    | none => rfl
    | some r => simp only [Option.map_some]; exact ih r

theorem stripWsSuffix_lower (s : Bytes) : stripWsSuffix (lower s) = (stripWsSuffix s).map lower := by
  unfold stripWsSuffix
  have hrev : (lower s).reverse = lower s.reverse := by simp [lower]
  have : wsSeqs.find? (fun w => w.reverse.isPrefixOf (lower s).reverse) = wsSeqs.find? (fun w => w.reverse.isPrefixOf s.reverse) := by
    apply find_congr
    intro w hw
    rw [hrev]
    exact isPrefixOf_map_fix asciiLower w.reverse (fun x hx => ws_fix w hw x (by simpa using hx)) s.reverse
  rw [this]
  cases wsSeqs.find? (fun w => w.reverse.isPrefixOf s.reverse) with
  | none => rfl
  | some w => simp [lower, List.map_take]

theorem rustTrimEnd_lower (fuel : Nat) (s : Bytes) : rustTrimEnd fuel (lower s) = lower (rustTrimEnd fuel s) := by
  induction fuel generalizing s with
  | zero => simp [rustTrimEnd]
  | succ fuel ih =>
    unfold rustTrimEnd
    rw [stripWsSuffix_lower]
    cases stripWsSuffix s with
    | none => rfl
    | some r => simp only [Option.map_some]; exact ih r

theorem rustTrim_lower (t : Bytes) : rustTrim (lower t) = lower (rustTrim t) := by
  unfold rustTrim
  have hl : (lower t).length = t.length := by simp [lower]
  rw [hl, rustTrimStart_lower, rustTrimEnd_lower]
