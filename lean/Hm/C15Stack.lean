import Hm.C15Stored
import Hm.FuelMono

/-! C15 at `decode_body` for every stack: a layer that its decoder refuses — under any number of intact outer
    layers — makes `decode_body` fail with the headers untouched; with the truncation theorems this gives
    "every strict truncation of the coded bytes makes decode_body fail" for every coding list -/

variable {gz fl : Bytes → Option Bytes}

/-- the loop fails as soon as one decoder on the way fails -/
theorem decodeRev_fail : ∀ (outs : List Bytes) (body x : Bytes) (inner : Bytes) (rest : List Bytes),
    (∀ c ∈ outs, known c = true) →
    outs.foldl (fun b c => b.bind (undo1 gz fl c)) (some body) = some x →
    known inner = true → undo1 gz fl inner x = none →
    decodeRev gz fl (outs ++ inner :: rest) body = none := by
  intro outs
  induction outs with
  | nil =>
    intro body x inner rest _ hx hk hu
    simp at hx; subst hx
    unfold decodeRev
    simp only [List.nil_append]
    unfold known at hk
    unfold undo1 at hu
    by_cases hg : inner = kGzip
    · subst hg
      simp only [if_true] at hu ⊢
      rw [hu]; rfl
    · by_cases hd : inner = kDeflate
      · subst hd
        simp only [hg, if_false, if_true] at hu ⊢
        rw [hu]; rfl
      · simp [hg, hd] at hk
  | cons c cs ih =>
    intro body x inner rest hkn hx hk hu
    have hc := hkn c (by simp)
    simp only [List.foldl_cons, Option.bind_some] at hx
    cases hb : undo1 gz fl c body with
    | none =>
      rw [hb] at hx
      have : cs.foldl (fun b c => b.bind (undo1 gz fl c)) none = none := by
        clear ih hkn hx
        induction cs with
        | nil => rfl
        | cons d ds ihd => simpa using ihd
      rw [this] at hx; cases hx
    | some b1 =>
      rw [hb] at hx
      have ih' := ih b1 x inner rest (fun d hd => hkn d (by simp [hd])) hx hk hu
      unfold decodeRev
      simp only [List.cons_append]
      unfold known at hc
      unfold undo1 at hb
      by_cases hg : c = kGzip
      · subst hg
        simp only [if_true] at hb ⊢
        rw [hb]; exact ih'
      · by_cases hd : c = kDeflate
        · subst hd
          simp only [hg, if_false, if_true] at hb ⊢
          rw [hb]; exact ih'
        · simp [hg, hd] at hc

/-- C15 (any stack): if the codings listed last in Content-Encoding — `outer` (outermost last), all recognised —
    decode fine down to `x`, and the next coding `inner` (recognised) is refused by its decoder on `x`, then
    `decode_body` fails and returns the headers exactly as given: no partial body, no rewritten header -/
theorem C15_decodeBody_layer_refused (hs : List Header) (pre outer : List Bytes) (inner : Bytes) (body x : Bytes)
    (htok : headerTokens hs kContentEncoding = pre ++ inner :: outer)
    (hkn : ∀ c ∈ outer, known c = true)
    (hx : outer.reverse.foldl (fun b c => b.bind (undo1 gz fl c)) (some body) = some x)
    (hk : known inner = true) (hu : undo1 gz fl inner x = none) :
    decodeBody gz fl hs body = (hs, none) := by
  unfold decodeBody
  rw [htok]
  have : (pre ++ inner :: outer).reverse = outer.reverse ++ inner :: pre.reverse := by simp
  rw [this, decodeRev_fail outer.reverse body x inner pre.reverse (fun c hc => hkn c (by simpa using hc)) hx hk hu]

/-- C15 (truncation, gzip as the outermost coding of any coding list): every strict prefix of a gzip member that
    the decoder consumes exactly is refused by `decode_body`, headers untouched -/
theorem C15_decodeBody_truncated_outer_gzip (hs : List Header) (pre : List Bytes)
    (htok : headerTokens hs kContentEncoding = pre ++ [kGzip])
    (bs : Bytes) {out : Array UInt8} {p' : Nat}
    (h : gunzipR (8 * bs.toArray.size) (inpOfBytes bs.toArray) 0 = .ok (out, p')) (hall : 8 * bs.length ≤ p' + 7)
    (k : Nat) (hk : k < bs.length) :
    decodeBody gunzip deflateSniff hs (bs.take k) = (hs, none) :=
  C15_decodeBody_layer_refused hs pre [] kGzip (bs.take k) (bs.take k) htok (by simp) (by simp) (by decide)
    (by simp [undo1, C15_gunzip_truncated bs h hall k hk])

/-- the same for a gzip layer under any intact outer layers: the outer layers decode to a strict prefix of an
    exactly consumed gzip member -/
theorem C15_decodeBody_truncated_inner_gzip (hs : List Header) (pre outer : List Bytes) (body : Bytes)
    (htok : headerTokens hs kContentEncoding = pre ++ kGzip :: outer)
    (hkn : ∀ c ∈ outer, known c = true)
    (bs : Bytes) {out : Array UInt8} {p' : Nat}
    (h : gunzipR (8 * bs.toArray.size) (inpOfBytes bs.toArray) 0 = .ok (out, p')) (hall : 8 * bs.length ≤ p' + 7)
    (k : Nat) (hk : k < bs.length)
    (hx : outer.reverse.foldl (fun b c => b.bind (undo1 gunzip deflateSniff c)) (some body) = some (bs.take k)) :
    decodeBody gunzip deflateSniff hs body = (hs, none) :=
  C15_decodeBody_layer_refused hs pre outer kGzip body (bs.take k) htok hkn hx (by decide)
    (by simp [undo1, C15_gunzip_truncated bs h hall k hk])
