import Hm.C03Verdict
import Hm.C04Complete

/-! "A string that is not accepted is answered with a request for more input whenever it is a proper prefix of
    an acceptable message" (C03, C04, C05) — for every lawful system, then for the three parsers -/

namespace Sys
variable {ε σ : Type} {M : Sys ε σ} {Inv : σ → Prop}

/-- every proper prefix (cut before the boundary) of an accepted input is answered with "more input" -/
theorem proper_prefix_more (L : M.Lawful Inv) {s s' : σ} {raw : Bytes} {n : Nat} (hI : Inv s)
    (h : M.parse s raw = .ok .complete s' n) (k : Nat) (hk : k < n) :
    ∃ s'' c, M.parse s (raw.take k) = .ok .incomplete s'' c := by
  have hsplit : raw = raw.take k ++ raw.drop k := (List.take_append_drop k raw).symm
  cases hp : M.parse s (raw.take k) with
  | fail e =>
    obtain ⟨e', he'⟩ := parse_append_fail L hI hp (raw.drop k)
    rw [← hsplit, h] at he'; cases he'
  | ok st s'' c =>
    cases st with
    | incomplete => exact ⟨s'', c, rfl⟩
    | complete =>
      exfalso
      have hc := (parse_inv L hI hp).2
      have := parse_append_complete L hI hp (raw.drop k)
      rw [← hsplit, h] at this
      simp only [PRes.ok.injEq, true_and] at this
      have hlen : (raw.take k).length ≤ k := by rw [List.length_take]; omega
      omega

end Sys

/-- C03 (prefix clause, positive form) -/
theorem C03_proper_prefix_more (u : UriImpl) (cfg : ReqCfg) {s : Bytes} {st : ReqState u} {n : Nat}
    (h : (requestSys u cfg).parse (Request.new u) s = .ok .complete st n) (k : Nat) (hk : k < n) :
    ∃ st' c, (requestSys u cfg).parse (Request.new u) (s.take k) = .ok .incomplete st' c :=
  Sys.proper_prefix_more (requestSys_lawful cfg) (reqInv_new cfg) h k hk

/-- C04 (prefix clause, positive form), any header line limit, any framing -/
theorem C04_proper_prefix_more (hl : Option Nat) {s : Bytes} {st : RespState} {n : Nat}
    (h : (respSys hl).parse Response.new s = .ok .complete st n) (k : Nat) (hk : k < n) :
    ∃ st' c, (respSys hl).parse Response.new (s.take k) = .ok .incomplete st' c :=
  Sys.proper_prefix_more (respSys_lawful hl) respInv_new h k hk

/-- C05: a proper prefix of a well-formed chunked body is never reported complete nor rejected -/
theorem C05_proper_prefix_more {s : Bytes} {st : ChunkState} {n : Nat}
    (h : chunkSys.parse ChunkState.new s = .ok .complete st n) (k : Nat) (hk : k < n) :
    ∃ st' c, chunkSys.parse ChunkState.new (s.take k) = .ok .incomplete st' c :=
  Sys.proper_prefix_more chunkSys_lawful trivial h k hk
