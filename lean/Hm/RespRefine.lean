import Hm.ChunkRefine
import Hm.RespLaws

/-! `Response.parse` (the transcription of src/response.rs with the reservation log, executed by the driver) and
    `respSys` (the normalised step form the theorems C02 C04 C09 C10 C11 C12 C18 are about) agree, up to the one
    documented difference: on completing a declared-length body the real parser swallows the rest of the delivery
    into `trailer` and reports the whole input consumed, where `respSys` stops at the message boundary;
    `attachTrailing` is that difference, and nothing else. -/

/-- what `Response::parse` does beyond the message boundary -/
def attachTrailing (raw : Bytes) : PRes Fail RespState → PRes Fail RespState
  | .ok .complete st n =>
    (match st.phase with
     | .fixedBody _ => .ok .complete { st with trailer := st.trailer ++ raw.drop n } raw.length
     | _ => .ok .complete st n)
  | r => r

/-- side condition under which `vecReserve` stays silent: bytes already de-chunked plus the input fit an `isize` -/
def RespCap (s : RespState) (n : Nat) : Prop :=
  match s.phase with
  | .chunkedBody cs => cs.buffer.length + n ≤ isizeMax
  | _ => True

/-- the phases of `Response.parseLoop` other than the declared-length body -/
def respPhase (cfg : RespCfg) (s : RespState) (rem : Bytes) : Out (PhaseOut RespState) :=
  match s.phase with
  | .chunkedBody c => do
    let r ← ChunkState.decode cfg.ov cfg.tree c rem
    match r.status with
    | .complete => .ok { internal := .completeWhole, st := dechunkRewrite cfg.tree s r.st, consumed := r.consumed, reserves := r.reserves }
    | .incomplete => .ok { internal := .incomplete, st := { s with phase := .chunkedBody r.st }, consumed := r.consumed, reserves := r.reserves }
  | .fixedBody n =>
    if s.body.length > n then .panic .arithmetic else
    let needed := n - s.body.length
    if rem.length ≥ needed then
      .ok { internal := .completeWhole, st := { s with body := s.body ++ rem.take needed, trailer := s.trailer ++ rem.drop needed }, consumed := rem.length }
    else .ok { internal := .incomplete, st := { s with body := s.body ++ rem }, consumed := rem.length }
  | .headers => do
    let rem := if cfg.tree.repaired then stripDanglingCr rem else rem
    let (hs, status, consumed) ← liftH Cat.Headers (Headers.parse cfg.hl s.headers rem)
    let s := { s with headers := hs }
    match status with
    | .incomplete => .ok { internal := .incomplete, st := s, consumed := consumed }
    | .complete =>
      match headerValue hs kContentLength with
      | some v =>
        match parseNumber cfg.tree 10 v with
        | none => .err .InvalidContentLength
        | some cl => do
          let want := if cfg.tree.repaired then min cl (rem.length - consumed) else cl
          let r ← vecReserve "response.body" s.body.length want
          .ok { internal := .completePart, st := { s with phase := .fixedBody cl }, consumed := consumed, reserves := [r] }
      | none =>
        if hasHeaderToken hs kTransferEncoding kChunked then
          .ok { internal := .completePart, st := { s with phase := .chunkedBody ChunkState.new }, consumed := consumed }
        else .ok { internal := .completeWhole, st := s, consumed := consumed }
  | .statusLine =>
    match findCrlf rem with
    | none => .ok { internal := .incomplete, st := s, consumed := 0 }
    | some e =>
      let line := rem.take e
      if !validUtf8 line then .err .StatusLineNotValidText else
      match parseStatusLine cfg.tree line with
      | .error c => .err c
      | .ok (code, reason) =>
        .ok { internal := .completePart, st := { s with phase := .headers, statusCode := code, reasonPhrase := reason }, consumed := e + 2 }

theorem respLoop_unfold (cfg : RespCfg) (fuel : Nat) (s : RespState) (raw : Bytes) (tc : Nat) (rs : List Reserve) :
    Response.parseLoop cfg (fuel + 1) s raw tc rs =
      Outcome.bind (respPhase cfg s (raw.drop tc)) (fun po =>
        match po.internal with
        | .completePart => Response.parseLoop cfg fuel po.st raw (tc + po.consumed) (rs ++ po.reserves)
        | .completeWhole => .ok { st := po.st, status := .complete, consumed := tc + po.consumed, reserves := rs ++ po.reserves }
        | .incomplete => .ok { st := po.st, status := .incomplete, consumed := tc + po.consumed, reserves := rs ++ po.reserves }) := by
  conv => lhs; unfold Response.parseLoop
  unfold respPhase
  cases hph : s.phase with
  | chunkedBody c =>
    simp only [bind, Outcome.bind]
    cases ChunkState.decode cfg.ov cfg.tree c (raw.drop tc) with
    | err e => rfl
    | panic k => rfl
    | ok r => simp only; cases r.status <;> rfl
  | fixedBody n =>
    simp only [bind, Outcome.bind]
    split
    · rfl
    · split <;> rfl
  | headers =>
    simp only [bind, Outcome.bind]
    cases liftH Cat.Headers (Headers.parse cfg.hl s.headers (if cfg.tree.repaired = true then stripDanglingCr (raw.drop tc) else raw.drop tc)) with
    | err e => rfl
    | panic k => rfl
    | ok r =>
      obtain ⟨hs, st, c0⟩ := r
      simp only
      cases st with
      | incomplete => rfl
      | complete =>
        simp only
        cases headerValue hs kContentLength with
        | none => simp only; split <;> rfl
        | some v =>
          simp only
          cases parseNumber cfg.tree 10 v with
          | none => rfl
          | some cl =>
            simp only
            cases (vecReserve "response.body" s.body.length (if cfg.tree.repaired = true then min cl ((if cfg.tree.repaired = true then stripDanglingCr (raw.drop tc) else raw.drop tc).length - c0) else cl) : Out Reserve) <;> rfl
  | statusLine =>
    simp only [bind, Outcome.bind]
    cases findCrlf (raw.drop tc) with
    | none => rfl
    | some e =>
      simp only
      split
      · rfl
      · cases parseStatusLine cfg.tree (List.take e (raw.drop tc)) with
        | error c => rfl
        | ok r => obtain ⟨code, reason⟩ := r; rfl

def rphaseRes : Out (PhaseOut RespState) → Res Fail RespState
  | .err c => .fail (.err c)
  | .panic k => .fail (.panic k)
  | .ok po => .ok po.internal po.st po.consumed

theorem status_refines (cfg : RespCfg) (hrep : cfg.tree.repaired = true) (s : RespState) (rem : Bytes)
    (hph : s.phase = .statusLine) : rphaseRes (respPhase cfg s rem) = rstatusStep s rem := by
  have htree : cfg.tree = ⟨true⟩ := by cases h : cfg.tree; simp [h] at hrep; simp [hrep]
  unfold respPhase rstatusStep
  simp only [hph, htree]
  cases hf : findCrlf rem with
  | none => simp [rphaseRes]
  | some e =>
    simp only
    by_cases hv : validUtf8 (rem.take e) = true
    · simp only [hv, Bool.not_true, Bool.false_eq_true, if_false]
      cases hp : parseStatusLine ⟨true⟩ (rem.take e) with
      | error c => simp [rphaseRes]
      | ok r => obtain ⟨code, reason⟩ := r; simp [rphaseRes]
    · simp [hv, rphaseRes]

theorem hdrs_refines (cfg : RespCfg) (hrep : cfg.tree.repaired = true) (s : RespState) (rem : Bytes)
    (hph : s.phase = .headers) (hbody : s.body = []) (hlen : rem.length ≤ 2 ^ 30) :
    rphaseRes (respPhase cfg s rem) = rhdrStep cfg.hl s rem := by
  have htree : cfg.tree = ⟨true⟩ := by cases h : cfg.tree; simp [h] at hrep; simp [hrep]
  unfold respPhase rhdrStep
  simp only [hph, htree, if_true]
  cases hp : Headers.parse cfg.hl s.headers (stripDanglingCr rem) with
  | error e => simp [liftH, bind, Outcome.bind, rphaseRes]
  | ok r0 =>
    obtain ⟨hs, st, c0⟩ := r0
    simp only [liftH, bind, Outcome.bind]
    cases st with
    | incomplete => simp [rphaseRes]
    | complete =>
      simp only [rframing]
      cases hv : headerValue hs kContentLength with
      | none =>
        simp only
        by_cases hc : hasHeaderToken hs kTransferEncoding kChunked = true
        · simp [hc, rphaseRes]
        · simp [hc, rphaseRes, hph]
      | some v =>
        simp only
        cases hn : parseNumber ⟨true⟩ 10 v with
        | none => simp [rphaseRes]
        | some cl =>
          simp only
          have hs1 := stripDanglingCr_length_le rem
          have hr : (vecReserve "response.body" s.body.length (min cl ((stripDanglingCr rem).length - c0)) : Out Reserve)
              = .ok ⟨"response.body", s.body.length, min cl ((stripDanglingCr rem).length - c0)⟩ := by
            unfold vecReserve
            have h1 : ¬ (s.body.length + min cl ((stripDanglingCr rem).length - c0) > isizeMax) := by
              rw [hbody]; simp [isizeMax]; omega
            have h2 : ¬ (min cl ((stripDanglingCr rem).length - c0) > 2 ^ 30) := by omega
            simp [h1, h2]
          simp [hr, rphaseRes]

theorem chunked_refines (cfg : RespCfg) (hrep : cfg.tree.repaired = true) (s : RespState) (cs : ChunkState) (rem : Bytes)
    (hph : s.phase = .chunkedBody cs) (hcap : cs.buffer.length + rem.length ≤ isizeMax) (hlen : rem.length ≤ 2 ^ 30) :
    rphaseRes (respPhase cfg s rem) = rchunkStep s cs rem := by
  have htree : cfg.tree = ⟨true⟩ := by cases h : cfg.tree; simp [h] at hrep; simp [hrep]
  have hd := ChunkState.decode_refines cfg.ov cfg.tree hrep cs rem hcap hlen
  unfold respPhase rchunkStep
  simp only [hph]
  rw [← hd]
  cases hx : ChunkState.decode cfg.ov cfg.tree cs rem with
  | err c => simp [bind, Outcome.bind, rphaseRes, outToPRes]
  | panic k => simp [bind, Outcome.bind, rphaseRes, outToPRes]
  | ok o =>
    simp only [bind, Outcome.bind, outToPRes]
    cases hst : o.status with
    | complete => simp [rphaseRes, htree]
    | incomplete => simp [rphaseRes]

theorem respLoop_refines (cfg : RespCfg) (hrep : cfg.tree.repaired = true) (raw : Bytes) (hlen : raw.length ≤ 2 ^ 30) :
    ∀ (fuel : Nat) (s : RespState) (tc : Nat) (rs : List Reserve), RespInv s → RespCap s (raw.length - tc) →
      respRank s.phase ≤ fuel → tc ≤ raw.length →
      outToPRes (Response.parseLoop cfg fuel s raw tc rs) =
        attachTrailing raw (((respSys cfg.hl).loop fuel s (raw.drop tc) tc).getD (.fail .oof)) := by
  intro fuel
  induction fuel with
  | zero =>
    intro s tc rs _ _ hμ _
    cases hph : s.phase <;> simp [hph, respRank] at hμ
  | succ fuel ih =>
    intro s tc rs hI hcap hμ htc
    rw [respLoop_unfold]
    have hdl : (raw.drop tc).length = raw.length - tc := by simp
    have hrl : (raw.drop tc).length ≤ 2 ^ 30 := by rw [hdl]; omega
    conv => rhs; enter [2, 1]; unfold Sys.loop
    rw [show (respSys cfg.hl).step = respStep cfg.hl from rfl]
    unfold RespInv at hI
    unfold RespCap at hcap
    cases hph : s.phase with
    | fixedBody n =>
      simp only [hph] at hI
      simp only [respStep, hph, rfixedStep, respPhase]
      have h1 : ¬ s.body.length > n := by omega
      simp only [h1, if_false]
      have e1 : tc + (raw.length - tc) = raw.length := by omega
      by_cases h2 : n ≤ raw.length - tc + s.body.length
      · simp [h2, hdl, e1, Outcome.bind, outToPRes, attachTrailing]
      · simp [h2, hdl, e1, Outcome.bind, outToPRes, attachTrailing]
    | statusLine =>
      have hp := status_refines cfg hrep s (raw.drop tc) hph
      simp only [respStep, hph]
      rw [← hp]
      cases hx : respPhase cfg s (raw.drop tc) with
      | err c => simp [Outcome.bind, rphaseRes, outToPRes, attachTrailing]
      | panic k => simp [Outcome.bind, rphaseRes, outToPRes, attachTrailing]
      | ok po =>
        have hstep : rstatusStep s (raw.drop tc) = .ok po.internal po.st po.consumed := by rw [← hp, hx]; rfl
        have hok := rstatusStep_ok hstep
        simp only [Outcome.bind, rphaseRes]
        cases hi : po.internal with
        | completePart =>
          simp only
          have hph' := (hok.2.2.2 hi).1
          have hb' := (hok.2.2.2 hi).2
          simp only [hph] at hI
          have hle := hok.1
          rw [hdl] at hle
          rw [ih po.st (tc + po.consumed) (rs ++ po.reserves) (by unfold RespInv; rw [hph']; simp [hb', hI])
            (by unfold RespCap; rw [hph']; trivial) (by rw [hph'] ; rw [hph] at hμ; simp [respRank] at hμ ⊢; omega) (by omega), List.drop_drop]
        | completeWhole => exact absurd hi hok.2.1
        | incomplete => simp [outToPRes, attachTrailing]
    | headers =>
      simp only [hph] at hI
      have hp := hdrs_refines cfg hrep s (raw.drop tc) hph hI hrl
      simp only [respStep, hph]
      rw [← hp]
      cases hx : respPhase cfg s (raw.drop tc) with
      | err c => simp [Outcome.bind, rphaseRes, outToPRes, attachTrailing]
      | panic k => simp [Outcome.bind, rphaseRes, outToPRes, attachTrailing]
      | ok po =>
        have hstep : rhdrStep cfg.hl s (raw.drop tc) = .ok po.internal po.st po.consumed := by rw [← hp, hx]; rfl
        have hs : (respSys cfg.hl).step s (raw.drop tc) = .ok po.internal po.st po.consumed := by
          rw [show (respSys cfg.hl).step = respStep cfg.hl from rfl]; simp only [respStep, hph]; exact hstep
        have L := respSys_lawful cfg.hl
        have hInv : RespInv s := by unfold RespInv; rw [hph]; exact hI
        have hle := L.le hInv hs
        rw [hdl] at hle
        simp only [Outcome.bind, rphaseRes]
        cases hi : po.internal with
        | completePart =>
          simp only
          rw [hi] at hs
          have hI' := L.inv hInv hs (by simp)
          have hd := L.dec hInv hs
          simp only [respSys] at hd
          -- the new phase starts with nothing buffered
          have hcap' : RespCap po.st (raw.length - (tc + po.consumed)) := by
            unfold rhdrStep at hstep
            cases hpp : Headers.parse cfg.hl s.headers (stripDanglingCr (raw.drop tc)) with
            | error e => simp [hpp] at hstep
            | ok r =>
              obtain ⟨hs0, st0, c0⟩ := r
              cases st0 with
              | incomplete => simp [hpp, hi] at hstep
              | complete =>
                simp only [hpp] at hstep
                unfold rframing at hstep
                split at hstep
                · split at hstep
                  · simp at hstep
                  · simp at hstep; obtain ⟨_, hst, _⟩ := hstep; rw [← hst]; simp [RespCap]
                · split at hstep
                  · simp at hstep; obtain ⟨_, hst, _⟩ := hstep; rw [← hst]
                    simp [RespCap, ChunkState.new, isizeMax]; omega
                  · simp [hi] at hstep
          rw [ih po.st (tc + po.consumed) (rs ++ po.reserves) hI' hcap' (by omega) (by omega), List.drop_drop]
        | completeWhole =>
          -- a message without body: the phase is still `headers`, nothing is attached
          have hphase : po.st.phase = .headers := by
            unfold rhdrStep at hstep
            cases hpp : Headers.parse cfg.hl s.headers (stripDanglingCr (raw.drop tc)) with
            | error e => simp [hpp] at hstep
            | ok r =>
              obtain ⟨hs0, st0, c0⟩ := r
              cases st0 with
              | incomplete => simp [hpp, hi] at hstep
              | complete =>
                simp only [hpp] at hstep
                have := (rframing_ok hstep).2.2.2.1 hi
                rw [this]; exact hph
          simp [outToPRes, attachTrailing, hphase]
        | incomplete => simp [outToPRes, attachTrailing]
    | chunkedBody cs =>
      simp only [hph] at hcap
      have hp := chunked_refines cfg hrep s cs (raw.drop tc) hph (by rw [hdl]; exact hcap) hrl
      simp only [respStep, hph]
      rw [← hp]
      cases hx : respPhase cfg s (raw.drop tc) with
      | err c => simp [Outcome.bind, rphaseRes, outToPRes, attachTrailing]
      | panic k => simp [Outcome.bind, rphaseRes, outToPRes, attachTrailing]
      | ok po =>
        have hstep : rchunkStep s cs (raw.drop tc) = .ok po.internal po.st po.consumed := by rw [← hp, hx]; rfl
        simp only [Outcome.bind, rphaseRes]
        cases hi : po.internal with
        | completePart =>
          exfalso
          unfold rchunkStep at hstep
          split at hstep <;> simp [hi] at hstep
        | completeWhole =>
          have hphase : po.st.phase = .statusLine := by
            unfold rchunkStep at hstep
            split at hstep
            · simp at hstep
            · simp at hstep; obtain ⟨_, hst, _⟩ := hstep; rw [← hst]; simp [dechunkRewrite]
            · simp [hi] at hstep
          simp [outToPRes, attachTrailing, hphase]
        | incomplete => simp [outToPRes, attachTrailing]

/-- **`Response.parse` and `respSys` agree** (up to `attachTrailing`): on the current tree, from every state that
    satisfies the parser's invariant, for every header line limit and every input of at most 2^30 bytes in one
    call (with the bytes already de-chunked plus the input below `isize::MAX`), same verdict, same error category,
    same state, same number of consumed bytes. -/
theorem Response.parse_refines (cfg : RespCfg) (hrep : cfg.tree.repaired = true) (s : RespState) (raw : Bytes)
    (hI : RespInv s) (hcap : RespCap s raw.length) (hlen : raw.length ≤ 2 ^ 30) :
    outToPRes (Response.parse cfg s raw) = attachTrailing raw ((respSys cfg.hl).parse s raw) := by
  unfold Response.parse Sys.parse
  have hμ : respRank s.phase ≤ 4 := by cases s.phase <;> simp [respRank]
  have h4 := respLoop_refines cfg hrep raw hlen 4 s 0 [] hI (by simpa using hcap) hμ (by omega)
  simp only [List.drop_zero] at h4
  rw [h4]
  have L := respSys_lawful cfg.hl
  have hsome := Sys.loop_isSome L (f := (respSys cfg.hl).μ s raw.length) (rem := raw) (acc := 0) hI (Nat.le_refl _)
  cases hl : (respSys cfg.hl).loop ((respSys cfg.hl).μ s raw.length) s raw 0 with
  | none => simp [hl] at hsome
  | some r =>
    have hk : (respSys cfg.hl).μ s raw.length ≤ 4 := hμ
    have := Sys.loop_fuel_mono hl (4 - (respSys cfg.hl).μ s raw.length)
    rw [show (respSys cfg.hl).μ s raw.length + (4 - (respSys cfg.hl).μ s raw.length) = 4 by omega] at this
    simp [this]
