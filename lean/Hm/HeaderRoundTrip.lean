import Hm.HeaderLaws2
import Hm.AsciiUtf8

/-! generated header blocks parse back to the same header list (no folding) — used by C05, C10, C11 -/

theorem findCrlf_clean_append (l m : Bytes) (h : ∀ b ∈ l, b ≠ CR) : findCrlf (l ++ CRLF ++ m) = some l.length := by
  induction l with
  | nil => simp [CRLF, findCrlf]
  | cons x xs ih =>
    have hx : x ≠ CR := h x (by simp)
    have ih' := ih (fun b hb => h b (by simp [hb]))
    cases hxs : xs with
    | nil =>
      subst hxs
      simp only [List.cons_append, List.nil_append, CRLF, findCrlf, hx, false_and, if_false]
      simp [findCrlf]
    | cons y ys =>
      subst hxs
      simp only [List.cons_append] at ih' ⊢
      unfold findCrlf
      simp only [hx, false_and, if_false]
      rw [ih']; simp

/-- a header that `generate` prints on one line and `parse` reads back unchanged -/
structure WfHeader (h : Header) : Prop where
  name_graphic : h.name.all isGraphic = true
  name_no_colon : COLON ∉ h.name
  value_ok : validValue h.value = true
  value_trimmed : trimWsp h.value = h.value

def headerLine (h : Header) : Bytes := h.name ++ [COLON, SP] ++ h.value

theorem isGraphic_lt {b : UInt8} (h : isGraphic b = true) : b < 128 ∧ b ≠ CR ∧ isWsp b = false := by
  unfold isGraphic at h
  simp only [Bool.and_eq_true, decide_eq_true_eq] at h
  obtain ⟨h1, h2⟩ := h
  have h1' := UInt8.le_iff_toNat_le.mp h1
  have h2' := UInt8.le_iff_toNat_le.mp h2
  simp at h1' h2'
  refine ⟨UInt8.lt_iff_toNat_lt.mpr (by simp; omega), ?_, ?_⟩
  · intro hc; subst hc; simp [CR] at h1'
  · unfold isWsp SP HT
    have : b ≠ 32 := by intro hc; subst hc; simp at h1'
    have : b ≠ 9 := by intro hc; subst hc; simp at h1'
    simp [*]

theorem valueByte_ok {b : UInt8} (h : (isWsp b || isGraphic b) = true) : b < 128 ∧ b ≠ CR := by
  simp only [Bool.or_eq_true] at h
  rcases h with h | h
  · unfold isWsp SP HT at h
    simp only [Bool.or_eq_true, beq_iff_eq] at h
    rcases h with rfl | rfl <;> simp [CR]
  · exact ⟨(isGraphic_lt h).1, (isGraphic_lt h).2.1⟩

theorem headerLine_bytes {h : Header} (w : WfHeader h) :
    (∀ b ∈ headerLine h, b < 128) ∧ (∀ b ∈ headerLine h, b ≠ CR) := by
  have hn := w.name_graphic
  have hv := w.value_ok
  unfold validValue at hv
  rw [List.all_eq_true] at hn hv
  unfold headerLine
  constructor <;> intro b hb <;> simp only [List.mem_append, List.mem_cons, List.mem_nil_iff, or_false] at hb
  · rcases hb with (hb | rfl | rfl) | hb
    · exact (isGraphic_lt (hn b hb)).1
    · simp [COLON]
    · simp [SP]
    · exact (valueByte_ok (hv b hb)).1
  · rcases hb with (hb | rfl | rfl) | hb
    · exact (isGraphic_lt (hn b hb)).2.1
    · simp [COLON, CR]
    · simp [SP, CR]
    · exact (valueByte_ok (hv b hb)).2

theorem findByte_append_notin (b : UInt8) (l m : Bytes) (h : b ∉ l) : findByte b (l ++ b :: m) = some l.length := by
  unfold findByte
  induction l with
  | nil => simp [List.idxOf?, List.findIdx?_cons]
  | cons x xs ih =>
    have hx : x ≠ b := fun hc => h (by simp [hc])
    have ih' := ih (fun hc => h (by simp [hc]))
    simp only [List.idxOf?] at ih' ⊢
    simp only [List.cons_append, List.findIdx?_cons, beq_iff_eq, hx, if_false, ih']
    simp

theorem findByte_colon {h : Header} (w : WfHeader h) : findByte COLON (headerLine h) = some h.name.length := by
  unfold headerLine
  rw [List.append_assoc]
  exact findByte_append_notin COLON h.name _ w.name_no_colon

theorem trimWsp_sp_cons {v : Bytes} (h : trimWsp v = v) : trimWsp (SP :: v) = v := by
  unfold trimWsp trimBy trimStartBy at *
  have : isWsp SP = true := by simp [isWsp]
  simp only [List.dropWhile_cons, this, if_true]
  exact h

theorem parseFirstLine_headerLine {h : Header} (w : WfHeader h) :
    parseFirstLine (headerLine h) = .ok (h.name, SP :: h.value) := by
  unfold parseFirstLine
  have hb := headerLine_bytes w
  rw [validUtf8_of_ascii _ hb.1, findByte_colon w]
  simp only [Bool.not_true, Bool.false_eq_true, if_false]
  have ht : (headerLine h).take h.name.length = h.name := by
    unfold headerLine; rw [List.append_assoc, List.take_left']; rfl
  have hd : (headerLine h).drop (h.name.length + 1) = SP :: h.value := by
    unfold headerLine
    rw [List.append_assoc, List.drop_append]
    simp
  rw [ht, hd]
  have hvn : validName h.name = true := w.name_graphic
  have hvv : validValue (SP :: h.value) = true := by
    have := w.value_ok
    unfold validValue at this ⊢
    simp only [List.all_cons, this, Bool.and_true]
    simp [isWsp]
  simp [hvn, hvv]

def genBlock (hs : List Header) : Bytes := (hs.flatMap fun h => headerLine h ++ CRLF) ++ CRLF

/-- the next physical line is complete, is text, and is not a continuation line -/
def GoodNext (more : Bytes) : Prop :=
  ∃ j, findCrlf more = some j ∧ validUtf8 (more.take j) = true ∧
    (j = 0 ∨ (more.head?.map isWsp).getD false = false)

theorem unfold_goodNext {more v : Bytes} {fuel : Nat} (h : GoodNext more) :
    unfold (fuel + 1) more v 0 = .ok (some (v, 0)) := by
  obtain ⟨j, hj, hv, hc⟩ := h
  unfold unfold
  simp only [hj, hv, Bool.not_true, Bool.false_eq_true, if_false]
  rcases hc with rfl | hc
  · simp
  · have : ((more.take j).head?.map isWsp).getD false = false := by
      cases more with
      | nil => simp
      | cons x xs =>
        cases j with
        | zero => simp
        | succ j => simpa using hc
    simp [this]

theorem headerLine_ne_nil (h : Header) : headerLine h ≠ [] := by
  unfold headerLine; simp

theorem headerLine_head {h : Header} (w : WfHeader h) :
    ((headerLine h).head?.map isWsp).getD false = false := by
  unfold headerLine
  cases hn : h.name with
  | nil => simp [COLON, isWsp, SP, HT]
  | cons x xs =>
    have := w.name_graphic
    rw [hn] at this
    simp only [List.all_cons, Bool.and_eq_true] at this
    simp [(isGraphic_lt this.1).2.2]

theorem goodNext_genBlock (hs : List Header) (hw : ∀ h ∈ hs, WfHeader h) (tail : Bytes) :
    GoodNext (genBlock hs ++ tail) := by
  cases hs with
  | nil => exact ⟨0, by simp [genBlock, CRLF, findCrlf], by simp [validUtf8_of_ascii], Or.inl rfl⟩
  | cons h rest =>
    have w := hw h (by simp)
    have hb := headerLine_bytes w
    refine ⟨(headerLine h).length, ?_, ?_, Or.inr ?_⟩
    · have : genBlock (h :: rest) ++ tail = headerLine h ++ CRLF ++ (genBlock rest ++ tail) := by
        simp [genBlock]
      rw [this]; exact findCrlf_clean_append _ _ hb.2
    · have : (genBlock (h :: rest) ++ tail).take (headerLine h).length = headerLine h := by
        simp only [genBlock, List.flatMap_cons, List.append_assoc]
        exact List.take_left' rfl
      rw [this]; exact validUtf8_of_ascii _ hb.1
    · have : (genBlock (h :: rest) ++ tail).head? = (headerLine h).head? := by
        simp only [genBlock, List.flatMap_cons, List.append_assoc]
        cases hl : headerLine h with
        | nil => exact absurd hl (headerLine_ne_nil h)
        | cons x xs => simp
      rw [this]; exact headerLine_head w

theorem headerStep_generated {h : Header} (w : WfHeader h) {more : Bytes} (hm : GoodNext more) :
    headerStep none (headerLine h ++ CRLF ++ more) = .ok (.field h ((headerLine h).length + 2)) := by
  have hb := headerLine_bytes w
  have hne : headerLine h ++ CRLF ++ more ≠ [] := by simp [headerLine_ne_nil h]
  unfold headerStep
  rw [if_neg hne, findCrlf_clean_append _ _ hb.2]
  have hlen : (headerLine h).length ≠ 0 := by
    intro hc; exact headerLine_ne_nil h (List.length_eq_zero_iff.mp hc)
  have htake : (headerLine h ++ CRLF ++ more).take (headerLine h).length = headerLine h := by
    rw [List.append_assoc]; exact List.take_left' rfl
  have hdrop : (headerLine h ++ CRLF ++ more).drop ((headerLine h).length + 2) = more := by
    rw [List.append_assoc, List.drop_append, List.drop_of_length_le (by omega)]
    simp [CRLF]
  simp only [overLimit, Bool.false_eq_true, if_false, hlen, htake, parseFirstLine_headerLine w, hdrop]
  rw [unfold_goodNext hm]
  simp only [finishField, Nat.add_zero]
  rw [trimWsp_sp_cons w.value_trimmed]

theorem headerStep_blank (tail : Bytes) : headerStep none (CRLF ++ tail) = .ok .done := by
  unfold headerStep
  simp [CRLF, findCrlf, overLimit]

/-- generated header blocks parse back: the loop consumes exactly the block and yields exactly the
    headers, whatever follows the block -/
theorem parseLoop_genBlock (hs : List Header) (hw : ∀ h ∈ hs, WfHeader h) (hs0 : List Header) (tail : Bytes)
    (off f : Nat) (hf : hs.length + 1 ≤ f) :
    parseLoop none f hs0 (genBlock hs ++ tail) off = .ok (hs0 ++ hs, .complete, off + (genBlock hs).length) := by
  induction hs generalizing hs0 off f with
  | nil =>
    cases f with
    | zero => omega
    | succ f =>
      unfold parseLoop
      have : genBlock [] ++ tail = CRLF ++ tail := by simp [genBlock]
      rw [this, headerStep_blank]
      simp [genBlock, CRLF]
  | cons h rest ih =>
    cases f with
    | zero => omega
    | succ f =>
      have w := hw h (by simp)
      have hw' : ∀ x ∈ rest, WfHeader x := fun x hx => hw x (by simp [hx])
      unfold parseLoop
      have hsplit : genBlock (h :: rest) ++ tail = headerLine h ++ CRLF ++ (genBlock rest ++ tail) := by
        simp [genBlock]
      rw [hsplit, headerStep_generated w (goodNext_genBlock rest hw' tail)]
      simp only
      have hdrop : (headerLine h ++ CRLF ++ (genBlock rest ++ tail)).drop ((headerLine h).length + 2)
          = genBlock rest ++ tail := by
        rw [List.append_assoc, List.drop_append, List.drop_of_length_le (by omega)]
        simp [CRLF]
      rw [hdrop, ih hw' _ _ _ (by simp at hf; omega)]
      simp only [List.append_assoc, List.singleton_append, Except.ok.injEq, Prod.mk.injEq, true_and]
      simp [genBlock, CRLF]; omega

/-- `Headers.generate` followed by `Headers.parse` is the identity on well-formed header lists -/
theorem Headers.parse_generate (hs : List Header) (hw : ∀ h ∈ hs, WfHeader h) (tail : Bytes) :
    Headers.parse none [] (genBlock hs ++ tail) = .ok (hs, .complete, (genBlock hs).length) := by
  unfold Headers.parse
  have hlen : hs.length + 1 ≤ (genBlock hs ++ tail).length + 1 := by
    have : hs.length ≤ (genBlock hs).length := by
      unfold genBlock
      induction hs with
      | nil => simp
      | cons h rest ih =>
        have := ih (fun x hx => hw x (by simp [hx]))
        have h2 : CRLF.length = 2 := rfl
        simp only [List.flatMap_cons, List.append_assoc, List.length_append, List.length_cons, h2] at this ⊢
        omega
    simp; omega
  have := parseLoop_genBlock hs hw [] tail 0 _ hlen
  simpa using this

theorem Headers.generate_eq (hs : List Header) : Headers.generate none hs = some (genBlock hs) := by
  unfold Headers.generate genBlock headerLine
  simp only [overLimit, Bool.false_eq_true, List.any_eq_true, and_false, exists_false, if_false,
    Option.some.injEq, List.append_cancel_right_eq]
  induction hs with
  | nil => rfl
  | cons h rest ih => simp at ih; simp [ih]
